"""C11 — system-level transformations preserve observable behaviour."""
HANDLER = "C11"
RULE = ("generated transition systems (1-3 bit-vector states + optional array state, 0-4 inputs of which about half carry the reader's "
        "anonymous names _input_k/_state_k, outputs incl. inputs used as outputs, 1-2 bads, 0-1 constraints, shared sub-terms, constant "
        "states, init reading earlier states; width pools {1,2,3,4,8} and {1,8,31..33,64,65}) x {simplify_expressions, "
        "replace_anonymous_inputs_with_zero}; distinct = distinct (operation, system) pairs. Oracle per case: sys_ok of the result, "
        "same inputs / state symbols, every init/next/output/bad/constraint function evaluated against the original on corner+random "
        "valuations (removed inputs zeroed for op=zero), no occurrence of a removed input, 8 lock-step steps in the extracted reference semantics")
ASSUMPTIONS = [
    "Model/SysTransform.v mirrors system/transform.rs and TransitionSystem::update_expressions (exact result systems are compared)",
    "signal names (the `names` side table) are not modelled: the property does not constrain them",
    "replace_anonymous_inputs_with_zero: a removed input that is ALSO a state symbol is outside the theorems (the code would replace the state symbol by a literal)",
]
MANIFEST = dict(
    level_text=("Theorems C11_simplify_sys_rel, C11_runs_unchanged, C11_initial_unchanged, C11_init_seq_unchanged, C11_observations_unchanged "
                "(simplifying a well-formed system keeps inputs/states and yields pointwise-equivalent executions, initial valuations and "
                "observations, for all systems and all runs); C11_replace_is_map, C11_replace_zero_sound (zero substitution lemma, removed "
                "inputs absent, typing preserved) and, at the level of executions, C11_replace_inputs, C11_replace_runs, C11_replace_restriction, "
                "C11_replace_initial, C11_replace_observations (the new system is exactly the original restricted to executions in which the removed "
                "inputs are zero: runs, initial valuations and observations correspond in both directions; domain: no anonymous input is at once a "
                "state symbol). Built on C01_simp_sound. Tie: the extracted transformations must produce exactly the system "
                "the real functions produce, and the oracle re-checks equivalence on the implementation's output."),
    level_note="Trusted: Coq kernel, hand-written model tied by exact-result differential execution, extraction, generators; names side table not modelled.",
)


def streams(tier, seed):
    if tier == "quick":
        return [dict(tag="main", count=3000, seed=seed)]
    return [dict(tag="main%d" % k, count=20000, seed=seed * 100 + k) for k in range(8)]
