"""C09 - writing a system as btor2 and reading it back preserves it."""
HANDLER = "C09"
RULE = ("systems handed to the real writer: (a) sysgen::gen_sys systems (1..4 bit-vector states + optional array state, widths from three pools incl. 63..65/127..129, "
        "inits by literals / constant arrays / expressions over earlier states and inputs, constant states, states without next or without init, shared sub-terms, "
        "division family in 1/3) decorated with outputs/bads that alias a state under its own, another or a reserved name, debug names on root expressions "
        "(fresh, clashing, $-names), occasionally a constant array below the root; (b) PARSED systems: grammar-generated btor2 texts (C08 generator: all operators, "
        "anonymous and named signals, duplicate and reserved-looking names, arrays initialised from bit-vectors) read by the real reader; (c) every btor2 file under "
        "/repo/inputs. Per system: write, read (same context), write, read, write. distinct = distinct systems (HashSet of the dumped system)")
ASSUMPTIONS = [
    "Model/Btor2Ser.v mirrors serialize.rs except for names (no name tokens, no alias lines): tied by running Model.parse_lines (Model.serialize sys) and comparing with the real reader's result on the real writer's text modulo symbol names (systems whose expanded trees have < 30000 nodes; larger ones are checked on the implementation side only)",
    "equivalence of read(write(sys)) and sys is decided by structural identity of the expression graphs under the positional symbol correspondence, and where they differ by the extracted Spec/Eval.v on 6 valuations (all zero, all ones, 4 random with corner values)",
    "states without init and next are expected to come back as inputs appended to the input list (parse.rs demotes them); this is taken as the specified behaviour of the pair, not as a failure",
    "names are tested, not proved. Model/Btor2SerNames.v models the writer INCLUDING its name bookkeeping: its lines must equal the implementation's text token by token (both cycles), and reading them with the model reader predicts which explicit names the unmodified pair preserves; an explicit name that the pair preserves must survive in the implementation (key names:lost:*), a name the pair itself loses is excused only under the key of its recorded class",
]
TRUSTED = ["ocaml/driver/c09.ml: positional matching, memoised graph comparison, valuation construction"]


def streams(tier, seed):
    if tier == "quick":
        return [dict(tag="files", count=0, seed=seed, extra={"files": "all"}),
                dict(tag="main", count=15000, seed=seed)]
    out = [dict(tag="files", count=0, seed=seed, extra={"files": "all"})]
    for k in range(8):
        out.append(dict(tag="main%d" % k, count=50000, seed=seed * 1000 + k))
    return out


def search_streams(tier, seed, diffs):
    return [dict(tag="search%d" % k, count=30000, seed=seed * 7919 + k) for k in range(3)]


MANIFEST = dict(
    level_text=("Coq: executable model of the btor2 writer (Model/Btor2Ser.v) composed with the model of the reader; proved: the reader inverts the writer's spelling of every "
                "operator node and of every literal (node-level round trip), and whatever the reader returns for the written text has the meaning btor2 assigns to that text (C08); "
                "the whole-system round trip is tested, not proved. Tie to /repo: real serialize + parse_str on generated, parsed and all shipped systems on every run."),
    level_note=("Partial: the statement roundtrip_sem (emission order, id cache, sort table over whole systems) is kept as a comment; names are string heuristics and are tested only. "
                "Name-stability defects of the writer/reader pair are recorded as known findings (names:...); Model.serialize_named_v takes the writer variant "
                "(driver constant writer_variant: writer_cur = /repo; writer_fix = prepared patches/0008 + 0010)."),
)
