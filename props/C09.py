"""C09 - writing a system as btor2 and reading it back preserves it."""
HANDLER = "C09"
RULE = ("systems handed to the real writer: (a) sysgen::gen_sys systems (1..4 bit-vector states + optional array state, widths from three pools incl. 63..65/127..129, "
        "inits by literals / constant arrays / expressions over earlier states and inputs, constant states, states without next or without init, shared sub-terms, "
        "division family in 1/3) decorated with outputs/bads that alias a state under its own, another or a reserved name, debug names on root expressions "
        "(fresh, clashing, $-names), occasionally a constant array below the root; (b) PARSED systems: grammar-generated btor2 texts (C08 generator: all operators, "
        "anonymous and named signals, duplicate and reserved-looking names, arrays initialised from bit-vectors) read by the real reader; (c) every btor2 file under "
        "/repo/inputs. Per system: write, read (same context), write, read, write. distinct = distinct systems (HashSet of the dumped system)")
ASSUMPTIONS = [
    "two writer models: Model/Btor2Ser.v (no name tokens, no alias lines) and Model/Btor2SerNames.v (serialize_named_v: the same emission with the name bookkeeping of serialize.rs); the round-trip theorems are proved for BOTH (C09_roundtrip_sem, C09_roundtrip_sem_named). Tie: the lines of serialize_named_v must equal the real writer's text token by token; Model.parse_lines (Model.serialize sys) is compared with the real reader's result on the real writer's text modulo symbol names (systems whose expanded trees have < 30000 nodes; larger ones are checked on the implementation side only)",
    "equivalence of read(write(sys)) and sys is decided by structural identity of the expression graphs under the positional symbol correspondence, and where they differ by the extracted Spec/Eval.v on 6 valuations (all zero, all ones, 4 random with corner values)",
    "states without init and next are expected to come back as inputs appended to the input list (parse.rs demotes them); this is taken as the specified behaviour of the pair, not as a failure",
    "names: proved for inputs (C09_names_survive_inputs_partial / _outside_known: an input whose name the writer prints on its declaration comes back as the same symbol at the same position; outside KnownClass every explicit input name that is apart from the state / debug / output names) and for outputs (C09_names_survive_outputs_partial: an explicit output name apart from the tokens printed before it keeps its position), on top of the reader's name-in-use invariant (C09_names_in_use, every text); names of STATES are tested, not proved. Model/Btor2SerNames.v models the writer INCLUDING its name bookkeeping: its lines must equal the implementation's text token by token (both cycles), and reading them with the model reader predicts which explicit names the unmodified pair preserves; an explicit name that the pair preserves must survive in the implementation (key names:lost:*), a name the pair itself loses is excused only under the key of its recorded class (the classes are the predicates kc_dollar / kc_default_like / kc_input_output of Proofs/Btor2NamesSurvive.v, each with a refuting witness in Props/C09.v)",
]
TRUSTED = ["ocaml/driver/c09.ml: positional matching, memoised graph comparison, valuation construction"]


def streams(tier, seed):
    if tier == "quick":
        return [dict(tag="files", count=0, seed=seed, extra={"files": "all"}),
                dict(tag="main", count=15000, seed=seed)]
    out = [dict(tag="files", count=0, seed=seed, extra={"files": "all"})]
    for k in range(8):
        out.append(dict(tag="main%d" % k, count=50000, seed=seed * 1000 + k))
    return out


def search_streams(tier, seed, diffs):
    return [dict(tag="search%d" % k, count=30000, seed=seed * 7919 + k) for k in range(3)]


MANIFEST = dict(
    level_text=("Coq: executable models of the btor2 writer - nameless (Model/Btor2Ser.v) and WITH the name bookkeeping of serialize.rs (Model/Btor2SerNames.v, serialize_named_v: name tokens, "
                "label names, trailing alias lines; the model the correspondence check compares token by token with the code) - composed with the model of the reader; proved FOR ALL SYSTEMS, "
                "for both writer models (every writer variant, every name table): the whole-system round trip C09_roundtrip_sem / _repo and C09_roundtrip_sem_named / _named_repo "
                "(Spec/Btor2RoundTripSpec.v: the reader accepts what the writer prints, in both build profiles and for the reader of /repo, "
                "and the system read back corresponds to demote(sy) position by position - same counts, symbols of the same types, and every init/next/output/bad/constraint "
                "expression has, in every well-formed environment, the value of its original under the positionally induced environment), by an invariant of the writer's "
                "emission loop (id cache, shared sort table, post-order emission, builders' normal forms, array-init broadcast, renaming and demotion by the reader; a name token only feeds the "
                "reader's name bookkeeping, an alias line binds a fresh id nothing refers to); names: C09_names_in_use (the reader's name-in-use invariant, every text), C09_names_survive_inputs_partial / C09_names_survive_inputs_outside_known (inputs keep their symbol), C09_names_survive_outputs_partial (outputs keep their name); "
                "plus the node-level lemmas and C09_reread_means_text_partial. Tie to /repo: real serialize + parse_str on generated, parsed and all shipped systems on every run."),
    level_note=("Hypotheses of the round trip: sys_ok_weak (sys_ok for the reader of /repo), pairwise distinct declared symbols (counterexample without: C09_dup_symbol_diverges), "
                "all widths below 2^32, fewer than 2^32 lines. C09_roundtrip_complete adds the converse direction for closed systems (every environment of sy has a partner environment of the "
                "system read back) using C09_accepted_symbols_distinct (the symbols of EVERY accepted system are pairwise distinct: unique_name is fresh). "
                "For the prepared reader Fix2 (uext refuses an array operand) the named round trip needs a writer without array aliases (w_no_array_alias; necessary: C09_fix2_needs_no_array_alias). "
                "Names: proved for inputs (hypothesis: pairwise distinct input names; conclusion for every input that is in_named, i.e. explicit and not used as a label - necessary: "
                "C09_names_input_output_refuted; _outside_known: KnownClass = false, every explicit input name apart from state / debug names and not b_k for an output / state / debug name b, writer with w_input_labels, bads/constraints on declared symbols) "
                "and for outputs (pairwise distinct non-reserved output names; conclusion for every output name that is explicit, none of the tokens printed before the outputs and not b_k for such a token or another output name - necessary: C09_names_default_output_refuted); "
                "names of STATES are not proved (the declaration gets the name it asks for by the same invariant, but improve_state_names may rename a state after a later label / alias / node line whose expression is the state symbol: that analysis is open) (roundtrip_full is false in the classes KnownClass, each refuted by a witness: C09_names_dollar_refuted, "
                "C09_names_input_output_refuted, C09_names_default_state_refuted, C09_names_default_output_refuted; C09_names_hyps is the non-vacuity example): name-stability defects of the "
                "writer/reader pair are recorded as known findings (names:...); "
                "Model.serialize_named_v takes the writer variant (driver constant writer_variant)."),
)
