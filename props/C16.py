"""C16 — btor2 witness text round-trips (patronus/src/btor2/witness.rs, patronus/src/mc/types.rs)."""
HANDLER = "C16"
RULE = ("generated witnesses: 0..6 states (bit-vector / array with 0..9 recorded indices incl. repeated ones, entries equal to zero, "
        "overwritten and never-stored indices, dense and sparse, non-zero defaults / no value), 0..5 inputs, 0..12 steps, 0..4 failed "
        "properties (incl. 0 and 2^32-1), widths from the pool 1..8,31..33,63..65,127..129 (array index widths above 64 only in the two "
        "deterministic shapes of the recorded baa finding), names: plain, hierarchical, empty, missing, odd characters (quotes, brackets, "
        "CR, non-ASCII incl. non-ASCII white space); streams of 1..5 witnesses read with parse_max =, <, > the stream length and 0; "
        "a 'wild' stream outside the property's domain (no failed property, missing input values, forbidden name characters, array "
        "inputs, length mismatches: compared model vs implementation only); a text stream: printer output mutated by 1..3 of 17 line/"
        "token mutations (deleted/duplicated/swapped lines, junk tokens, blank/comment/padded lines, CRLF, no final newline, later "
        "state frames, suffix variants, truncation) read with parse_max in {0,1,2,3,30} and re-printed; counterexamples of patronus' "
        "own bmc (z3) on btor2 files of the repository; corpus: the five texts of patronus/tests/btor2_witness_tests.rs and 27 "
        "hand-written boundary texts. distinct = distinct case inputs")
ASSUMPTIONS = [
    "the Gallina model Model/WitnessIO.v mirrors witness.rs line by line (hand-written; tied by differential execution on the generated cases: printed text byte for byte, read-back witnesses on a canonical dump)",
    "baa's BitVecValue::to_bit_str/from_bit_str are modelled as the identity on bit lists (msb first); bit strings with a sign prefix are outside the model",
    "baa's ArrayValue is modelled by its specification (default + finite map) plus the recorded todo!() for index widths above 64 bits; lookups of absent keys in such arrays (hash-collision dependent) are outside the model and not generated",
    "str::trim is modelled for ASCII white space only; BufRead::lines and I/O errors / invalid UTF-8 are outside the model (texts are byte lists split at LF, CR LF)",
    "the order of the recorded index vector of a parsed array (baa's derived word-wise Ord) is not modelled: compared as a set",
]
TRUSTED = ["ocaml/driver/c16.ml: conversion of dumped witnesses to the extracted record types, canonical dump used for the comparison, "
           "attribution of a failure to the recorded baa finding only when the panic location is baa-0.19.3/src/bv/borrowed.rs:120, every "
           "witness of the case is complete in the property's sense and one of them has an array index width above 64"]


BMC_QUICK = "chiseltest/const_array_example.btor,chiseltest/maltese_bmc_should_fail_after_the_appropriate_amount_of_cycles_test.btor"
BMC_ALL = BMC_QUICK + (",chiseltest/maltese_bmc_should_succeed_for_a_limited_amount_of_cycles_test.btor,"
                       "chiseltest/maltese_bmc_should_work_on_a_circuit_with_a_submodule_test.btor,unittest/dangling.btor2")


def streams(tier, seed):
    if tier == "quick":
        return [dict(tag="main", count=6000, seed=seed),
                dict(tag="text", count=1500, seed=seed + 1, extra={"mode": "text"}),
                # counterexamples of patronus' own BMC (z3) on two btor2 files of the repository, single and as a stream of two
                dict(tag="bmc", count=0, seed=seed, extra={"mode": "bmc", "files": BMC_QUICK})]
    out = [dict(tag="bmc", count=0, seed=seed, extra={"mode": "bmc", "files": BMC_ALL})]
    for k in range(6):
        out.append(dict(tag="main%d" % k, count=7000, seed=seed * 1000 + k))
    out.append(dict(tag="wild", count=6000, seed=seed + 11, extra={"mode": "wild"}))
    for k in range(2):
        out.append(dict(tag="text%d" % k, count=6000, seed=seed * 77 + k, extra={"mode": "text"}))
    return out


def search_streams(tier, seed, diffs):
    return [dict(tag="search%d" % k, count=5000, seed=seed * 7919 + k) for k in range(3)]


MANIFEST = dict(
    level_text=("Theorems C16_witness_roundtrip / C16_roundtrip_canon / C16_witness_stream / C16_canon_equiv (Coq; all complete witnesses, any "
                "number of states/inputs/steps, widths, index sets, names; streams of any length and any parse_max): the text written by the "
                "model of print_witness is read back by the model of the line state machine of parse_witnesses as exactly one witness per "
                "printed witness, in order, equivalent to the original (same failed properties, display names, bit-vector values, recorded "
                "index sets and array contents at every recorded index); proved at the level of the text (line splitting, trimming, "
                "tokenisation, decimal and binary numbers included).  Array index widths above 64 bits are excluded (C16_big_index_refuted: "
                "the model, like the code, panics there).  Tie to /repo: the real printer and reader run on generated witnesses, streams and "
                "mutated texts on every run; text and read-back witnesses are compared with the extracted model's."),
    level_note=("Trusted: Coq kernel; hand-written model tied only by differential execution (generator-bounded); baa modelled by specification "
                "(bit strings, arrays) plus one recorded todo!(); non-ASCII trim, I/O errors, sign-prefixed bit strings and the order of recorded "
                "indices are outside the model.  One dependency defect (baa, index width > 64) is recorded as a known finding."),
)
