"""C18 - the btor2 reader rejects bad input cleanly and only accepts well-typed systems."""
HANDLER = "C18"
PROFILES = ["debug", "release"]
RULE = ("three input families, each run against a build WITH and a build WITHOUT debug assertions/overflow checks: "
        "(a) 1..3 token/line-level mutations (delete/duplicate/swap/move lines; change sort ids, operand ids, negations, widths, extension amounts, "
        "slice bounds, operators, line ids, constant values; drop/insert tokens; huge numbers around 2^31/2^32/2^63/2^64; non-ASCII characters; CR/CRLF/tab "
        "white space) of the btor2 files shipped under /repo/inputs (files of at most 400 lines in the mutation stream; ALL 116 files unmutated in the "
        "files stream); (b) grammar-generated well-formed files over the whole operator set (widths 1..200 incl. 63..65, 127..129, arrays, negated operands, "
        "random ids, shuffled line order) with 0..3 of the same mutations; (c) parameterised edge templates: every operator applied to operands of "
        "every kind (bit-vector of two widths, boolean, array, negated), zero-width sorts, arrays of arrays, u32-overflowing extension/concat widths, "
        "reversed/maximal slice bounds, constants without value, >128-bit constants in all three radixes incl. too many digits, wrap-around decimals, "
        "non-ASCII digits, name aliasing rules; a quarter of the edge cases are post-processing templates (states without init and next that are read by outputs / bads / next functions of other states, "
        "`$` names, duplicated labels, a plain state labelled like an input, aliases). distinct = distinct texts (HashSet)")
ASSUMPTIONS = [
    "Model/Btor2Parse.v mirrors patronus/src/btor2/parse.rs, the builders of expr/context.rs, TypeCheck of expr/types.rs and baa's from_str_radix "
    "(hand-written; tied by differential execution: three-way class and, for accepted inputs, the whole system incl. names, on every generated case)",
    "a panic is observed through catch_unwind + panic hook; aborts that are not unwinding panics (stack overflow, allocation failure) are outside the model; "
    "the harness clamps `sort bitvec W` with 65536 < W < 2^32 when the file also contains literal-producing operators (resource guard, counted in the stats)",
    "the documented-unsupported operators (inc dec rol ror fair, *o overflow predicates) are outside the property: a panic there is expected (recognised by the model's PUnsupported)",
]
TRUSTED = ["ocaml/driver/c08.ml+c18.ml: reader of the DAG dump, memoised structural comparison model/implementation, node-wise application of the extracted "
           "node_ok (= wt on every root), cross-checked against the extracted sys_ok on systems whose expanded trees have < 200000 nodes"]


def streams(tier, seed):
    if tier == "quick":
        return [dict(tag="files-debug", count=0, seed=seed, profile="debug", extra={"files": "all"}),
                dict(tag="files-release", count=0, seed=seed, profile="release", extra={"files": "all"}),
                dict(tag="debug", count=7000, seed=seed, profile="debug"),
                dict(tag="release", count=7000, seed=seed + 1000, profile="release")]
    out = [dict(tag="files-debug", count=0, seed=seed, profile="debug", extra={"files": "all"}),
           dict(tag="files-release", count=0, seed=seed, profile="release", extra={"files": "all"})]
    for k in range(6):
        out.append(dict(tag="debug%d" % k, count=60000, seed=seed * 1000 + k, profile="debug"))
        out.append(dict(tag="release%d" % k, count=60000, seed=seed * 1000 + 500 + k, profile="release"))
    out.append(dict(tag="bigfiles-debug", count=1500, seed=seed + 77, profile="debug", extra={"max-file-lines": "20000"}))
    out.append(dict(tag="bigfiles-release", count=1500, seed=seed + 78, profile="release", extra={"max-file-lines": "20000"}))
    return out


def search_streams(tier, seed, diffs):
    return [dict(tag="search%d" % k, count=30000, seed=seed * 7919 + k, profile=("debug" if k % 2 == 0 else "release")) for k in range(4)]


MANIFEST = dict(
    level_text=("Coq theorems about the executable model of the btor2 reader (Model/Btor2Parse.v, three-way result Ok/Err/Panic, parameter dbg = debug assertions). "
                "Tie to /repo: the extracted model and the real btor2::parse_str (debug AND release build, catch_unwind) run on the same mutated/generated texts on every run; "
                "compared: the three-way class and, for accepted inputs, the complete system."),
    level_note=("Repaired variant: Model.parse_*_v Fix mirrors parse.rs with patches/000N-fix-btor2-*.diff applied; for it C18_no_crash_fix (no panic on ANY text over the "
                "supported operators, both profiles) and C18_accepted_well_typed_fix (accepted => full sys_ok and closed) are proved; the driver constant code_variant "
                "(ocaml/driver/c08.ml, shared by C08/C09/C18) selects Cur (the reader before the series), Fix (= /repo) or Fix2 (= Fix + prepared patches/0009: uext/sext need a bit-vector operand; C18_no_crash_fix2, C18_accepted_well_typed_fix2); patches/verify-btor2-series.sh checks the series in isolation. "
                "C18_final_accepted_well_typed spells the acceptance half out for the FINAL system (parse_text_v = demote . rename_sys: every symbol used is an input or state of the final system, "
                "remaining states have an init or next, declared names pairwise different), C18_demoted_among_inputs says where a demoted state ends up. "
                "The robustness statement is FALSE of the code today: recorded as known findings (one per panic location) and as *_refuted theorems; "
                "the theorems that hold are stated for inputs outside an explicit KnownClass."),
)
