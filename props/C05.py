"""C05 — SMT-LIB output of an expression is well-sorted and means the same thing."""
HANDLER = "C05"
RULE = ("typed random expression trees (depth 1..5) over ALL operators incl. the five division/remainder operators (zero divisors forced 1/4), "
        "each operator drawn with 1-bit and with wider operands (width 1 with probability 2/5, else 2..8,16,31..33,63..65,127..129), "
        "zero-extension of a Bool, 1-bit slices, sign extension of 1 bit, arrays with Bool index and/or Bool data (index widths 1..6), array "
        "equality/ite/store/const; symbol names from pools: simple, needing quoting (spaces, brackets, leading digit, '#b01', empty, tab/newline), "
        "multi-byte UTF-8 (fixed names and random ones by page x low byte, so that every low byte occurs above U+00FF), simple names that begin with a literal / "
        "keyword / theory name, quoted names with spaces around keywords, names made of lexical delimiters (double quotes, ';', parentheses, '#', line breaks, tabs), SMT-LIB reserved words, theory symbols, unrepresentable ('|', '\\\\', control characters); 1/4 of the cases are commands "
        "(assert, declare-const incl. arrays, define-fun, check-sat-assuming with 0..3 assumptions, get-value, push/pop incl. 2^64-1, set-logic, "
        "set-option/set-info, exit, check-sat, get-unsat-assumptions, declare of a non-symbol); 2 random assignments per expression case "
        "(literal shape pool; arrays = default + up to 3 stores). distinct = distinct (expression|command, assignments); every case runs the "
        "implementation, the extracted model and the extracted reference sort checker + evaluator on the implementation's text")
ASSUMPTIONS = [
    "Model/SmtSer.v mirrors patronus/src/smt/serialize.rs (hand-written; tied by comparing, on every generated case, the tokens of the text "
    "serialize_cmd writes - lexed and read by the extracted reference front end - with the model's S-expression)",
    "Spec/Smt.v is the SMT-LIB 2.6 reference (lexicon, sorts, strict sort checker, evaluator, commands), written from the standard and trusted as "
    "a specification; in the thorough tier z3 4.8.12 and cvc5 1.0.3 evaluate the same text as an independent check of that specification",
    "expressions are those the public constructors can build (no no-op slice, no extension by 0 bits: Context::add_expr is pub(crate)); every symbol "
    "name is used at one type per script; arrays are first-order (index and data are Bool or bit-vectors)",
    "array-typed results are compared at all indices up to index width 6, at the first and last index above",
]
TRUSTED = ["ocaml/driver/c05.ml classifies a case as outside SMT-LIB (skip) when the extracted name_ok rejects a symbol name that is not a reserved "
           "word: names containing '|' or '\\', control characters, or names owned by a theory (true, not, bvadd ...) cannot be written by any writer",
           "solver answers that are not values (z3 answers some array equalities with quantified terms) and outputs after a solver's first parse "
           "error in a batch are treated as inconclusive"]


def streams(tier, seed):
    if tier == "quick":
        return [dict(tag="main", count=30000, seed=seed),
                dict(tag="plain-names", count=10000, seed=seed + 1, extra={"names": "plain"}),
                dict(tag="solvers", count=1500, seed=seed + 2, extra={"solver": "z3,cvc5", "only": "expr"})]
    out = []
    for k in range(12):
        out.append(dict(tag="main%d" % k, count=60000, seed=seed * 1000 + k))
    for k in range(4):
        out.append(dict(tag="plain%d" % k, count=60000, seed=seed * 1000 + 100 + k, extra={"names": "plain"}))
    for k in range(6):
        out.append(dict(tag="solvers%d" % k, count=8000, seed=seed * 1000 + 200 + k, extra={"solver": "z3,cvc5", "only": "expr", "names": "plain" if k % 2 else "all"}))
    out.append(dict(tag="commands", count=60000, seed=seed + 7, extra={"only": "cmd"}))
    return out


def search_streams(tier, seed, diffs):
    return [dict(tag="search%d" % k, count=50000, seed=seed * 7919 + k) for k in range(4)]


MANIFEST = dict(
    level_text="Theorems C05_ser_sorted_sound (all well-typed expressions built by the public constructors, all operators incl. division/remainder, 1-bit and wider operands in every position, arrays with Bool index/data, both coercion directions, all assignments: the written term is well-sorted for a strict SMT-LIB sort checker and evaluates to the expression's value), C05_ser_type_sound, C05_escape_sound (unconditional for the writer in /repo: every symbol name incl. reserved words, keywords, multi-byte and delimiter characters is written as a token that denotes it), C05_ser_cmd_wf (declare/define/assert/check-sat-assuming/get-value/set-info accepted by the reference front end), C05_cmd_head, C05_read_flatten; C05_escape_reserved_refuted and C05_cmd_head_refuted are kept as theorems about the writer before the repairs (variant Cur). Tie to /repo: the real serialize_cmd output is lexed, sort-checked and evaluated by the extracted reference on every generated case, compared with the model, and fed to z3 and cvc5.",
    level_note='Trusted: Coq kernel; Spec/Smt.v as the statement of SMT-LIB (cross-checked against z3 and cvc5); hand-written model tied by differential execution (generator-bounded). Two defects found by this check (reserved words unquoted; SetInfo written as set-option) are repaired in /repo (2ec74bc, 224b947); ocaml/driver/c05.ml code_variant = Fix2 says which model variant mirrors /repo. No open finding.',
)
