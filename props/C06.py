"""C06 — concrete evaluation follows SMT-LIB bit-vector and array semantics."""
HANDLER = "C06"
RULE = ("typed random expression trees (depth 1..4) over all implemented operators x random symbol assignments; "
        "width pool 1..8,16,31..33,63..65,127..129; literal/shift-amount shapes per DESIGN section 4; sparse and dense arrays, "
        "index widths 1..6; 1/6 of cases provide an inner value (cut); 1/50 leave a symbol unbound; 1/40 include div/rem "
        "(outside the property: compared as both-panic); three value providers. distinct = distinct (expression, assignment, cut) "
        "triples; every case is non-trivial in the sense that implementation, model machine and specification are all evaluated on it")
ASSUMPTIONS = [
    "the Gallina machine Model/EvalImpl.v mirrors patronus/src/expr/eval.rs (hand-written; tied by differential execution on the generated cases)",
    "baa's operators are specified by Spec/BV.v (SMT-LIB 2.6 FixedSizeBitVectors); baa itself is not verified, only exercised through patronus",
    "arrays are compared at all indices for index widths <= 4, at sampled indices above",
]
TRUSTED = ["ocaml/driver/c06.ml labels a failure with the known-finding key baa-sparse-array-eq-not-extensional only when the implementation's "
           "value equals the specification value recomputed with baa's (default,map) comparison of sparse arrays"]


def streams(tier, seed):
    if tier == "quick":
        # "wide": three- and four-word values (widths around 192 and 256, and 200/320), where whole-word shift amounts that are
        # not powers of two (192, 320, ..) and the top-word mask exist at all (added after seeded change C06-m7 escaped)
        return [dict(tag="main", count=20000, seed=seed),
                dict(tag="wide", count=8000, seed=seed + 11, extra={"widths": "1,8,64,65,129,191,192,193,200,255,256,257,320,321"})]
    out = []
    for k in range(16):
        out.append(dict(tag="main%d" % k, count=60000, seed=seed * 1000 + k))
    out.append(dict(tag="small-exhaustive-ish", count=100000, seed=seed + 7, extra={"widths": "1,2,3,4"}))
    for k in range(4):
        out.append(dict(tag="wide%d" % k, count=40000, seed=seed * 31 + k, extra={"widths": "1,8,64,65,129,191,192,193,200,255,256,257,320,321"}))
    return out


def search_streams(tier, seed, diffs):
    return [dict(tag="search%d" % k, count=50000, seed=seed * 7919 + k) for k in range(4)]

MANIFEST = dict(
    level_text=("Theorems C06_machine_correct / C06_cut_is_eval / C06_eval_canonical (Coq; all expressions, widths, assignments, providers): "
                "the stack-machine model of eval.rs returns exactly the SMT-LIB value, canonical, with provided inner values short-circuiting. "
                "Tie to /repo: the extracted machine and the real eval_expr run on the same generated (expression, assignment, cut) cases on every run."),
    level_note=("Trusted: Coq kernel; hand-written model tied only by differential execution (generator-bounded); baa specified by Spec/BV.v, "
                "not verified. Two baa defects are recorded as known findings, one patronus defect was fixed. Streams: main (widths up to 129) and wide (three- to six-word values, whole-word shift amounts). Extraction and OCaml glue are cross-checked against vm_compute inside Coq on a sample of every run (corr_C06_kernel)."),
)
