"""C08 - the btor2 reader gives every construct its btor2 meaning."""
HANDLER = "C08"
RULE = ("grammar-generated well-formed btor2 files over the whole supported operator set (all unary/binary/ternary operators, slices, extensions, "
        "constants in radix 2/10/16 incl. signed and short spellings, array read/write/ite/eq, init of arrays from bit-vectors) at widths "
        "1..200 (incl. 63..65, 127..129) and a small-width profile 1..4, with negated operand ids (1/5), random non-monotonic line ids, randomly "
        "interleaved line order respecting definition-before-use; 1/3 of them with one sort-/operand-/operator-breaking mutation; mutated and unmutated "
        "an array-sort mutation (an array-valued line annotated with a DIFFERENT array sort) and an init/next-value mutation; shipped files (<= 300 lines; ALL 116 unmutated in the files stream); edge templates; "
        "post-processing templates (4% of the cases: 2..4 states of which half have neither init nor next and are read by outputs / bad states / next and init functions of other states, "
        "labels with `$`, duplicated labels, a plain state labelled like an input or like a reader default, states renamed through uext-by-0 / full-slice aliases and output labels, "
        "ignored yosys-path and $flatten names, array states, shuffled line order). Per accepted text 4 valuations (all zero, all ones, 2 random "
        "with corner values; arrays affine functions of the index) derived from the case's vseed. distinct = distinct texts")
ASSUMPTIONS = [
    "Spec/Btor2Sem.v is the reference semantics of btor2 (written from the format definition; bit-vector operators are the SMT-LIB ones of Spec/BV.v); it shares only the lexical layer (tokens, number readers) with the model of the reader",
    "Model/Btor2Parse.v mirrors parse.rs/context.rs/types.rs (tied by differential execution on every case: the FINAL system parse_str returns - after improve_state_names and the demotion of states "
    "without init and next - is compared with the model's final system incl. symbol and output names: demote(raw) with the renaming applied at the leaves on every case, and the eagerly computed "
    "Model.parse_text_v (the object of C08_final_* / C18_final_*) whenever a renaming took place and the trees are small)",
    "expression values of the implementation's system are computed by the extracted Spec/Eval.v (ebv/earr), i.e. the meaning of the IR is the one fixed for all properties (C06 ties it to patronus' own evaluator)",
    "arrays are compared at all indices for index widths <= 8, at 9 sampled indices above; texts with widths above 65536 or array equality over index sorts wider than 10 bits are skipped (counted)",
]
TRUSTED = ["ocaml/driver/c08.ml: maps the k-th input/state line of the text to the implementation's k-th input / state symbol (states without init and next are "
           "expected at the end of the input list, as parse.rs demotes them), builds the valuations, compares values"]


def streams(tier, seed):
    if tier == "quick":
        return [dict(tag="files", count=0, seed=seed, extra={"files": "all"}),
                dict(tag="main", count=12000, seed=seed)]
    out = [dict(tag="files", count=0, seed=seed, extra={"files": "all"})]
    for k in range(8):
        out.append(dict(tag="main%d" % k, count=40000, seed=seed * 1000 + k))
    return out


def search_streams(tier, seed, diffs):
    return [dict(tag="search%d" % k, count=30000, seed=seed * 7919 + k) for k in range(3)]


MANIFEST = dict(
    level_text=("Coq theorems relating the executable model of the btor2 reader (Model/Btor2Parse.v) to a reference interpreter for btor2 written from the format "
                "definition (Spec/Btor2Sem.v), for all texts and all valuations. Tie to /repo: on every run the real parse_str result is evaluated by the extracted "
                "Spec/Eval.v and compared with the extracted reference interpreter run on the text; the model is compared with the implementation structurally."),
    level_note=("C08_final_system_sound(+_profiles, _induced), C08_final_rejects_ill_formed, C08_final_renaming are about the FINAL system (after name improvement and demotion; "
                "a demoted state is read from the input valuation: Spec/Btor2FinalSpec.v final_env_agrees); the older theorems are about the raw system. For the repaired reader (code_variant = Fix, patches/000N-fix-btor2-*.diff) C08_rejects_ill_formed_fix extends the rejection theorem to zero-width sorts and "
                "non-Boolean bad/constraint lines; for Fix2 (= Fix + prepared patches/0008-fix-btor2-writer-no-array-alias.diff and 0009-fix-btor2-ext-operand-bitvector.diff, not applied in /repo yet) "
                "C08_rejects_ill_formed_fix2 also covers uext/sext of an array, i.e. every error the interpreter reports under a name of its own. Trusted: Coq kernel; Btor2Sem.v as the meaning of btor2; hand-written model tied by differential execution. Of the code today: uext/sext by 0 of an array is accepted and "
                "well-formed constants wider than 128 bits are rejected (baa): recorded as known findings."),
)
