"""C19 — arithmetic e-graph rewrites are value-preserving under their side conditions."""
HANDLER = "C19"
RULE = ("(table) the pattern ASTs of create_rewrites() dumped by the harness vs the model's rule table; "
        "(cond) ArithRewrite::eval_condition vs the model on ALL width/sign assignments with widths <= 6 (quick) / 8 (thorough) plus assignments "
        "at the edge of u32 and 3000/40000 per rule with log-uniform random widths up to u32::MAX (partly correlated); (inst) every rule x every width/sign assignment with widths <= 4 (quick) / 5 (thorough; plus <= 7 for the two-operand rules and <= 6 for the three-operand rules with exhaustive values up to 10 bits): both patterns instantiated as "
        "tools/egraphs-cond-synth does, lowered with the real from_arith (structural comparison with the model), evaluated with the real eval_expr on "
        "all operand values when the side condition holds and the operands have <= 12 bits in total (else on corner + random samples), compared with "
        "the model's value and lhs vs rhs (property oracle); (sample) directed random assignments up to 24/64 bits satisfying the side conditions 5/6 of "
        "the time, 1/16 at the edge of u32 (lowered only); (roundtrip) random add/sub/mul/shift trees over symbols under 0..3 extensions per operand "
        "(uniform and mixed chains), widths 1..128, 1/10 outside the fragment: to_arith and from_arith(to_arith) compared structurally with the model, "
        "values of the expression and of the result compared on 12+ assignments; (lower) random, mostly ill-shaped ground terms: from_arith vs model "
        "including every panic site. distinct = distinct case lines without the id")
ASSUMPTIONS = [
    "Model/Arith.v mirrors patronus-egraphs/src/{arithmetic,rewrites}.rs (hand-written; the rule patterns are compared with create_rewrites() on every run, "
    "the side-condition closures extensionally up to the width bound, from_arith/to_arith structurally on the generated terms)",
    "the flat RecExpr is read as a tree (from_arith does not memoise shared nodes, so this is exact)",
    "the build observed is the harness's dev profile: debug assertions and overflow checks ON (a u32 overflow is a panic, as in the model); "
    "in a release build the same overflows would wrap instead",
    "eval_expr is specified by Spec/Eval.v (property C06); baa is not verified",
    "operand values are exhaustive only up to 12 bits per instance; above that the rule theorems (all widths, all values) carry the claim, the run only samples",
]
TRUSTED = ["ocaml/driver/c19.ml labels an oracle failure with a known-finding key only after recomputing the class with the extracted model "
           "(mixed extension chain: Model.convertible = false on a well-typed expression of the supported shape; rhs width overflow: the model's width function "
           "returns Panic on the assignment and the left-hand side lowered)"]


import os

# Self-test hook (REPORT-C19.md, "mutations"): C19_HARNESS_PROFILE=mut makes the generated streams run
# .build/cargo/mut/verif-harness (a harness built against a mutated scratch copy of /repo) instead of the
# binary ./check has just built from /repo.  Unset in normal use.
_PROFILE = os.environ.get("C19_HARNESS_PROFILE")


def _with_profile(streams):
    if _PROFILE:
        for s in streams:
            s["profile"] = _PROFILE
    return streams


def streams(tier, seed):
    return _with_profile(_streams(tier, seed))


def _streams(tier, seed):
    if tier == "quick":
        return [
            dict(tag="table", count=1, seed=seed, extra={"mode": "table"}),
            dict(tag="cond6", count=0, seed=seed, extra={"mode": "cond", "bound": 6, "extreme": 60, "random": 3000}),
            dict(tag="inst4", count=0, seed=seed, extra={"mode": "inst", "bound": 4, "exh_bits": 12, "samples": 64}),
            dict(tag="sample", count=1800, seed=seed, extra={"mode": "sample", "maxw": 24}),
            dict(tag="sample64", count=600, seed=seed + 1, extra={"mode": "sample", "maxw": 64}),
            dict(tag="roundtrip", count=6000, seed=seed, extra={"mode": "roundtrip"}),
            dict(tag="lower", count=4000, seed=seed, extra={"mode": "lower"}),
        ]
    out = [
        dict(tag="table", count=1, seed=seed, extra={"mode": "table"}),
        dict(tag="cond8", count=0, seed=seed, extra={"mode": "cond", "bound": 8, "extreme": 400, "random": 40000}),
        dict(tag="inst5", count=0, seed=seed, extra={"mode": "inst", "bound": 5, "exh_bits": 12, "samples": 256}),
    ]
    # one more bit per width parameter: all of the two-operand rules at <= 7, the three-operand rules at <= 6
    for r in ("commute-add", "commute-mul", "mult-to-add"):
        out.append(dict(tag="inst7-" + r, count=0, seed=seed, extra={"mode": "inst", "bound": 7, "rule": r, "exh_bits": 12, "samples": 256}))
    for r in ("merge-left-shift", "unmerge-left-shift", "left-shift-mult"):
        out.append(dict(tag="inst6-" + r, count=0, seed=seed, extra={"mode": "inst", "bound": 6, "rule": r, "exh_bits": 10, "samples": 96}))
    for k in range(4):
        out.append(dict(tag="sample64-%d" % k, count=12000, seed=seed * 1000 + k, extra={"mode": "sample", "maxw": 64, "samples": 64}))
    out.append(dict(tag="sample128", count=6000, seed=seed * 1000 + 9, extra={"mode": "sample", "maxw": 128, "samples": 32}))
    for k in range(4):
        out.append(dict(tag="roundtrip%d" % k, count=40000, seed=seed * 1000 + 20 + k, extra={"mode": "roundtrip"}))
    out.append(dict(tag="lower", count=60000, seed=seed * 1000 + 30, extra={"mode": "lower"}))
    return out


def _diff_instances(diffs, limit=600):
    """Diverging side-condition cases -> instance cases (rule + assignment, values sampled by the harness)."""
    import re
    wanted = {}
    for r in diffs:
        if r.get("key", "").startswith("cond:") and r.get("case_file"):
            wanted.setdefault(r["case_file"], set()).add(r["id"])
    picks = []
    for path, ids in wanted.items():
        try:
            for line in open(path):
                m = re.match(r'\(case (\S+) \(kind cond\) (\(rule "[^"]*"\)) (\(assign.*?\)\)) \(impl ', line)
                if m and m.group(1) in ids:
                    widths = [int(x) for x in re.findall(r'"\?w\w*" (\d+)', m.group(3))]
                    picks.append((max(widths or [0]), m.group(2), m.group(3)))
        except OSError:
            pass
    picks.sort(key=lambda p: p[0])
    return ["(case d%d (kind inst) %s %s)" % (k, rule, asg) for k, (_, rule, asg) in enumerate(picks[:limit])]


def search_streams(tier, seed, diffs):
    # after a broken proof / correspondence: first the diverging side-condition assignments themselves, evaluated as
    # instances (smallest widths first); then the exhaustive small instances of every rule; then directed samples
    out = []
    lines = _diff_instances(diffs)
    if lines:
        d = os.path.join(os.path.dirname(os.path.dirname(os.path.abspath(__file__))), ".build", "run", "C19")
        os.makedirs(d, exist_ok=True)
        path = os.path.join(d, "search-from-diffs.in")
        with open(path, "w") as f:
            f.write("\n".join(lines) + "\n")
        out.append(dict(tag="search-diffs", count=0, seed=seed, extra={"cases-in": path}))
    out += [
        dict(tag="search-inst5", count=0, seed=seed, extra={"mode": "inst", "bound": 5, "exh_bits": 12, "samples": 128}),
        dict(tag="search-sample", count=20000, seed=seed * 7919, extra={"mode": "sample", "maxw": 64}),
        dict(tag="search-roundtrip", count=30000, seed=seed * 7919 + 1, extra={"mode": "roundtrip"}),
    ]
    return _with_profile(out)


MANIFEST = dict(
    level_text=("Theorems rule_{commute_add,commute_mul,mult_to_add,merge_left_shift,unmerge_left_shift,left_shift_mult}_sound (Coq; ALL widths up to u32::MAX, "
                "both signs, ALL operand terms, ALL environments - no bound): under the rule's side condition both instantiated patterns lower (model of from_arith) "
                "to well-typed expressions of the output width with equal SMT-LIB value; C19_node_denotation derives the node denotation from what from_arith builds; "
                "arith_roundtrip: from_arith(to_arith e) has the same width and value for well-typed add/sub/mul/shift trees whose operand extension chains are of one kind. "
                "Tie to /repo: rule patterns compared with create_rewrites() on every run (a changed/added rule is a diff), side conditions compared on all assignments "
                "up to 6/8 bits, instantiation + real from_arith + real eval_expr on all assignments up to 4/5 bits x all operand values (<= 12 bits)."),
    level_note="Trusted: Coq kernel; egg's e-matching is not modelled (rules are (pattern, condition, right-hand side) tables read from the code); hand-written model tied by differential execution. Repaired in /repo through this check: to_arith lost mixed extension chains (6b744e8), two u32 overflows of derived widths (df52fbe; rules_variant = Fix). The overflow witnesses stay as theorems about the old code. No open finding.",
)
