"""C03 — every reported counterexample is a real execution that hits a bad state."""
HANDLER = "C03"
RULE = ("the systems of C02 that have a counterexample within the bound (others are discarded), each run under all four solver profiles "
        "with random checking mode and simplification plus two more z3-backed runs, under z3 model-diversity settings that change every "
        "25 systems (smt.random_seed / sat.random_seed / smt.phase_selection / sat.phase through the shims' command line) and cvc5; "
        "plus, per system, bmc with check_constraints=true and check_bad_states_individually=true on z3, bmc with check_constraints=true "
        "in a random mode behind the push/pop profile, and patronus::mc::pdr on z3 (time-limited child process; its witness is built by "
        "the BMC fallback after the solver restart). "
        "Every Fail(witness) is (a) checked by the extracted check_witness against the ORIGINAL system, (b) replayed through "
        "patronus::sim::Interpreter by the harness (bit-vector systems). distinct = distinct (system, bound) pairs; the evidence counts "
        "witnesses and distinct witnesses per system in the per-case detail")
ASSUMPTIONS = [
    "the witness format has no values for states WITHOUT a next function at steps > 0 (the encoding leaves them free at every step): "
    "witness_ok asks for SOME choice of these values; the simulator replay is skipped for such systems when it disagrees",
    "Interpreter::set takes bit-vectors only: systems with an array state are replayed by the Coq checker only",
    "model parsing (get-value responses) is exercised end to end only; its correctness is C14's subject",
    "a pdr run that ends without a Fail (unknown, error, panic on an array state, time limit) contributes no witness: the per-case detail "
    "and the verdict histogram (pdr:fail / pdr:unknown / ..) say how many pdr runs produced one",
]
TRUSTED = ["ocaml/driver/c03.ml + c00mc.ml: conversion of the dumped witness into the Coq record"]


def streams(tier, seed):
    if tier == "quick":
        return [dict(tag="main", count=40, seed=seed)]
    return [dict(tag="main%d" % k, count=120, seed=seed * 1000 + k, extra={"child-runs": 2}) for k in range(3)]


def search_streams(tier, seed, diffs):
    return [dict(tag="search%d" % k, count=200, seed=seed * 7919 + k) for k in range(3)]


MANIFEST = dict(
    level_text="Theorems (Coq): C03_bmc_full_witness_accepted / _is_execution / _shortest - the same three statements as below for the model of the WHOLE of bmc() (Model/BmcWitFull.v): check_constraints on and off (the extra check-sat: unknown gives Unknown, unsat trips the assert_eq!), both checking modes with the calls in the order of the code, solver answers unknown (verdict Unknown) and error (Err), failing commands (set-logic, header, init_at, assert, check_assuming_end, unroll), a get-value that can fail at every symbol, assert!(k_max <= 2000); hypothesis: a sat answer comes with a model and get-value reports its values (nothing about unsat/unknown/errors; least depth needs right unsat answers). C03_witness_shape / C03_accepted_witness_shape - names and order of the system, one value of the right type per state (arrays included) and per input at each of the k+1 steps. C03_pdr_witness_is_execution / C03_pdr_witness_shortest - the concrete PDR model of C10 with its BMC fallback instantiated by that BMC model over the restarted solver (Model/PdrWit.v): every Fail(w) it returns, whatever the PDR conversation was, is accepted by check_witness / is a constrained execution from an initial state of at most MAX_FRAMES steps ending in exactly the reported bad states, of least length when the restarted solver's unsat answers are right. C03_bmc_full_extends_bmc_model - the older BMC model is the check_constraints=false / fault-free-solver instance of the full one. C03_pdr_fallback_finds_witness / C03_pdr_fallback_definite - with a truthful PDR oracle (class fin_class) and a restarted solver that is truthful on sat and unsat and fault-free, the composed model answers Unknown only when the frame limit is exceeded: whenever PDR gives up blocking, the BMC fallback returns the witness (C10's reachability within the frontier depth <= MAX_FRAMES + C02_bmc_full_exact); the fallback neither errs nor panics. Run examples (vm_compute) with an enumerating solver, incl. the Unknown / Err / panic exits. Older statements: C03_bmc_witness_is_execution - for every system in the domain of C04_script3_wf (well-formed, distinct inputs, acyclic init dependencies), every bound and both checking modes, if the model of bmc.rs + get_witness over a solver whose sat answers come with a model returns Fail w, then w's step-0 valuation is initial and the run through w's inputs has k <= k_max steps, satisfies all constraints at every step and has EXACTLY the reported bad states at its last step; C03_bmc_witness_accepted, C03_bmc_witness_shortest (least depth under a complete solver); C03_check_witness_correct (the executable checker decides witness_ok for ALL well-formed systems and witnesses), C03_accepted_witness_is_execution. Tie to /repo: every Fail witness of the real patronus::mc::bmc / pdr (four solver profiles, z3 model-diversity settings, cvc5) is checked by the extracted check_witness, replayed in the interpreter, and the recorded get-value calls must equal the model's query list and yield the same witness.",
    level_note="Trusted: Coq kernel; the solver is a Section hypothesis (sat answers come with a model of the asserted script) in C03_bmc_witness_is_execution; in the tie the witnesses are those the installed solvers happen to produce (diversity forced by seeds/phase settings and a second solver). The get-value text layer is C14's subject. The PDR conversation before the restart is the oracle of C10 (no hypothesis on it is needed for the witness theorems); that the solver after restart() depends only on the script it is given since is the modelling assumption of Model/PdrWit.v.",
)
