"""C03 — every reported counterexample is a real execution that hits a bad state."""
HANDLER = "C03"
RULE = ("the systems of C02 that have a counterexample within the bound (others are discarded), each run under all four solver profiles "
        "with random checking mode and simplification plus two more z3-backed runs, under z3 model-diversity settings that change every "
        "25 systems (smt.random_seed / sat.random_seed / smt.phase_selection / sat.phase through the shims' command line) and cvc5. "
        "Every Fail(witness) is (a) checked by the extracted check_witness against the ORIGINAL system, (b) replayed through "
        "patronus::sim::Interpreter by the harness (bit-vector systems). distinct = distinct (system, bound) pairs; the evidence counts "
        "witnesses and distinct witnesses per system in the per-case detail")
ASSUMPTIONS = [
    "the witness format has no values for states WITHOUT a next function at steps > 0 (the encoding leaves them free at every step): "
    "witness_ok asks for SOME choice of these values; the simulator replay is skipped for such systems when it disagrees",
    "Interpreter::set takes bit-vectors only: systems with an array state are replayed by the Coq checker only",
    "model parsing (get-value responses) is exercised end to end only; its correctness is C14's subject",
]
TRUSTED = ["ocaml/driver/c03.ml + c00mc.ml: conversion of the dumped witness into the Coq record"]


def streams(tier, seed):
    if tier == "quick":
        return [dict(tag="main", count=40, seed=seed)]
    return [dict(tag="main%d" % k, count=120, seed=seed * 1000 + k, extra={"child-runs": 2}) for k in range(3)]


def search_streams(tier, seed, diffs):
    return [dict(tag="search%d" % k, count=200, seed=seed * 7919 + k) for k in range(3)]


MANIFEST = dict(
    level_text="Theorems (Coq): C03_bmc_witness_is_execution - for every system in the domain of C04_script3_wf (well-formed, distinct inputs, acyclic init dependencies), every bound and both checking modes, if the model of bmc.rs + get_witness over a solver whose sat answers come with a model returns Fail w, then w's step-0 valuation is initial and the run through w's inputs has k <= k_max steps, satisfies all constraints at every step and has EXACTLY the reported bad states at its last step; C03_bmc_witness_accepted, C03_bmc_witness_shortest (least depth under a complete solver); C03_check_witness_correct (the executable checker decides witness_ok for ALL well-formed systems and witnesses), C03_accepted_witness_is_execution. Tie to /repo: every Fail witness of the real patronus::mc::bmc / pdr (four solver profiles, z3 model-diversity settings, cvc5) is checked by the extracted check_witness, replayed in the interpreter, and the recorded get-value calls must equal the model's query list and yield the same witness.",
    level_note="Trusted: Coq kernel; the solver is a Section hypothesis (sat answers come with a model of the asserted script) in C03_bmc_witness_is_execution; in the tie the witnesses are those the installed solvers happen to produce (diversity forced by seeds/phase settings and a second solver). PDR's witness path, the get-value text layer (C14) and check_constraints=true/Unknown are not modelled.",
)
