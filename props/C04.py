"""C04 — the unrolled SMT encoding is well-formed and faithful to the system."""
# "C04"  compares the implementation with the model of encoding.rs as it is today (variant Current);
# "C04F" compares with the model of the repaired code (variant Fixed): switch after the fix commit.
HANDLER = "C04F"
RULE = ("generated transition systems (1-3 bit-vector states of width 1-4, optional array state with 1-2 index bits, 0-2 inputs; states "
        "with/without init, with/without next, constant states; 1-3 shared sub-terms each planted into a chosen subset of "
        "{init, next, bad/constraint} expressions; init expressions reading earlier (rarely: later) states; bad states/constraints that are a "
        "bare input, a bare state, a literal, or equal to each other; repeated next roots; named signals; counters) plus four directed "
        "systems, each unrolled from BOTH entry points: init_at(0); unroll^n (n = 0..3) and init_at(j); unroll^n (j = 1..3, n = 0..2). "
        "Per case: the command stream recorded from the real UnrollSmtEncoding by a recording SolverContext, the signal order and use "
        "counts of analyze_for_serialization, get_signal_at of every state/input/constraint/bad state at every step, the SMT-LIB text "
        "(patronus' serialize_cmd; every 10th case additionally through the real SmtLibSolverCtx + replay file) fed to z3 and cvc5, and "
        "three random executions; for the first of them z3 also evaluates the REAL SMT-LIB text (declared constants pinned to the run, "
        "get-value of the step symbols) and the values are compared with the execution. Shapes added after seeded escapes: delay registers "
        "(init == next, a state or an input expression), a shared operand before a dependent shared operand. "
        "distinct = distinct (system, entry, depth) triples")
ASSUMPTIONS = [
    "the Gallina model Model/Analysis.v + Model/Encoding.v mirrors analysis.rs / encoding.rs (hand-written; tied by differential execution: "
    "signal order, use counts, per-block command multisets, get_signal_at)",
    "node identity in the expression store is modelled by structural equality of trees (property C12)",
    "the default name __n<index> of an unnamed signal is taken from the implementation (the store index is not modelled); the theorems "
    "assume that signal/state names are pairwise distinct and contain no '@'",
    "bodies of define-fun commands are compared as expression trees; their SMT-LIB text is the subject of C05; here it is fed to z3/cvc5 "
    "for acceptance and, for one run per case, evaluated by z3 (bit-vector step symbols only; array-valued symbols are not read back)",
    "cvc5 refuses ((as const ..) t) for a non-value t: such scripts are judged by z3 and the strict checker only",
]
TRUSTED = ["ocaml/driver/c04.ml: classification of a strict-check failure into a stable key; construction of the base valuation from the "
           "implementation's get_signal_at table",
           "z3 4.8.12 / cvc5 1.0.3 as independent third check of script acceptance"]


def streams(tier, seed):
    if tier == "quick":
        return [dict(tag="main", count=60, seed=seed)]
    return [dict(tag="main%d" % k, count=600, seed=seed * 1000 + k, extra={"real-every": 40}) for k in range(4)]


def search_streams(tier, seed, diffs):
    return [dict(tag="search%d" % k, count=300, seed=seed * 7919 + k, extra={"real-every": 0}) for k in range(3)]


MANIFEST = dict(
    level_text="Theorems (Coq, ALL well-formed systems / depths / both entry points init_at(0) and init_at(j>0)): C04_script3_wf (the script the code in /repo emits - lazy init-signal definitions, init states in dependency order - passes the strict checker for EVERY system whose init dependencies are acyclic: every name introduced once, before use, bodies well-sorted), C04_script3_faithful (whenever the script is accepted, evaluating it from a valuation taken from a run of the system gives every step symbol the value of its signal in the run), C04_script3_covers_script2, the same pairs for the two earlier repair stages (script2, script Fixed) and three C04_*_refuted theorems with concrete systems on which the OLDER scripts are ill-formed. Tie to /repo: the recorded commands of the real UnrollSmtEncoding are compared IN ORDER with the model's, checked by the extracted strict checker, evaluated against executions, and the real SMT-LIB text is evaluated by z3 with pinned constants.",
    level_note='Trusted: Coq kernel; hand-written model tied by differential execution (generator-bounded, in-order comparison of the init block with the model); node identity = structural equality (C12); names of unnamed signals taken from the implementation. Three encoding defects found by this check are repaired in /repo (bb18215, 62ef644, 264fc0d; the older scripts keep their _refuted theorems); open finding: cyclic init dependencies.',
)
