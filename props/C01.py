"""C01 — simplification never changes the meaning or type of an expression."""
HANDLER = "C01"
RULE = ("50% typed random expression trees (depth 1..4, all 35 node kinds incl. arrays and div/rem) and 50% rule-directed instances: "
        "the left-hand shape of every arm of every rewrite rule of simplify.rs (64 shapes: ite, eq incl. concat split, and/or/xor incl. "
        "concat-mask and mask expansion with multi-run masks, uge on literals (often equal, multi-word), not, zext/sext, concat (4 arms), "
        "slice of slice/literal/concat/sext/ite/not/neg/and/or/xor/add/sub/mul, shifts by constants below/at/above the width and >= 2^32 / 2^64, "
        "add, mul incl. powers of two and 129-bit literals, implies), 1/3 wrapped in a random context; widths 1..8,16,31..33,63..65,127..129. "
        "distinct = distinct input trees. Oracle per case: implementation's own type_check on every node of the result, extracted wt, "
        "same type, and ebv/earr equality under all assignments when the symbols total <= 10 bits, else 24 corner/random assignments")
ASSUMPTIONS = [
    "Model/Simplify.v mirrors simplify.rs + transform.rs (hand-written; the implementation's result tree must equal the model's exactly on every generated case)",
    "ExprRef equality is structural equality (property C12)",
    "widths and their sums fit in WidthInt (u32 overflow not modelled); assert!(hi >= lo) in Context::slice not modelled",
]
TRUSTED = ["the soundness oracle in ocaml/driver/c01.ml evaluates the extracted ebv/earr (Spec/Eval.v) on the implementation's input and output trees"]

MANIFEST = dict(
    level_text=("Theorems C01_rule_sound, C01_rebuild_sound, C01_simp_sound (Coq, axiom-free): every rewrite rule of the model of simplify.rs "
                "(all arms incl. mask expansion, concat splits, slice push-down, shifts by any constant) and the fixed-point driver preserve "
                "well-typedness, type and value under every assignment, for all widths and all expressions. Tie: the extracted driver must "
                "return exactly the tree the real simplify_single_expression returns, on ~10^4 random + rule-directed inputs per run, and the "
                "extracted evaluator checks the implementation's output against its input."),
    level_note=("Trusted: Coq kernel, the hand-written model (tied by exact-result differential execution), extraction, generators. Three defects "
                "found by this check were repaired in /repo (shift amounts >= 2^32, unsigned >= on equal multi-word literals); two baa panics are recorded findings."),
)


def streams(tier, seed):
    if tier == "quick":
        # "wide": values of three and more words (whole-word shift amounts that are not powers of two, masks that cross two word
        # boundaries); added with the C06 stream of the same name after seeded change C06-m7
        return [dict(tag="main", count=8000, seed=seed), dict(tag="small", count=2000, seed=seed + 1, extra={"widths": "1,2,3,4"}),
                dict(tag="wide", count=1500, seed=seed + 5, extra={"widths": "1,8,64,65,129,191,192,193,200,255,256,257"})]
    out = [dict(tag="main%d" % k, count=25000, seed=seed * 1000 + k) for k in range(12)]
    out.append(dict(tag="small", count=40000, seed=seed + 1, extra={"widths": "1,2,3,4"}))
    out.append(dict(tag="wide", count=30000, seed=seed + 5, extra={"widths": "1,8,64,65,129,191,192,193,200,255,256,257"}))
    out.append(dict(tag="directed-only", count=40000, seed=seed + 2, extra={"directed": "100"}))
    return out


def search_streams(tier, seed, diffs):
    return [dict(tag="search%d" % k, count=30000, seed=seed * 7919 + k) for k in range(4)]
