"""C15 — solver faults surface as errors, never as verdicts or hangs."""
HANDLER = "C15"
RULE = ("the real bmc()/pdr() on small transition systems (2 hand-written + sysgen-generated; 1-3 states, widths 1-3, optional array state; "
        "k_max 1-3; check_constraints / check_bad_states_individually varied) talking to z3 through the fault-injecting proxy solver-shim; "
        "EVERY response point of the fault-free conversation (each check-sat, check-sat-assuming, get-value, get-unsat-assumptions; PDR "
        "conversations longer than the cap are sampled: first/last points, every point kind, random rest) x every PRIMARY fault kind "
        "((error \"..\") with message lengths 0,1,5,6,7,8,20,200; unknown; empty line; opened reply then end of stream; exit 0; exit 1; garbage; "
        "correct reply split over lines) and the SECONDARY kinds (9 more garbage shapes, padded reply, reply-then-exit 0/1, error-then-exit, "
        "truncated variants, messages with quotes / non-ASCII / '(' inside, unknown-then-open-text) at every point (thorough) or at one point per "
        "point kind (quick).  Each run is one worker process under a progress watchdog (CPU burnt after the solver is gone = spinning; no reply "
        "and no CPU anywhere = blocked).  distinct = distinct (system, engine, point, fault, observed bytes, outcome) lines; every case is "
        "non-trivial: the implementation ran and the extracted model was run on the bytes the client could read.  "
        "PDR (both generalisation modes: with and without unsat cores) on four hand-written systems (3 unsafe, 1 safe): the byte-level kinds "
        "unknown / error:20 / garbage:0 at EVERY response point, and CONTEXT-LEVEL faults at every point: a wrapper SolverContext around the real "
        "context answers Ok(CheckSatResponse::Unknown) to the k-th check, resp. returns Err from the k-th response-bearing call (also for every BMC "
        "point); oracle there: error, Unknown verdict or the verdict of the fault-free run - never the opposite verdict, never a panic; counts in "
        "stats: pdr-full-enumeration, pdr-check-points-answered-unknown-by-the-context, ctx-fault-x-nominal-x-outcome")
ASSUMPTIONS = [
    "Model/SolverIO.v mirrors solver.rs read_response/read_sat_response/write_cmd/Drop and bmc.rs' conversation (hand-written; tied by running "
    "the extracted model on the byte transcript of every run); which reader variant mirrors /repo is ONE constant, repo_reader in "
    "ocaml/driver/c15.ml: Fix (continuation lines joined with an extra blank; /repo today) or Fix2 (/repo after patches/0019)",
    "the S-expression parser (smt/parser.rs, property C14) is a parameter of the model: accepts/rejects; in the driver a small recognizer of "
    "((term value)) / (term*) replies stands in for it",
    "a LIVE solver that has written a lexically incomplete reply (open parenthesis outside literals, unterminated string literal) and then "
    "stays silent keeps the reader waiting: accepted (C15_blocked_only_on_open_reply shows it is the only way the repaired reader blocks); "
    "every other hang is a violation",
    "solver output is valid UTF-8 and has no non-ASCII white space at the ends of a reply (Rust's read_line/trim would differ from the byte model)",
    "process-level facts are inputs of the model (what try_wait observes, whether a write hits a closed pipe); the shim makes them deterministic "
    "(it exits BEFORE the last bytes reach the client)",
    "context-level faults (Ok(Unknown) / Err returned by a SolverContext method) have no Coq model behind them: the real SmtLibSolverCtx never "
    "returns Ok(Unknown) (C15_never_unknown), so pdr.rs' Unknown arms are reachable only through another SolverContext; they are checked by the "
    "oracle alone, and a run that ends with the fault-free verdict after an Unknown answer is accepted (conservative handling is legitimate)",
    "PDR, byte level: only the faulty call is run through the byte-level model (pdr.rs propagates every error with `?`).  PDR, algorithm level: "
    "the concrete model Model/PdrImpl.v (tied to pdr.rs by ./check C10, trace hook) has the fault theorems C15_pdr_model_* (an error answer / a "
    "failing command / an unknown answer at ANY position of a run; a verdict rests on intact answers only); its oracle abstracts the solver "
    "context, so these theorems and the byte-level ones meet at the SolverContext interface (Err / Ok(Unknown) / Ok(answer))",
    "faulty runs reuse the recorded replies of the fault-free run while the command stream is byte-identical (1 in 10 runs uses a live z3 throughout)",
]
TRUSTED = ["harness/src/bin/solver-shim.rs (fault injection, transcript log) and the watchdog in harness/src/c15.rs",
           "ocaml/driver/c15.ml: the property oracle (class of the outcome, message comparison) is hand-written OCaml"]


def streams(tier, seed):
    if tier == "quick":
        return [dict(tag="main", count=5, seed=seed, extra={"tier": "quick", "pdr-cap": 3, "full-limit": 40, "jobs": 8})]
    out = []
    # 40 systems: 24 with every fault kind at every BMC point, 16 (8 of them against cvc5) with the secondary kinds rotating
    for k in range(3):
        out.append(dict(tag="z3-%d" % k, count=8, seed=seed * 100 + k,
                        extra={"tier": "thorough", "pdr-cap": 10, "full-limit": 80, "jobs": 10, "live-every": 40, "secondary-bmc": "all", "secondary-pdr": "rotate"}))
    out.append(dict(tag="z3-3", count=8, seed=seed * 100 + 3,
                    extra={"tier": "thorough", "pdr-cap": 10, "full-limit": 80, "jobs": 10, "live-every": 40, "secondary-bmc": "rotate", "secondary-pdr": "rotate"}))
    out.append(dict(tag="cvc5", count=8, seed=seed * 100 + 7,
                    extra={"tier": "thorough", "solver": "cvc5", "pdr-cap": 10, "full-limit": 80, "jobs": 10, "live-every": 40, "secondary-bmc": "rotate", "secondary-pdr": "rotate"}))
    return out


def search_streams(tier, seed, diffs):
    return [dict(tag="search", count=6, seed=seed * 7919 + 1, extra={"tier": "quick", "pdr-cap": 8, "jobs": 8})]


MANIFEST = dict(
    level_text=("Coq theorems about the byte-level model of SmtLibSolverCtx (all streams, all messages, all client programs): the repaired reader "
                "always returns (C15_read_total), sat/unsat only for an exact line (C15_sat_only_on_exact), error messages unmangled "
                "(C15_error_unmangled, _plain), blocks only on an open reply of a live solver (C15_blocked_only_on_open_reply), every client that propagates with `?` - BMC in particular - returns the first failure and a verdict only "
                "from intact replies (C15_bmc_propagates); the ORIGINAL reader is refuted on all three counts with concrete streams "
                "(C15_read_total_refuted, C15_error_unmangled_refuted).  Reader variant Fix2 (= Fix without the blank pushed before every "
                "continuation line, patches/0019): all of the above restated (C15_fix2_*), plus C15_error_unmangled_multiline - an error reply whose "
                "message spans several lines (any bytes but the double quote), split into lines in any way, is reported with exactly its message - "
                "which is refuted for Fix by a two-line reply (C15_error_unmangled_multiline_refuted).  PDR: over the concrete model of pdr.rs "
                "(Model/PdrImpl.v) an error answer or a failing command at ANY position of a run is the run's result, an unknown answer to "
                "get_bad_cube / fix_gen_cube queries likewise, and a run that returns a verdict consulted only intact answers "
                "(C15_pdr_model_error_any_position, _cmd_failure_any_position, _unknown_any_position, _verdict_intact, _log_complete; "
                "C15_pdr_model_propagates, _unknown).  Tie to /repo: real bmc()/pdr() runs against z3 behind a fault-injecting "
                "proxy, every response point x every fault kind, compared with the extracted model on the recorded bytes."),
    level_note="Trusted: Coq kernel; hand-written model tied by differential execution; shim + watchdog + OCaml oracle. Repaired in /repo through this check: spin on end-of-stream inside an open reply, error-message slice panics/mangles, '(' inside a message blocks, parser todo!s, unknown answers in bmc. the blank inserted after every line break of a multi-line reply (/repo 343f88a, model variant Fix2 = /repo). No open finding. Blocking on a LIVE solver whose reply is lexically open is the documented behaviour (C15_blocked_only_on_open_reply).",
)
