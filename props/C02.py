"""C02 — bounded model checking returns the exact verdict up to the bound."""
HANDLER = "C02"
RULE = ("generated transition systems (1-3 bit-vector states of width 1-4, optional array state with 1-2 index bits and 1-2 data bits, 0-2 "
        "inputs; at most 8 state bits and 4 input bits; with/without init, with/without next, constant states, counters and delay "
        "latches for deep counterexamples, 1-3 bad states, 0-2 constraints, sub-terms shared between init/next/bad/constraint "
        "expressions) x bound k in 1..8 x the four solver capability profiles (z3, cvc5; bitwuzla and yices-smt2 = z3 behind "
        "harness/shims) x {bad states checked individually, jointly} x {raw, simplified with simplify_expressions}: per system one run "
        "per profile with random mode/simplification, the real patronus::mc::bmc through the real SmtLibSolverCtx text protocol. "
        "Reference: extracted bmc_spec (explicit-state breadth-first search) on the same system and bound; also on the simplified "
        "system. Plus, per system, one run of bmc with check_constraints=true on z3 (random mode): expected = Fail at the same depth, "
        "Success only if the constraints stay satisfiable up to every step <= k, otherwise the assert_eq! panic at exactly the step "
        "from which no execution satisfies the constraints (C02_bmc_full_exact; the step is computed by the driver from the fronts of "
        "bmc_spec); a third of the systems get a constraint under which the executions die out (s != v, s < v, or a counter dc < v). "
        "distinct = distinct (system, bound) pairs")
ASSUMPTIONS = [
    "the solvers (z3 4.8.12, cvc5 1.0.3) answer sat/unsat correctly; two independent solvers must agree with the reference",
    "bitwuzla and yices-smt2 are not installed: their capability profiles are exercised with z3 behind a filter that drops the "
    "solver-specific option/command line and widens the logic QF_ABV to ALL (harness/shims)",
    "most runs share one solver process per profile (each run bracketed by push/pop, the repeated set-logic swallowed); every 12th run "
    "uses a fresh process exactly as the library does",
    "cvc5 exits after its first error and the library then spins (C15): runs that z3 shows to produce an ill-formed script are executed "
    "with cvc5 only in a time-limited child process (3 per stream), the remaining ones are reported as not run",
    "systems larger than 2^15 valuations per step are not compared",
]
TRUSTED = ["ocaml/driver/c02.ml: constraints_dead_at (first step without a constrained execution, from the extracted fronts; not proved equal to ~exec_at)",
           "ocaml/driver/c02.ml: comparison of verdict and counterexample length; attribution of a solver error to a C04 defect class by "
           "running the extracted strict checker on the model's script"]


def streams(tier, seed):
    if tier == "quick":
        return [dict(tag="main", count=80, seed=seed)]
    return [dict(tag="main%d" % k, count=200, seed=seed * 1000 + k, extra={"child-runs": 4}) for k in range(4)]


def search_streams(tier, seed, diffs):
    return [dict(tag="search%d" % k, count=300, seed=seed * 7919 + k) for k in range(3)]


MANIFEST = dict(
    level_text=("Theorems (Coq): C02_bmc_spec_exact / _exact_range / _complete / _verdict: the explicit-state reference bmc_spec returns the "
                "least depth <= k at which a constrained execution from an initial valuation is in a bad state, None if there is none - for "
                "ALL well-formed systems (array states compared with their init on the index range; executions of Spec/System.v when no "
                "array state has an init). Algorithm layer (Model/Bmc.v = the loop of bmc.rs over an abstract correct solver, tied to the "
                "real loop by a recording solver): C02_bmc_model_exact (unless get_signal_at panics, the loop answers Fail j exactly when j is "
                "the least depth <= k_max with a reachable bad state and Success exactly when there is none; repaired encoding, init "
                "expressions in the class the encoding handles), C02_bmc_model_is_spec (= bmc_spec), C02_bmc_modes_agree (individual = "
                "joint checking), C02_bmc_no_missed_counterexample. Uses C04's well-formedness and faithfulness theorems and their converse "
                "(every model of the definitions is an execution, Proofs/BmcSound.v). "
                "The WHOLE of bmc() (Model/BmcWitFull.v, all parameters): C02_bmc_full_exact - under a solver that is truthful on sat and "
                "unsat and never says unknown or fails, for check_constraints on/off, both modes, k_max <= 2000: Fail j w iff j is the least "
                "depth <= k_max with a reachable bad state, Success iff there is none (and, with check_constraints, the constraints are "
                "satisfiable up to every step), FPanic iff check_constraints is on and the constraints are unsatisfiable up to some step "
                "with no bad state reachable before (the assert_eq!), never Unknown/Err; C02_bmc_full_fail_iff_reachable, "
                "C02_bmc_full_modes_agree, C02_bmc_full_check_constraints_panic_iff, C02_bmc_full_fail_independent_of_check_constraints "
                "(hypothesis: get_signal_at does not panic on constraints and bad states up to the bound - a computation). "
                "Tie to /repo: verdict and counterexample length of the real patronus::mc::bmc with real solvers (four capability "
                "profiles, both modes, raw/simplified) vs the extracted bmc_spec on every run."),
    level_note='Trusted: Coq kernel; SMT solvers assumed correct (Section hypothesis in the algorithm-layer theorems; two real solvers must agree with the explicit-state reference in the tie); oracle runs only on systems with <= 2^15 valuations per step. Repaired in /repo through this check: the three C04 encoding defects, bmc(k_max = 0) panic. Recorded finding (key panic:check-constraints:unsatisfiable-constraints): bmc(.., check_constraints=true, ..) panics with assert_eq!("Found unsatisfiable constraints in cycle j") instead of returning the verdict Success that the same call gives with check_constraints=false - reproduced on the real code exactly where the model predicts it. Open findings: cyclic init dependencies (solver rejects the script), cvc5 refuses (as const ..) of a non-value.',
)
