"""C17 — the cone of influence is sufficient and syntactically tight."""
HANDLER = "C17"
RULE = ("random transition systems from two generators (sysgen::gen_sys with 1..6 states / 0..4 inputs / depth 1..3, and a sparse generator "
        "with 2..8 states, 0..4 inputs and shallow next/init functions so that cones are proper subsets and next/init chains are long); "
        "states with init+next / next only / init only / neither / constant (next = own symbol); array states; init functions reading "
        "earlier, later and the own state; all 35 expression constructors occur as roots (division family in 1/3 of the gen systems, ArrayEqual in the sparse ones; histogram root_op); twists: a symbol that is neither input nor state used in outputs and next functions (1/4), a "
        "symbol with the name of a state but another width or an array type (1/8), wide values 8..65 bits (1/10), a symbol that is input and state (1/10), two states with one symbol "
        "(1/12, outside the property's domain: model-vs-implementation only). Roots: EVERY expression of the system and every "
        "sub-expression, plus a literal, the foreign symbols and a fresh combination of two system symbols; each root x the 3 variants. "
        "Oracle: 3 trials per system of (1 start + 3 step) valuations and as many alternative valuations; all input/state symbols outside "
        "the implementation's cone are replaced by the alternative values, the root is re-evaluated in the extracted reference semantics. "
        "distinct = distinct (system, root) pairs whose full cone is not empty")
ASSUMPTIONS = [
    "the Gallina worklist Model/Coi.v mirrors patronus/src/system/analysis.rs:80-130 (hand-written; tied by differential execution on the generated cases, compared as sets of symbols)",
    "ExprRef equality is structural equality of expression trees (property C12)",
    "the semantics of transition systems is Spec/System.v (init_seq / next_env / run_from) over Spec/Eval.v",
    "domain of the sufficiency and tightness theorems: no two states of the system share a symbol (states_distinct); nothing else (no typing assumption)",
]
TRUSTED = ["ocaml/driver/c17.ml: comparison as sorted sets, evaluation of the extracted perturbation oracle on the implementation's cone"]


def streams(tier, seed):
    if tier == "quick":
        return [dict(tag="main", count=12000, seed=seed)]
    out = []
    for k in range(10):
        out.append(dict(tag="main%d" % k, count=30000, seed=seed * 1000 + k))
    out.append(dict(tag="more-trials", count=20000, seed=seed + 77, extra={"trials": 10}))
    return out


def search_streams(tier, seed, diffs):
    return [dict(tag="search%d" % k, count=20000, seed=seed * 7919 + k, extra={"trials": 8}) for k in range(3)]


MANIFEST = dict(
    level_text=("Theorems C17_* (Coq; all systems, roots, valuations, run lengths): the worklist model of cone_of_influence{,_init,_comb} always "
                "terminates within its fuel, reports exactly the input/state symbols syntactically reachable from the root through children and the "
                "variant's init/next links (only inputs/states, tight, no duplicates), and is sufficient: two runs of Spec/System.v that agree on "
                "the cone (and on symbols foreign to the system) give the root the same value - in the current valuation (comb), after init_seq "
                "(init), at every step (full). Tie to /repo: the extracted model and the three real functions run on every expression of "
                "generated systems on every run; the perturbation oracle is evaluated on the implementation's own cones."),
    level_note=("Trusted: Coq kernel; hand-written model tied only by differential execution (generator-bounded); Spec/System.v as the semantics. "
                "Domain: distinct state symbols. No defects found."),
)
