"""C12 — expression references are canonical and stable (patronus::expr::Context)."""
HANDLER = "C12"
RULE = ("random construction histories on one fresh Context::default(): every public builder of context.rs (symbols, string, symbol(name), "
        "bv_lit / lit / bit_vec_val / zero / one / ones / zero_array / lit(array value), all operators incl. the normalising slice / "
        "zero_extend / sign_extend / extend, xor3, majority, distinct, array store / const / read, get_true / get_false), 1/6 through "
        "Context::build(Builder); 1/4 of the calls re-issue an earlier call verbatim (rebuilds after up to 10^5 intervening insertions in the "
        "thorough tier); literal widths 1..8,16,31..33,63..65,100,127..129,192,193,256,300 with the SAME (width, value) reached by up to 33 "
        "computations (from_u64/u128/i64/bytes/hex, add, sub, and, or, xor, not, neg, concat, slice, zext, sext, shl, lshr, ashr, mul, array "
        "select, bit setting, patronus' own evaluator and constant folder on random operators); a share of ill-typed and forged-reference "
        "calls (panics are part of the compared behaviour, the history goes on after a caught panic). distinct = distinct histories")
ASSUMPTIONS = [
    "the Gallina model Model/Context.v mirrors patronus/src/expr/context.rs, nodes.rs (is_true/is_false), types.rs (get_type) and "
    "baa::ValueInterner (hand-written; tied by differential execution: every returned reference, the whole final table incl. interner indices)",
    "indexmap::IndexSet is modelled as 'index of the first equal element, else append'; std HashMap as an association list",
    "dev profile (debug assertions and overflow checks on); indices are unbounded in the model (no `as u32` truncation at 2^32 entries)",
    "lit(array value) is compared up to the order in which the implementation stored the non-default entries (a HashMap iteration order): "
    "the model is given the observed order, which must be a permutation of the input value's entries",
    "literal values reach bv_lit with canonical words (unused high bits zero): hypothesis of C12_lit_canonical, checked on every generated literal",
]
TRUSTED = ["ocaml/driver/c12.ml: S-expression <-> model data conversion, the 'same call text => same result' table, and the labelling of a "
           "failure as noncanonical-literal-words:<route> (only when the literal's dumped words differ from the canonical words of their value)",
           "harness/src/c12.rs reads interner and string indices off the Debug output of Expr / StringRef (the fields are private)"]


def streams(tier, seed):
    if tier == "quick":
        return [dict(tag="short", count=1500, seed=seed, extra={"minlen": 10, "maxlen": 300, "ill": 60}),
                dict(tag="medium", count=40, seed=seed + 1, extra={"minlen": 1000, "maxlen": 3000, "ill": 20}),
                dict(tag="long", count=2, seed=seed + 2, extra={"minlen": 8000, "maxlen": 10000, "ill": 5})]
    out = []
    for k in range(6):
        out.append(dict(tag="short%d" % k, count=4000, seed=seed * 1000 + k, extra={"minlen": 10, "maxlen": 400, "ill": 60}))
    out.append(dict(tag="medium", count=300, seed=seed + 1, extra={"minlen": 1000, "maxlen": 4000, "ill": 20}))
    out.append(dict(tag="long", count=10, seed=seed + 2, extra={"minlen": 10000, "maxlen": 30000, "ill": 5}))
    out.append(dict(tag="huge", count=1, seed=seed + 3, extra={"minlen": 100000, "maxlen": 100000, "ill": 2}))
    return out


def search_streams(tier, seed, diffs):
    return [dict(tag="search%d" % k, count=3000, seed=seed * 7919 + k, extra={"minlen": 10, "maxlen": 300, "ill": 60}) for k in range(3)]


MANIFEST = dict(
    level_text=("Theorems in Coq over ALL construction histories (induction over the list of calls): references are canonical "
                "(same node <=> same reference; same resolved structure => same reference; the same call returns the same reference "
                "and changes nothing; every returned reference denotes the requested expression), stable (node, type, symbol name, "
                "literal value of an existing reference never change), true/false are references 1/0 and is_true/is_false agree with "
                "the literal value, equal canonical (width, value) pairs intern identically; the extracted property oracle is passed by "
                "the model on every history. Tie to /repo: the extracted model predicts the exact ExprRef of every call; compared on every run."),
    level_note=("Trusted: Coq kernel; hand-written model tied by differential execution (generator-bounded); indexmap/HashMap internals "
                "abstracted; u32 index truncation not modelled. One patronus defect found and fixed (/repo 42f7f06: literals folded/evaluated "
                "from whole-word left shifts interned apart from the canonical literal); two baa dependency defects recorded as findings."),
)
