"""C13 — simplification is a terminating, idempotent, cache-transparent canonicaliser."""
HANDLER = "C13"
RULE = ("batches of 2..7 expressions (random + rule-directed, narrow per-batch width pool so that sub-terms are shared, later members built "
        "from earlier ones) fed in a random order to ONE Simplifier instance with a sparse cache and in reverse order to one with a dense cache; "
        "each result compared by reference with a fresh simplifier's result, with the re-simplified result, and as a tree with the cache-free "
        "model; then the extracted MEMOISING driver model (Model/SimplifyCache.v: work stack, persistent cache, get_fixed_point with pointer "
        "updates) is run on the same two histories and its per-member results and its FINAL CACHE (every key -> value entry, read from both "
        "instances through the cfg(patronus_verif) hook verif_cache_entries) must equal the implementation's (result key batch+cache; histories "
        "whose cache exceeds 6000 tree nodes are compared on results only, key batch); a 20 s watchdog per batch detects non-termination. "
        "distinct = distinct batches")
ASSUMPTIONS = [
    "termination is PROVED for the cache-free driver model (polynomial measure mu, strictly decreased by every rule) and transferred to the memoising driver "
    "model by the completeness theorem (C13_cached_complete); a watchdog still observes the real code; run time is not part of the statement",
    "cache transparency is PROVED for the memoising driver model (cache as a finite map; calls that return); the two cache containers are abstracted to that "
    "finite-map interface, their agreement (results and final contents) is compared on generated histories, not proved",
]
MANIFEST = dict(
    level_text=("Theorems in Coq: C13_simplifier_total (the whole property for the memoising driver model: for every well-typed expression without a product "
                "wider than 128 bits there is ONE well-typed equivalent fixed point r that the driver returns after ANY history with the same instance, "
                "and returns again for r itself), from C13_cached_complete / C13_cached_iff (memoising driver returns exactly when the cache-free one does), C13_simp_terminates (every well-typed expression: the driver model never runs out of fuel), C13_rules_decrease (measure), "
                "C13_simp_returns (a well-typed, equivalent fixed point is returned unless a product wider than 128 bits panics in baa), C13_simp_idempotent_partial / C13_simp_fuel_independent (results of the cache-free driver model are fixed points and unique), "
                "C13_cache_transparent, C13_history_transparent, C13_history_independent, C13_cached_idempotent (the memoising driver model of transform.rs/"
                "meta.rs - work stack, persistent cache, re-queuing, get_fixed_point with pointer updates - returns, after ANY history with the same instance, "
                "the cache-free result of the expression alone; invariant cache_inv holds for the empty cache and is preserved by every call). "
                "Tie: results AND final cache contents of real sparse/dense instances against the extracted model."),
    level_note="Full for the model (termination, idempotence, cache transparency, completeness); container difference (sparse/dense) and run time are outside the theorems (tested / not claimed).",
    category="proof",
)


def streams(tier, seed):
    if tier == "quick":
        return [dict(tag="main", count=8000, seed=seed),
                dict(tag="containers", count=2000, seed=seed + 7, extra={"mode": "containers"})]
    return ([dict(tag="main%d" % k, count=15000, seed=seed * 100 + k) for k in range(8)] +
            [dict(tag="containers%d" % k, count=12000, seed=seed * 100 + 50 + k, extra={"mode": "containers"}) for k in range(4)])
