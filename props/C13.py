"""C13 — simplification is a terminating, idempotent, cache-transparent canonicaliser."""
HANDLER = "C13"
RULE = ("stream main: batches of 2..7 expressions (random + rule-directed, narrow per-batch width pool so that sub-terms are shared, later members built "
        "from earlier ones) fed in a random order to ONE Simplifier instance with a sparse cache and in reverse order to one with a dense cache; "
        "each result compared by reference with a fresh simplifier's result, with the re-simplified result, and as a tree with the cache-free "
        "model; then the extracted MEMOISING driver model (Model/SimplifyCache.v: work stack, persistent cache, get_fixed_point with pointer "
        "updates) is run on the same two histories and its per-member results and its FINAL CACHE (every key -> value entry, read from both "
        "instances through the cfg(patronus_verif) hook verif_cache_entries) must equal the implementation's (result key batch+cache; histories "
        "whose cache exceeds 6000 tree nodes are compared on results only, key batch); a 20 s watchdog per batch detects non-termination. "
        "stream containers: random operation histories (4..60 operations; keys around 0, 63/64/65, 127/128, 191/192, 255/256, their neighbours, "
        "and now and then 511..4097 or 65535/65536/100000) on the REAL containers of patronus/src/expr/meta.rs, the same history through "
        "DenseExprMetaData and SparseExprMap (get, set Some/None, read through index_mut, iter, non_default_value_keys, into_vec, get_fixed_point "
        "on generated chains ending in a self link, a None entry, an unset key or a back edge) or through DenseExprSet and SparseExprSet "
        "(insert, remove, contains); every returned value and the final raw contents (dense vector, hash-map entries incl. default-valued "
        "ones, the 64-bit words, the hash-set members) must equal the extracted model Model/ExprMeta.v (key containers-map / containers-set), "
        "and the two containers must answer alike (oracle, key container-dependent; a panic: key container-panic). A get_fixed_point call whose "
        "chain runs into a cycle of length >= 2 is not made (the Rust loop would not terminate); the model must answer out-of-fuel there. "
        "distinct = distinct batches / distinct operation histories")
ASSUMPTIONS = [
    "termination is PROVED for the cache-free driver model (polynomial measure mu, strictly decreased by every rule) and transferred to the memoising driver "
    "model by the completeness theorem (C13_cached_complete); a watchdog still observes the real code; run time is not part of the statement",
    "cache transparency is PROVED for the memoising driver model keyed by expression trees (Model/SimplifyCache.v; calls that return)",
    "container irrelevance is PROVED: Model/ExprMeta.v models meta.rs (dense vector with resize on index_mut, hash map as an association list with "
    "entry().or_default(), 64-bit word sets, get_fixed_point with its two loops); both map containers refine one total map ExprRef -> T, both set "
    "containers one set incl. the returned booleans, get_fixed_point gives the same answer and the same map on either container, and the memoising "
    "driver written against the container interface (Model/SimplifyCacheRefs.v, ExprRef-keyed, interning table) returns the same results and leaves "
    "the same map with the dense, the sparse and the specification-level container on EVERY history (C13_container_irrelevant, C13_containers_refine_map)",
    "that Model/ExprMeta.v is what meta.rs does is tied by the containers stream on the real types (all of them are public; no hook needed; the word "
    "vector of DenseExprSet and the members of SparseExprSet are read from their derived Debug text)",
    "the ExprRef-keyed driver over a container (SimplifyCacheRefs.v: interning table, reference comparison, get_fixed_point of meta.rs) is PROVED to "
    "simulate the tree-keyed driver of SimplifyCache.v (C13_refs_driver_refines_tree_driver, C13_refs_call_refines_tree_call: interning is injective and "
    "stable, relation cache_rel preserved through chase / compress / visit / every step of the work-stack loop / every call), so termination, cache "
    "transparency and completeness transfer: C13_container_driver_total. The interning table here is append-on-first-sight; that the real Context "
    "numbers expressions injectively and stably is C12. The fuel of the model's get_fixed_point (stored slots + 2) is PROVED sufficient whenever the loops "
    "terminate (C13_get_fixed_point_fuel_suffices). The u32 range of ExprRef and allocation failure are outside the model",
]
MANIFEST = dict(
    level_text=("Theorems in Coq: C13_simplifier_total (the whole property for the memoising driver model: for every well-typed expression without a product "
                "wider than 128 bits there is ONE well-typed equivalent fixed point r that the driver returns after ANY history with the same instance, "
                "and returns again for r itself), from C13_cached_complete / C13_cached_iff (memoising driver returns exactly when the cache-free one does), C13_simp_terminates (every well-typed expression: the driver model never runs out of fuel), C13_rules_decrease (measure), "
                "C13_simp_returns (a well-typed, equivalent fixed point is returned unless a product wider than 128 bits panics in baa), C13_simp_idempotent_partial / C13_simp_fuel_independent (results of the cache-free driver model are fixed points and unique), "
                "C13_cache_transparent, C13_history_transparent, C13_history_independent, C13_cached_idempotent (the memoising driver model of transform.rs/"
                "meta.rs - work stack, persistent cache, re-queuing, get_fixed_point with pointer updates - returns, after ANY history with the same instance, "
                "the cache-free result of the expression alone; invariant cache_inv holds for the empty cache and is preserved by every call). "
                "Cache containers (model of meta.rs, Model/ExprMeta.v): C13_dense_map_refines, C13_sparse_map_refines (both refine one total map ExprRef -> T: "
                "empty, store, read through index_mut, iter, into_vec, non_default_value_keys), C13_dense_set_refines, C13_sparse_set_refines (one set, incl. the "
                "returned booleans; shifts and masks on 64-bit words), C13_get_fixed_point_container_irrelevant, C13_get_fixed_point_fuel_monotone, "
                "C13_container_irrelevant / C13_container_irrelevant_from / C13_containers_refine_map (the memoising driver over the container interface returns the same "
                "results and leaves the same map with the dense, the sparse and the specification-level container, on every history), "
                "C13_refs_driver_refines_tree_driver / C13_refs_call_refines_tree_call (the container-level, ExprRef-keyed driver returns exactly what the tree-keyed "
                "driver model returns and holds the same cache entries, on every history), C13_container_driver_total (C13_simplifier_total for an instance over any "
                "lawful container: ONE result after any history), C13_get_fixed_point_fuel_suffices. "
                "Tie: results AND final cache contents of real sparse/dense Simplifier instances against the extracted driver model; operation histories on the real "
                "containers of meta.rs against the extracted container model (every returned value, final raw contents)."),
    level_note="Full for the models, one chain of theorems from the rules to the driver over either cache container (termination, idempotence, cache transparency, completeness, container irrelevance); the real Context's numbering (C12) and run time are outside these theorems.",
    category="proof",
)


def streams(tier, seed):
    if tier == "quick":
        return [dict(tag="main", count=8000, seed=seed),
                dict(tag="containers", count=2000, seed=seed + 7, extra={"mode": "containers"})]
    return ([dict(tag="main%d" % k, count=15000, seed=seed * 100 + k) for k in range(8)] +
            [dict(tag="containers%d" % k, count=12000, seed=seed * 100 + 50 + k, extra={"mode": "containers"}) for k in range(4)])
