"""C13 — simplification is a terminating, idempotent, cache-transparent canonicaliser."""
HANDLER = "C13"
RULE = ("batches of 2..7 expressions (random + rule-directed, narrow per-batch width pool so that sub-terms are shared, later members built "
        "from earlier ones) fed in a random order to ONE Simplifier instance with a sparse cache and in reverse order to one with a dense cache; "
        "each result compared by reference with a fresh simplifier's result, with the re-simplified result, and as a tree with the cache-free "
        "model; a 20 s watchdog per batch detects non-termination. distinct = distinct batches")
ASSUMPTIONS = [
    "termination is OBSERVED under a watchdog, not proved (the full termination statement stays unproved; see Props/C13.v and DESIGN section 9)",
    "cache transparency is compared on generated batches, not proved: the theorems are about the cache-free driver model",
]
MANIFEST = dict(
    level_text=("Theorems C13_simp_idempotent_partial (results of the driver model are fixed points) and C13_simp_fuel_independent (the result is unique, "
                "independent of fuel) in Coq; termination and cache transparency are NOT proved (stated as such): they are checked by running one "
                "Simplifier instance (sparse and dense caches) over batches with shared sub-terms in random orders against fresh instances, the "
                "cache-free model and a watchdog."),
    level_note="Partial by design: proof covers idempotence/determinism of the model; termination and the memoising driver are tested only.",
    category="proof",
)


def streams(tier, seed):
    if tier == "quick":
        return [dict(tag="main", count=8000, seed=seed)]
    return [dict(tag="main%d" % k, count=15000, seed=seed * 100 + k) for k in range(8)]
