"""C14 — the SMT-LIB reader inverts the writer and reads solver model values correctly."""
HANDLER = "C14"
RULE = ("seven case kinds. rt (35%): the C05 expression generator (all operators, 1-bit/wider operands in every position, arrays with Bool index/data, "
        "name pools incl. quoted (also with spaces around keywords) / multi-byte UTF-8 (fixed and by page x low byte) / per-character names / simple names that "
        "begin with a literal, keyword or theory name (true_x, falsey, letx, _x), the real writer's text read back by the real parse_expr with the symbols of the "
        "expression, 2 assignments. text (25%): malformed variants of writer output (prefix at a random character / after a token, one parenthesis deleted, "
        "parenthesis inserted, extra ')' at the end, extra '(' at the start, junk suffix: token, string literal, open |quote, comment, decimal) through "
        "parse_expr, (1/6 of them) balanced terms with operands of every kind (1-bit, 4-bit, 8-bit, arrays, sorts, nested terms) under every operator and indexed operator the reader knows, ill-sorted except by chance, (1/4 of the rest) well-formed terms in forms the writer never emits: bvult / bvslt / distinct, three-argument and/or/xor/=/bvand/bvor/bvxor/bvadd/bvmul, nested single-binding lets, a let that shadows a declared symbol, multi-binding let, chained =>, a parenthesised term. val (15%): solver-style value texts from the grammar (#b, #x upper/lower case, true/false, (_ bvN w), store chains over "
        "((as const (Array ..)) v) with Bool or bit-vector index/data, nested single-binding lets) wrapped as get-value answers ((term value)) with "
        "malformed wrappers, read by SolverContext::get_value through a scripted solver process; in the solver streams the answers of real z3 / cvc5 "
        "get-value queries on generated expressions. cmd (12%): every SmtCommand through serialize_cmd and parse_command. script (8%): 1..4 command lines "
        "through read_command (comment / blank lines, a command split over two lines, truncated last command, missing final newline; 1/4 of the scripts "
        "declare or define ONE name twice, in two push/pop scopes at two sorts, and use it after each introduction; 1/4 declare / define symbols whose "
        "names consist of lexical delimiters - an odd number of double quotes, string-literal-like text, ';', parentheses, '#', line breaks and tabs inside |..| - "
        "and use them in later commands) with an end-of-input "
        "watchdog. gua (5%): get-unsat-assumptions answers through SolverContext::get_unsat_assumptions. distinct = distinct case lines")
ASSUMPTIONS = [
    "Model/SmtLex.v + Model/SmtParse.v mirror patronus/src/smt/parser.rs (lexer state machine, the stack machine of parse_expr_or_type with parse_pattern / "
    "bin_op / let scopes, the Context builders with their debug assertions, commands, responses, read_command on lines); tied by comparing result trees and "
    "Ok/Err/Panic/Hang classes with the real functions on every generated case",
    "the writer is the model of C05 (Model/SmtSer.v); the meaning of texts is the reference front end Spec/Smt.v",
    "the harness is built with debug assertions (cargo build): builder assertions are part of the observed behaviour",
    "get-value / get-unsat-assumptions answers with more '(' than ')' cannot be sent through the scripted solver (the reader blocks waiting for more lines): "
    "those texts are exercised through parse_expr only",
]
TRUSTED = ["ocaml/driver/c14.ml: text whose first complete S-expression is a correct answer followed by trailing material is accepted when the reader returns that answer; "
           "panics are keyed by what panicked (table from source location to class)",
           "the scripted solver (/bin/sh script written by the harness, found as `bitwuzla` through PATH)"]


def streams(tier, seed):
    if tier == "quick":
        return [dict(tag="main", count=12000, seed=seed),
                dict(tag="rt", count=12000, seed=seed + 1, extra={"only": "rt"}),
                dict(tag="solvers", count=600, seed=seed + 2, extra={"solver": "z3,cvc5", "only": "solverval"})]
    out = []
    for k in range(8):
        out.append(dict(tag="main%d" % k, count=30000, seed=seed * 1000 + k))
    for k in range(6):
        out.append(dict(tag="rt%d" % k, count=60000, seed=seed * 1000 + 100 + k, extra={"only": "rt"}))
    for k in range(2):
        out.append(dict(tag="text%d" % k, count=60000, seed=seed * 1000 + 200 + k, extra={"only": "text"}))
    out.append(dict(tag="cmd", count=60000, seed=seed * 1000 + 300, extra={"only": "cmd"}))
    out.append(dict(tag="script", count=30000, seed=seed * 1000 + 400, extra={"only": "script"}))
    for k in range(3):
        out.append(dict(tag="solvers%d" % k, count=3000, seed=seed * 1000 + 500 + k, extra={"solver": "z3,cvc5", "only": "solverval"}))
    return out


def search_streams(tier, seed, diffs):
    return [dict(tag="search%d" % k, count=20000, seed=seed * 7919 + k) for k in range(3)]


MANIFEST = dict(
    level_text='Theorems in Props/C14.v about the Gallina model of parser.rs (character-level lexer, token stack machine, check_operands), variant Fix2 = the reader in /repo: C14_never_panics / C14_parse_command_never_panics / C14_read_command_total / C14_get_value_never_panics / C14_unsat_assumptions_never_panics / C14_machine_never_panics (NO text makes the reader panic or spin: malformed input is an error), C14_parse_ser(_fix,_text) and C14_parse_cmd_ser(_fix), C14_cmd_read_back_fix (the reader inverts the writer on terms and commands, all names), C14_value_parse (solver value forms incl. arrays), C14_lex_print, C14_trailing_token_error; the _refuted theorems are about the readers before the repairs. Tie to /repo: the real parse_expr / parse_command / read_command / get_value / get_unsat_assumptions run on every generated case (writer output, solver values, truncations, unbalanced and balanced ill-sorted variants, delimiter-laden names, redeclare scripts) and are compared with the extracted model (trees and Ok/Err/Panic/Hang classes) and judged by the extracted reference front end.',
    level_note='Trusted: Coq kernel; Spec/Smt.v; hand-written model tied by differential execution. The reader violated the property on malformed input (panics, a hang) and on several writer outputs: all repaired in /repo (14 fix: commits, see patches/SMT-README.txt); the older readers keep their _refuted theorems; ocaml/driver/c05.ml code_variant = Fix2 mirrors /repo. Width arithmetic near 2^32 is outside the model. No open finding.',
)
