"""C10 — PDR verdicts are sound and definite, with genuine counterexamples."""
HANDLER = "C10"
RULE = ("generated bit-vector transition systems with at most 2^10 state valuations and at most 3 input bits, sixteen families "
        "(counters with enable/wrap/saturation/flags, shift registers with an input constraint, lock-step register pairs, one-hot rings, "
        "arithmetic progressions x' = x + c on 3..5 bits (c constant or chosen among 2/4 constants by an input; arbitrary reset and bad values: "
        "the family that drives fix_gen_cube's restore loop with several literals, histograms `trace_restore_loop`, `restore_core_2+_by_family`; "
        "it also has a stream of its own, `restore`, with generalisation on only), "
        "systems of the encoding properties' generator crate::c04::mcgen::gen_mc_sys (about a tenth: shared init/next/bad signals, init-dependency "
        "chains, delay registers, NAMED signals - the names travel with the case, field `named` -, constant states, bare inputs/literals as bad "
        "states; <= 6+3 state bits, <= 3 input bits, no arrays; histograms `mcgen_features`, `mcgen_named_signals`), "
        "explicit FSM tables, random next-state logic, states without init / without next / constant, init reading an earlier state, "
        "init reading an input (unsafe ones and SAFE ones whose state projection is spuriously unsafe), bad states that are dead ends under a "
        "state constraint, relational init (a state whose init reads a state without init), bad-state expressions reading an input that the "
        "constraints restrict); steered so that at most 40% are unsafe (least depth 0..14, spread over depth buckets) and at most 12% trivially safe, the rest "
        "safe with a property that is NOT inductive by itself (histograms `class`, `kind`); every system x {generalisation on, off} x "
        "{z3, cvc5, push/pop profile (patronus' YICES2 profile with z3 behind it; generalisation off only)} x solver seeds (wrapper scripts first on PATH add smt.random_seed/sat.random_seed/phase options) for systems with "
        "<= full-bits state bits (cvc5: <= cvc5-bits), z3 with generalisation only for the larger ones (histogram `config_set`); each run of the real patronus::mc::pdr in a child "
        "process under a 60 s watchdog; verdict compared with the extracted reach_spec; every Fail witness replayed in the extracted "
        "Spec/System.v semantics and through patronus::sim::Interpreter. STATE-LEVEL tie (when /repo has the cfg(patronus_verif) trace hook "
        "patches/0002-hook-pdr-trace.diff; harness/build.rs detects it): the hook records every solver query of pdr.rs with its answer "
        "(model / unsat core), every blocked cube and every new frame; the driver runs the extracted CONCRETE model Model/PdrImpl.v with the "
        "recorded answers as its oracle and compares query sequence (kind, frame, negated cube, TO_STEP literals), blocked cubes, frames, "
        "activation-literal ids and the verdict event by event (counters runs_with_trace, trace_*). ORACLE HYPOTHESIS TESTED: for systems with "
        "2*(state bits + input bits) <= 16 every recorded solver answer is checked with the extracted answer_ok (theorem "
        "C10_pdr_answer_check_exact: it decides `truthful`) over the explicit state-level semantics of Model/PdrSys.v for the query the MODEL "
        "asks at that point: a sat answer's cube must be a model of it, an unsat answer must be unsat for it restricted to its core "
        "(`answers_checked=` in the details; a violation is the diff key pdr-model:untruthful-answer) - this is what exposes defects in "
        "calls that are not trace events (permanent assertions, activation literals, frame encodings). FAULT runs (C15 on the real pdr): "
        "`faults` extra runs per system in which a wrapper around the solver context turns the n-th response-bearing call (check-sat, "
        "check-sat-assuming, get-value, get-unsat-assumptions; n random) into Err or into an `unknown` answer; the result must be that error / "
        "an error or Unknown, never a verdict computed after an error, and the recorded trace must be the model's run with AErr / AUnknown at "
        "that query (keys fault:*; histogram fault_runs). distinct = distinct (system, solver, mode, seed, fault)")
ASSUMPTIONS = [
    "three layers: Spec/ReachFix.v specifies the verdict, Model/Ic3.v the abstract logic, Model/PdrImpl.v is a concrete executable model of "
    "pdr.rs (frames with bookkeeping lists and asserted clauses, get_bad_cube, rel_ind + fix_gen_cube, block_cube, propagate, main loop, BMC "
    "fallback) over a solver oracle; the model is hand-written and tied to the code by event-by-event replay of the real solver's answers, "
    "not by a proof about the Rust source; the SMT encoding and the solver are abstracted into the oracle hypothesis (truthful answers)",
    "termination is proved FOR THE MODEL (Proofs/PdrTermination*.v), for a finite listed state space and a truthful oracle that never answers "
    "unknown / never fails: C10_pdr_block_loop_terminates (block_cube's obligation loop, measure (2N+3)*sum_k|F_k| + |queue| + 2*[frame of the "
    "smallest obligation if its state is still in its frame, else N+1]), C10_pdr_model_terminates(_sys) (every fuel above the computed bounds "
    "pdr_fuel_bound / pdr_block_fuel_bound gives a verdict: not Fuel, not Err, not a panic), C10_unknown_only_at_frame_limit(_sys) (Unknown only "
    "beyond MAX_FRAMES = 1000 frames, which needs >= 1000 state valuations because an unsuccessful propagation leaves a strictly increasing chain "
    "of frames, or when the BMC ORACLE gives up although a counterexample exists), C10_pdr_model_total_small(_sys) (2^bits + 1 <= 1000: Success "
    "and safe, or Fail and unsafe), C10_pdr_model_fail_complete_sys (any number of state bits: a bad state reachable in <= 1000 steps gives Fail). NOT covered: systems with >= 1000 state valuations may legitimately end in Unknown at the frame limit "
    "(C10_pdr_model_deep_unknown_sys: when every counterexample is longer than 1000 steps the model PROVABLY answers Unknown, for every truthful "
    "oracle; C10_pdr_model_unknown_on_deep_counter: the 11-bit counter from 0 with bad = (c == 1500). The property's 'terminates with one of "
    "these two answers' therefore holds only below the limit. The real pdr.rs on that counter with z3 did not return within 40 minutes - about "
    "k^3/3 queries for k frames -; a copy with MAX_FRAMES = 20 answers Unknown from depth 21 on: candidate finding, not in known_findings.txt); the BMC "
    "fallback is an oracle (C02/C03); the real solver's termination is outside the model",
    "solver faults: the model's oracle may answer AErr / AUnknown at any query, any declare/assert/define command may fail (cmd_fail), "
    "the BMC oracle may fail (C15_pdr_model_propagates / _unknown in Props/C15.v); the harness injects faults only at response-bearing "
    "calls of the SolverContext, failures of assert/declare commands are covered by the proof about the model only",
    "the test of the oracle hypothesis covers systems with 2*(state bits + input bits) <= 16; for larger systems the recorded answers are taken on trust",
    "the solvers (z3 4.8.12, cvc5 1.0.3) answer sat/unsat correctly; 'whichever models and cores the solver returns' is sampled, not enumerated",
    "the execution semantics is Spec/System.v (init equations over the valuation itself, simultaneous next-state update, constraints at every step)",
    "a witness cannot carry the later values of a state without next function: for such systems only the verdict is compared",
]
TRUSTED = ["ocaml/driver/c10.ml: verdict comparison, witness replay with the extracted next_env/constraints_hold/some_bad/is_initial_b, "
           "classification of failures into stable keys (':init-reads-input' is decided structurally on the system, '(C04)' by a duplicate "
           "declare/define in the recorded SMT script)",
           "harness/src/c10.rs: generator, child-process runner with watchdog, interpreter replay; its own explicit-state classification is "
           "used for the coverage statistics and the steering only, never as the oracle",
           "harness/solver-wrap/{z3,cvc5}: only append seed/phase options to the solver command line"]
PROFILES = ["debug"]


def streams(tier, seed):
    if tier == "quick":
        # z3 seed 4 = smt.core.minimize, cvc5 seed 2 = --minimal-unsat-cores: small cores make the init re-fixing matter
        return [dict(tag="main", count=40, seed=seed, extra={"runs": "z3:0,4;cvc5:0,2;pushpop:0", "jobs": 8, "full-bits": 4, "cvc5-bits": 4, "small-share": 75, "faults": 1}),
                # the restore loop of fix_gen_cube with cores of several literals (seeded change C10-m4): generalisation on only
                dict(tag="restore", count=60, seed=seed, extra={"family": "arith", "runs": "z3+:0,1,4", "jobs": 8, "full-bits": 5})]
    out = []
    for k in range(3):
        out.append(dict(tag="main%d" % k, count=50, seed=seed * 1000 + k,
                        extra={"runs": "z3:0,1,2,3,4;cvc5:0,1,2;pushpop:0,1", "jobs": 10, "full-bits": 4, "cvc5-bits": 4, "small-share": 70, "faults": 3}))
        out.append(dict(tag="restore%d" % k, count=100, seed=seed * 1000 + 500 + k,
                        extra={"family": "arith", "runs": "z3+:0,1,2,3,4;cvc5+:0,1", "jobs": 10, "full-bits": 5, "cvc5-bits": 5}))
    return out


def search_streams(tier, seed, diffs):
    return [dict(tag="search%d" % k, count=30, seed=seed * 7919 + k, extra={"runs": "z3:0,2;cvc5:2", "jobs": 8, "full-bits": 4, "cvc5-bits": 4, "small-share": 80})
            for k in range(2)]


MANIFEST = dict(
    level_text=("Theorems (Coq): C10_pdr_model_success_sound_sys - for every system of the class fin_class and every truthful solver oracle, "
                "Success of the concrete model of pdr.rs (Model/PdrImpl.v) implies that no bad state is reachable at any depth "
                "(bad_reachable of Spec/System.v); C10_pdr_model_fail_real / _definite / _unknown_only - Fail only with a real counterexample "
                "within the frame bound, never Err/panic under a truthful total solver; "
                "TERMINATION of the model: C10_pdr_block_loop_terminates, C10_pdr_model_terminates(_sys) - over a finite state space every fuel "
                "above computed bounds yields a verdict, whichever models and unsat cores the oracle returns, generalisation on or off; "
                "C10_unknown_only_at_frame_limit(_sys) - Unknown only beyond MAX_FRAMES = 1000 frames (impossible with fewer than 1000 state "
                "valuations: frames form a strictly increasing chain) or when the BMC oracle gives up; C10_pdr_model_total_small(_sys), "
                "C10_pdr_enum_total_small_sys - for 2^bits + 1 <= 1000 the answer is Success and the system is safe, or Fail and it is unsafe; "
                "C10_pdr_model_fail_complete_sys - for any number of state bits a counterexample of at most 1000 steps yields Fail; "
                "C10_pdr_model_deep_unknown_sys / C10_pdr_model_unknown_on_deep_counter - when every counterexample is longer than 1000 steps "
                "(11-bit counter, bad at 1500) the model answers Unknown: the limit of the property; "
                "C10_pdr_answer_check_exact - the executable test answer_ok decides the oracle hypothesis for one answer (the driver applies "
                "it to every recorded answer of the real solver on small systems); Props/C15.v: C15_pdr_model_propagates / _unknown - a failing "
                "solver call ends the model's run with that error, an unknown answer is never the basis of a verdict. "
                "C10_reach_spec_total/_safe/_unsafe - the executable "
                "explicit-state fixpoint reach_spec returns Safe iff no bad state is reachable at any depth by a constrained execution of "
                "Spec/System.v, Unsafe d iff d is the least such depth, and never runs out of fuel; C10_ic3_* - soundness of the abstract "
                "IC3/PDR logic (frame invariants imply safety at a fixpoint, every operation preserves them under explicit side conditions, "
                "obligation chains are real executions; C10_ic3_block_sem: blocking for any frame representation, the side condition of the "
                "proposed repair). Tie to /repo: the real patronus::mc::pdr is run against z3 and cvc5 (several seeds, "
                "generalisation on/off) on generated systems and its verdict and witnesses are compared with reach_spec on every run."),
    level_note="Trusted: Coq kernel; the solver, the SMT encoding behind each query and the BMC fallback are ORACLES (assumed truthful in the theorems; recorded answers are replayed in the tie); termination is proved for the model over a finite state space (Unknown remains possible at the 1000-frame limit for systems with >= 1000 state valuations). Repaired in /repo through this check: PDR unsound / Err when an init expression reads an input (a4b99b1). Open findings: Err inherited from the encoding on cyclic init dependencies; Unknown beyond the 1000-frame limit (key pdr:unknown:frame-limit, proved for the model: C10_pdr_model_deep_unknown_sys).",
)
