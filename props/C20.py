"""C20 — value summaries denote a total function and operations preserve it."""
HANDLER = "C20"
PROFILES = ["debug", "release"]
RULE = ("random operation histories (3..16 steps of new / apply_bin_op with 10 operators incl. projections / apply_ite / coalesce / "
        "import_into_guard / expr_to_guard) over one GuardCtx, values = 8-bit symbols/literals or random boolean expressions "
        "(not/and/or/xor/implies/literals, depth 0..4) over 1..6 one-bit symbol terminals; 1/10 of the cases replace one terminal by a "
        "non-symbol boolean expression (8-bit comparison, slice, boolean ite/eq/ugt/add); both the debug-assertions and the release "
        "profile; every case is compared entry by entry with the extracted model and checked over all 2^n valuations. "
        "distinct = distinct (history) texts")
ASSUMPTIONS = [
    "the Gallina model Model/ValueSummary.v mirrors patronus-dse/src/value_summary.rs (hand-written; tied by differential execution on the generated histories, entries compared as multisets of (truth table, value) after every step)",
    "boolean_expression::BDD is modelled as canonical reduced ordered BDD trees (equal node number <=> equal function); the crate itself is not verified; its evaluate() is the observation of guards",
    "the order of BDD node numbers (used by one sort() in apply_bin_op) is a parameter of the model (theorems hold for every order); in the tie it is read from the implementation's dump",
    "bottom_up_multi_pat is modelled at the level of its result (value or panic), not as a stack machine",
    "values are compared as trees (ExprRef equality = structural equality, property C12)",
]
TRUSTED = ["ocaml/driver/c20.ml: truth-table bookkeeping between the implementation's and the model's terminal numbering; failure keys are the operation kind plus gap/overlap/den, or the panic location"]


def streams(tier, seed):
    if tier == "quick":
        return [dict(tag="main-debug", count=6000, seed=seed, profile="debug"),
                dict(tag="main-release", count=6000, seed=seed + 1, profile="release")]
    out = []
    for k in range(6):
        out.append(dict(tag="debug%d" % k, count=40000, seed=seed * 1000 + k, profile="debug"))
        out.append(dict(tag="release%d" % k, count=40000, seed=seed * 1000 + 500 + k, profile="release"))
    out.append(dict(tag="few-terminals", count=60000, seed=seed + 7, profile="release", extra={"max-terms": 3, "max-steps": 20}))
    out.append(dict(tag="symbols-only", count=60000, seed=seed + 8, profile="debug", extra={"odd-den": 0, "max-steps": 20}))
    return out


def search_streams(tier, seed, diffs):
    return [dict(tag="search%d" % k, count=30000, seed=seed * 7919 + k, profile=("debug" if k % 2 == 0 else "release")) for k in range(4)]


MANIFEST = dict(
    level_text="(filled in at the end)",
    level_note="(filled in at the end)",
)
