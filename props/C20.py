"""C20 — value summaries denote a total function and operations preserve it."""
HANDLER = "C20"
PROFILES = ["debug", "release"]
RULE = ("random operation histories (3..16 steps of new / apply_bin_op with 10 operators incl. projections / apply_ite / coalesce / "
        "import_into_guard / expr_to_guard) over one GuardCtx, values = 8-bit symbols/literals or random boolean expressions "
        "(not/and/or/xor/implies/literals, depth 0..4) over 1..6 one-bit symbol terminals; 1/10 of the cases replace one terminal by a "
        "non-symbol boolean expression (8-bit comparison, slice, boolean ite/eq/ugt/add); both the debug-assertions and the release "
        "profile; every case is compared entry by entry with the extracted model and checked over all 2^n valuations. "
        "distinct = distinct (history) texts")
ASSUMPTIONS = [
    "the Gallina model Model/ValueSummary.v mirrors patronus-dse/src/value_summary.rs (hand-written; tied by differential execution on the generated histories, entries compared as multisets of (truth table, value) after every step)",
    "boolean_expression::BDD is modelled as canonical reduced ordered BDD trees (equal node number <=> equal function); the crate itself is not verified; its evaluate() is the observation of guards",
    "the order of BDD node numbers (used by one sort() in apply_bin_op) is a parameter of the model (theorems hold for every order); in the tie it is read from the implementation's dump",
    "bottom_up_multi_pat is modelled at the level of its result (value or panic), not as a stack machine",
    "values are compared as trees (ExprRef equality = structural equality, property C12)",
]
TRUSTED = ["ocaml/driver/c20.ml: truth-table bookkeeping between the implementation's and the model's terminal numbering; failure keys are the operation kind plus gap/overlap/den, or the panic location"]


def streams(tier, seed):
    if tier == "quick":
        return [dict(tag="main-debug", count=12000, seed=seed, profile="debug"),
                dict(tag="main-release", count=12000, seed=seed + 1, profile="release"),
                dict(tag="symbols-only", count=6000, seed=seed + 2, profile="release", extra={"odd-den": 0, "max-steps": 22})]
    out = []
    for k in range(6):
        out.append(dict(tag="debug%d" % k, count=100000, seed=seed * 1000 + k, profile="debug"))
        out.append(dict(tag="release%d" % k, count=100000, seed=seed * 1000 + 500 + k, profile="release"))
    out.append(dict(tag="few-terminals", count=150000, seed=seed + 7, profile="release", extra={"max-terms": 3, "max-steps": 24}))
    out.append(dict(tag="symbols-only-debug", count=150000, seed=seed + 8, profile="debug", extra={"odd-den": 0, "max-steps": 24}))
    out.append(dict(tag="symbols-only-release", count=150000, seed=seed + 9, profile="release", extra={"odd-den": 0, "max-steps": 24}))
    return out


def search_streams(tier, seed, diffs):
    return [dict(tag="search%d" % k, count=30000, seed=seed * 7919 + k, profile=("debug" if k % 2 == 0 else "release")) for k in range(4)]


MANIFEST = dict(
    level_text=("Coq theorems over ALL histories of new/apply_bin_op (any operator, any BDD node order)/apply_ite/coalesce/import_into_guard/"
                "expr_to_guard, all valuations, both build profiles: C20_functional_inv (every reachable summary of the code AS IT IS selects "
                "exactly one value per valuation: some guard true, all true entries agree), C20_den_commutes_{bin_op,ite,coalesce,import} "
                "(selected value of the result = operation on the selected values of the arguments), C20_guard_equiv(+_skeleton) "
                "(a returned guard is true iff the boolean expression evaluates to 1 under Spec/Eval.ebv), C20_guards_canonical, C20_no_panic. "
                "The literal partition claim (guards pairwise disjoint) is REFUTED for the current code (C20_partition_inv_refuted: coalesce on entry "
                "values [A,B,B,A]) and PROVED for the code with the delete list sorted (C20_partition_inv_fixed, C20_partition_ops, "
                "C20_coalesce_outside_known); totality of expr_to_guard is refuted as well (C20_guard_total_refuted, C20_debug_asserts_refuted) and "
                "characterised exactly (C20_guard_total_on_guardable). Tie to /repo: extracted model vs. the real ValueSummary<ExprRef>/GuardCtx through "
                "cfg(patronus_verif) hooks after every step of every generated history, in the debug and the release profile; independent oracle over all 2^n valuations. "
                "Repaired variant (model parameter `repairs`, patches/C20-1..3): C20_guard_total_repaired (expr_to_guard returns an equivalent guard for EVERY well-typed "
                "boolean expression, both builds) and C20_no_panic_repaired (apply_ite/import return for boolean conditions, apply_bin_op returns for all reachable summaries)."),
    level_note='Trusted: Coq kernel; hand-written model over truth-table guards tied by differential execution through cfg(patronus_verif) accessors. Four genuine defects found by this check are repaired in /repo (coalesce overlap e25c4dc; traversal child count 9dcaa3f; expr_to_guard on non-boolean children 665d9fa; apply_bin_op assertion 9cfc9c6); the old coalesce keeps its _refuted theorem. No open finding.',
)
