"""C07 — the simulator executes exactly the transition-system semantics."""
HANDLER = "C07"
RULE = ("generated transition systems (sysgen.gen_sys: 1..4 (1/5: ..6) bit-vector states, 0..3 inputs, optional array state; per system 1..3 "
        "widths drawn from {1,1,2,3,4,8} or {1,2,8,16,31..33,63..65,127..129} so that symbols can read each other; added in c07.rs: a second "
        "array state (index width 1..5), swap / shift-register next functions, init expressions over ALL symbols (self / later states), states "
        "without init / without next / constant states, rare ill-formed systems (duplicate declaration, undeclared symbol)) x operation "
        "histories of 1..60 operations (init zero | init random(seed) | set of a declared bit-vector symbol | step | get of a declared symbol, "
        "of a root expression of the system or of a fresh random expression | step_count | snapshot | restore of the k-th snapshot through the "
        "id the implementation returned); half of the histories read every declared symbol after every mutating operation; 1/6 have the shape "
        "pre ++ [snapshot] ++ h ++ between ++ [restore] ++ h' and the reads of h and h' are also compared with each other directly; 1/8 of "
        "the other histories may contain operations outside the property's domain (undeclared symbol, bad snapshot id, div/rem) and 1/25 start "
        "without init: there implementation and model must crash at the same operation. Products wider than 128 bits and array equality are "
        "not generated (known baa defects, see known_findings.txt; corpus/C07 holds one case for the former and the regression case of the repaired shift-left defect). distinct = distinct (system, history) pairs; every "
        "case runs the implementation, the extracted model and (inside the domain) the extracted specification on every operation")
ASSUMPTIONS = [
    "the Gallina model Model/Sim.v mirrors patronus/src/sim/interpreter.rs and SymbolValueStore (hand-written; tied by differential execution on the generated histories)",
    "expression evaluation inside the simulator is the stack machine Model/EvalImpl.v (property C06: machine_correct_lemma is reused, not re-proved); "
    "baa's operators are specified by Spec/BV.v, baa itself is only exercised",
    "ExprRef equality is structural equality (property C12); the store is keyed by expression trees",
    "random initial values are an explicit oracle: the harness obtains them from InitValueGenerator with the same seed, in the allocation order "
    "of interpreter.rs (states, then inputs); PRNG quality is out of scope, determinism (same seed => same values) is checked at every random init",
    "step_count (u64) and snapshot ids (u32) are unbounded N in the model; the 64-bit word layout of the store is not modelled, only exercised "
    "(widths on both sides of 64 and 128 next to each other)",
    "Simulator::set with a value of another width, or on an array symbol, is outside the model (result Unmodelled) and is not generated: the "
    "implementation neither checks nor panics there (see REPORT-C07.md)",
    "arrays are compared at all 2^iw indices (index widths 1..5)",
    "domain of the theorems: sim_ok systems (well typed, distinct declarations, init/next closed, no div/rem: eval.rs does not implement them) and "
    "histories that start with init",
]
TRUSTED = ["ocaml/driver/c07.ml compares, per operation, the implementation's result with Model.spec_exec (oracle) and Model.exec (model); "
           "it decides domain membership with the extracted sim_ok / op_ok; a differing step count or snapshot id alone is reported as diff, not fail"]


def streams(tier, seed):
    if tier == "quick":
        return [dict(tag="main", count=30000, seed=seed)]
    out = []
    for k in range(12):
        out.append(dict(tag="main%d" % k, count=60000, seed=seed * 1000 + k))
    out.append(dict(tag="small", count=60000, seed=seed + 7, extra={"widths": "1,2,3"}))
    out.append(dict(tag="boundary", count=60000, seed=seed + 8, extra={"widths": "63,64,65,127,128,129"}))
    return out


def search_streams(tier, seed, diffs):
    return [dict(tag="search%d" % k, count=40000, seed=seed * 7919 + k) for k in range(4)]


MANIFEST = dict(
    level_text=("Theorems (Coq; all well-formed systems, all histories starting with init, no bound on length or widths): C07_sim_refines_semantics - the "
                "model of interpreter.rs + SymbolValueStore never crashes and every observation (values read, step counts, snapshot ids) is the one "
                "prescribed by Spec/System.v (init_seq, next_env, upd_bv) and Spec/Eval.v; C07_init_establishes / C07_init_seq_initial - init leaves a "
                "store that denotes init_seq of the generated values, an initial valuation (is_initial) when no init expression reads its own or a "
                "later state; C07_restore_replays - restoring a snapshot brings back exactly the values of then whatever happened since, and the "
                "replayed continuation reads what it read the first time (for every system and history, no hypotheses); C07_step_count; "
                "C07_values_canonical. Tie to /repo: the extracted model, the extracted specification and the real Interpreter run on the same "
                "generated (system, history) cases on every run."),
    level_note=("Trusted: Coq kernel; hand-written model tied only by differential execution (generator-bounded); expression evaluation relies on "
                "C06's machine model; counters are unbounded and the word layout of the value store is abstracted in the model. One baa defect "
                "visible through the simulator is a recorded known finding (products wider than 128 bits panic); a second one found by this check "
                "(shift-left by a non-zero multiple of 64 not masked when the width is not a multiple of 64) was repaired in /repo (42f7f06)."),
)
