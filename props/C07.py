"""C07 — the simulator executes exactly the transition-system semantics."""
HANDLER = "C07"
RULE = ("generated transition systems (sysgen.gen_sys with 1..4 bit-vector states, 0..3 inputs, optional array state, widths from "
        "{1,1,2,3,4,8} or {1,2,8,16,31..33,63..65,127..129}; plus in c07.rs: a second array state, init expressions over ALL symbols "
        "(self / later states), states without init / next / constant states, rare ill-formed systems) x operation histories of "
        "1..60 operations (init zero | init random(seed) | set declared bv symbol | step | get of a declared symbol, a system root "
        "expression or a fresh random expression | step_count | snapshot | restore), half of the histories read every declared symbol "
        "after every mutating operation; 1/8 of the histories may contain operations outside the property's domain (undeclared symbol, "
        "bad snapshot id, div/rem) and 1/25 start without init: there implementation and model must crash at the same operation. "
        "distinct = distinct (system, history) pairs; every case runs the implementation, the extracted model and (inside the domain) "
        "the extracted specification on every operation")
ASSUMPTIONS = [
    "the Gallina model Model/Sim.v mirrors patronus/src/sim/interpreter.rs and SymbolValueStore (hand-written; tied by differential execution on the generated histories)",
    "expression evaluation inside the simulator is the stack machine Model/EvalImpl.v (property C06: machine_correct_lemma is reused, not re-proved)",
    "ExprRef equality is structural equality (property C12); the store is keyed by expression trees",
    "random initial values are an explicit oracle: the harness obtains them from InitValueGenerator with the same seed, in the allocation order "
    "of interpreter.rs (states, then inputs); PRNG quality is out of scope, determinism (same seed => same values) is checked per init",
    "step_count (u64) and snapshot ids (u32) are unbounded N in the model; the 64-bit word layout of the store is not modelled, only exercised",
    "arrays are compared at all 2^iw indices (index widths 1..3)",
]
TRUSTED = ["ocaml/driver/c07.ml compares, per operation, the implementation's result with Model.spec_exec (oracle) and Model.exec (model); "
           "it decides domain membership with the extracted sim_ok / op_ok"]


def streams(tier, seed):
    if tier == "quick":
        return [dict(tag="main", count=12000, seed=seed)]
    out = []
    for k in range(12):
        out.append(dict(tag="main%d" % k, count=60000, seed=seed * 1000 + k))
    out.append(dict(tag="small", count=60000, seed=seed + 7, extra={"widths": "1,2,3"}))
    out.append(dict(tag="boundary", count=60000, seed=seed + 8, extra={"widths": "63,64,65,127,128,129"}))
    return out


def search_streams(tier, seed, diffs):
    return [dict(tag="search%d" % k, count=40000, seed=seed * 7919 + k) for k in range(4)]


MANIFEST = dict(
    level_text=("Theorem C07_sim_refines_semantics (Coq; all well-formed systems, all histories starting with init, no bound on length): the "
                "model of interpreter.rs + SymbolValueStore never crashes and every observation (values read, step counts, snapshot ids) is the one "
                "prescribed by Spec/System.v (init_seq, next_env, upd_bv) and Spec/Eval.v. Tie to /repo: the extracted model, the extracted "
                "specification and the real Interpreter run on the same generated (system, history) cases on every run."),
    level_note=("Trusted: Coq kernel; hand-written model tied only by differential execution (generator-bounded); expression evaluation relies on "
                "C06's machine model; counters are unbounded in the model."),
)
