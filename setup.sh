#!/bin/sh
# Offline build of the whole framework from files on disk: Coq development (full .vo build),
# extraction + OCaml driver, Rust harness (against /repo by path).
set -e
V=$(cd "$(dirname "$0")" && pwd)
export CARGO_NET_OFFLINE=true
python3 "$V/tools/gen_coqproject.py"
cd "$V/coq"
timeout 7200 make -j16 2>&1 | grep -v "WARNING conda" | tail -5
"$V/ocaml/build.sh"
[ -f "$V/harness/Cargo.lock" ] || cp /repo/Cargo.lock "$V/harness/Cargo.lock"
cd "$V/harness"
RUSTFLAGS="--cfg patronus_verif" cargo build --offline --quiet 2>&1 | grep -v "^warning\|WARNING conda" | tail -5 || true
echo setup done
