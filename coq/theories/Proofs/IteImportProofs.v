(** * Proofs/IteImportProofs.v — [to_guard], [apply_ite], [import_into_guard]. *)
From Coq Require Import Lia Arith.
From Patronus Require Import GuardSem BddProofs GuardProofs SummaryProofs.
Open Scope nat_scope.

(** some entry is true and its value is true (as a Boolean skeleton over [t]) *)
Definition gsel (t : list expr) (v : nat -> bool) (s : summary) : bool :=
  existsb (fun e => bdd_eval v (fst e) && bsem t v (snd e)) s.

Lemma to_guard_spec rp debug s : forall t acc t' g,
  to_guard rp debug t s acc = Ok (t', g) ->
  extends t t' /\ (forall e, In e s -> covered t' (snd e) = true) /\
  forall v, bdd_eval v g = bdd_eval v acc || gsel t' v s.
Proof.
  induction s as [| [g0 x] s IH]; intros t acc t' g H; cbn [to_guard] in H.
  - inversion H; subst. split; [apply extends_refl |]. split; [intros e [] |].
    intros v. cbn. now rewrite orb_false_r.
  - destruct (negb (expr_is_bool x)); [discriminate |].
    apply rbind_ok in H. destruct H as (p & E & H).
    rewrite (surj_pair_eq p) in E. apply expr_to_guard_sound in E. destruct E as (Hx1 & Hc1 & Hv1).
    apply IH in H. destruct H as (Hx2 & Hc2 & Hv2).
    split; [eapply extends_trans; eassumption |]. split.
    + intros e [<- | He]; [cbn; eapply covered_extends; eassumption | now apply Hc2].
    + intros v. rewrite Hv2, eval_or, eval_and, Hv1. unfold gsel. cbn [existsb fst snd].
      rewrite (bsem_extends _ _ v _ Hx2 Hc1). now rewrite orb_assoc.
Qed.

Lemma gsel_denotes t v s x : denotes v s x -> gsel t v s = bsem t v x.
Proof.
  intros [(e & He & Ht) Hf]. destruct (bsem t v x) eqn:B.
  - apply existsb_exists. exists e. split; [assumption |]. now rewrite Ht, (Hf e He Ht), B.
  - destruct (gsel t v s) eqn:G; [| reflexivity].
    apply existsb_exists in G. destruct G as (e' & He' & H'). apply andb_prop in H'.
    destruct H' as [Ht' Hb']. rewrite (Hf e' He' Ht') in Hb'. congruence.
Qed.

Lemma expr_is_true_bsem t v x : expr_is_true x = true -> bsem t v x = true.
Proof. destruct x; cbn; try discriminate. auto. Qed.

Lemma expr_is_false_bsem t v x : expr_is_false x = true -> bsem t v x = false.
Proof.
  destruct x; cbn; try discriminate. intros H. apply andb_prop in H. destruct H as [_ H].
  apply N.eqb_eq in H. subst. now rewrite andb_false_r.
Qed.

Lemma single_denotes v g x xc : denotes v [(g, x)] xc -> x = xc.
Proof. intros [(e & [<- | []] & Ht) Hf]. apply (Hf (g, x)); [now left | assumption]. Qed.

Lemma count_map_and v g s :
  count_true v (map (fun e => (bdd_and (fst e) g, snd e)) s) = if bdd_eval v g then count_true v s else 0.
Proof.
  induction s as [| e s IH]; [now destruct (bdd_eval v g) |].
  cbn [map]. rewrite !count_true_cons, IH. cbn [fst]. rewrite eval_and.
  destruct (bdd_eval v g), (bdd_eval v (fst e)); reflexivity.
Qed.

(** the cases of a successful [apply_ite]: the result is one of the branches, chosen
    soundly, or the two branches restricted to [tc] / [not tc] *)
Lemma apply_ite_cases rp debug t c tr fl t' r :
  apply_ite rp debug t c tr fl = Ok (t', r) ->
  (vs_is_true c = true /\ t' = t /\ r = tr) \/
  (vs_is_false c = true /\ t' = t /\ r = fl) \/
  (exists tc, to_guard rp debug t c (BLeaf false) = Ok (t', tc) /\
     ((is_true tc = true /\ r = tr) \/ (is_true (bdd_not tc) = true /\ r = fl) \/
      r = map (fun e => (bdd_and (fst e) tc, snd e)) tr ++
          map (fun e => (bdd_and (fst e) (bdd_not tc), snd e)) fl)).
Proof.
  unfold apply_ite. destruct (vs_is_true c); [intros H; inversion H; auto |].
  destruct (vs_is_false c); [intros H; inversion H; auto |].
  intros H. apply rbind_ok in H. destruct H as (p & E & H). right. right.
  cbv zeta in H. destruct (is_true (snd p)) eqn:T1.
  - inversion H; subst. exists (snd p). rewrite <- surj_pair_eq. auto.
  - destruct (is_true (bdd_not (snd p))) eqn:T2; inversion H; subst; exists (snd p);
      rewrite <- surj_pair_eq; auto.
Qed.

(** the guard of the condition is the truth value of the value the condition denotes *)
Lemma cond_guard rp debug t c t' tc v xc :
  to_guard rp debug t c (BLeaf false) = Ok (t', tc) -> denotes v c xc -> bdd_eval v tc = bsem t' v xc.
Proof.
  intros H Hd. apply to_guard_spec in H. destruct H as (_ & _ & Hv).
  rewrite Hv. cbn [bdd_eval orb]. now apply gsel_denotes.
Qed.

Lemma restrict_denotes v tc tr fl xt xf :
  denotes v tr xt -> denotes v fl xf ->
  denotes v (map (fun e => (bdd_and (fst e) tc, snd e)) tr ++
             map (fun e => (bdd_and (fst e) (bdd_not tc), snd e)) fl)
          (if bdd_eval v tc then xt else xf).
Proof.
  intros [(et & Het & Htt) Hft] [(ef & Hef & Htf) Hff]. split.
  - destruct (bdd_eval v tc) eqn:B.
    + exists (bdd_and (fst et) tc, snd et). split.
      * apply in_or_app. left. apply in_map_iff. now exists et.
      * cbn [fst]. now rewrite eval_and, Htt, B.
    + exists (bdd_and (fst ef) (bdd_not tc), snd ef). split.
      * apply in_or_app. right. apply in_map_iff. now exists ef.
      * cbn [fst]. now rewrite eval_and, eval_not, Htf, B.
  - intros e He Ht. apply in_app_or in He. destruct He as [He | He];
      apply in_map_iff in He; destruct He as (e0 & <- & He0); cbn [fst snd] in *;
      rewrite eval_and in Ht; apply andb_prop in Ht; destruct Ht as [Ht1 Ht2].
    + rewrite Ht2. now apply Hft.
    + rewrite eval_not in Ht2. destruct (bdd_eval v tc); [discriminate |]. now apply Hff.
Qed.

(** [den_commutes] for [apply_ite] *)
Lemma ite_denotes rp debug t c tr fl t' r v xc xt xf :
  apply_ite rp debug t c tr fl = Ok (t', r) ->
  denotes v c xc -> denotes v tr xt -> denotes v fl xf ->
  denotes v r (if bsem t' v xc then xt else xf).
Proof.
  intros H Hc Ht Hf. apply apply_ite_cases in H.
  destruct H as [(Hc1 & -> & ->) | [(Hc0 & -> & ->) | (tc & Hg & H)]].
  - destruct c as [| [g x] [|]]; try discriminate. cbn in Hc1.
    apply single_denotes in Hc. subst x. now rewrite (expr_is_true_bsem t v xc Hc1).
  - destruct c as [| [g x] [|]]; try discriminate. cbn in Hc0.
    apply single_denotes in Hc. subst x. now rewrite (expr_is_false_bsem t v xc Hc0).
  - rewrite <- (cond_guard rp debug t c t' tc v xc Hg Hc).
    destruct H as [(T & ->) | [(T & ->) | ->]].
    + now rewrite (is_true_sound v tc T).
    + apply (is_true_sound v) in T. rewrite eval_not in T.
      destruct (bdd_eval v tc); [discriminate | assumption].
    + now apply restrict_denotes.
Qed.

(** [partition_inv] for [apply_ite]: the condition need not even be a partition *)
Lemma ite_partition rp debug t c tr fl t' r v :
  apply_ite rp debug t c tr fl = Ok (t', r) ->
  count_true v tr = 1 -> count_true v fl = 1 -> count_true v r = 1.
Proof.
  intros H Ht Hf. apply apply_ite_cases in H.
  destruct H as [(_ & _ & ->) | [(_ & _ & ->) | (tc & _ & [(_ & ->) | [(_ & ->) | ->]])]]; try assumption.
  rewrite count_true_app, !count_map_and, eval_not, Ht, Hf.
  destruct (bdd_eval v tc); reflexivity.
Qed.

Lemma ite_extends rp debug t c tr fl t' r : apply_ite rp debug t c tr fl = Ok (t', r) -> extends t t'.
Proof.
  intros H. apply apply_ite_cases in H.
  destruct H as [(_ & -> & _) | [(_ & -> & _) | (tc & Hg & _)]]; try apply extends_refl.
  now apply to_guard_spec in Hg.
Qed.

(* ------------------------------------------------------------------ import_into_guard *)

Lemma import_cases rp debug t s t' r :
  import_into_guard rp debug t s = Ok (t', r) ->
  exists g, to_guard rp debug t s (BLeaf false) = Ok (t', g) /\
    ((is_true g = true /\ r = [(BLeaf true, lit_true)]) \/
     (is_false g = true /\ r = [(BLeaf true, lit_false)]) \/
     r = [(bdd_not g, lit_false); (g, lit_true)]).
Proof.
  unfold import_into_guard. intros H. apply rbind_ok in H. destruct H as (p & E & H).
  cbv zeta in H. exists (snd p).
  destruct (is_true (snd p)) eqn:T1; [| destruct (is_false (snd p)) eqn:T2];
    inversion H; subst; rewrite <- surj_pair_eq; auto.
Qed.

(** whatever the argument: the result of [import_into_guard] is a partition *)
Lemma import_partition rp debug t s t' r v :
  import_into_guard rp debug t s = Ok (t', r) -> count_true v r = 1.
Proof.
  intros H. apply import_cases in H.
  destruct H as (g & _ & [(_ & ->) | [(_ & ->) | ->]]); try reflexivity.
  rewrite !count_true_cons, count_true_nil. cbn [fst]. rewrite eval_not.
  destruct (bdd_eval v g); reflexivity.
Qed.

(** [den_commutes] for [import_into_guard]: the result selects the literal with the truth
    value of the value selected from the argument *)
Lemma import_denotes rp debug t s t' r v x :
  import_into_guard rp debug t s = Ok (t', r) -> denotes v s x ->
  denotes v r (if bsem t' v x then lit_true else lit_false).
Proof.
  intros H Hd. apply import_cases in H. destruct H as (g & Hg & H).
  rewrite <- (cond_guard rp debug t s t' g v x Hg Hd).
  destruct H as [(T & ->) | [(T & ->) | ->]].
  - rewrite (is_true_sound v g T). apply new_denotes.
  - rewrite (is_false_sound v g T). apply new_denotes.
  - split.
    + destruct (bdd_eval v g) eqn:B.
      * exists (g, lit_true). split; [right; now left | assumption].
      * exists (bdd_not g, lit_false). split; [now left |]. cbn [fst]. now rewrite eval_not, B.
    + intros e [<- | [<- | []]] Ht; cbn [fst snd] in *.
      * rewrite eval_not in Ht. now destruct (bdd_eval v g).
      * now rewrite Ht.
Qed.

Lemma bsem_lit t v (b : bool) : bsem t v (if b then lit_true else lit_false) = b.
Proof. now destruct b. Qed.

Lemma import_extends rp debug t s t' r : import_into_guard rp debug t s = Ok (t', r) -> extends t t'.
Proof.
  intros H. apply import_cases in H. destruct H as (g & Hg & _). now apply to_guard_spec in Hg.
Qed.
