(** * Proofs/SimplifyCacheProofs.v — the memoising driver computes the cache-free result.

    [NF e r]: the cache-free driver [simp] returns [r] for [e] with some fuel (the result does not depend
    on the fuel: [SimplifyFix.simp_deterministic]).
    [cache_inv c]: every entry [k |-> v] relates two expressions with the same cache-free results, and a
    self-mapped key is its own result.  The invariant holds for the empty cache, is preserved by every
    step of the work loop, by the pointer updates of [get_fixed_point] and therefore by every call of
    [simplify_cached], whatever was simplified before with the same instance. *)
From Coq Require Import Lia List Bool.
From Patronus Require Import Simplify SimplifyFix ExprEqb SimplifyCache.
Import ListNotations.
Open Scope N_scope.

Definition NF (e r : expr) : Prop := exists n, simp n e = SOk r.
Definition same_nf (a b : expr) : Prop := forall r, NF a r <-> NF b r.

Definition cache_inv (c : cache) : Prop :=
  (forall k v, lookup c k = Some v -> same_nf k v) /\
  (forall k, lookup c k = Some k -> NF k k).

Lemma same_nf_refl a : same_nf a a.
Proof. intros r; reflexivity. Qed.
Lemma same_nf_sym a b : same_nf a b -> same_nf b a.
Proof. intros H r; symmetry; apply H. Qed.
Lemma same_nf_trans a b c : same_nf a b -> same_nf b c -> same_nf a c.
Proof. intros H1 H2 r. rewrite (H1 r). apply H2. Qed.

Lemma NF_det e r r' : NF e r -> NF e r' -> r = r'.
Proof. intros [n Hn] [m Hm]. eapply simp_deterministic; eauto. Qed.

Lemma cache_inv_nil : cache_inv [].
Proof. split; intros; discriminate. Qed.

Lemma eqb_false_neq a b : expr_eqb a b = false -> a <> b.
Proof. intros H E. subst. rewrite expr_eqb_refl in H. discriminate. Qed.

Lemma lookup_update c k v k' :
  lookup (update c k v) k' = if expr_eqb k k' then Some v else lookup c k'.
Proof. reflexivity. Qed.

Lemma cache_inv_update c k v :
  cache_inv c -> same_nf k v -> (v = k -> NF k k) -> cache_inv (update c k v).
Proof.
  intros [I1 I2] Hs Hk. split.
  - intros k' v' Hl. rewrite lookup_update in Hl. destruct (expr_eqb k k') eqn:E.
    + apply expr_eqb_eq in E. subst k'. inversion Hl; subst v'. exact Hs.
    + apply I1. exact Hl.
  - intros k' Hl. rewrite lookup_update in Hl. destruct (expr_eqb k k') eqn:E.
    + apply expr_eqb_eq in E. subst k'. inversion Hl as [Hv]. apply Hk. exact Hv.
    + apply I2. exact Hl.
Qed.

(** ** get_fixed_point *)
Lemma chase_sound : forall fuel c v f,
  cache_inv c -> chase fuel c v = Some (Some f) -> same_nf v f /\ lookup c f = Some f.
Proof.
  induction fuel as [|n IH]; intros c v f Hinv Hc; cbn [chase] in Hc; [discriminate|].
  destruct (lookup c v) as [v'|] eqn:El; [|discriminate].
  destruct (expr_eqb v v') eqn:E.
  - apply expr_eqb_eq in E. subst v'. inversion Hc; subst f. split; [apply same_nf_refl|exact El].
  - destruct (IH _ _ _ Hinv Hc) as [Hs Hf]. split; [|exact Hf].
    eapply same_nf_trans; [|exact Hs]. apply (proj1 Hinv). exact El.
Qed.

Lemma compress_sound : forall fuel c v final,
  cache_inv c -> same_nf v final ->
  match compress fuel c v final with
  | GSome c' r => cache_inv c' /\ r = final
  | GNone c' => cache_inv c'
  | GFuel => True
  end.
Proof.
  induction fuel as [|n IH]; intros c v final Hinv Hs; cbn [compress]; [exact I|].
  destruct (expr_eqb v final) eqn:E.
  - apply expr_eqb_eq in E. split; assumption.
  - destruct (lookup c v) as [next|] eqn:El; [|exact Hinv].
    apply IH.
    + apply cache_inv_update; [exact Hinv|exact Hs|]. intros Heq. exfalso. apply (eqb_false_neq _ _ E). congruence.
    + eapply same_nf_trans; [|exact Hs]. apply same_nf_sym. apply (proj1 Hinv). exact El.
Qed.

Lemma gfp_sound fuel c k :
  cache_inv c ->
  match get_fixed_point fuel c k with
  | GSome c' f => cache_inv c' /\ NF k f /\ NF f f
  | GNone c' => cache_inv c'
  | GFuel => True
  end.
Proof.
  intros Hinv. unfold get_fixed_point.
  destruct (lookup c k) as [v0|] eqn:El; [|exact Hinv].
  destruct (expr_eqb k v0) eqn:E.
  - apply expr_eqb_eq in E. subst v0. pose proof (proj2 Hinv _ El) as Hk. split; [exact Hinv|split; exact Hk].
  - destruct (chase fuel c k) as [[final|]|] eqn:Ec; [|exact Hinv|exact I].
    destruct (chase_sound _ _ _ _ Hinv Ec) as [Hs Hf].
    pose proof (compress_sound fuel c k final Hinv Hs) as Hc.
    destruct (compress fuel c k final) as [c' r|c'|]; [|exact Hc|exact I].
    destruct Hc as [Hc Hr]. subst r.
    pose proof (proj2 Hinv _ Hf) as Hff. split; [exact Hc|split; [|exact Hff]].
    apply (proj2 (Hs final)). exact Hff.
Qed.

(** ** the children loop *)
Fixpoint changed_spec (cs chs : list expr) : bool :=
  match cs, chs with
  | v :: cs', ch :: chs' => negb (expr_eqb v ch) || changed_spec cs' chs'
  | _, _ => false
  end.

Lemma changed_spec_list_eqb : forall cs chs,
  length cs = length chs -> changed_spec cs chs = negb (list_eqb cs chs).
Proof.
  induction cs as [|v cs IH]; intros [|ch chs] Hl; cbn in *; try discriminate; [reflexivity|].
  rewrite IH by lia. destruct (expr_eqb v ch); reflexivity.
Qed.

Lemma visit_sound : forall fuel chs c,
  cache_inv c ->
  match visit fuel c chs with
  | VOk c' cs chg miss =>
      cache_inv c' /\
      (miss = [] -> Forall2 NF chs cs /\ chg = changed_spec cs chs)
  | VFuel => True
  end.
Proof.
  intros fuel. induction chs as [|ch rest IH]; intros c Hinv; cbn [visit].
  - split; [exact Hinv|]. intros _. split; [constructor|reflexivity].
  - pose proof (gfp_sound fuel c ch Hinv) as Hg.
    destruct (get_fixed_point fuel c ch) as [c1 v|c1|]; [| |exact I].
    + destruct Hg as (Hc1 & Hnf & _). specialize (IH c1 Hc1).
      destruct (visit fuel c1 rest) as [c2 cs chg miss|]; [|exact I].
      destruct IH as [Hc2 Hm]. split; [exact Hc2|]. intros Hmiss. destruct (Hm Hmiss) as [HF Hchg].
      split; [constructor; assumption|]. cbn [changed_spec]. rewrite Hchg. reflexivity.
    + specialize (IH c1 Hg).
      destruct (visit fuel c1 rest) as [c2 cs chg miss|]; [|exact I].
      destruct IH as [Hc2 _]. split; [exact Hc2|]. intros Hmiss. discriminate.
Qed.

(** ** one rewriting step of the cache-free driver, from the children's results *)
Lemma simp_children_of_NF : forall chs cs,
  Forall2 NF chs cs -> exists f, forall g, (f <= g)%nat -> simp_children (simp g) chs = inr cs.
Proof.
  induction 1 as [|ch v chs cs [n Hn] _ [f IH]].
  - exists O. intros; reflexivity.
  - exists (Nat.max n f). intros g Hg. cbn [simp_children].
    rewrite (simp_fuel_mono _ _ _ Hn g) by lia. rewrite (IH g) by lia. reflexivity.
Qed.

Lemma simp_children_inl_not_ok : forall f chs err r,
  simp_children (simp f) chs = inl err -> err <> SOk r.
Proof.
  intros f. induction chs as [|c rest IH]; intros err r H; cbn [simp_children] in H; [discriminate|].
  destruct (simp f c) eqn:Ec.
  - destruct (simp_children (simp f) rest) eqn:Er; [|discriminate]. inversion H; subst. eapply IH; reflexivity.
  - inversion H; subst. discriminate.
  - inversion H; subst. discriminate.
Qed.

Lemma simp_children_det : forall chs cs cs' f,
  Forall2 NF chs cs -> simp_children (simp f) chs = inr cs' -> cs' = cs.
Proof.
  induction chs as [|ch rest IH]; intros cs cs' f HF Hs; inversion HF; subst; cbn [simp_children] in Hs.
  - inversion Hs. reflexivity.
  - destruct (simp f ch) as [v'| |] eqn:Ec; try discriminate.
    destruct (simp_children (simp f) rest) as [|rest'] eqn:Er; [discriminate|].
    inversion Hs; subst cs'. f_equal.
    + eapply NF_det; [exists f; exact Ec|assumption].
    + eapply IH; eauto.
Qed.

Lemma list_eqb_refl : forall l, list_eqb l l = true.
Proof. induction l as [|x l IH]; cbn; [reflexivity|]. rewrite expr_eqb_refl. exact IH. Qed.

Lemma list_eqb_eq : forall a b, list_eqb a b = true -> a = b.
Proof.
  induction a as [|x a IH]; intros [|y b] H; cbn in H; try discriminate; [reflexivity|].
  apply andb_true_iff in H. destruct H as [H1 H2]. apply expr_eqb_eq in H1. f_equal; auto.
Qed.

(** [update_expr_children] with other children gives another node *)
Lemma rebuild_self : forall e cs,
  length cs = length (children e) -> rebuild e cs = e -> cs = children e.
Proof.
  intros e cs Hl Hr.
  destruct e; cbn [children length] in Hl;
    destruct cs as [|a [|b [|c [|d l]]]]; cbn [length] in Hl; try discriminate Hl;
    cbn [rebuild children] in *; try reflexivity; inversion Hr; reflexivity.
Qed.

Lemma Forall2_len {A B} (R : A -> B -> Prop) l l' : Forall2 R l l' -> length l = length l'.
Proof. induction 1; cbn; congruence. Qed.

(** the entry the loop writes for [e] *)
Definition new_of (e : expr) (cs : list expr) (o : option expr) : expr :=
  match o with
  | Some r => r
  | None => if changed_spec cs (children e) then rebuild e cs else e
  end.

Lemma step_sound e cs o :
  Forall2 NF (children e) cs -> simplify e cs = Ok o ->
  let new := new_of e cs o in
  same_nf e new /\ (new = e -> NF e e).
Proof.
  intros HF Ho new.
  destruct (simp_children_of_NF _ _ HF) as [f0 Hf0].
  assert (Hlen : length cs = length (children e)) by (symmetry; eapply Forall2_len; exact HF).
  (* unfolding of one driver step at any sufficient fuel *)
  assert (Hstep : forall g, (f0 <= g)%nat ->
            simp (S g) e =
            match o with
            | Some r => if expr_eqb r e then SOk e else simp g r
            | None => if list_eqb cs (children e) then SOk e else simp g (rebuild e cs)
            end).
  { intros g Hg. cbn [simp]. rewrite (Hf0 g Hg). rewrite Ho. reflexivity. }
  assert (Hfix : new = e -> NF e e).
  { intros Hnew. exists (S f0). rewrite Hstep by lia. unfold new, new_of in Hnew.
    destruct o as [r|].
    - subst r. rewrite expr_eqb_refl. reflexivity.
    - rewrite changed_spec_list_eqb in Hnew by exact Hlen.
      destruct (list_eqb cs (children e)) eqn:El; [reflexivity|]. cbn [negb] in Hnew.
      apply rebuild_self in Hnew; [|exact Hlen]. subst cs. rewrite list_eqb_refl in El. discriminate. }
  split; [|exact Hfix].
  destruct (expr_eqb new e) eqn:Enew.
  { apply expr_eqb_eq in Enew. rewrite Enew. apply same_nf_refl. }
  intros r. split.
  - intros [n Hn]. destruct n as [|g]; [discriminate|].
    pose proof Hn as Hn0. cbn [simp] in Hn.
    destruct (simp_children (simp g) (children e)) as [err|cs'] eqn:Ecs.
    { exfalso. eapply simp_children_inl_not_ok; [exact Ecs|exact Hn]. }
    assert (cs' = cs) by (eapply simp_children_det; eauto). subst cs'.
    rewrite Ho in Hn. unfold new, new_of in *.
    destruct o as [r0|].
    + rewrite Enew in Hn. exists g. exact Hn.
    + rewrite changed_spec_list_eqb in * by exact Hlen.
      destruct (list_eqb cs (children e)) eqn:El; cbn [negb] in *.
      * rewrite expr_eqb_refl in Enew. discriminate.
      * exists g. exact Hn.
  - intros [m Hm]. exists (S (Nat.max f0 m)). rewrite Hstep by lia. unfold new, new_of in *.
    destruct o as [r0|].
    + rewrite Enew. apply (simp_fuel_mono _ _ _ Hm). lia.
    + rewrite changed_spec_list_eqb in * by exact Hlen.
      destruct (list_eqb cs (children e)) eqn:El; cbn [negb] in *.
      * rewrite expr_eqb_refl in Enew. discriminate.
      * apply (simp_fuel_mono _ _ _ Hm). lia.
Qed.

(** ** the work loop preserves the invariant *)
Lemma run_sound : forall fuel c todo c',
  cache_inv c -> run fuel c todo = ROk c' -> cache_inv c'.
Proof.
  induction fuel as [|f IH]; intros c todo c' Hinv Hr; cbn [run] in Hr; [discriminate|].
  destruct todo as [|e rest]; [inversion Hr; subst; exact Hinv|].
  pose proof (visit_sound f (children e) c Hinv) as Hv.
  destruct (visit f c (children e)) as [c1 cs chg miss|]; [|discriminate].
  destruct Hv as [Hc1 Hm].
  destruct miss as [|m ms].
  - destruct (Hm eq_refl) as [HF Hchg].
    destruct (simplify e cs) as [o|] eqn:Ho; [|discriminate].
    pose proof (step_sound e cs o HF Ho) as Hstep. cbn zeta in Hstep. unfold new_of in Hstep.
    rewrite <- Hchg in Hstep. destruct Hstep as [Hs Hfix].
    set (new := match o with Some r => r | None => if chg then rebuild e cs else e end) in *.
    assert (Hc2 : cache_inv (update c1 e new)) by (apply cache_inv_update; assumption).
    destruct (negb (expr_eqb e new) && is_none (lookup (update c1 e new) new)); eapply IH; eauto.
  - eapply IH; eauto.
Qed.

(** ** [Simplifier::simplify] with any history behind it returns the cache-free result *)
Theorem simplify_cached_sound : forall fuel c e c' r,
  cache_inv c -> simplify_cached fuel c e = (c', SOk r) -> cache_inv c' /\ NF e r.
Proof.
  intros fuel c e c' r Hinv H. unfold simplify_cached in H.
  destruct (run fuel c [e]) as [c1| |] eqn:Er; try (inversion H; fail).
  pose proof (run_sound _ _ _ _ Hinv Er) as Hc1.
  pose proof (gfp_sound fuel c1 e Hc1) as Hg.
  destruct (get_fixed_point fuel c1 e) as [c2 r2|c2|]; inversion H; subst.
  destruct Hg as (Hc2 & Hnf & _). split; assumption.
Qed.

(** the invariant survives calls that do not return a result as well (a panic leaves the modelled cache unchanged) *)
Lemma simplify_cached_inv : forall fuel c e c' r,
  cache_inv c -> simplify_cached fuel c e = (c', r) -> cache_inv c'.
Proof.
  intros fuel c e c' r Hinv H. unfold simplify_cached in H.
  destruct (run fuel c [e]) as [c1| |] eqn:Er; try (inversion H; subst; exact Hinv).
  pose proof (run_sound _ _ _ _ Hinv Er) as Hc1.
  pose proof (gfp_sound fuel c1 e Hc1) as Hg.
  destruct (get_fixed_point fuel c1 e) as [c2 r2|c2|]; inversion H; subst; try exact Hc1; try exact Hg.
  destruct Hg as [Hg _]. exact Hg.
Qed.

(** a whole history with one instance: every answer is the cache-free answer of its own expression *)
Theorem simplify_batch_sound : forall fuel es c c' rs,
  cache_inv c -> simplify_batch fuel c es = (c', rs) ->
  cache_inv c' /\ Forall2 (fun e s => forall r, s = SOk r -> NF e r) es rs.
Proof.
  intros fuel. induction es as [|e rest IH]; intros c c' rs Hinv H; cbn [simplify_batch] in H.
  - inversion H; subst. split; [exact Hinv|constructor].
  - destruct (simplify_cached fuel c e) as [c1 s] eqn:E1.
    destruct (simplify_batch fuel c1 rest) as [c2 rs'] eqn:E2.
    inversion H; subst.
    pose proof (simplify_cached_inv _ _ _ _ _ Hinv E1) as Hc1.
    destruct (IH _ _ _ Hc1 E2) as [Hc2 HF]. split; [exact Hc2|].
    constructor; [|exact HF]. intros r Hs. subst s.
    exact (proj2 (simplify_cached_sound _ _ _ _ _ Hinv E1)).
Qed.

(** history independence: the same expression simplified by two instances with arbitrary (invariant) caches,
    arbitrary fuels: same result *)
Theorem simplify_cached_history_independent : forall f1 f2 c1 c2 e c1' c2' r1 r2,
  cache_inv c1 -> cache_inv c2 ->
  simplify_cached f1 c1 e = (c1', SOk r1) -> simplify_cached f2 c2 e = (c2', SOk r2) -> r1 = r2.
Proof.
  intros f1 f2 c1 c2 e c1' c2' r1 r2 H1 H2 E1 E2.
  eapply NF_det; [exact (proj2 (simplify_cached_sound _ _ _ _ _ H1 E1))|exact (proj2 (simplify_cached_sound _ _ _ _ _ H2 E2))].
Qed.

(** idempotence with the cache: simplifying the result again (same instance, later, or any other instance) returns it *)
Theorem simplify_cached_idempotent : forall f1 f2 c1 c2 e c1' c2' r r',
  cache_inv c1 -> cache_inv c2 ->
  simplify_cached f1 c1 e = (c1', SOk r) -> simplify_cached f2 c2 r = (c2', SOk r') -> r' = r.
Proof.
  intros f1 f2 c1 c2 e c1' c2' r r' H1 H2 E1 E2.
  destruct (proj2 (simplify_cached_sound _ _ _ _ _ H1 E1)) as [n Hn].
  destruct (simp_idempotent_lemma _ _ _ Hn) as (m & _ & Hm).
  eapply NF_det; [exact (proj2 (simplify_cached_sound _ _ _ _ _ H2 E2))|exists m; exact Hm].
Qed.
