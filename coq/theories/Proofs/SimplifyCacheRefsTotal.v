(** * Proofs/SimplifyCacheRefsTotal.v — termination, cache transparency and completeness transfer from the
    tree-keyed driver model to the driver over a cache container. *)
From Coq Require Import Arith NArith List Bool Lia.
From Patronus Require Import Simplify SimplifyFix SimplifyCache SimplifyCacheProofs SimplifyBuilders
     SimplifyTermMeasure SimplifyTermRules3 SimplifyTerm SimplifyTermNoPanic1 SimplifyTermNoPanic SimplifyCacheComplete.
From Patronus Require Import ExprMeta ExprMetaSpec ExprMetaProofs SimplifyCacheRefs SimplifyCacheRefsProofs SimplifyCacheRefsSim.
Import ListNotations.

(** the states of one [Simplifier] instance over a container: fresh ([m0] holds no entry), then any returning calls *)
Inductive reachable_refs {M : Type} (o : map_ops M) (m0 : M) : ctx -> M -> Prop :=
| rr_fresh : reachable_refs o m0 [] m0
| rr_call c m fuel e c' m' r :
    reachable_refs o m0 c m -> simplify_cached_r o fuel c m e = (c', m', SOk r) -> reachable_refs o m0 c' m'.

Definition holds_nothing {M : Type} (o : map_ops M) (m0 : M) : Prop := forall k, mo_get o m0 k = None.

Lemma reachable_refs_tree : forall (M : Type) (o : map_ops M) (m0 : M), ops_lawful o -> holds_nothing o m0 ->
  forall c m, reachable_refs o m0 c m -> exists a, reachable a /\ cache_rel o c m a.
Proof.
  intros M o m0 L H0 c m R. induction R as [|c m fuel e c' m' r _ IH Hcall].
  - exists []. split; [constructor|]. apply Inv_empty. exact H0.
  - destruct IH as (a & Ra & I).
    pose proof (refs_call_refines_tree_call M o L fuel c m a e I) as S.
    destruct (simplify_cached fuel a e) as [a' s] eqn:Ht. rewrite Hcall in S. destruct S as (Es & I' & _). subst s.
    exists a'. split; [eapply reachable_call; eassumption|exact I'].
Qed.

Theorem container_driver_total : forall (M : Type) (o : map_ops M) (m0 : M), ops_lawful o -> holds_nothing o m0 ->
  forall e : expr, wt e = true -> nwm e = true ->
  exists r, ok_rw e r /\
    (forall c m, reachable_refs o m0 c m -> exists F, forall fuel, (F <= fuel)%nat ->
        exists c' m', simplify_cached_r o fuel c m e = (c', m', SOk r) /\ reachable_refs o m0 c' m') /\
    (forall c m, reachable_refs o m0 c m -> exists F, forall fuel, (F <= fuel)%nat ->
        exists c' m', simplify_cached_r o fuel c m r = (c', m', SOk r) /\ reachable_refs o m0 c' m') /\
    (forall c m fuel c' m' r', reachable_refs o m0 c m -> simplify_cached_r o fuel c m e = (c', m', SOk r') -> r' = r).
Proof.
  intros M o m0 L H0 e Hwt Hn.
  destruct (simp_result e Hwt Hn _ (Nat.le_refl _)) as (r & Hr & Hrw & _ & _ & (n & Hm)).
  assert (forall x, (exists k, simp k x = SOk r) -> forall c m, reachable_refs o m0 c m -> exists F, forall fuel, (F <= fuel)%nat ->
        exists c' m', simplify_cached_r o fuel c m x = (c', m', SOk r) /\ reachable_refs o m0 c' m') as Key.
  { intros x Hx c m R. destruct (reachable_refs_tree M o m0 L H0 c m R) as (a & Ra & I).
    destruct (simplify_cached_complete_reachable a x r Ra Hx) as [F HF].
    exists F. intros fuel Hle. destruct (HF fuel Hle) as (a' & Ht & _).
    pose proof (refs_call_refines_tree_call M o L fuel c m a x I) as S. rewrite Ht in S.
    destruct (simplify_cached_r o fuel c m x) as [[c' m'] s'] eqn:Hc. destruct S as (Es & _ & _). subst s'.
    exists c', m'. split; [reflexivity|]. eapply rr_call; eassumption. }
  exists r. split; [exact Hrw|]. split; [|split].
  - apply Key. eexists; exact Hr.
  - apply Key. eexists; exact Hm.
  - intros c m fuel c' m' r' R Hc. destruct (reachable_refs_tree M o m0 L H0 c m R) as (a & Ra & I).
    pose proof (refs_call_refines_tree_call M o L fuel c m a e I) as S. rewrite Hc in S.
    destruct (simplify_cached fuel a e) as [a' s] eqn:Ht. destruct S as (Es & _ & _). subst s.
    pose proof (cache_good_inv a (reachable_good a Ra)) as Hinv.
    destruct (simplify_cached_sound _ _ _ _ _ Hinv Ht) as [_ [k Hk]].
    eapply simp_deterministic; eassumption.
Qed.

Lemma dense_holds_nothing : holds_nothing dense_ops dense_empty.
Proof. intro k. reflexivity. Qed.
Lemma sparse_holds_nothing : holds_nothing sparse_ops sparse_empty.
Proof. intro k. reflexivity. Qed.
