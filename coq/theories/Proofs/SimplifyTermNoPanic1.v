(** * Proofs/SimplifyTermNoPanic1.v — the only panic of the simplifier model is the literal
    multiplication above 128 bits; [nwm e] ("no wide multiplication": no [BVMul] node wider than
    128 bits) is preserved by every rule (no rule creates a multiplication except the slice
    push-down, which creates a narrower one).  Part 1: the predicate, the builders, the simple rules. *)
From Coq Require Import Lia.
From Patronus Require Import Simplify BVLemmas ExprLemmas EvalProofs BVRuleLemmas ExprEqb SimplifyBuilders
     SimplifyRules1 SimplifyRules2 SimplifyMask SimplifyRules3 SimplifyTermMeasure SimplifyTermArith SimplifyTermRules1.
Open Scope N_scope.

Fixpoint nwm (e : expr) : bool :=
  match e with
  | BVSymbol _ _ | BVLiteral _ _ | ArraySymbol _ _ _ => true
  | BVMul a b w => (w <=? 128) && (nwm a && nwm b)
  | BVZeroExt e _ _ | BVSignExt e _ _ | BVSlice e _ _ | BVNot e _ | BVNegate e _
  | ArrayConstant e _ _ => nwm e
  | BVEqual a b | BVImplies a b | BVGreater a b | BVGreaterSigned a b _
  | BVGreaterEqual a b | BVGreaterEqualSigned a b _ | BVConcat a b _
  | BVAnd a b _ | BVOr a b _ | BVXor a b _ | BVShiftLeft a b _
  | BVArithmeticShiftRight a b _ | BVShiftRight a b _ | BVAdd a b _
  | BVSignedDiv a b _ | BVUnsignedDiv a b _ | BVSignedMod a b _ | BVSignedRem a b _
  | BVUnsignedRem a b _ | BVSub a b _ | BVArrayRead a b _ | ArrayEqual a b => nwm a && nwm b
  | BVIte a b c | ArrayStore a b c | ArrayIte a b c => nwm a && (nwm b && nwm c)
  end.

(** ** builders *)
Lemma nwm_mk_slice x hi lo : nwm (mk_slice x hi lo) = nwm x.
Proof. unfold mk_slice. destruct ((lo =? 0) && (hi + 1 =? width x)); reflexivity. Qed.
Lemma nwm_mk_zext x by_ : nwm (mk_zext x by_) = nwm x.
Proof. unfold mk_zext. destruct (by_ =? 0); reflexivity. Qed.
Lemma nwm_mk_sext x by_ : nwm (mk_sext x by_) = nwm x.
Proof. unfold mk_sext. destruct (by_ =? 0); reflexivity. Qed.
Lemma nwm_mk_equal a b : nwm (mk_equal a b) = nwm a && nwm b.
Proof. unfold mk_equal. destruct (type_of a); reflexivity. Qed.
Lemma nwm_mk_ite c t f : nwm (mk_ite c t f) = nwm c && (nwm t && nwm f).
Proof. unfold mk_ite. destruct (type_of t); reflexivity. Qed.

(** normalise all [nwm] facts and solve the goal *)
Ltac nwm_norm :=
  cbn [nwm mk_not mk_negate mk_and mk_or mk_xor mk_add mk_sub mk_shl mk_concat mk_zero mk_ones mk_true mk_false] in *;
  repeat (progress (rewrite ?nwm_mk_slice, ?nwm_mk_zext, ?nwm_mk_sext, ?nwm_mk_equal, ?nwm_mk_ite in *;
    cbn [nwm mk_not mk_negate mk_and mk_or mk_xor mk_add mk_sub mk_shl mk_concat mk_zero mk_ones mk_true mk_false] in *));
  cbn [nwm mk_not mk_negate mk_and mk_or mk_xor mk_add mk_sub mk_shl mk_concat mk_zero mk_ones mk_true mk_false] in *.

Ltac nwm_split :=
  repeat match goal with
         | H : _ && _ = true |- _ => apply andb_true_iff in H; destruct H
         end.

Ltac nwm_done :=
  nwm_norm; nwm_split;
  repeat match goal with
         | H : ?b = true |- context [?b] => lazymatch b with true => fail | _ => rewrite H end
         end;
  try reflexivity; try assumption.

(** ** not / extensions / implies / >= / add / shifts *)
Lemma simplify_bv_not_nwm x w r : nwm (BVNot x w) = true -> simplify_bv_not x = Some r -> nwm r = true.
Proof. intros Hn Hs. destruct x; cbn [simplify_bv_not] in Hs; try discriminate; inv_some'; nwm_done. Qed.

Lemma simplify_bv_zero_ext_nwm x by_ w r :
  nwm (BVZeroExt x by_ w) = true -> simplify_bv_zero_ext x by_ = Some r -> nwm r = true.
Proof.
  intros Hn Hs. unfold simplify_bv_zero_ext in Hs. destruct (by_ =? 0); [inv_some'; nwm_done|].
  destruct x; inv_some'; nwm_done.
Qed.

Lemma simplify_bv_sign_ext_nwm x by_ w r :
  nwm (BVSignExt x by_ w) = true -> simplify_bv_sign_ext x by_ = Some r -> nwm r = true.
Proof.
  intros Hn Hs. unfold simplify_bv_sign_ext in Hs. destruct (by_ =? 0); [inv_some'; nwm_done|].
  destruct x; inv_some'; nwm_done.
Qed.

Lemma simplify_implies_nwm a b : nwm (BVImplies a b) = true -> nwm (mk_or (mk_not a) b) = true.
Proof. intros Hn. nwm_done. Qed.

Lemma simplify_bv_greater_equal_nwm a b r :
  nwm (BVGreaterEqual a b) = true -> simplify_bv_greater_equal a b = Some r -> nwm r = true.
Proof.
  intros Hn Hs. unfold simplify_bv_greater_equal in Hs.
  destruct (lit_dec a) as [[[wa va] ->]|Na]; cbn [fst snd] in *.
  - destruct (lit_dec b) as [[[wb vb] ->]|Nb]; cbn [fst snd] in *.
    + inv_some'. reflexivity.
    + assert (Hs' : (if va =? N.ones (width (BVLiteral wa va)) then Some mk_true else None) = Some r)
        by (not_lit b Nb; exact Hs).
      destruct (va =? N.ones (width (BVLiteral wa va))); inv_some'. reflexivity.
  - destruct (lit_dec b) as [[[wb vb] ->]|Nb]; cbn [fst snd] in *.
    + assert (Hs' : (if vb =? 0 then Some mk_true
                     else if vb =? N.ones (width a) then Some (mk_equal a (BVLiteral wb vb)) else None) = Some r)
        by (not_lit a Na; exact Hs).
      destruct (vb =? 0); [inv_some'; reflexivity|].
      destruct (vb =? N.ones (width a)); inv_some'. nwm_done.
    + exfalso. not_lit a Na; not_lit b Nb; discriminate Hs.
Qed.

Lemma simplify_bv_add_nwm a b w r :
  nwm (BVAdd a b w) = true -> simplify_bv_add a b = Some r -> nwm r = true.
Proof.
  intros Hn Hs. unfold simplify_bv_add in Hs.
  destruct (width a =? 1); [inv_some'; nwm_done|].
  pose proof (find_lits_view a b) as V. destruct (find_lits_commutative a b) as [wa va wb vb|wl vl le other|].
  - inv_some'. reflexivity.
  - destruct (vl =? 0); inv_some'. destruct V as [(-> & -> & -> & _)|(-> & -> & -> & _)]; nwm_done.
  - discriminate.
Qed.

Lemma simplify_bv_shift_left_nwm a b w r :
  nwm (BVShiftLeft a b w) = true -> simplify_bv_shift_left a b w = Some r -> nwm r = true.
Proof.
  intros Hn Hs. unfold simplify_bv_shift_left in Hs.
  destruct (lit_dec b) as [[[wb k] ->]|Nb]; cbn [fst snd] in *.
  2: { exfalso. destruct a; not_lit b Nb; discriminate Hs. }
  destruct (lit_dec a) as [[[wa va] ->]|Na]; cbn [fst snd] in *; [inv_some'; reflexivity|].
  assert (Hs' : (if w <=? k then Some (mk_zero w) else if k =? 0 then Some a
                 else Some (mk_concat (mk_slice a (w - 1 - k) 0) (mk_zero k))) = Some r)
    by (not_lit a Na; exact Hs).
  clear Hs. destruct (w <=? k); [inv_some'; reflexivity|]. destruct (k =? 0); inv_some'; nwm_done.
Qed.

Lemma simplify_bv_shift_right_nwm a b w r :
  nwm (BVShiftRight a b w) = true -> simplify_bv_shift_right a b w = Some r -> nwm r = true.
Proof.
  intros Hn Hs. unfold simplify_bv_shift_right in Hs.
  destruct (lit_dec b) as [[[wb k] ->]|Nb]; cbn [fst snd] in *.
  2: { exfalso. destruct a; not_lit b Nb; discriminate Hs. }
  destruct (lit_dec a) as [[[wa va] ->]|Na]; cbn [fst snd] in *; [inv_some'; reflexivity|].
  assert (Hs' : (if w <=? k then Some (mk_zero w) else if k =? 0 then Some a
                 else Some (mk_zext (mk_slice a (w - 1) k) k)) = Some r)
    by (not_lit a Na; exact Hs).
  clear Hs. destruct (w <=? k); [inv_some'; reflexivity|]. destruct (k =? 0); inv_some'; nwm_done.
Qed.

Lemma simplify_bv_arithmetic_shift_right_nwm a b w r :
  nwm (BVArithmeticShiftRight a b w) = true -> simplify_bv_arithmetic_shift_right a b w = Some r -> nwm r = true.
Proof.
  intros Hn Hs. unfold simplify_bv_arithmetic_shift_right in Hs.
  destruct (lit_dec b) as [[[wb k] ->]|Nb]; cbn [fst snd] in *.
  2: { exfalso. destruct a; not_lit b Nb; discriminate Hs. }
  destruct (lit_dec a) as [[[wa va] ->]|Na]; cbn [fst snd] in *; [inv_some'; reflexivity|].
  assert (Hs' : (if w <=? k then Some (mk_sext (mk_slice a (w - 1) (w - 1)) (w - 1)) else if k =? 0 then Some a
                 else Some (mk_sext (mk_slice a (w - 1) k) k)) = Some r)
    by (not_lit a Na; exact Hs).
  clear Hs. destruct (w <=? k); [inv_some'; nwm_done|]. destruct (k =? 0); inv_some'; nwm_done.
Qed.

(** ** mul: no panic, and the result has no wide multiplication *)
Lemma simplify_bv_mul_nwm a b w r :
  nwm (BVMul a b w) = true -> simplify_bv_mul a b = Ok (Some r) -> nwm r = true.
Proof.
  intros Hn Hs. unfold simplify_bv_mul in Hs.
  destruct (width a =? 1); [inv_some'; nwm_done|].
  pose proof (find_lits_view a b) as V. destruct (find_lits_commutative a b) as [wa va wb vb|wl vl le other|].
  - destruct (128 <? wa); inv_some'. reflexivity.
  - destruct (vl =? 0).
    { inv_some'. destruct V as [(-> & -> & -> & _)|(-> & -> & -> & _)]; reflexivity. }
    destruct (vl =? 1).
    { inv_some'. destruct V as [(-> & -> & -> & _)|(-> & -> & -> & _)]; nwm_done. }
    destruct (Simplify.lit_is_pow_2 vl) as [k|]; inv_some'.
    destruct V as [(-> & -> & -> & _)|(-> & -> & -> & _)]; nwm_done.
  - discriminate.
Qed.

Lemma simplify_bv_mul_no_panic a b w :
  wt (BVMul a b w) = true -> nwm (BVMul a b w) = true -> simplify_bv_mul a b <> Panic.
Proof.
  intros Hwt Hn Hs. apply wt_mul in Hwt. destruct Hwt as (Wa & Wb & Ta & Tb).
  unfold simplify_bv_mul in Hs. destruct (width a =? 1); [discriminate|].
  pose proof (find_lits_view a b) as V. destruct (find_lits_commutative a b) as [wa va wb vb|wl vl le other|].
  - destruct V as [-> ->]. destruct (lit_typed _ _ _ Wa Ta) as (-> & _ & _).
    cbn [nwm] in Hn. apply andb_true_iff in Hn. destruct Hn as [Hw _]. apply N.leb_le in Hw.
    destruct (N.ltb_spec 128 w); [lia|discriminate].
  - destruct (vl =? 0); [discriminate|]. destruct (vl =? 1); [discriminate|].
    destruct (Simplify.lit_is_pow_2 vl); discriminate.
  - discriminate.
Qed.
