(** * Proofs/SimplifyTermRules3.v — every fired rule strictly decreases the termination measure
    (part 3: and / or / xor), and the dispatcher lemma [simplify_decreases]. *)
From Coq Require Import Lia.
From Patronus Require Import Simplify BVLemmas ExprLemmas EvalProofs BVRuleLemmas ExprEqb SimplifyBuilders
     SimplifyRules1 SimplifyRules2 SimplifyMask SimplifyRules3
     SimplifyTermMeasure SimplifyTermArith SimplifyTermRules1 SimplifyTermRules2 SimplifyTermMask.
Open Scope N_scope.

(** ** the arms without literals (complements, De Morgan) *)
Section NoLit.
  Variables (a b : expr) (w : N).
  Hypothesis Wa : wt a = true.
  Hypothesis Wb : wt b = true.
  Hypothesis Ta : type_of a = TBV w.
  Hypothesis Tb : type_of b = TBV w.

  (** the De Morgan result *)
  Lemma demorgan_arith ia ib : wt ia = true -> type_of ib = TBV w ->
    mB (width ib) (mu ia) (mu ib) + 1 < mB w (mu ia + 1) (mu ib + 1).
  Proof.
    intros _ Tib. unfold width. rewrite Tib. unfold mB. pose proof (cP_ge8 w). lia.
  Qed.

  Lemma one_lt_mB : 1 < mB w (mu a) (mu b).
  Proof. pose proof (mB_gt w (mu a) (mu b)). pose proof (mu_pos a). lia. Qed.

  Lemma and_nolit_dec r : and_nolit a b = Some r -> mu r < mB w (mu a) (mu b).
  Proof.
    intros Hs. unfold and_nolit in Hs. pose proof one_lt_mB as H1.
    destruct (not_dec a) as [[[ia wa] Ea]|Na]; cbn [fst snd] in *.
    - subst a. pose proof Wa as Wa'. apply wt_not in Wa'. destruct Wa' as [Wia Tia].
      destruct (expr_eqb ia b); [inv_some'; cbn [mu mk_zero]; exact H1|].
      destruct (not_dec b) as [[[ib wb] Eb]|Nb]; cbn [fst snd] in *.
      2: { exfalso. not_not_ b Nb; discriminate Hs. }
      subst b. pose proof Wb as Wb'. apply wt_not in Wb'. destruct Wb' as [Wib Tib].
      cbn in Tb. inversion Tb; subst wb.
      destruct (expr_eqb ib (BVNot ia wa)); inv_some'; [cbn [mu mk_zero]; exact H1|].
      cbn [mu mk_not mk_or]. now apply demorgan_arith.
    - assert (Hs' : match b with BVNot inner w0 => if expr_eqb inner a then Some (mk_zero w0) else None | _ => None end = Some r)
        by (not_not_ a Na; exact Hs).
      clear Hs. destruct (not_dec b) as [[[ib wb] Eb]|Nb]; cbn [fst snd] in *.
      2: { exfalso. not_not_ b Nb; discriminate Hs'. }
      subst b. destruct (expr_eqb ib a); inv_some'. cbn [mu mk_zero]. exact H1.
  Qed.

  Lemma or_nolit_dec r : or_nolit a b = Some r -> mu r < mB w (mu a) (mu b).
  Proof.
    intros Hs. unfold or_nolit in Hs. pose proof one_lt_mB as H1.
    destruct (not_dec a) as [[[ia wa] Ea]|Na]; cbn [fst snd] in *.
    - subst a. pose proof Wa as Wa'. apply wt_not in Wa'. destruct Wa' as [Wia Tia].
      destruct (expr_eqb ia b); [inv_some'; cbn [mu mk_ones]; exact H1|].
      destruct (not_dec b) as [[[ib wb] Eb]|Nb]; cbn [fst snd] in *.
      2: { exfalso. not_not_ b Nb; discriminate Hs. }
      subst b. pose proof Wb as Wb'. apply wt_not in Wb'. destruct Wb' as [Wib Tib].
      cbn in Tb. inversion Tb; subst wb.
      destruct (expr_eqb ib (BVNot ia wa)); inv_some'; [cbn [mu mk_ones]; exact H1|].
      cbn [mu mk_not mk_and]. now apply demorgan_arith.
    - assert (Hs' : match b with BVNot inner w0 => if expr_eqb inner a then Some (mk_ones w0) else None | _ => None end = Some r)
        by (not_not_ a Na; exact Hs).
      clear Hs. destruct (not_dec b) as [[[ib wb] Eb]|Nb]; cbn [fst snd] in *.
      2: { exfalso. not_not_ b Nb; discriminate Hs'. }
      subst b. destruct (expr_eqb ib a); inv_some'. cbn [mu mk_ones]. exact H1.
  Qed.

  Lemma xor_nolit_dec r : xor_nolit a b = Some r -> mu r < mB w (mu a) (mu b).
  Proof.
    intros Hs. unfold xor_nolit in Hs. pose proof one_lt_mB as H1.
    destruct (not_dec a) as [[[ia wa] Ea]|Na]; cbn [fst snd] in *.
    - subst a.
      destruct (expr_eqb ia b); [inv_some'; cbn [mu mk_ones]; exact H1|].
      destruct (not_dec b) as [[[ib wb] Eb]|Nb]; cbn [fst snd] in *.
      2: { exfalso. not_not_ b Nb; discriminate Hs. }
      subst b. destruct (expr_eqb ib (BVNot ia wa)); inv_some'. cbn [mu mk_ones]. exact H1.
    - assert (Hs' : match b with BVNot inner w0 => if expr_eqb inner a then Some (mk_ones w0) else None | _ => None end = Some r)
        by (not_not_ a Na; exact Hs).
      clear Hs. destruct (not_dec b) as [[[ib wb] Eb]|Nb]; cbn [fst snd] in *.
      2: { exfalso. not_not_ b Nb; discriminate Hs'. }
      subst b. destruct (expr_eqb ib a); inv_some'. cbn [mu mk_ones]. exact H1.
  Qed.
End NoLit.

(** the measure of [a op b] when one operand is a literal and the other is [other] *)
Lemma lone_mu a b w wl vl le other :
  ((a = BVLiteral wl vl /\ le = a /\ other = b /\ (forall w' v', b <> BVLiteral w' v')) \/
   (b = BVLiteral wl vl /\ le = b /\ other = a /\ (forall w' v', a <> BVLiteral w' v'))) ->
  mB w (mu a) (mu b) = cP w * (1 + mu other) + 1 /\ mu le = 1.
Proof.
  intros [(-> & -> & -> & _)|(-> & -> & -> & _)]; cbn [mu]; unfold mB; split; try reflexivity.
  f_equal. f_equal. lia.
Qed.

(** ** and *)
Lemma simplify_bv_and_dec a b w r :
  wt (BVAnd a b w) = true -> simplify_bv_and a b = Some r -> mu r < mu (BVAnd a b w).
Proof.
  intros Hwt Hs. apply wt_and in Hwt. destruct Hwt as (Wa & Wb & Ta & Tb).
  pose proof (mB_gt w (mu a) (mu b)) as Hgt. pose proof (mu_pos a). pose proof (mu_pos b).
  unfold simplify_bv_and in Hs. fold (and_nolit a b) in Hs. cbn [mu].
  destruct (expr_eqb a b); [inv_some'; lia|].
  pose proof (find_lits_view a b) as V. destruct (find_lits_commutative a b) as [wa va wb vb|wl vl le other|].
  - inv_some'. cbn [mu]. lia.
  - destruct (lone_typed _ _ _ _ _ _ _ Wa Wb Ta Tb V) as (-> & Hvl & -> & Wo & To).
    destruct (lone_mu _ _ w _ _ _ _ V) as [Hm Hle]. rewrite Hm. pose proof (cP_ge8 w). pose proof (mu_pos other).
    destruct (vl =? 0); [inv_some'; cbn [mu]; nia|].
    destruct (lit_is_all_ones w vl); [inv_some'; nia|].
    fold (and_mask_arm w vl other) in Hs.
    exact (and_mask_arm_dec w vl other r Wo To Hs).
  - eapply and_nolit_dec; eassumption.
Qed.

(** ** or *)
Lemma simplify_bv_or_dec a b w r :
  wt (BVOr a b w) = true -> simplify_bv_or a b = Some r -> mu r < mu (BVOr a b w).
Proof.
  intros Hwt Hs. apply wt_or in Hwt. destruct Hwt as (Wa & Wb & Ta & Tb).
  pose proof (mB_gt w (mu a) (mu b)) as Hgt. pose proof (mu_pos a). pose proof (mu_pos b).
  unfold simplify_bv_or in Hs. fold (or_nolit a b) in Hs. cbn [mu].
  destruct (expr_eqb a b); [inv_some'; lia|].
  pose proof (find_lits_view a b) as V. destruct (find_lits_commutative a b) as [wa va wb vb|wl vl le other|].
  - inv_some'. cbn [mu]. lia.
  - destruct (lone_mu _ _ w _ _ _ _ V) as [Hm Hle]. rewrite Hm. pose proof (cP_ge8 w). pose proof (mu_pos other).
    destruct (vl =? 0); [inv_some'; nia|].
    destruct (lit_is_all_ones wl vl); inv_some'. nia.
  - eapply or_nolit_dec; eassumption.
Qed.

(** ** xor *)
Lemma simplify_bv_xor_dec a b w r :
  wt (BVXor a b w) = true -> simplify_bv_xor a b = Some r -> mu r < mu (BVXor a b w).
Proof.
  intros Hwt Hs. apply wt_xor in Hwt. destruct Hwt as (Wa & Wb & Ta & Tb).
  pose proof (mB_gt w (mu a) (mu b)) as Hgt. pose proof (mu_pos a). pose proof (mu_pos b).
  unfold simplify_bv_xor in Hs. fold (xor_nolit a b) in Hs. cbn [mu].
  destruct (expr_eqb a b); [inv_some'; cbn [mu mk_zero]; lia|].
  pose proof (find_lits_view a b) as V. destruct (find_lits_commutative a b) as [wa va wb vb|wl vl le other|].
  - inv_some'. cbn [mu]. lia.
  - destruct (lone_mu _ _ w _ _ _ _ V) as [Hm Hle]. rewrite Hm. pose proof (cP_ge8 w). pose proof (mu_pos other).
    destruct (vl =? 0); [inv_some'; nia|].
    destruct (lit_is_all_ones wl vl); inv_some'. cbn [mu mk_not]. nia.
  - eapply xor_nolit_dec; eassumption.
Qed.

(** ** the dispatcher: a fired rule strictly decreases the measure *)
Theorem simplify_decreases e r : wt e = true -> simplify e (children e) = Ok (Some r) -> mu r < mu e.
Proof.
  intros Hwt Hs. destruct e; cbn [simplify children] in Hs; try discriminate;
    try (inversion Hs as [Hs']; clear Hs).
  - now apply simplify_bv_zero_ext_dec.
  - now apply simplify_bv_sign_ext_dec.
  - now apply simplify_bv_slice_dec.
  - now apply simplify_bv_not_dec.
  - now apply simplify_bv_equal_dec.
  - subst r. now apply simplify_implies_dec.
  - now apply simplify_bv_greater_equal_dec.
  - now apply simplify_bv_concat_dec.
  - now apply simplify_bv_and_dec.
  - now apply simplify_bv_or_dec.
  - now apply simplify_bv_xor_dec.
  - now apply simplify_bv_shift_left_dec.
  - now apply simplify_bv_arithmetic_shift_right_dec.
  - now apply simplify_bv_shift_right_dec.
  - now apply simplify_bv_add_dec.
  - now apply simplify_bv_mul_dec.
  - now apply simplify_ite_dec.
Qed.
