(** * Proofs/SimplifyRules2.v — soundness of the ite, equality, and/or/xor and concat rules
    (the mask-expansion arm of [simplify_bv_and] is in SimplifyMask.v). *)
From Coq Require Import Lia.
From Patronus Require Import Simplify BVLemmas ExprLemmas EvalProofs BVRuleLemmas ExprEqb SimplifyBuilders SimplifyRules1.
Open Scope N_scope.

(** ** ite *)
Lemma simplify_ite_sound c t f r :
  wt (BVIte c t f) = true -> simplify_ite c t f = Some r -> ok_rw (BVIte c t f) r.
Proof.
  intros Hwt Hs. pose proof Hwt as Hwt'. apply wt_ite in Hwt'.
  destruct Hwt' as (Wc & Wt & Wf & Tc & w & Tt & Tf).
  assert (Te : type_of (BVIte c t f) = TBV w) by (cbn [type_of]; exact Tf).
  assert (Hwt_ : width t = w) by (unfold width; now rewrite Tt).
  unfold simplify_ite in Hs.
  destruct (expr_eqb t f) eqn:Etf.
  { apply expr_eqb_eq in Etf. subst f. inv_some.
    eapply (ok_rw_of_B _ _ w); [assumption|exact Te|apply B_of_wt; eassumption|].
    intros rho _. cbn [ebv]. now destruct (ebv rho c =? 1). }
  destruct (lit_dec c) as [[[wc vc] ->]|Nc]; cbn [fst snd] in *.
  { destruct (lit_typed _ _ _ Wc Tc) as (E & _ & Hvc); subst wc.
    unfold lit_is_false in Hs. cbn [N.eqb Pos.eqb andb] in Hs.
    destruct (bit01 _ Hvc) as [->| ->]; cbn [N.eqb] in Hs; inv_some.
    - eapply (ok_rw_of_B _ _ w); [assumption|exact Te|apply B_of_wt; eassumption|]. intros rho _. reflexivity.
    - eapply (ok_rw_of_B _ _ w); [assumption|exact Te|apply B_of_wt; eassumption|]. intros rho _. reflexivity. }
  assert (Hs' : (if w =? 1 then
                   match t, f with
                   | BVLiteral _ vt, BVLiteral _ vf =>
                       match vt =? 1, vf =? 1 with
                       | true, false => Some c
                       | false, true => Some (mk_not c)
                       | _, _ => None
                       end
                   | BVLiteral _ vt, _ => if vt =? 1 then Some (mk_or c f) else Some (mk_and (mk_not c) f)
                   | _, BVLiteral _ vf => if vf =? 1 then Some (mk_or (mk_not c) t) else Some (mk_and c t)
                   | _, _ => None
                   end else None) = Some r)
    by (rewrite <- Hwt_; not_lit c Nc; exact Hs).
  clear Hs. destruct (N.eqb_spec w 1) as [->|Hw1]; [|discriminate].
  pose proof (B_of_wt _ _ Wc Tc) as Bc. pose proof (B_of_wt _ _ Wt Tt) as Bt. pose proof (B_of_wt _ _ Wf Tf) as Bf.
  assert (Hbc : forall rho, env_wf rho -> ebv rho c < 2 ^ 1) by (intros; now apply ebv_bound).
  assert (Hbt : forall rho, env_wf rho -> ebv rho t < 2 ^ 1) by (intros; now apply ebv_bound).
  assert (Hbf : forall rho, env_wf rho -> ebv rho f < 2 ^ 1) by (intros; now apply ebv_bound).
  destruct (lit_dec t) as [[[wt_ vt] ->]|Nt]; destruct (lit_dec f) as [[[wf vf] ->]|Nf]; cbn [fst snd] in *.
  - (* both literals *)
    destruct (lit_typed _ _ _ Wt Tt) as (E & _ & Hvt); subst wt_.
    destruct (lit_typed _ _ _ Wf Tf) as (E & _ & Hvf); subst wf.
    destruct (bit01 _ Hvt) as [->| ->]; destruct (bit01 _ Hvf) as [->| ->]; cbn [N.eqb Pos.eqb] in Hs'; try discriminate; inv_some.
    + eapply (ok_rw_of_B _ _ 1); [assumption|exact Te|apply B_mk_not; exact Bc|].
      intros rho Hr. cbn [ebv]. symmetry. apply ite_false_true. auto.
    + eapply (ok_rw_of_B _ _ 1); [assumption|exact Te|exact Bc|].
      intros rho Hr. cbn [ebv]. symmetry. apply ite_true_false. auto.
  - (* t literal *)
    destruct (lit_typed _ _ _ Wt Tt) as (E & _ & Hvt); subst wt_.
    assert (Hs'' : (if vt =? 1 then Some (mk_or c f) else Some (mk_and (mk_not c) f)) = Some r)
      by (not_lit f Nf; exact Hs').
    destruct (bit01 _ Hvt) as [->| ->]; cbn [N.eqb Pos.eqb] in Hs''; inv_some.
    + eapply (ok_rw_of_B _ _ 1); [assumption|exact Te|apply B_mk_and; [apply B_mk_not; exact Bc|exact Bf]|].
      intros rho Hr. cbn [ebv]. symmetry. apply ite_false_b; auto.
    + eapply (ok_rw_of_B _ _ 1); [assumption|exact Te|apply B_mk_or; [exact Bc|exact Bf]|].
      intros rho Hr. cbn [ebv]. symmetry. apply ite_true_b; auto.
  - (* f literal *)
    destruct (lit_typed _ _ _ Wf Tf) as (E & _ & Hvf); subst wf.
    assert (Hs'' : (if vf =? 1 then Some (mk_or (mk_not c) t) else Some (mk_and c t)) = Some r)
      by (not_lit t Nt; exact Hs').
    destruct (bit01 _ Hvf) as [->| ->]; cbn [N.eqb Pos.eqb] in Hs''; inv_some.
    + eapply (ok_rw_of_B _ _ 1); [assumption|exact Te|apply B_mk_and; [exact Bc|exact Bt]|].
      intros rho Hr. cbn [ebv]. symmetry. apply ite_a_false; auto.
    + eapply (ok_rw_of_B _ _ 1); [assumption|exact Te|apply B_mk_or; [apply B_mk_not; exact Bc|exact Bt]|].
      intros rho Hr. cbn [ebv]. symmetry. apply ite_a_true; auto.
  - exfalso. not_lit t Nt; not_lit f Nf; discriminate Hs'.
Qed.

Lemma B_cast e w w' v : B e w v -> w = w' -> B e w' v.
Proof. now intros H <-. Qed.

(** ** equality *)
Definition eq_after_lits (a b : expr) : option expr :=
  match find_one_concat a b with
  | Some (ca, cb, other) =>
      let aw := width ca in
      let bw := width cb in
      let w := aw + bw in
      Some (mk_and (mk_equal ca (mk_slice other (w - 1) (w - aw))) (mk_equal cb (mk_slice other (bw - 1) 0)))
  | None => None
  end.

Lemma concat_dec e : {abw : expr * expr * N | e = BVConcat (fst (fst abw)) (snd (fst abw)) (snd abw)} +
                     {forall a b w, e <> BVConcat a b w}.
Proof. destruct e; try (right; intros; discriminate). left. exists (e1, e2, w). reflexivity. Qed.

Ltac not_concat a Na := destruct a; try (exfalso; eapply Na; reflexivity).

Lemma eq_after_lits_sound a b r :
  wt (BVEqual a b) = true -> eq_after_lits a b = Some r -> ok_rw (BVEqual a b) r.
Proof.
  intros Hwt Hs. pose proof Hwt as Hwt'. apply wt_eq in Hwt'. destruct Hwt' as (Wa & Wb & w & Ta & Tb).
  unfold eq_after_lits, find_one_concat in Hs.
  destruct (concat_dec a) as [[[[ca cb] cw] ->]|Na]; cbn [fst snd] in *.
  - (* a is a concat *)
    inv_some. pose proof Wa as Wa'. apply wt_concat in Wa'.
    destruct Wa' as (Wca & Wcb & aw & bw & Tca & Tcb & ->). cbn in Ta. inversion Ta; subst w.
    pose proof (width_pos _ _ Wca Tca) as Hpa. pose proof (width_pos _ _ Wcb Tcb) as Hpb.
    assert (Hwca : width ca = aw) by (unfold width; now rewrite Tca).
    assert (Hwcb : width cb = bw) by (unfold width; now rewrite Tcb).
    rewrite !Hwca, !Hwcb.
    eapply (ok_rw_of_B _ _ 1); [assumption|reflexivity| |].
    + apply B_mk_and.
      * eapply B_mk_equal; [apply B_of_wt; eassumption|].
        eapply B_cast; [eapply B_mk_slice; [apply B_of_wt; eassumption|lia|lia]|lia].
      * eapply B_mk_equal; [apply B_of_wt; eassumption|].
        eapply B_cast; [eapply B_mk_slice; [apply B_of_wt; eassumption|lia|lia]|lia].
    + intros rho Hr. cbn [ebv]. unfold width. rewrite Tcb. symmetry.
      apply eq_concat_l; try assumption; now apply ebv_bound.
  - assert (Hs' : match b with
                  | BVConcat ca cb _ =>
                      Some (mk_and (mk_equal ca (mk_slice a (width ca + width cb - 1) (width ca + width cb - width ca)))
                                   (mk_equal cb (mk_slice a (width cb - 1) 0)))
                  | _ => None end = Some r)
      by (not_concat a Na; destruct b; exact Hs).
    clear Hs. destruct (concat_dec b) as [[[[ca cb] cw] ->]|Nb]; cbn [fst snd] in *.
    2: { exfalso. not_concat b Nb; discriminate Hs'. }
    inv_some. pose proof Wb as Wb'. apply wt_concat in Wb'.
    destruct Wb' as (Wca & Wcb & aw & bw & Tca & Tcb & ->). cbn in Tb. inversion Tb; subst w.
    pose proof (width_pos _ _ Wca Tca) as Hpa. pose proof (width_pos _ _ Wcb Tcb) as Hpb.
    assert (Hwca : width ca = aw) by (unfold width; now rewrite Tca).
    assert (Hwcb : width cb = bw) by (unfold width; now rewrite Tcb).
    rewrite !Hwca, !Hwcb.
    eapply (ok_rw_of_B _ _ 1); [assumption|reflexivity| |].
    + apply B_mk_and.
      * eapply B_mk_equal; [apply B_of_wt; eassumption|].
        eapply B_cast; [eapply B_mk_slice; [apply B_of_wt; eassumption|lia|lia]|lia].
      * eapply B_mk_equal; [apply B_of_wt; eassumption|].
        eapply B_cast; [eapply B_mk_slice; [apply B_of_wt; eassumption|lia|lia]|lia].
    + intros rho Hr. cbn [ebv]. unfold width. rewrite Tcb. symmetry.
      apply eq_concat_r; try assumption; now apply ebv_bound.
Qed.

Lemma simplify_bv_equal_sound a b r :
  wt (BVEqual a b) = true -> simplify_bv_equal a b = Some r -> ok_rw (BVEqual a b) r.
Proof.
  intros Hwt Hs. pose proof Hwt as Hwt'. apply wt_eq in Hwt'. destruct Hwt' as (Wa & Wb & w & Ta & Tb).
  unfold simplify_bv_equal in Hs. fold (eq_after_lits a b) in Hs.
  destruct (expr_eqb a b) eqn:Eab.
  { apply expr_eqb_eq in Eab. subst b. inv_some.
    eapply (ok_rw_of_B _ _ 1); [assumption|reflexivity|apply B_true|].
    intros rho _. cbn [ebv]. symmetry. apply eq_same. }
  pose proof (find_lits_view a b) as V. destruct (find_lits_commutative a b) as [wa va wb vb|wl vl le other|].
  - destruct V as [-> ->]. inv_some.
    destruct (lit_typed _ _ _ Wa Ta) as (E & _ & Hva); subst wa.
    destruct (lit_typed _ _ _ Wb Tb) as (E & _ & Hvb); subst wb.
    eapply (ok_rw_of_B _ _ 1); [assumption|reflexivity|apply B_false|].
    intros rho _. cbn [ebv]. symmetry. apply eq_lits_differ. intros ->.
    cbn [expr_eqb] in Eab. rewrite !N.eqb_refl in Eab. discriminate.
  - unfold lit_is_true, lit_is_false in Hs.
    destruct (N.eqb_spec wl 1) as [->|Hw1]; cbn [andb] in Hs; [|now apply eq_after_lits_sound].
    assert (Hw : w = 1).
    { destruct V as [(-> & _)|(-> & _)]; [destruct (lit_typed _ _ _ Wa Ta)|destruct (lit_typed _ _ _ Wb Tb)]; lia. }
    subst w.
    destruct (N.eqb_spec vl 1) as [->|Hv1].
    { inv_some. destruct V as [(-> & -> & -> & _)|(-> & -> & -> & _)].
      - eapply (ok_rw_of_B _ _ 1); [assumption|reflexivity|apply B_of_wt; eassumption|].
        intros rho Hr. cbn [ebv]. symmetry. apply eq_true_l. now apply ebv_bound.
      - eapply (ok_rw_of_B _ _ 1); [assumption|reflexivity|apply B_of_wt; eassumption|].
        intros rho Hr. cbn [ebv]. symmetry. apply eq_true_r. now apply ebv_bound. }
    destruct (N.eqb_spec vl 0) as [->|Hv0]; [|now apply eq_after_lits_sound].
    inv_some. destruct V as [(-> & -> & -> & _)|(-> & -> & -> & _)].
    + eapply (ok_rw_of_B _ _ 1); [assumption|reflexivity|apply B_mk_not; apply B_of_wt; eassumption|].
      intros rho Hr. cbn [ebv]. symmetry. apply eq_false_l. now apply ebv_bound.
    + eapply (ok_rw_of_B _ _ 1); [assumption|reflexivity|apply B_mk_not; apply B_of_wt; eassumption|].
      intros rho Hr. cbn [ebv]. symmetry. apply eq_false_r. now apply ebv_bound.
  - now apply eq_after_lits_sound.
Qed.

(** ** and / or / xor: the arms without literals (complements, De Morgan) *)
Lemma not_dec e : {iw : expr * N | e = BVNot (fst iw) (snd iw)} + {forall i w, e <> BVNot i w}.
Proof. destruct e; try (right; intros; discriminate). left. exists (e, w). reflexivity. Qed.

Ltac not_not_ a Na := destruct a; try (exfalso; eapply Na; reflexivity).

Definition and_nolit (a b : expr) : option expr :=
  match a, b with
  | BVNot inner w, _ =>
      if expr_eqb inner b then Some (mk_zero w)
      else match b with
           | BVNot inner_b _ =>
               if expr_eqb inner_b a then Some (mk_zero (width b))
               else Some (mk_not (mk_or inner inner_b))
           | _ => None
           end
  | _, BVNot inner w => if expr_eqb inner a then Some (mk_zero w) else None
  | _, _ => None
  end.

Definition or_nolit (a b : expr) : option expr :=
  match a, b with
  | BVNot inner w, _ =>
      if expr_eqb inner b then Some (mk_ones w)
      else match b with
           | BVNot inner_b _ =>
               if expr_eqb inner_b a then Some (mk_ones (width b))
               else Some (mk_not (mk_and inner inner_b))
           | _ => None
           end
  | _, BVNot inner w => if expr_eqb inner a then Some (mk_ones w) else None
  | _, _ => None
  end.

Definition xor_nolit (a b : expr) : option expr :=
  match a, b with
  | BVNot inner w, _ =>
      if expr_eqb inner b then Some (mk_ones w)
      else match b with
           | BVNot inner_b wb => if expr_eqb inner_b a then Some (mk_ones wb) else None
           | _ => None
           end
  | _, BVNot inner w => if expr_eqb inner a then Some (mk_ones w) else None
  | _, _ => None
  end.

Section NoLit.
  Variables (a b : expr) (w : N).
  Hypothesis Wa : wt a = true.
  Hypothesis Wb : wt b = true.
  Hypothesis Ta : type_of a = TBV w.
  Hypothesis Tb : type_of b = TBV w.

  Let Hpos : 0 < w := width_pos _ _ Wa Ta.

  (** shared case analysis; [mk] is the node, [E] its expression *)
  Lemma and_nolit_sound r : wt (BVAnd a b w) = true -> and_nolit a b = Some r -> ok_rw (BVAnd a b w) r.
  Proof.
    intros Hwt Hs. unfold and_nolit in Hs.
    destruct (not_dec a) as [[[ia wa] Ea]|Na]; cbn [fst snd] in *.
    - subst a. pose proof Wa as Wa'. apply wt_not in Wa'. destruct Wa' as [Wia Tia].
      cbn in Ta. inversion Ta; subst wa.
      destruct (expr_eqb ia b) eqn:E1.
      { apply expr_eqb_eq in E1. subst b. inv_some.
        eapply (ok_rw_of_B _ _ w); [assumption|reflexivity|apply B_zero; assumption|].
        intros rho Hr. cbn [ebv]. symmetry. apply and_not_self_l. now apply ebv_bound. }
      destruct (not_dec b) as [[[ib wb] Eb]|Nb]; cbn [fst snd] in *.
      2: { exfalso. not_not_ b Nb; discriminate Hs. }
      subst b. pose proof Wb as Wb'. apply wt_not in Wb'. destruct Wb' as [Wib Tib].
      cbn in Tb. inversion Tb; subst wb.
      destruct (expr_eqb ib (BVNot ia w)) eqn:E2.
      { apply expr_eqb_eq in E2. subst ib. inv_some. cbn [width type_of].
        eapply (ok_rw_of_B _ _ w); [assumption|reflexivity|apply B_zero; assumption|].
        intros rho Hr. cbn [ebv]. symmetry. apply and_not_self_r. apply bv_not_bound. now apply ebv_bound. }
      inv_some.
      eapply (ok_rw_of_B _ _ w); [assumption|reflexivity|apply B_mk_not; apply B_mk_or; apply B_of_wt; eassumption|].
      intros rho Hr. cbn [ebv]. symmetry. apply demorgan_and; now apply ebv_bound.
    - assert (Hs' : match b with BVNot inner w0 => if expr_eqb inner a then Some (mk_zero w0) else None | _ => None end = Some r)
        by (not_not_ a Na; exact Hs).
      clear Hs. destruct (not_dec b) as [[[ib wb] Eb]|Nb]; cbn [fst snd] in *.
      2: { exfalso. not_not_ b Nb; discriminate Hs'. }
      subst b. pose proof Wb as Wb'. apply wt_not in Wb'. destruct Wb' as [Wib Tib].
      cbn in Tb. inversion Tb; subst wb.
      destruct (expr_eqb ib a) eqn:E2; [|discriminate]. apply expr_eqb_eq in E2. subst ib. inv_some.
      eapply (ok_rw_of_B _ _ w); [assumption|reflexivity|apply B_zero; assumption|].
      intros rho Hr. cbn [ebv]. symmetry. apply and_not_self_r. now apply ebv_bound.
  Qed.

  Lemma or_nolit_sound r : wt (BVOr a b w) = true -> or_nolit a b = Some r -> ok_rw (BVOr a b w) r.
  Proof.
    intros Hwt Hs. unfold or_nolit in Hs.
    destruct (not_dec a) as [[[ia wa] Ea]|Na]; cbn [fst snd] in *.
    - subst a. pose proof Wa as Wa'. apply wt_not in Wa'. destruct Wa' as [Wia Tia].
      cbn in Ta. inversion Ta; subst wa.
      destruct (expr_eqb ia b) eqn:E1.
      { apply expr_eqb_eq in E1. subst b. inv_some.
        eapply (ok_rw_of_B _ _ w); [assumption|reflexivity|apply B_ones; assumption|].
        intros rho Hr. cbn [ebv]. symmetry. apply or_not_self_l. now apply ebv_bound. }
      destruct (not_dec b) as [[[ib wb] Eb]|Nb]; cbn [fst snd] in *.
      2: { exfalso. not_not_ b Nb; discriminate Hs. }
      subst b. pose proof Wb as Wb'. apply wt_not in Wb'. destruct Wb' as [Wib Tib].
      cbn in Tb. inversion Tb; subst wb.
      destruct (expr_eqb ib (BVNot ia w)) eqn:E2.
      { apply expr_eqb_eq in E2. subst ib. inv_some. cbn [width type_of].
        eapply (ok_rw_of_B _ _ w); [assumption|reflexivity|apply B_ones; assumption|].
        intros rho Hr. cbn [ebv]. symmetry. apply or_not_self_r. apply bv_not_bound. now apply ebv_bound. }
      inv_some.
      eapply (ok_rw_of_B _ _ w); [assumption|reflexivity|apply B_mk_not; apply B_mk_and; apply B_of_wt; eassumption|].
      intros rho Hr. cbn [ebv]. symmetry. apply demorgan_or; now apply ebv_bound.
    - assert (Hs' : match b with BVNot inner w0 => if expr_eqb inner a then Some (mk_ones w0) else None | _ => None end = Some r)
        by (not_not_ a Na; exact Hs).
      clear Hs. destruct (not_dec b) as [[[ib wb] Eb]|Nb]; cbn [fst snd] in *.
      2: { exfalso. not_not_ b Nb; discriminate Hs'. }
      subst b. pose proof Wb as Wb'. apply wt_not in Wb'. destruct Wb' as [Wib Tib].
      cbn in Tb. inversion Tb; subst wb.
      destruct (expr_eqb ib a) eqn:E2; [|discriminate]. apply expr_eqb_eq in E2. subst ib. inv_some.
      eapply (ok_rw_of_B _ _ w); [assumption|reflexivity|apply B_ones; assumption|].
      intros rho Hr. cbn [ebv]. symmetry. apply or_not_self_r. now apply ebv_bound.
  Qed.

  Lemma xor_nolit_sound r : wt (BVXor a b w) = true -> xor_nolit a b = Some r -> ok_rw (BVXor a b w) r.
  Proof.
    intros Hwt Hs. unfold xor_nolit in Hs.
    destruct (not_dec a) as [[[ia wa] Ea]|Na]; cbn [fst snd] in *.
    - subst a. pose proof Wa as Wa'. apply wt_not in Wa'. destruct Wa' as [Wia Tia].
      cbn in Ta. inversion Ta; subst wa.
      destruct (expr_eqb ia b) eqn:E1.
      { apply expr_eqb_eq in E1. subst b. inv_some.
        eapply (ok_rw_of_B _ _ w); [assumption|reflexivity|apply B_ones; assumption|].
        intros rho Hr. cbn [ebv]. symmetry. apply xor_not_self_l. now apply ebv_bound. }
      destruct (not_dec b) as [[[ib wb] Eb]|Nb]; cbn [fst snd] in *.
      2: { exfalso. not_not_ b Nb; discriminate Hs. }
      subst b. pose proof Wb as Wb'. apply wt_not in Wb'. destruct Wb' as [Wib Tib].
      cbn in Tb. inversion Tb; subst wb.
      destruct (expr_eqb ib (BVNot ia w)) eqn:E2; [|discriminate].
      apply expr_eqb_eq in E2. subst ib. inv_some.
      eapply (ok_rw_of_B _ _ w); [assumption|reflexivity|apply B_ones; assumption|].
      intros rho Hr. cbn [ebv]. symmetry. apply xor_not_self_r. apply bv_not_bound. now apply ebv_bound.
    - assert (Hs' : match b with BVNot inner w0 => if expr_eqb inner a then Some (mk_ones w0) else None | _ => None end = Some r)
        by (not_not_ a Na; exact Hs).
      clear Hs. destruct (not_dec b) as [[[ib wb] Eb]|Nb]; cbn [fst snd] in *.
      2: { exfalso. not_not_ b Nb; discriminate Hs'. }
      subst b. pose proof Wb as Wb'. apply wt_not in Wb'. destruct Wb' as [Wib Tib].
      cbn in Tb. inversion Tb; subst wb.
      destruct (expr_eqb ib a) eqn:E2; [|discriminate]. apply expr_eqb_eq in E2. subst ib. inv_some.
      eapply (ok_rw_of_B _ _ w); [assumption|reflexivity|apply B_ones; assumption|].
      intros rho Hr. cbn [ebv]. symmetry. apply xor_not_self_r. now apply ebv_bound.
  Qed.
End NoLit.
