(** * Proofs/BmcSound.v — every model of an accepted unrolling script is an execution
    of the system: the converse of faithfulness, and with it the soundness of a
    "sat" answer of the loop of bmc.rs. *)
From Coq Require Import List Bool Lia.
From Patronus Require Import EvalImpl Encoding Bmc SysExec ReachSpec ExprLemmas BVLemmas EvalProofs McBasics ScriptProofs
     EncodingBasics EncodingFaithful EncodingWf EncodingNew EncodingNames EncodingTheorems C04Final ReachBasics ReachEnum ReachBmcProofs BmcProofs.
Import ListNotations.
Open Scope N_scope.

(** ** an evaluated script satisfies its own definitions *)
Lemma script_eval_keeps : forall cs d sigma nm t,
  script_check d cs = true -> declared nm d = true ->
  agree_on (mk_sym nm t) (script_eval sigma cs) sigma.
Proof.
  induction cs as [|c r IH]; intros d sigma nm t Hc Hd; [apply agree_on_refl|].
  cbn [script_check] in Hc. apply andb_true_iff in Hc. destruct Hc as [Hok Hr].
  assert (Hd' : declared nm ((cmd_name c, cmd_ty c) :: d) = true).
  { unfold declared in *. rewrite lookup_cons. destruct (String.eqb (cmd_name c) nm); [reflexivity|assumption]. }
  assert (Hne : cmd_name c <> nm).
  { intros <-. destruct c; cbn [cmd_ok cmd_name] in *; rewrite !andb_true_iff in Hok;
      repeat match goal with H : _ /\ _ |- _ => destruct H end;
      match goal with H : negb _ = true |- _ => apply negb_true_iff in H end; congruence. }
  destruct c as [n t'|n t' b]; cbn [script_eval cmd_name] in *; [now apply (IH _ _ _ _ Hr Hd')|].
  eapply agree_on_trans; [apply (IH _ _ _ _ Hr Hd')|].
  apply assign_other; [apply mk_sym_is_symbol|]. apply mk_sym_neq. congruence.
Qed.

Lemma syms_ok_declared d e x : syms_ok d e = true -> In x (symbols_of e) ->
  exists n ty, x = mk_sym n ty /\ declared n d = true.
Proof.
  intros H Hx. destruct (syms_ok_symbols d e x H Hx) as (n & ty & -> & Hl). exists n, ty. split; [reflexivity|].
  unfold declared. now rewrite Hl.
Qed.

Lemma script_eval_satisfies : forall cs d sigma,
  script_check d cs = true -> satisfies (script_eval sigma cs) cs.
Proof.
  induction cs as [|c r IH]; intros d sigma Hc n t b Hin; [destruct Hin|].
  pose proof Hc as Hc0. cbn [script_check] in Hc. apply andb_true_iff in Hc. destruct Hc as [Hok Hr].
  destruct Hin as [->|Hin].
  - (* the head definition *)
    cbn [script_eval cmd_name cmd_ty] in *. cbn [cmd_ok] in Hok. rewrite !andb_true_iff in Hok.
    destruct Hok as [[[[Hfresh _] Hwt] Hty] Hsyms]. apply ty_eqb_eq in Hty. apply negb_true_iff in Hfresh.
    set (s1 := assign sigma (mk_sym n t) sigma b).
    assert (Hkeep : forall x, In x (symbols_of b) -> agree_on x (script_eval s1 r) sigma).
    { intros x Hx. destruct (syms_ok_declared _ _ _ Hsyms Hx) as (nx & tx & -> & Hdx).
      eapply agree_on_trans.
      - apply (script_eval_keeps r _ s1 nx tx Hr). unfold declared in *. rewrite lookup_cons.
        destruct (String.eqb n nx); [reflexivity|assumption].
      - apply assign_other; [apply mk_sym_is_symbol|]. apply mk_sym_neq. intros ->. congruence. }
    eapply same_val_trans; [|apply same_val_sym; apply coincidence; exact Hkeep].
    eapply same_val_trans.
    + apply agree_on_same_val; [apply mk_sym_is_symbol|].
      apply (script_eval_keeps r _ s1 n t Hr). unfold declared. now rewrite lookup_cons, String.eqb_refl.
    + unfold s1. rewrite <- Hty. now apply assign_mk_sym_same.
  - destruct c as [n' t'|n' t' b']; cbn [script_eval]; now apply (IH _ _ Hr n t b Hin).
Qed.

(** every symbol of a body is introduced by the script *)
Lemma body_symbols_introduced : forall cs d n t b x,
  script_check d cs = true -> In (DefineFun n t b) cs -> In x (symbols_of b) ->
  exists nx tx, x = mk_sym nx tx /\ (lookup nx d = Some tx \/ exists c, In c cs /\ cmd_name c = nx /\ cmd_ty c = tx).
Proof.
  induction cs as [|c r IH]; intros d n t b x Hc Hin Hx; [destruct Hin|].
  cbn [script_check] in Hc. apply andb_true_iff in Hc. destruct Hc as [Hok Hr].
  destruct Hin as [->|Hin].
  - cbn [cmd_ok] in Hok. rewrite !andb_true_iff in Hok. destruct Hok as [_ Hsyms].
    destruct (syms_ok_symbols _ _ _ Hsyms Hx) as (nx & tx & -> & Hl). exists nx, tx. auto.
  - destruct (IH _ n t b x Hr Hin Hx) as (nx & tx & -> & [Hl|(c' & Hc' & Hn' & Ht')]).
    + exists nx, tx. split; [reflexivity|]. rewrite lookup_cons in Hl.
      destruct (String.eqb_spec (cmd_name c) nx) as [E|_]; [|now left].
      right. exists c. split; [now left|]. split; [assumption|]. now inversion Hl.
    + exists nx, tx. split; [reflexivity|]. right. exists c'. split; [now right|auto].
Qed.

(** ** the meaning of a substituted expression, from the symbols it actually contains *)
Section SubstD.
  Variables (d : decls) (sg : expr -> option expr) (tau rho : env).

  Ltac use_child IH a Hcut Hcl :=
    let A := fresh "Hv" in let B := fresh "Ht" in
    destruct (IH false) as [A B];
    [ assumption
    | intros x s Hx _ Hs Hd; apply (Hcut x s);
      [ apply (child_subterms_in a); [cbn [children In]; auto|exact Hx]
      | intros _; apply (child_subterms_neq a); [cbn [children In]; auto|exact Hx]
      | exact Hs | exact Hd ]
    | intros y Hy; apply Hcl; rewrite ?in_app_iff; tauto
    | discriminate
    | ]; clear IH.

  Lemma subst_val_d : forall e top,
    syms_ok d (subst sg top e) = true ->
    (forall x s, In x (subterms e) -> (top = true -> x <> e) -> sg x = Some s -> syms_ok d s = true ->
                 same_val tau s rho x /\ type_of s = type_of x) ->
    (forall y, In y (symbols_of e) -> sg y <> None) ->
    (top = true -> is_symbol e = false) ->
    same_val tau (subst sg top e) rho e /\ type_of (subst sg top e) = type_of e.
  Proof.
    induction e; intros top Hok Hcut Hcl Htop; cbn [subst] in *;
      (destruct top; [|destruct (sg _) as [s0|] eqn:Es;
                       [apply (Hcut _ s0 (subterms_self _)); [discriminate|assumption|exact Hok]|]]);
      cbn [symbols_of] in Hcl; cbn [syms_ok] in Hok;
      repeat match goal with H : _ && _ = true |- _ => apply andb_true_iff in H; destruct H end.
    all: try (exfalso; specialize (Htop eq_refl); discriminate Htop).
    all: try (exfalso; apply (Hcl _ (or_introl eq_refl)); assumption).
    all: try (split; [apply same_val_refl|reflexivity]).
    all: repeat match goal with
                | IH : forall top : bool, syms_ok d (subst sg top ?a) = true -> _ |- _ => use_child IH a Hcut Hcl
                end.
    all: unfold same_val in *; cbn [ebv earr type_of]; unfold width, index_width;
      repeat match goal with H : _ /\ _ |- _ => destruct H end;
      repeat match goal with H : type_of (subst _ _ _) = _ |- _ => rewrite H; clear H end;
      repeat match goal with H : ebv tau (subst _ _ _) = _ |- _ => rewrite H; clear H end.
    all: try (split; [split; [reflexivity|intros; reflexivity]|reflexivity]).
    all: repeat split; intros; try reflexivity;
      try match goal with
          | H : forall i, earr tau ?a i = earr rho ?b i |- earr tau ?a _ = earr rho ?b _ => apply H
          | |- b2n (arr_eqb _ _ _) = b2n (arr_eqb _ _ _) => f_equal; apply arr_eqb_ext; assumption
          | |- arr_store _ _ _ _ = arr_store _ _ _ _ => unfold arr_store; destruct (_ =? _); auto
          | |- (if ?c then _ else _) _ = (if ?c then _ else _) _ => destruct c; auto
          | |- (if ?c then _ else _) = (if ?c then _ else _) => destruct c; auto
          end.
  Qed.
End SubstD.

(** ** contexts, again *)
Lemma syms_ok_of_symbols d : forall e,
  (forall x, In x (symbols_of e) -> exists n t, x = mk_sym n t /\ lookup n d = Some t) -> syms_ok d e = true.
Proof.
  induction e; cbn [symbols_of syms_ok]; intros H;
    repeat match goal with
           | IH : (forall x, In x (symbols_of ?a) -> _) -> syms_ok d ?a = true |- _ =>
               rewrite IH by (intros x Hx; apply H; rewrite ?in_app_iff; tauto); clear IH
           end; try reflexivity.
  - destruct (H _ (or_introl eq_refl)) as (n & t & Heq & Hl). destruct t; cbn [mk_sym] in Heq; inversion Heq; subst.
    unfold sym_ok. rewrite Hl. apply ty_eqb_refl.
  - destruct (H _ (or_introl eq_refl)) as (n & t & Heq & Hl). destruct t; cbn [mk_sym] in Heq; inversion Heq; subst.
    unfold sym_ok. rewrite Hl. apply ty_eqb_refl.
Qed.

Lemma lookup_script_decls : forall cs d n t, lookup n (script_decls d cs) = Some t ->
  lookup n d = Some t \/ exists c, In c cs /\ cmd_name c = n /\ cmd_ty c = t.
Proof.
  induction cs as [|c r IH]; intros d n t H; [now left|].
  rewrite script_decls_cons in H. destruct (IH _ _ _ H) as [Hl|(c' & Hc' & Hn & Ht)].
  - rewrite lookup_cons in Hl. destruct (String.eqb_spec (cmd_name c) n) as [E|_]; [|now left].
    right. exists c. split; [now left|]. split; [assumption|]. now inversion Hl.
  - right. exists c'. split; [now right|auto].
Qed.

Lemma proper_subterm_size e x : In x (subterms e) -> x <> e -> (size x < size e)%nat.
Proof.
  intros Hx Hne. assert (Hp : In x (proper_subterms e)) by (now apply AnalysisProofs.proper_subterms_spec).
  unfold proper_subterms in Hp. apply in_flat_map in Hp. destruct Hp as (a & Ha & Hxa).
  apply subterm_size in Hxa. destruct e; cbn [children] in Ha; cbn [size];
    repeat (destruct Ha as [<-|Ha]; [lia|]); destruct Ha.
Qed.

Lemma wt_mk_sym n t : ty_pos t = true -> wt (mk_sym n t) = true.
Proof. destruct t; cbn [mk_sym wt node_ok check1 leaf_ok is_some ty_pos]; intros H; rewrite ?andb_true_r; exact H. Qed.

Lemma last_nth_len {A} (l : list A) d : last l d = nth (pred (length l)) l d.
Proof.
  induction l as [|x l IH]; [reflexivity|]. destruct l as [|y l]; [reflexivity|].
  change (last (x :: y :: l) d) with (last (y :: l) d). rewrite IH. reflexivity.
Qed.

Lemma in_unrolls_gen v en j c : forall m p q, p <= q < p + N.of_nat m -> In c (unroll v en j q) -> In c (unrolls v en j p m).
Proof.
  induction m as [|m IH]; intros p q Hq Hc; [lia|]. cbn [unrolls]. apply in_or_app.
  destruct (N.eq_dec q p) as [->|Hne]; [now left|]. right. apply (IH (p + 1) q); [lia|assumption].
Qed.

(** ** reading an execution off a model of the script *)
Section ReadOff.
  Variables (sy : sys) (nm : expr -> string).
  Hypothesis Hwf : sys_wf sy = true.
  Hypothesis Hni : nodup_exprs (s_inputs sy) = true.
  Hypothesis Hn : names_ok (enc_new sy nm) = true.
  Let en := enc_new sy nm.
  Let Hb : enc_basic en := enc_new_basic sy nm Hwf.
  Let Ho : enc_order en := enc_new_order sy nm Hwf.
  Let Hinj : name_inj en := names_ok_inj en Hn.

  Variables (v : variant) (n : nat) (sigma0 : env).
  Hypothesis Hw0 : env_wf sigma0.
  (** the script: all commands of [script v en 0 n], each of a known origin, in some accepted order
      ([script v en 0 n] itself, or [script3 en n]) *)
  Variable sc : list cmd.
  Hypothesis Hsc_sub : forall c, In c (script v en 0 n) -> In c sc.
  Hypothesis Hsc_orig : forall c, In c sc -> cmd_origin en 0 n c.
  Hypothesis Hck : script_check [] sc = true.
  Let sigma := script_eval sigma0 sc.
  Let dfin := script_decls [] sc.

  Lemma sigma_wf : env_wf sigma.
  Proof. apply (script_eval_wf sc [] sigma0 Hw0 Hck). Qed.

  (** the valuation of step [k]: every input and state gets the value of its step symbol *)
  Definition read (k : N) : env :=
    fold_right (fun x acc => match sig_sym en x k with Some s => assign acc x sigma s | None => acc end)
               env0 (sys_symbols sy).

  Lemma sys_symbol_sig x k : In x (sys_symbols sy) -> exists s, sig_sym en x k = Some s.
  Proof.
    intros Hx. unfold sys_symbols in Hx. apply in_app_or in Hx. destruct Hx as [Hx|Hx].
    - destruct (sig_sym en x k) eqn:E; [eauto|]. exfalso.
      apply (closed_symbol sy nm Hwf x x k (inputs_in_all sy x Hx)); [|exact E].
      pose proof (input_symbol sy Hwf x Hx) as Hs. destruct x; try discriminate; now left.
    - apply in_map_iff in Hx. destruct Hx as (st & <- & Hst). eexists. now apply (sig_sym_state en Hb).
  Qed.

  Lemma assign_symbol_val acc x src s : is_symbol x = true -> is_symbol s = true -> type_of s = type_of x ->
    same_val (assign acc x src s) x src s.
  Proof.
    intros Hx Hs Ht. destruct x; try discriminate; destruct s; try discriminate; cbn [type_of] in Ht; inversion Ht; subst;
      split; cbn [ebv earr]; try reflexivity.
    - apply assign_bv_same.
    - intros i. apply assign_arr_same.
  Qed.

  Lemma read_spec k : forall x s, In x (sys_symbols sy) -> sig_sym en x k = Some s -> same_val (read k) x sigma s.
  Proof.
    unfold read. pose proof (sys_symbols_nodup sy Hwf Hni) as Hnd.
    assert (Hsym : forall y, In y (sys_symbols sy) -> is_symbol y = true) by (apply (sys_symbols_symbol sy Hwf)).
    revert Hnd Hsym. generalize (sys_symbols sy) as l. induction l as [|y r IH]; intros Hnd Hsym x s Hx Hs; [destruct Hx|].
    inversion Hnd as [|? ? Hna Hr]; subst. cbn [fold_right].
    destruct Hx as [->|Hx].
    - rewrite Hs. destruct (sig_sym_type en _ _ _ Hs) as [Ht Hss].
      apply assign_symbol_val; [apply Hsym; now left|assumption|assumption].
    - assert (Hne : x <> y) by (intros ->; contradiction).
      pose proof (IH Hr (fun y0 H0 => Hsym y0 (or_intror H0)) x s Hx Hs) as IHx.
      destruct (sig_sym en y k) as [sy'|] eqn:Ey; [|exact IHx].
      eapply same_val_trans; [|exact IHx].
      apply agree_on_same_val; [apply Hsym; now right|].
      apply assign_other; [apply Hsym; now left|assumption].
  Qed.

  Lemma read_wf k : env_wf (read k).
  Proof.
    unfold read. assert (Hsym : forall y, In y (sys_symbols sy) -> is_symbol y = true /\ wt y = true).
    { intros y Hy. split; [now apply (sys_symbols_symbol sy Hwf)|].
      unfold sys_symbols in Hy. apply in_app_or in Hy. destruct Hy as [Hy|Hy]; [now apply (input_wt sy Hwf)|].
      apply in_map_iff in Hy. destruct Hy as (st & <- & Hst). now apply (state_facts sy Hwf). }
    revert Hsym. generalize (sys_symbols sy) as l. induction l as [|y r IH]; intros Hsym; [apply env0_wf|].
    cbn [fold_right]. destruct (sig_sym en y k) as [s|] eqn:Es; [|apply IH; intros; apply Hsym; now right].
    destruct (sig_sym_type en _ _ _ Es) as [Ht Hss]. destruct (Hsym y (or_introl eq_refl)) as [Hy Hwy].
    apply assign_wf; [apply IH; intros; apply Hsym; now right|apply sigma_wf|assumption| |assumption].
    rewrite (symbol_mk_sym s Hss), Ht. apply wt_mk_sym. now apply wt_ty_pos.
  Qed.

  (** a name of the final context is introduced by a command *)
  Lemma introduced s : is_symbol s = true -> syms_ok dfin s = true ->
    exists c, In c sc /\ mk_sym (cmd_name c) (cmd_ty c) = s.
  Proof.
    intros Hs Hok. rewrite (symbol_mk_sym s Hs) in Hok |- *. rewrite syms_ok_mk_sym in Hok.
    unfold sym_ok in Hok. destruct (lookup (sym_name s) dfin) as [t|] eqn:El; [|discriminate].
    apply ty_eqb_eq in Hok. subst t. apply lookup_script_decls in El. destruct El as [El|(c & Hc & Hn' & Ht)]; [discriminate|].
    exists c. split; [assumption|]. now rewrite Hn', Ht.
  Qed.

  Lemma body_syms_ok nme t b : In (DefineFun nme t b) sc -> syms_ok dfin b = true.
  Proof.
    intros Hin. apply syms_ok_of_symbols. intros x Hx.
    destruct (body_symbols_introduced sc [] nme t b x Hck Hin Hx) as (nx & tx & -> & [Hl|(c & Hc & Hnx & Htx)]); [discriminate|].
    exists nx, tx. split; [reflexivity|]. rewrite <- Hnx, <- Htx. now apply script_decls_lookup.
  Qed.

  (** the command that introduces the step symbol of a non-symbol signal is its definition *)
  Lemma command_of_signal s0 k c : In s0 (e_sigs en) -> is_symbol (sg_expr s0) = false -> In c sc ->
    mk_sym (cmd_name c) (cmd_ty c) = mk_sym (name_at (sg_name s0) k) (type_of (sg_expr s0)) ->
    c = DefineFun (name_at (sg_name s0) k) (type_of (sg_expr s0)) (expr_in_step en (sg_expr s0) k) /\ In k (steps 0 n).
  Proof.
    intros Hs0 Hns Hc Heq. apply mk_sym_inj in Heq. destruct Heq as [Hname Hty].
    pose proof (sig_sym_sig en Hb s0 k Hs0) as Hsig.
    apply Hsc_orig in Hc.
    destruct Hc as [s1 k1 Hs1 Hk1 Hc1|st k1 Hst Hk1 Hc1|st e1 Hst Hj He1 Hc1|st e1 p Hst Hp Hp1 He1 Hconst Hc1].
    - pose proof (sig_sym_sig en Hb s1 k1 Hs1) as Hsig1.
      assert (Hnm1 : cmd_name c = name_at (sg_name s1) k1) by (rewrite Hc1; destruct (is_symbol (sg_expr s1)); reflexivity).
      destruct (Hinj _ _ _ _ _ _ Hsig1 Hsig) as [He [Hk|(st & Hf & _)]].
      + rewrite !sym_name_mk_sym. congruence.
      + assert (s1 = s0) by (now apply (in_sigs_unique en Hb)). subst s1 k1. rewrite Hns in Hc1. auto.
      + rewrite (eb_nostate en Hb s1 Hs1) in Hf. discriminate.
    - exfalso. pose proof (sig_sym_state en Hb st k1 Hst) as Hsig1.
      destruct (Hinj _ _ _ _ _ _ Hsig1 Hsig) as [He _]; [rewrite !sym_name_mk_sym; rewrite Hc1 in Hname; cbn in Hname; congruence|].
      apply (state_not_sig en Hb st s0 Hst Hs0 He).
    - exfalso. pose proof (sig_sym_state en Hb st 0 Hst) as Hsig1.
      destruct (Hinj _ _ _ _ _ _ Hsig1 Hsig) as [He _]; [rewrite !sym_name_mk_sym; rewrite Hc1 in Hname; cbn in Hname; congruence|].
      apply (state_not_sig en Hb st s0 Hst Hs0 He).
    - exfalso. pose proof (sig_sym_state en Hb st (p + 1) Hst) as Hsig1.
      destruct (Hinj _ _ _ _ _ _ Hsig1 Hsig) as [He _]; [rewrite !sym_name_mk_sym; rewrite Hc1 in Hname; cbn in Hname; congruence|].
      apply (state_not_sig en Hb st s0 Hst Hs0 He).
  Qed.

  (** the meaning of a body under the evaluated script is the meaning of the expression at that step *)
  Lemma body_value (P : expr -> Prop) e k top :
    (forall x sx, In x (subterms e) -> (top = true -> x <> e) -> sig_sym en x k = Some sx -> syms_ok dfin sx = true ->
                  same_val sigma sx (read k) x) ->
    wt e = true -> (forall y k', In y (symbols_of e) -> sig_sym en y k' <> None) ->
    (top = true -> is_symbol e = false) ->
    syms_ok dfin (subst (fun x => sig_sym en x k) top e) = true ->
    same_val sigma (subst (fun x => sig_sym en x k) top e) (read k) e.
  Proof.
    intros Hcut Hwt Hcl Htop Hok.
    apply (subst_val_d dfin (fun x => sig_sym en x k) sigma (read k) e top Hok); [|intros y Hy; now apply Hcl|assumption].
    intros x sx Hx Hne Hs Hd. split; [now apply Hcut|apply (sig_sym_type en _ _ _ Hs)].
  Qed.

  (** every introduced step symbol has the value of its signal in the read-off valuation *)
  Lemma signal_value : forall m e, (size e <= m)%nat -> forall k s,
    sig_sym en e k = Some s -> syms_ok dfin s = true -> same_val sigma s (read k) e.
  Proof.
    induction m as [|m IH]; intros e Hsz k s Hs Hok; [destruct e; cbn [size] in Hsz; lia|].
    destruct (find_state en e) as [st|] eqn:Ef.
    - (* a state *)
      apply find_state_in in Ef. destruct Ef as [Hst <-]. apply same_val_sym. apply read_spec; [|assumption].
      unfold sys_symbols. apply in_or_app. right. now apply in_map.
    - assert (Hsig : sig_sym en e k <> None) by congruence.
      destruct (sig_of_expr en e k Hsig Ef) as (s0 & Hs0 & <-).
      destruct (is_symbol (sg_expr s0)) eqn:Esym.
      + (* an input *)
        apply same_val_sym. apply read_spec; [|assumption]. unfold sys_symbols. apply in_or_app. left.
        pose proof (eo_symbol_input en Ho s0 Hs0) as Hi. rewrite Esym in Hi.
        destruct (sig_uses sy nm s0 Hs0) as [_ Hm]. rewrite Hm in Hi. now apply mem_In.
      + (* a defined signal *)
        rewrite (sig_sym_sig en Hb s0 k Hs0) in Hs. injection Hs as <-.
        destruct (introduced _ (mk_sym_is_symbol _ _) Hok) as (c & Hc & Hcs).
        destruct (command_of_signal s0 k c Hs0 Esym Hc Hcs) as [-> Hk].
        eapply same_val_trans; [apply (script_eval_satisfies sc [] sigma0 Hck _ _ _ Hc)|].
        fold sigma. unfold expr_in_step. rewrite Esym. cbn [negb].
        apply (body_value (fun _ => True)).
        * intros x sx Hx Hne Hsx Hdx. apply (IH x); [|assumption|assumption].
          pose proof (proper_subterm_size _ _ Hx (Hne eq_refl)). lia.
        * now apply (eb_wt_sig en Hb).
        * apply (eb_closed en Hb). left. now apply in_map.
        * intros _. exact Esym.
        * pose proof (body_syms_ok _ _ _ Hc) as H. unfold expr_in_step in H. now rewrite Esym in H.
  Qed.

  Lemma in_script_init c : In c (init_at v en 0) -> In c sc.
  Proof. intros H. apply Hsc_sub. unfold script. apply in_or_app. now left. Qed.

  Lemma in_script_unroll c k : (k < n)%nat -> In c (unroll v en 0 (N.of_nat k)) -> In c sc.
  Proof.
    intros Hk H. apply Hsc_sub. unfold script. apply in_or_app. right. apply (in_unrolls_gen v en 0 c n 0 (N.of_nat k)); [lia|assumption].
  Qed.

  (** the value of the root of an init / next expression *)
  Lemma root_value e k nme t :
    In (DefineFun nme t (expr_in_step en e k)) sc -> wt e = true ->
    (forall y k', In y (symbols_of e) -> sig_sym en y k' <> None) ->
    same_val sigma (expr_in_step en e k) (read k) e.
  Proof.
    intros Hin Hwt Hcl. unfold expr_in_step. apply (body_value (fun _ => True)); try assumption.
    - intros x sx Hx _ Hsx Hdx. now apply (signal_value (size x) x (le_n _) k sx).
    - intros H. now apply negb_true_iff in H.
    - exact (body_syms_ok _ _ _ Hin).
  Qed.

  Lemma same_val_sym_agrees rho s e : is_symbol s = true -> same_val rho s rho e -> sym_agrees rho s rho e.
  Proof. destruct s; try discriminate; intros _ [H1 H2]; cbn [sym_agrees ebv earr] in *; auto. Qed.

  Lemma read_initial : is_initial sy (read 0).
  Proof.
    intros st e0 Hst He.
    destruct (state_facts sy Hwf st Hst) as (Hsym & _ & Hinit & _). destruct (Hinit e0 He) as [Hwt Hty].
    apply same_val_sym_agrees; [assumption|].
    assert (Hs : In (st_sym st) (sys_symbols sy)) by (unfold sys_symbols; apply in_or_app; right; now apply in_map).
    eapply same_val_trans; [apply (read_spec 0 _ _ Hs (sig_sym_state en Hb st 0 Hst))|].
    assert (Hc : In (DefineFun (state_name_at st 0) (type_of (st_sym st)) (expr_in_step en e0 0)) sc).
    { apply in_script_init. unfold init_at. apply in_or_app. right. apply in_or_app. left.
      apply in_map_iff. exists st. split; [|assumption]. cbn. now rewrite He. }
    eapply same_val_trans; [apply (script_eval_satisfies sc [] sigma0 Hck _ _ _ Hc)|]. fold sigma.
    apply (root_value e0 0 _ _ Hc Hwt). apply (eb_closed en Hb). right; left.
    unfold init_exprs. apply in_flat_map. exists st. split; [assumption|]. rewrite He. now left.
  Qed.

  Lemma read_step k : (k < n)%nat -> forall s, In s (sys_symbols sy) ->
    agree_on s (read (N.of_nat (S k))) (next_env sy (read (N.of_nat k)) (read (N.of_nat (S k)))).
  Proof.
    intros Hk s Hs. pose proof (sys_symbols_symbol sy Hwf s Hs) as Hsym.
    destruct (existsb (fun st => expr_eqb (st_sym st) s && match st_next st with Some _ => true | None => false end) (s_states sy)) eqn:Ex.
    - apply existsb_exists in Ex. destruct Ex as (st & Hst & Hx). apply andb_true_iff in Hx. destruct Hx as [He Hnx].
      apply expr_eqb_true in He. subst s. destruct (st_next st) as [nx|] eqn:En; [|discriminate].
      destruct (state_facts sy Hwf st Hst) as (_ & _ & _ & Hnext). destruct (Hnext nx En) as [Hwt Hty].
      assert (Hval : same_val (read (N.of_nat (S k))) (st_sym st) (read (N.of_nat k)) nx).
      { eapply same_val_trans; [apply (read_spec _ _ _ Hs (sig_sym_state en Hb st _ Hst))|].
        destruct (st_is_const st) eqn:Ec.
        - (* a constant state: one symbol, and the next expression is the state itself *)
          unfold st_is_const in Ec. rewrite En in Ec. apply expr_eqb_true in Ec. subst nx.
          assert (Hcs : st_is_const st = true) by (unfold st_is_const; now rewrite En, expr_eqb_refl).
          apply same_val_sym. unfold state_name_at. rewrite Hcs.
          pose proof (read_spec (N.of_nat k) _ _ Hs (sig_sym_state en Hb st _ Hst)) as H.
          unfold state_name_at in H. now rewrite Hcs in H.
        - assert (Hc : In (DefineFun (name_at (sym_name (st_sym st)) (N.of_nat k + 1)) (type_of (st_sym st)) (expr_in_step en nx (N.of_nat k))) sc).
          { apply (in_script_unroll _ k Hk). unfold unroll. apply in_or_app. right. apply in_or_app. left.
            apply in_flat_map. exists st. split; [assumption|]. rewrite En, Ec. now left. }
          unfold state_name_at. rewrite Ec. replace (N.of_nat (S k)) with (N.of_nat k + 1) by lia.
          eapply same_val_trans; [apply (script_eval_satisfies sc [] sigma0 Hck _ _ _ Hc)|]. fold sigma.
          apply (root_value nx _ _ _ Hc Hwt). apply (eb_closed en Hb). right; right.
          unfold next_exprs. apply in_flat_map. exists st. split; [assumption|]. rewrite En. now left. }
      pose proof (next_env_state' sy Hwf (read (N.of_nat k)) (read (N.of_nat (S k))) st nx Hst En) as Hne.
      destruct Hval as [Hv1 Hv2]. destruct Hne as [Hn1 Hn2].
      destruct (st_sym st); try discriminate Hsym; cbn [agree_on ebv earr] in *; [congruence|].
      intros i. now rewrite Hv2, Hn2.
    - apply agree_on_sym. apply (next_env_other sy Hwf); [assumption|].
      intros st Hst Hnn He. assert (existsb (fun st => expr_eqb (st_sym st) s && match st_next st with Some _ => true | None => false end) (s_states sy) = true); [|congruence].
      apply existsb_exists. exists st. split; [assumption|]. rewrite He, expr_eqb_refl. destruct (st_next st); [reflexivity|congruence].
  Qed.

  (** the run through the read-off valuations *)
  Definition read_frees : list env := map (fun i => read (N.of_nat (S i))) (seq 0 n).
  Definition read_run : list env := run_from sy (read 0) read_frees.

  Lemma run_step' frees rho i d0 : (i < length frees)%nat ->
    nth (S i) (run_from sy rho frees) d0 = next_env sy (nth i (run_from sy rho frees) d0) (nth i frees d0).
  Proof. intros H. exact (run_from_step en frees rho i d0 H). Qed.

  Lemma read_run_eqv : forall i, (i <= n)%nat ->
    env_wf (nth i read_run env0) /\ eqv sy (nth i read_run env0) (read (N.of_nat i)).
  Proof.
    unfold read_run. induction i as [|i IH]; intros Hi.
    - replace (nth 0 (run_from sy (read 0) read_frees) env0) with (read 0) by (destruct read_frees; reflexivity).
      split; [apply read_wf|apply eqv_refl].
    - destruct (IH ltac:(lia)) as [Hw He].
      assert (Hlen : length read_frees = n) by (unfold read_frees; now rewrite map_length, seq_length).
      rewrite (run_step' read_frees (read 0) i env0) by lia.
      assert (Hf : nth i read_frees env0 = read (N.of_nat (S i))).
      { unfold read_frees. rewrite (nth_indep _ env0 (read (N.of_nat (S 0)))) by (rewrite map_length, seq_length; lia).
        rewrite (map_nth (fun i => read (N.of_nat (S i)))), seq_nth by lia. reflexivity. }
      rewrite Hf. split; [apply (next_env_wf sy Hwf); [assumption|apply read_wf]|].
      intros s Hs. eapply agree_r_trans.
      + apply (next_env_agree sy Hwf _ (read (N.of_nat i))); try assumption; [apply read_wf|].
        intros _. destruct s; cbn [agree_r]; auto.
      + apply agree_r_sym. apply agree_on_r. now apply read_step.
  Qed.

  (** constraints and bad states: the value of their step symbol is their value in the read-off valuation *)
  Lemma observable_value e k s : observable sy e -> (k <= n)%nat -> get_signal_at en e (N.of_nat k) = Some s ->
    same_val sigma s (read (N.of_nat k)) e.
  Proof.
    intros Hobs Hk Hg. unfold get_signal_at in Hg. destruct (sig_sym en e (N.of_nat k)) as [s'|] eqn:Es.
    - injection Hg as <-.
      assert (Hks : In (N.of_nat k) (steps 0 n)) by (apply in_steps; lia).
      assert (Hlenf : length read_frees = n) by (unfold read_frees; now rewrite map_length, seq_length).
      destruct (observable_covered sy nm Hwf v 0 n (read 0) read_frees Hlenf (fun _ => read_initial) e _ s' Hobs Hks Es) as (c & Hc & Hcs).
      apply (signal_value (size e) e (le_n _)); [assumption|].
      rewrite <- Hcs, syms_ok_mk_sym. unfold sym_ok, dfin. apply Hsc_sub in Hc.
      rewrite (script_decls_lookup sc [] c Hck Hc). apply ty_eqb_refl.
    - destruct e; try discriminate. destruct w; try discriminate. destruct p; try discriminate.
      injection Hg as <-. split; reflexivity.
  Qed.

  (** a model of the query at depth [n] is an execution that reaches a bad state at depth [n] *)
  Theorem model_is_execution asserts b sb :
    (forall c m, In c (s_constraints sy) -> (m <= n)%nat -> exists a, In a asserts /\ get_signal_at en c (N.of_nat m) = Some a) ->
    forallb (holds sigma) asserts = true ->
    In b (s_bads sy) -> get_signal_at en b (N.of_nat n) = Some sb -> holds sigma sb = true ->
    reach_at sy n.
  Proof.
    intros Hass Hholds Hbin Hgb Hhb. exists read_run. split; [|split].
    - exists (read 0), read_frees. split; [reflexivity|]. split; [apply read_initial|]. split.
      + intros r Hr. apply In_nth with (d := env0) in Hr. destruct Hr as (i & Hi & <-).
        unfold read_run in Hi. rewrite (run_len sy) in Hi. unfold read_frees in Hi. rewrite map_length, seq_length in Hi.
        apply read_run_eqv. lia.
      + apply forallb_forall. intros r Hr. apply In_nth with (d := env0) in Hr. destruct Hr as (i & Hi & <-).
        unfold read_run in Hi. rewrite (run_len sy) in Hi. unfold read_frees in Hi. rewrite map_length, seq_length in Hi.
        destruct (read_run_eqv i ltac:(lia)) as [Hw He].
        rewrite (constraints_eqv sy Hwf _ (read (N.of_nat i)) Hw (read_wf _) He).
        unfold constraints_hold. apply forallb_forall. intros c Hc.
        destruct (Hass c i Hc ltac:(lia)) as (a & Ha & Hg).
        rewrite forallb_forall in Hholds. specialize (Hholds a Ha).
        destruct (observable_value c i a ltac:(unfold observable; tauto) ltac:(lia) Hg) as [Hv _].
        unfold holds in *. now rewrite <- Hv.
    - unfold read_run. rewrite (run_len sy). unfold read_frees. now rewrite map_length, seq_length.
    - assert (Hlast : last read_run env0 = nth n read_run env0).
      { rewrite last_nth_len. unfold read_run. rewrite (run_len sy). unfold read_frees. now rewrite map_length, seq_length. }
      rewrite Hlast. destruct (read_run_eqv n (le_n _)) as [Hw He].
      rewrite (some_bad_eqv sy Hwf _ (read (N.of_nat n)) Hw (read_wf _) He).
      unfold some_bad. apply existsb_exists. exists b. split; [exact Hbin|].
      destruct (observable_value b n sb ltac:(unfold observable; tauto) (le_n _) Hgb) as [Hv _].
      unfold holds in *. now rewrite <- Hv.
  Qed.
End ReadOff.

(** ** exactness of the loop *)
Section Exact.
  Variable solver_sat : list cmd -> list expr -> list expr -> bool.
  Hypothesis solver_correct : forall sc asserts assumps,
    solver_sat sc asserts assumps = true <-> exists sigma0, is_model sc asserts assumps sigma0.
  Variables (sy : sys) (nm : expr -> string).
  Hypothesis Hwf : sys_wf sy = true.
  Hypothesis Hni : nodup_exprs (s_inputs sy) = true.
  Hypothesis Hn : names_ok (enc_new sy nm) = true.
  Variable v : variant.
  Let en := enc_new sy nm.
  (** the script after [n] unrollings: the commands of [script v en 0 n] in an accepted order, faithful *)
  Variable scr : nat -> list cmd.
  Hypothesis Hscr_S : forall i, scr (S i) = scr i ++ unroll v en 0 (N.of_nat i).
  Hypothesis Hsub : forall n c, In c (script v en 0 n) -> In c (scr n).
  Hypothesis Horig : forall n c, In c (scr n) -> cmd_origin en 0 n c.
  Hypothesis Hck : forall n, script_check [] (scr n) = true.
  Hypothesis Hfaithful : forall (rho0 : env) (frees : list env) (sigma0 : env), is_initial sy rho0 ->
    let n := length frees in
    let sc := scr n in
    let trace := run_from sy rho0 frees in
    script_check [] sc = true ->
    (forall nm' t e k, In (DeclareConst nm' t) sc -> k <= N.of_nat n ->
        sig_sym en e k = Some (mk_sym nm' t) -> same_val sigma0 (mk_sym nm' t) (nth (N.to_nat k) trace env0) e) ->
    forall e k s, observable sy e -> k <= N.of_nat n -> get_signal_at en e k = Some s ->
      same_val (script_eval sigma0 sc) s (nth (N.to_nat k) trace env0) e.

  (** the assertions made before step [i]: the step symbols of all constraints at all earlier steps *)
  Definition asserts_upto (asserts : list expr) (i : nat) : Prop :=
    (forall a, In a asserts -> exists c m, In c (s_constraints sy) /\ (m < i)%nat /\ get_signal_at en c (N.of_nat m) = Some a) /\
    (forall c m, In c (s_constraints sy) -> (m < i)%nat -> exists a, In a asserts /\ get_signal_at en c (N.of_nat m) = Some a).

  Lemma asserts_step asserts i cs : asserts_upto asserts i ->
    signals_at en (s_constraints sy) (N.of_nat i) = Some cs -> asserts_upto (asserts ++ cs) (S i).
  Proof.
    intros [H1 H2] Hcs. destruct (signals_at_spec en _ _ _ Hcs) as [S1 S2]. split.
    - intros a Ha. apply in_app_or in Ha. destruct Ha as [Ha|Ha].
      + destruct (H1 a Ha) as (c & m & Hc & Hm & Hg). exists c, m. split; [assumption|]. split; [lia|assumption].
      + destruct (S1 a Ha) as (c & Hc & Hg). exists c, i. auto.
    - intros c m Hc Hm. destruct (Nat.eq_dec m i) as [->|Hne].
      + destruct (S2 c Hc) as (a & Ha & Hg). exists a. split; [apply in_or_app; now right|assumption].
      + destruct (H2 c m Hc ltac:(lia)) as (a & Ha & Hg). exists a. split; [apply in_or_app; now left|assumption].
  Qed.

  Lemma hit_is_reach i asserts bs :
    asserts_upto asserts (S i) -> signals_at en (s_bads sy) (N.of_nat i) = Some bs ->
    existsb (fun b => solver_sat (scr i) asserts [b]) bs = true -> reach_at sy i.
  Proof.
    intros [H1 H2] Hbs Hex. apply existsb_exists in Hex. destruct Hex as (sb & Hsb & Hsat).
    apply solver_correct in Hsat. destruct Hsat as (sigma0 & Hw0 & Hass & Hb).
    cbn [forallb] in Hb. rewrite andb_true_r in Hb.
    destruct (proj1 (signals_at_spec en _ _ _ Hbs) sb Hsb) as (b & Hbin & Hg).
    apply (model_is_execution sy nm Hwf Hni Hn v i sigma0 Hw0 (scr i) (Hsub i) (Horig i) (Hck i) asserts b sb); try assumption.
    intros c m Hc Hm. apply H2; [assumption|lia].
  Qed.

  Lemma reach_is_hit i asserts bs :
    asserts_upto asserts (S i) -> signals_at en (s_bads sy) (N.of_nat i) = Some bs ->
    reach_at sy i -> existsb (fun b => solver_sat (scr i) asserts [b]) bs = true.
  Proof.
    intros [H1 H2] Hbs (trace & (rho0 & frees & -> & Hinit & Hwfr & Hcons) & Hlen & Hbad).
    rewrite (run_len sy) in Hlen.
    apply (reached_is_sat solver_sat solver_correct sy nm Hwf Hn scr Hck Hfaithful i rho0 frees asserts bs); try assumption; [lia|].
    intros a Ha. destruct (H1 a Ha) as (c & m & Hc & Hm & Hg). exists c, m. split; [assumption|]. split; [lia|assumption].
  Qed.

  Lemma loop_exact : forall fuel i asserts k, asserts_upto asserts i ->
    bmc_loop v solver_sat en true (scr i) asserts (N.of_nat i) fuel = BmcFail k ->
    exists j, k = N.of_nat j /\ (i <= j <= i + fuel)%nat /\ reach_at sy j /\ forall m, (i <= m < j)%nat -> ~ reach_at sy m.
  Proof.
    induction fuel as [|fuel IH]; intros i asserts k Hinv; cbn [bmc_loop];
      change (e_sys en) with sy;
      destruct (signals_at en (s_constraints sy) (N.of_nat i)) as [cs|] eqn:Ec; try discriminate;
      destruct (signals_at en (s_bads sy) (N.of_nat i)) as [bs|] eqn:Eb; try discriminate;
      pose proof (asserts_step asserts i cs Hinv Ec) as Hinv';
      destruct (existsb (fun b => solver_sat (scr i) (asserts ++ cs) [b]) bs) eqn:Eh; try discriminate.
    - intros H. inversion H; subst. exists i. split; [reflexivity|]. split; [lia|].
      split; [now apply (hit_is_reach i (asserts ++ cs) bs)|intros; lia].
    - intros H. inversion H; subst. exists i. split; [reflexivity|]. split; [lia|].
      split; [now apply (hit_is_reach i (asserts ++ cs) bs)|intros; lia].
    - rewrite <- Hscr_S.
      replace (N.of_nat i + 1) with (N.of_nat (S i)) by lia. intros H.
      destruct (IH (S i) (asserts ++ cs) k Hinv' H) as (j & -> & Hr & Hreach & Hmin).
      exists j. split; [reflexivity|]. split; [lia|]. split; [assumption|].
      intros m Hm Hrm. destruct (Nat.eq_dec m i) as [->|Hne]; [|apply (Hmin m); [lia|assumption]].
      rewrite (reach_is_hit i (asserts ++ cs) bs Hinv' Eb Hrm) in Eh. discriminate.
  Qed.

  Lemma asserts_upto_nil : asserts_upto [] 0.
  Proof. split; [intros a []|intros c m _ Hm; lia]. Qed.

  (** the loop started from [init] (= [scr 0]): exactness *)
  Variable init : enc -> list cmd.
  Hypothesis Hinit0 : scr 0%nat = init en.

  (** a [BmcFail] answer names the least depth of a real counterexample *)
  Theorem bmc_fail_exact_from k_max k :
    bmc_model_from v solver_sat init sy nm true k_max = BmcFail k ->
    exists j, k = N.of_nat j /\ (j <= k_max)%nat /\ reach_at sy j /\ forall m, (m < j)%nat -> ~ reach_at sy m.
  Proof.
    unfold bmc_model_from. destruct (s_bads sy) as [|b0 r0] eqn:Eb; [discriminate|]. fold en. rewrite <- Hinit0. intros H.
    destruct (loop_exact k_max 0%nat [] k asserts_upto_nil H) as (j & -> & Hr & Hreach & Hmin).
    exists j. split; [reflexivity|]. split; [lia|]. split; [assumption|]. intros m Hm. apply Hmin. lia.
  Qed.

  Lemma bmc_modes_from k_max :
    bmc_model_from v solver_sat init sy nm true k_max = bmc_model_from v solver_sat init sy nm false k_max.
  Proof.
    unfold bmc_model_from. destruct (s_bads sy) as [|b0 r0] eqn:Eb; [reflexivity|]. fold en. rewrite <- Hinit0.
    apply (bmc_loop_modes_gen v solver_sat solver_correct en scr Hscr_S Hck).
    - intros k bs. apply (bads_bool_valued sy nm Hwf).
    - cbn. rewrite Eb. discriminate.
  Qed.

  Lemma bmc_no_miss_from k_max j individually : (j <= k_max)%nat -> reach_at sy j ->
    bmc_model_from v solver_sat init sy nm individually k_max <> BmcSuccess.
  Proof.
    intros Hj Hr.
    assert (H : bmc_model_from v solver_sat init sy nm true k_max <> BmcSuccess).
    { unfold bmc_model_from. destruct (s_bads sy) as [|b0 r0] eqn:Eb.
      - destruct Hr as (trace & _ & _ & Hbad). unfold some_bad in Hbad. rewrite Eb in Hbad. discriminate.
      - fold en. rewrite <- Hinit0.
        apply (bmc_no_miss_gen v solver_sat solver_correct sy nm Hwf Hn scr Hscr_S Hck Hfaithful k_max j Hj Hr).
        rewrite Eb. discriminate. }
    destruct individually; [exact H|]. now rewrite <- bmc_modes_from.
  Qed.

  Theorem bmc_exact_from k_max individually :
    let res := bmc_model_from v solver_sat init sy nm individually k_max in
    res <> BmcPanic ->
    (forall j, res = BmcFail (N.of_nat j) <->
               (j <= k_max)%nat /\ reach_at sy j /\ forall m, (m < j)%nat -> ~ reach_at sy m) /\
    (res = BmcSuccess <-> forall j, (j <= k_max)%nat -> ~ reach_at sy j).
  Proof.
    intros res Hnp.
    assert (Hres : res = bmc_model_from v solver_sat init sy nm true k_max).
    { unfold res. destruct individually; [reflexivity|]. symmetry. apply bmc_modes_from. }
    assert (Hfail : forall k, res = BmcFail k -> exists j, k = N.of_nat j /\ (j <= k_max)%nat /\ reach_at sy j /\
                                                    forall m, (m < j)%nat -> ~ reach_at sy m).
    { intros k Hk. rewrite Hres in Hk. now apply (bmc_fail_exact_from k_max k). }
    assert (Hmiss : forall j, (j <= k_max)%nat -> reach_at sy j -> res <> BmcSuccess).
    { intros j Hj Hr. unfold res. now apply (bmc_no_miss_from k_max j individually). }
    split.
    - intros j. split.
      + intros H. destruct (Hfail _ H) as (j' & Hjj & H1 & H2 & H3). apply Nat2N.inj in Hjj. subst j'. auto.
      + intros (Hj & Hr & Hmin). destruct res as [|k|] eqn:Er.
        * exfalso. now apply (Hmiss j Hj Hr).
        * destruct (Hfail k eq_refl) as (j' & -> & H1 & H2 & H3). f_equal. f_equal.
          destruct (Nat.lt_trichotomy j' j) as [Hlt|[->|Hgt]]; [exfalso; now apply (Hmin j')|reflexivity|exfalso; now apply (H3 j)].
        * contradiction.
    - split.
      + intros H j Hj Hr. now apply (Hmiss j Hj Hr).
      + intros Hnone. destruct res as [|k|] eqn:Er; [reflexivity| |contradiction].
        destruct (Hfail k eq_refl) as (j' & -> & H1 & H2 & _). exfalso. now apply (Hnone j').
  Qed.
End Exact.

(** the instance [script v] *)
Theorem bmc_fail_exact (solver_sat : list cmd -> list expr -> list expr -> bool) :
  (forall sc asserts assumps,
      solver_sat sc asserts assumps = true <-> exists sigma0, is_model sc asserts assumps sigma0) ->
  forall sy nm, sys_wf sy = true -> nodup_exprs (s_inputs sy) = true -> names_ok (enc_new sy nm) = true ->
  forall v, (forall n, script_check [] (script v (enc_new sy nm) 0 n) = true) ->
  forall k_max k, bmc_model v solver_sat sy nm true k_max = BmcFail k ->
    exists j, k = N.of_nat j /\ (j <= k_max)%nat /\ reach_at sy j /\ forall m, (m < j)%nat -> ~ reach_at sy m.
Proof.
  intros Hsolver sy nm Hwf Hni Hn v Hck k_max k.
  apply (bmc_fail_exact_from solver_sat Hsolver sy nm Hwf Hni Hn v (script v (enc_new sy nm) 0) (script_S v (enc_new sy nm))
           (fun n c H => H) (fun n c H => script_origin (enc_new sy nm) 0 n v c H) Hck (faithful_shape sy nm v Hwf Hn)
           (fun en => init_at v en 0)).
  unfold script. cbn [unrolls]. apply app_nil_r.
Qed.

(** bmc_model_exact: over a correct solver, for the repaired encoding of any
    well-formed system whose init expressions are in the class the encoding
    handles, and unless [get_signal_at] panics, the loop of bmc.rs answers
    [BmcFail j] exactly when [j] is the least depth [<= k_max] at which a bad state
    is reachable, and [BmcSuccess] exactly when there is none. *)
Theorem bmc_model_exact_final (solver_sat : list cmd -> list expr -> list expr -> bool) :
  (forall sc asserts assumps,
      solver_sat sc asserts assumps = true <-> exists sigma0, is_model sc asserts assumps sigma0) ->
  forall sy nm k_max individually,
    sys_wf sy = true -> nodup_exprs (s_inputs sy) = true ->
    names_ok (enc_new sy nm) = true -> init_reads_ok (enc_new sy nm) ->
    let res := bmc_model Fixed solver_sat sy nm individually k_max in
    res <> BmcPanic ->
    (forall j, res = BmcFail (N.of_nat j) <->
               (j <= k_max)%nat /\ reach_at sy j /\ forall m, (m < j)%nat -> ~ reach_at sy m) /\
    (res = BmcSuccess <-> forall j, (j <= k_max)%nat -> ~ reach_at sy j).
Proof.
  intros Hsolver sy nm k_max individually Hwf Hni Hn Hir.
  assert (Hck : forall n, script_check [] (script Fixed (enc_new sy nm) 0 n) = true)
    by (intros n; apply wf_fixed_final; auto).
  apply (bmc_exact_from solver_sat Hsolver sy nm Hwf Hni Hn Fixed (script Fixed (enc_new sy nm) 0) (script_S Fixed (enc_new sy nm))
           (fun n c H => H) (fun n c H => script_origin (enc_new sy nm) 0 n Fixed c H) Hck (faithful_shape sy nm Fixed Hwf Hn)
           (fun en => init_at Fixed en 0)).
  unfold script. cbn [unrolls]. apply app_nil_r.
Qed.

(** ... and therefore the loop and the explicit-state reference give the same answer *)
Corollary bmc_model_is_spec (solver_sat : list cmd -> list expr -> list expr -> bool) :
  (forall sc asserts assumps,
      solver_sat sc asserts assumps = true <-> exists sigma0, is_model sc asserts assumps sigma0) ->
  forall sy nm k_max individually,
    sys_wf sy = true -> nodup_exprs (s_inputs sy) = true -> no_array_init sy = true ->
    names_ok (enc_new sy nm) = true -> init_reads_ok (enc_new sy nm) ->
    let res := bmc_model Fixed solver_sat sy nm individually k_max in
    res <> BmcPanic ->
    (forall j, res = BmcFail (N.of_nat j) <-> bmc_spec sy k_max = Some j) /\
    (res = BmcSuccess <-> bmc_spec sy k_max = None).
Proof.
  intros Hsolver sy nm k_max individually Hwf Hni Hna Hn Hir res Hnp.
  destruct (bmc_model_exact_final solver_sat Hsolver sy nm k_max individually Hwf Hni Hn Hir Hnp) as [Hf Hs].
  fold res in Hf, Hs. split.
  - intros j. rewrite (Hf j). symmetry. apply (bmc_spec_exact sy Hwf Hni k_max j Hna).
  - rewrite Hs. split.
    + intros Hnone. destruct (bmc_spec sy k_max) as [j|] eqn:E; [|reflexivity].
      apply (bmc_spec_exact sy Hwf Hni k_max j Hna) in E. destruct E as (H1 & H2 & _). exfalso. now apply (Hnone j).
    + intros Hnone j Hj Hr.
      assert (Hb : bad_reachable_within sy k_max) by (apply (bad_within_reach sy); eauto).
      now apply (bmc_spec_complete sy Hwf Hni k_max Hb).
Qed.

(** ** the current code, outside the known class, runs the same loop *)
Lemma unroll_current_eq_fixed en p : ~ known_class en 0 -> unroll Current en 0 p = unroll Fixed en 0 p.
Proof.
  intros Hk. unfold unroll. f_equal. apply define_signals_ext. intros s Hs.
  destruct (next_only s) eqn:En; cbn [andb]; [|reflexivity].
  destruct ((p =? 0) && pos (u_init (sg_uses s))) eqn:E; [|reflexivity].
  exfalso. apply andb_true_iff in E. destruct E as [_ Ei]. apply Hk. exists s. cbn. auto.
Qed.

Lemma bmc_loop_current_eq_fixed solver_sat en indiv : ~ known_class en 0 ->
  forall fuel sc asserts k,
    bmc_loop Current solver_sat en indiv sc asserts k fuel = bmc_loop Fixed solver_sat en indiv sc asserts k fuel.
Proof.
  intros Hk. induction fuel as [|fuel IH]; intros sc asserts k; cbn [bmc_loop]; [reflexivity|].
  destruct (signals_at en (s_constraints (e_sys en)) k); [|reflexivity].
  destruct (signals_at en (s_bads (e_sys en)) k); [|reflexivity].
  rewrite (unroll_current_eq_fixed en k Hk), IH. reflexivity.
Qed.

Theorem bmc_model_exact_current (solver_sat : list cmd -> list expr -> list expr -> bool) :
  (forall sc asserts assumps,
      solver_sat sc asserts assumps = true <-> exists sigma0, is_model sc asserts assumps sigma0) ->
  forall sy nm k_max individually,
    sys_wf sy = true -> nodup_exprs (s_inputs sy) = true ->
    names_ok (enc_new sy nm) = true -> init_reads_ok (enc_new sy nm) -> ~ known_class (enc_new sy nm) 0 ->
    let res := bmc_model Current solver_sat sy nm individually k_max in
    res <> BmcPanic ->
    (forall j, res = BmcFail (N.of_nat j) <->
               (j <= k_max)%nat /\ reach_at sy j /\ forall m, (m < j)%nat -> ~ reach_at sy m) /\
    (res = BmcSuccess <-> forall j, (j <= k_max)%nat -> ~ reach_at sy j).
Proof.
  intros Hsolver sy nm k_max individually Hwf Hni Hn Hir Hk res.
  assert (E : res = bmc_model Fixed solver_sat sy nm individually k_max).
  { unfold res, bmc_model. destruct (s_bads sy); [reflexivity|].
    rewrite (bmc_loop_current_eq_fixed solver_sat (enc_new sy nm) individually Hk). reflexivity. }
  rewrite E. now apply bmc_model_exact_final.
Qed.
