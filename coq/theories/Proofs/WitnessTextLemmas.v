(** * Proofs/WitnessTextLemmas.v — character-level lemmas for the witness text:
    line splitting, trimming, tokenisation, decimal and binary numbers, name suffixes. *)
From Coq Require Import Decimal DecimalN DecimalPos.
From Coq Require Import NArith Ascii String Bool List Lia.
From Patronus Require Import WitnessIO.
Import ListNotations.
Open Scope N_scope.

(* ------------------------------------------------------------------------- equality tests *)
Lemma str_eqb_refl : forall a, str_eqb a a = true.
Proof.
  induction a as [|c a IH]; cbn [str_eqb]; [reflexivity|].
  rewrite Ascii.eqb_refl, IH. reflexivity.
Qed.

Lemma str_eqb_eq : forall a b, str_eqb a b = true -> a = b.
Proof.
  induction a as [|c a IH]; intros [|d b] H; cbn [str_eqb] in H; try discriminate; [reflexivity|].
  apply andb_true_iff in H. destruct H as [H1 H2].
  apply Ascii.eqb_eq in H1. subst d. f_equal. apply IH. exact H2.
Qed.

Lemma str_eqb_neq : forall a b, a <> b -> str_eqb a b = false.
Proof.
  intros a b Hne. destruct (str_eqb a b) eqn:E; [|reflexivity].
  exfalso. apply Hne. apply str_eqb_eq. exact E.
Qed.

Lemma bits_eqb_refl : forall a, bits_eqb a a = true.
Proof.
  induction a as [|c a IH]; cbn [bits_eqb]; [reflexivity|].
  rewrite Bool.eqb_reflx, IH. reflexivity.
Qed.

Lemma bits_eqb_eq : forall a b, bits_eqb a b = true -> a = b.
Proof.
  induction a as [|c a IH]; intros [|d b] H; cbn [bits_eqb] in H; try discriminate; [reflexivity|].
  apply andb_true_iff in H. destruct H as [H1 H2].
  apply Bool.eqb_prop in H1. subst d. f_equal. apply IH. exact H2.
Qed.

Lemma bits_eqb_iff : forall a b, bits_eqb a b = true <-> a = b.
Proof.
  intros a b. split; [apply bits_eqb_eq|]. intros ->. apply bits_eqb_refl.
Qed.

(* ------------------------------------------------------------------------- character classes *)
(** a character that may occur inside a token *)
Definition tok_char (c : ascii) : bool :=
  negb (Ascii.eqb c ch_sp || Ascii.eqb c ch_tab || Ascii.eqb c ch_semi).

(** digits, brackets, letters of the fixed tokens: everything the printer writes besides names *)
Definition plain_char (c : ascii) : bool :=
  negb (is_ws c) && tok_char c && name_char_ok c.

Lemma name_char_tok : forall c, name_char_ok c = true -> tok_char c = true.
Proof.
  intros c H. unfold name_char_ok, tok_char in *.
  apply negb_true_iff in H. apply negb_true_iff.
  repeat (apply orb_false_iff in H; destruct H as [H ?]).
  rewrite H. cbn [orb].
  match goal with h : Ascii.eqb c ch_tab = false |- _ => rewrite h end.
  match goal with h : Ascii.eqb c ch_semi = false |- _ => rewrite h end.
  reflexivity.
Qed.

Lemma name_char_not_nl : forall c, name_char_ok c = true -> Ascii.eqb c ch_nl = false.
Proof.
  intros c H. unfold name_char_ok in H. apply negb_true_iff in H.
  repeat (apply orb_false_iff in H; destruct H as [H ?]). assumption.
Qed.

Lemma name_char_not_at_hash : forall c, name_char_ok c = true ->
  Ascii.eqb c ch_at || Ascii.eqb c ch_hash = false.
Proof.
  intros c H. unfold name_char_ok in H. apply negb_true_iff in H.
  repeat (apply orb_false_iff in H; destruct H as [H ?]).
  apply orb_false_iff. split; assumption.
Qed.

Lemma plain_char_name : forall c, plain_char c = true -> name_char_ok c = true.
Proof.
  intros c H. unfold plain_char in H.
  apply andb_true_iff in H. destruct H as [_ H]. exact H.
Qed.

Lemma plain_char_tok : forall c, plain_char c = true -> tok_char c = true.
Proof.
  intros c H. unfold plain_char in H.
  apply andb_true_iff in H. destruct H as [H _].
  apply andb_true_iff in H. destruct H as [_ H]. exact H.
Qed.

Lemma plain_char_not_ws : forall c, plain_char c = true -> is_ws c = false.
Proof.
  intros c H. unfold plain_char in H.
  apply andb_true_iff in H. destruct H as [H _].
  apply andb_true_iff in H. destruct H as [H _]. apply negb_true_iff in H. exact H.
Qed.

(* ------------------------------------------------------------------------- trim *)
Lemma drop_ws_id : forall c r, is_ws c = false -> drop_ws (c :: r) = c :: r.
Proof. intros c r H. cbn [drop_ws]. rewrite H. reflexivity. Qed.

(** a line whose first and last characters are not white space is not changed by [trim] *)
Lemma trim_id : forall c m l,
  is_ws c = false -> is_ws l = false -> trim (c :: m ++ [l]) = c :: m ++ [l].
Proof.
  intros c m l Hc Hl. unfold trim.
  rewrite (drop_ws_id c _ Hc).
  replace (rev (c :: m ++ [l])) with (l :: rev (c :: m)).
  2:{ change (c :: m ++ [l]) with ((c :: m) ++ [l]). rewrite rev_app_distr. reflexivity. }
  rewrite (drop_ws_id l _ Hl).
  change (l :: rev (c :: m)) with ([l] ++ rev (c :: m)).
  rewrite rev_app_distr, rev_involutive. reflexivity.
Qed.

Lemma trim_id1 : forall c, is_ws c = false -> trim [c] = [c].
Proof.
  intros c Hc. unfold trim. rewrite (drop_ws_id c _ Hc). cbn [rev app].
  rewrite (drop_ws_id c _ Hc). reflexivity.
Qed.

(** decomposition of a non-empty list into first, middle, last *)
Lemma list_first_last : forall (A : Type) (x : A) (l : list A),
  l <> [] -> exists m y, x :: l = x :: m ++ [y].
Proof.
  intros A x l Hne. destruct (exists_last Hne) as [m [y E]]. exists m, y. rewrite E. reflexivity.
Qed.

Lemma trim_id_ends : forall s,
  s <> [] ->
  (forall c r, s = c :: r -> is_ws c = false) ->
  (forall m l, s = m ++ [l] -> is_ws l = false) ->
  trim s = s.
Proof.
  intros s Hne Hfirst Hlast.
  destruct s as [|c r]; [contradiction|].
  destruct r as [|d r'].
  - apply trim_id1. apply (Hfirst c []). reflexivity.
  - destruct (list_first_last _ c (d :: r') ltac:(discriminate)) as [m [y E]].
    rewrite E. apply trim_id.
    + apply (Hfirst c (d :: r')). reflexivity.
    + apply (Hlast (c :: m) y). rewrite E. reflexivity.
Qed.

(* ------------------------------------------------------------------------- lines *)
Lemma split_lines_aux_line : forall l cur rest,
  forallb (fun c => negb (Ascii.eqb c ch_nl)) l = true ->
  split_lines_aux (l ++ ch_nl :: rest) cur = strip_cr_rev (rev l ++ cur) :: split_lines_aux rest [].
Proof.
  induction l as [|c l IH]; intros cur rest H.
  - cbn [app split_lines_aux rev]. rewrite Ascii.eqb_refl. reflexivity.
  - cbn [forallb] in H. apply andb_true_iff in H. destruct H as [Hc Hl].
    apply negb_true_iff in Hc.
    cbn [app split_lines_aux]. rewrite Hc. rewrite (IH (c :: cur) rest Hl).
    cbn [rev]. rewrite <- app_assoc. reflexivity.
Qed.

(** a printed line: no newline inside, does not end in a carriage return *)
Definition line_ok (l : str) : Prop :=
  forallb (fun c => negb (Ascii.eqb c ch_nl)) l = true /\
  (forall m, l <> m ++ [ch_cr]).

Lemma strip_cr_rev_id : forall l, (forall m, l <> m ++ [ch_cr]) -> strip_cr_rev (rev l) = l.
Proof.
  intros l H. unfold strip_cr_rev. destruct (rev l) as [|c r] eqn:E.
  - apply (f_equal (@rev ascii)) in E. rewrite rev_involutive in E. exact (eq_sym E).
  - destruct (Ascii.eqb c ch_cr) eqn:Ec.
    + apply Ascii.eqb_eq in Ec. subst c. exfalso. apply (H (rev r)).
      apply (f_equal (@rev ascii)) in E. rewrite rev_involutive in E. rewrite E. reflexivity.
    + rewrite <- E. apply rev_involutive.
Qed.

Lemma split_lines_unlines_app : forall ls rest,
  Forall line_ok ls ->
  split_lines_aux (unlines ls ++ rest) [] = ls ++ split_lines_aux rest [].
Proof.
  induction ls as [|l ls IH]; intros rest H.
  - reflexivity.
  - inversion H as [|? ? [Hnl Hcr] Hrest]; subst.
    unfold unlines. cbn [map concat]. fold (unlines ls).
    rewrite <- !app_assoc. cbn [app].
    rewrite (split_lines_aux_line l [] _ Hnl). rewrite app_nil_r.
    rewrite (strip_cr_rev_id l Hcr). rewrite (IH rest Hrest). reflexivity.
Qed.

Lemma split_lines_unlines : forall ls, Forall line_ok ls -> split_lines (unlines ls) = ls.
Proof.
  intros ls H. unfold split_lines.
  rewrite <- (app_nil_r (unlines ls)). rewrite (split_lines_unlines_app ls [] H).
  cbn [split_lines_aux]. apply app_nil_r.
Qed.

Lemma unlines_app : forall a b, unlines (a ++ b) = unlines a ++ unlines b.
Proof. intros a b. unfold unlines. rewrite map_app, concat_app. reflexivity. Qed.

(* ------------------------------------------------------------------------- tokens *)
Definition clean (t : str) : Prop := forallb tok_char t = true.

Lemma tok_char_split : forall c, tok_char c = true ->
  (Ascii.eqb c ch_sp || Ascii.eqb c ch_tab = false) /\ Ascii.eqb c ch_semi = false.
Proof.
  intros c H. unfold tok_char in H. apply negb_true_iff in H.
  apply orb_false_iff in H. destruct H as [H1 H2]. split; assumption.
Qed.

Lemma tokenize_aux_clean : forall t cur s,
  clean t -> tokenize_aux (t ++ s) cur = tokenize_aux s (rev t ++ cur).
Proof.
  induction t as [|c t IH]; intros cur s H.
  - reflexivity.
  - unfold clean in H. cbn [forallb] in H. apply andb_true_iff in H. destruct H as [Hc Ht].
    destruct (tok_char_split c Hc) as [H1 H2].
    cbn [app tokenize_aux]. rewrite H1, H2. rewrite (IH (c :: cur) s Ht).
    cbn [rev]. rewrite <- app_assoc. reflexivity.
Qed.

Lemma tokenize_aux_sp : forall s cur,
  tokenize_aux (ch_sp :: s) cur = finish_token cur (tokenize_aux s []).
Proof. intros. reflexivity. Qed.

Lemma finish_token_nonempty : forall t rest, t <> [] -> finish_token (rev t) rest = t :: rest.
Proof.
  intros t rest H. unfold finish_token. destruct (rev t) eqn:E.
  - exfalso. apply H. apply (f_equal (@rev ascii)) in E. rewrite rev_involutive in E. exact E.
  - rewrite <- E. rewrite rev_involutive. reflexivity.
Qed.

(** tokenising a line that was written as tokens separated by single blanks *)
Lemma tokenize_join_sp : forall toks,
  Forall (fun t => clean t /\ t <> []) toks -> tokenize (join_sp toks) = toks.
Proof.
  unfold tokenize.
  induction toks as [|t toks IH]; intros H.
  - reflexivity.
  - inversion H as [|? ? [Hc Hne] Hrest]; subst.
    destruct toks as [|t2 toks'].
    + change (join_sp [t]) with t.
      pose proof (tokenize_aux_clean t [] [] Hc) as E. rewrite app_nil_r in E. rewrite E.
      cbn [tokenize_aux]. rewrite app_nil_r. apply finish_token_nonempty. exact Hne.
    + change (join_sp (t :: t2 :: toks')) with (t ++ ch_sp :: join_sp (t2 :: toks')).
      rewrite (tokenize_aux_clean t [] _ Hc). rewrite tokenize_aux_sp. rewrite app_nil_r.
      rewrite (finish_token_nonempty t _ Hne). rewrite (IH Hrest). reflexivity.
Qed.

(* ------------------------------------------------------------------------- decimal numbers *)
Definition is_digit (c : ascii) : bool :=
  match digit_of_char c with Some _ => true | None => false end.

Lemma dec_of_uint_digits : forall d, forallb is_digit (dec_of_uint d) = true.
Proof. induction d; cbn [dec_of_uint forallb]; try reflexivity; rewrite IHd; reflexivity. Qed.

Lemma uint_of_dec_of_uint : forall d, uint_of_dec (dec_of_uint d) = Some d.
Proof. induction d; cbn [dec_of_uint uint_of_dec digit_of_char]; try reflexivity; rewrite IHd; reflexivity. Qed.

Lemma digit_plain : forall c, is_digit c = true -> plain_char c = true.
Proof.
  intros c H. unfold is_digit in H.
  destruct c as [[|] [|] [|] [|] [|] [|] [|] [|]]; cbn in H; try discriminate; reflexivity.
Qed.

Lemma digit_not_plus : forall c, is_digit c = true -> Ascii.eqb c "+"%char = false.
Proof.
  intros c H. unfold is_digit in H.
  destruct c as [[|] [|] [|] [|] [|] [|] [|] [|]]; cbn in H; try discriminate; reflexivity.
Qed.

Lemma to_uint_nonnil : forall n, N.to_uint n <> Nil.
Proof.
  intros [|p]; cbn [N.to_uint]; [discriminate|]. apply DecimalPos.Unsigned.to_uint_nonnil.
Qed.

Lemma dec_of_uint_nonempty : forall d, d <> Nil -> dec_of_uint d <> [].
Proof. intros d H. destruct d; cbn [dec_of_uint]; try discriminate. contradiction. Qed.

Lemma print_dec_nonempty : forall n, print_dec n <> [].
Proof. intros n. unfold print_dec. apply dec_of_uint_nonempty. apply to_uint_nonnil. Qed.

Lemma print_dec_digits : forall n, forallb is_digit (print_dec n) = true.
Proof. intros n. apply dec_of_uint_digits. Qed.

Lemma forallb_impl : forall (A : Type) (p q : A -> bool) (l : list A),
  (forall x, p x = true -> q x = true) -> forallb p l = true -> forallb q l = true.
Proof.
  intros A p q l Hpq. induction l as [|x l IH]; cbn [forallb]; [reflexivity|].
  intros H. apply andb_true_iff in H. destruct H as [Hx Hl].
  rewrite (Hpq x Hx), (IH Hl). reflexivity.
Qed.

Lemma print_dec_plain : forall n, forallb plain_char (print_dec n) = true.
Proof. intros n. apply (forallb_impl _ is_digit); [apply digit_plain|apply print_dec_digits]. Qed.

Lemma parse_unsigned_print_dec : forall bound n, n < bound -> parse_unsigned bound (print_dec n) = Some n.
Proof.
  intros bound n Hlt. unfold parse_unsigned.
  pose proof (print_dec_nonempty n) as Hne.
  pose proof (print_dec_digits n) as Hd.
  destruct (print_dec n) as [|c r] eqn:E; [contradiction|].
  cbn [forallb] in Hd. apply andb_true_iff in Hd. destruct Hd as [Hc _].
  rewrite (digit_not_plus c Hc).
  rewrite <- E. unfold print_dec. rewrite uint_of_dec_of_uint.
  rewrite DecimalN.Unsigned.of_to.
  apply N.ltb_lt in Hlt. rewrite Hlt. reflexivity.
Qed.

Lemma parse_u64_print_dec : forall n, n < 2 ^ 64 -> parse_u64 (print_dec n) = Some n.
Proof. intros. apply parse_unsigned_print_dec. assumption. Qed.

Lemma parse_u32_print_dec : forall n, n < 2 ^ 32 -> parse_u32 (print_dec n) = Some n.
Proof. intros. apply parse_unsigned_print_dec. assumption. Qed.

(* ------------------------------------------------------------------------- bit strings *)
Lemma parse_bits_aux_print : forall b, parse_bits_aux (print_bits b) = Some b.
Proof.
  induction b as [|x b IH]; [reflexivity|].
  cbn [print_bits map parse_bits_aux]. fold (print_bits b). rewrite IH.
  destruct x; reflexivity.
Qed.

Lemma parse_bits_print : forall b, b <> [] -> parse_bits (print_bits b) = Some b.
Proof.
  intros b H. destruct b as [|x b]; [contradiction|].
  pose proof (parse_bits_aux_print (x :: b)) as E.
  unfold parse_bits. destruct (print_bits (x :: b)) eqn:E2; [discriminate E2|]. exact E.
Qed.

Lemma print_bits_plain : forall b, forallb plain_char (print_bits b) = true.
Proof.
  induction b as [|x b IH]; [reflexivity|].
  cbn [print_bits map forallb]. fold (print_bits b). rewrite IH. destruct x; reflexivity.
Qed.

Lemma print_bits_nonempty : forall b, b <> [] -> print_bits b <> [].
Proof. intros [|x b] H; [contradiction|discriminate]. Qed.

Lemma print_bits_length : forall b, length (print_bits b) = length b.
Proof. intros b. unfold print_bits. apply map_length. Qed.

(* ------------------------------------------------------------------------- names *)
Lemma strip_name_suffix : forall name c rest,
  forallb name_char_ok name = true ->
  Ascii.eqb c ch_at || Ascii.eqb c ch_hash = true ->
  strip_name (name ++ c :: rest) = name.
Proof.
  induction name as [|x name IH]; intros c rest Hn Hc.
  - cbn [app strip_name]. rewrite Hc. reflexivity.
  - cbn [forallb] in Hn. apply andb_true_iff in Hn. destruct Hn as [Hx Hn].
    cbn [app strip_name]. rewrite (name_char_not_at_hash x Hx). f_equal. apply IH; assumption.
Qed.

Lemma unbracket_bracket : forall s, unbracket ("["%char :: s ++ ["]"%char]) = Some s.
Proof.
  intros s. unfold unbracket. rewrite Ascii.eqb_refl.
  rewrite rev_app_distr. cbn [rev app]. rewrite Ascii.eqb_refl. rewrite rev_involutive. reflexivity.
Qed.

(* ------------------------------------------------------------------------- forallb helpers *)
Lemma forallb_app_true : forall (A : Type) (p : A -> bool) (a b : list A),
  forallb p a = true -> forallb p b = true -> forallb p (a ++ b) = true.
Proof. intros. rewrite forallb_app. rewrite H, H0. reflexivity. Qed.

Lemma plain_clean : forall t, forallb plain_char t = true -> clean t.
Proof. intros t H. unfold clean. apply (forallb_impl _ plain_char); [apply plain_char_tok|exact H]. Qed.

Lemma names_clean : forall t, forallb name_char_ok t = true -> clean t.
Proof. intros t H. unfold clean. apply (forallb_impl _ name_char_ok); [apply name_char_tok|exact H]. Qed.
