(** * Proofs/EncodingBasics.v — substitution of step symbols: typing and meaning. *)
From Coq Require Import List Bool Lia.
From Patronus Require Import EvalImpl Encoding SysExec ExprLemmas McBasics ScriptProofs.
Import ListNotations.
Open Scope N_scope.

Ltac inv_same_in H :=
  first [apply wt_and in H | apply wt_or in H | apply wt_xor in H | apply wt_shl in H | apply wt_ashr in H
        | apply wt_lshr in H | apply wt_add in H | apply wt_mul in H | apply wt_sdiv in H | apply wt_udiv in H
        | apply wt_smod in H | apply wt_srem in H | apply wt_urem in H | apply wt_sub in H].

Lemma wt_ty_pos e : wt e = true -> ty_pos (type_of e) = true.
Proof.
  induction e; intros H; cbn [type_of ty_pos].
  all: try (apply N.ltb_lt; lia).
  all: try (inv_same_in H; destruct H as (Ha & _ & Hta & _); specialize (IHe1 Ha); rewrite Hta in IHe1; exact IHe1).
  - apply wt_sym in H. now apply N.ltb_lt.
  - apply wt_lit in H. apply N.ltb_lt. tauto.
  - apply wt_zext in H. apply N.ltb_lt. lia.
  - apply wt_sext in H. apply N.ltb_lt. lia.
  - apply wt_not in H. destruct H as [Ha Ht]. specialize (IHe Ha). now rewrite Ht in IHe.
  - apply wt_neg in H. destruct H as [Ha Ht]. specialize (IHe Ha). now rewrite Ht in IHe.
  - apply wt_concat in H. destruct H as (Ha & Hb & wa & wb & Hta & Htb & ->).
    specialize (IHe1 Ha). rewrite Hta in IHe1. cbn [ty_pos] in IHe1. apply N.ltb_lt in IHe1. apply N.ltb_lt. lia.
  - apply wt_read in H. destruct H as (Ha & Hb & iw & Hta & Htb). specialize (IHe1 Ha). rewrite Hta in IHe1.
    cbn [ty_pos] in IHe1. apply andb_true_iff in IHe1. tauto.
  - apply wt_ite in H. destruct H as (_ & _ & Hc & _). now apply IHe3.
  - cbn [wt] in H. unfold node_ok in H. cbn [check1 leaf_ok is_some] in H. rewrite !andb_true_iff in H. apply andb_true_iff. tauto.
  - apply wt_aconst in H. destruct H as (Ha & Hta & Hiw). specialize (IHe Ha). rewrite Hta in IHe.
    cbn [ty_pos] in IHe. apply andb_true_iff. split; [now apply N.ltb_lt|exact IHe].
  - apply wt_store in H. destruct H as (Ha & _). now apply IHe1.
  - apply wt_aite in H. destruct H as (_ & _ & Hc & _). now apply IHe3.
Qed.

Section SubstWt.
  Variable sg : expr -> option expr.
  Hypothesis Hsg : forall x s, sg x = Some s -> wt s = true /\ type_of s = type_of x.

  Lemma subst_wt : forall e top, wt e = true ->
    wt (subst sg top e) = true /\ type_of (subst sg top e) = type_of e.
  Proof.
    induction e; intros top H; cbn [subst];
      (destruct top; [|destruct (sg _) as [s0|] eqn:Es; [now apply Hsg|]]);
      try (split; [assumption|reflexivity]).
    all: cbn [wt] in H; repeat match goal with Hx : _ && _ = true |- _ => apply andb_true_iff in Hx; destruct Hx end;
      repeat match goal with
             | IH : forall top, wt ?a = true -> _, Ha : wt ?a = true |- _ =>
                 let A := fresh "Hw" in let B := fresh "Ht" in
                 destruct (IH false Ha) as [A B]; clear IH
             end;
      cbn [wt type_of]; unfold node_ok in *; cbn [check1 leaf_ok] in *;
      unfold expect_same_width_bvs_of, expect_same_width_bvs, expect_same_size_arrays in *;
      repeat match goal with Ht : type_of (subst _ _ _) = _ |- _ => rewrite Ht end;
      repeat match goal with Hw : wt (subst _ _ _) = true |- _ => rewrite Hw end;
      repeat match goal with Hx : ?p = true |- context [?p] => rewrite Hx end; auto.
  Qed.
End SubstWt.

Section Subst.
  Variables (sg : expr -> option expr) (tau rho : env).
  Hypothesis Hsg : forall x s, sg x = Some s -> same_val tau s rho x /\ type_of s = type_of x.

  Lemma subst_val : forall e top,
    (forall y, In y (symbols_of e) -> sg y <> None) ->
    (top = true -> is_symbol e = false) ->
    same_val tau (subst sg top e) rho e /\ type_of (subst sg top e) = type_of e.
  Proof.
    induction e; intros top Hcl Htop; cbn [subst];
      (destruct top; [|destruct (sg _) as [s0|] eqn:Es; [now apply Hsg|]]);
      cbn [symbols_of] in Hcl;
      repeat match goal with
             | IH : forall top, (forall y, In y (symbols_of ?a) -> _) -> _ -> _ |- _ =>
                 let A := fresh "Hv" in let B := fresh "Ht" in
                 destruct (IH false) as [A B];
                 [intros y' Hy'; apply Hcl; rewrite ?in_app_iff; tauto|discriminate|]; clear IH
             end.
    all: try (exfalso; specialize (Htop eq_refl); discriminate Htop).
    all: try (exfalso; apply (Hcl _ (or_introl eq_refl)); assumption).
    all: try (split; [apply same_val_refl|reflexivity]).
    all: unfold same_val in *; cbn [ebv earr type_of]; unfold width, index_width;
      repeat match goal with H : _ /\ _ |- _ => destruct H end;
      repeat match goal with H : type_of (subst _ _ _) = _ |- _ => rewrite H; clear H end;
      repeat match goal with H : ebv tau (subst _ _ _) = _ |- _ => rewrite H; clear H end.
    all: try (split; [split; [reflexivity|intros; reflexivity]|reflexivity]).
    all: repeat split; intros; try reflexivity;
      try match goal with
          | H : forall i, earr tau ?a i = earr rho ?b i |- earr tau ?a _ = earr rho ?b _ => apply H
          | |- b2n (arr_eqb _ _ _) = b2n (arr_eqb _ _ _) => f_equal; apply arr_eqb_ext; assumption
          | |- arr_store _ _ _ _ = arr_store _ _ _ _ => unfold arr_store; destruct (_ =? _); auto
          | |- (if ?c then _ else _) _ = (if ?c then _ else _) _ => destruct c; auto
          | |- (if ?c then _ else _) = (if ?c then _ else _) => destruct c; auto
          end.
  Qed.
End Subst.

(** well-typed expressions of bit-vector sort have no array value and vice versa *)
Lemma wt_bv_no_arr rho e w : wt e = true -> type_of e = TBV w -> forall i, earr rho e i = 0.
Proof.
  intros Hwt Ht i. pose proof (wt_array_type e Hwt) as Ha. rewrite Ht in Ha.
  destruct e; cbn [is_array_type] in Ha; try discriminate; reflexivity.
Qed.

Lemma wt_arr_no_bv rho e iw dw : wt e = true -> type_of e = TArr iw dw -> ebv rho e = 0.
Proof.
  intros Hwt Ht. pose proof (wt_array_type e Hwt) as Ha. rewrite Ht in Ha.
  destruct e; cbn [is_array_type] in Ha; try discriminate; reflexivity.
Qed.

(** assigning the value of [e] to a symbol of the sort of [e] *)
Lemma assign_mk_sym_same rho n src e :
  wt e = true -> same_val (assign rho (mk_sym n (type_of e)) src e) (mk_sym n (type_of e)) src e.
Proof.
  intros Hwt. destruct (type_of e) as [w|iw dw] eqn:Ht; cbn [mk_sym]; split.
  - cbn [ebv]. apply assign_bv_same.
  - intros i. cbn [earr]. symmetry. eapply wt_bv_no_arr; eassumption.
  - cbn [ebv]. symmetry. eapply wt_arr_no_bv; eassumption.
  - intros i. cbn [earr]. apply assign_arr_same.
Qed.

Lemma same_val_mk_sym_other rho s src e x :
  is_symbol s = true -> is_symbol x = true -> x <> s -> same_val (assign rho s src e) x rho x.
Proof.
  intros Hs Hx Hne. pose proof (assign_other x s rho src e Hs Hne) as H.
  destruct x; try discriminate Hx; cbn [agree_on] in H; split; cbn [ebv earr]; auto.
Qed.

(** ** sub-expressions *)
Lemma subterm_size : forall t u, In u (subterms t) -> (size u <= size t)%nat.
Proof.
  induction t; intros u Hu; cbn [subterms] in Hu;
    (destruct Hu as [<-|Hu]; [lia|]); cbn [size]; repeat (rewrite in_app_iff in Hu);
    repeat match goal with H : _ \/ _ |- _ => destruct H end;
    try (now destruct Hu);
    repeat match goal with IH : forall u, In u (subterms ?a) -> _, H : In _ (subterms ?a) |- _ => apply IH in H end; lia.
Qed.

Lemma subterms_self e : In e (subterms e).
Proof. destruct e; cbn [subterms]; now left. Qed.

Lemma child_subterms a e x : In a (children e) -> In x (subterms a) -> In x (subterms e) /\ x <> e.
Proof.
  intros Ha Hx. split.
  - destruct e; cbn [children] in Ha; cbn [subterms]; right;
      repeat (destruct Ha as [<-|Ha]; [rewrite ?in_app_iff; tauto|]); destruct Ha.
  - intros ->. apply subterm_size in Hx. destruct e; cbn [children] in Ha; cbn [size] in Hx;
      repeat (destruct Ha as [<-|Ha]; [lia|]); destruct Ha.
Qed.

Lemma child_subterms_in a e x : In a (children e) -> In x (subterms a) -> In x (subterms e).
Proof. intros Ha Hx. now apply (child_subterms a e x). Qed.
Lemma child_subterms_neq a e x : In a (children e) -> In x (subterms a) -> x <> e.
Proof. intros Ha Hx. now apply (child_subterms a e x). Qed.

Lemma subterms_trans : forall e a x, In a (subterms e) -> In x (subterms a) -> In x (subterms e).
Proof.
  induction e; intros a0 x Ha Hx; cbn [subterms] in Ha;
    (destruct Ha as [<-|Ha]; [assumption|]); cbn [subterms]; right;
    repeat (rewrite in_app_iff in Ha); rewrite ?in_app_iff;
    repeat match goal with H : _ \/ _ |- _ => destruct H end;
    try (now destruct Ha); eauto 6.
Qed.

(** the symbols of a substituted expression come from the replaced sub-expressions *)
Section SubstSyms.
Variables (d : decls) (sg : expr -> option expr).
Lemma subst_syms_ok : forall e top,
  (forall x s, In x (subterms e) -> (top = true -> x <> e) -> sg x = Some s -> syms_ok d s = true) ->
  (forall y, In y (symbols_of e) -> sg y <> None) ->
  (top = true -> is_symbol e = false) ->
  syms_ok d (subst sg top e) = true.
Proof.
  induction e; intros top Hcut Hcl Htop; cbn [subst];
    (destruct top; [|destruct (sg _) as [s0|] eqn:Es;
                     [apply (Hcut _ s0 (subterms_self _)); [discriminate|assumption]|]]);
    cbn [symbols_of] in Hcl; cbn [syms_ok].
  all: try (exfalso; specialize (Htop eq_refl); discriminate Htop).
  all: try (exfalso; apply (Hcl _ (or_introl eq_refl)); assumption).
  all: try reflexivity.
  all: repeat match goal with
              | IH : _ |- context [subst sg false ?a] =>
                  rewrite (IH false);
                  [ | intros x s Hx _ Hs; apply (Hcut x s);
                      [ apply (child_subterms_in a); [cbn [children In]; auto|exact Hx]
                      | intros _; apply (child_subterms_neq a); [cbn [children In]; auto|exact Hx]
                      | exact Hs ]
                    | intros y Hy; apply Hcl; rewrite ?in_app_iff; tauto
                    | discriminate ]; clear IH
              end; reflexivity.
Qed.
End SubstSyms.
