(** * Proofs/SmtCmdRoundTrip.v — C14: the commands the writer emits are read back by
    [parse_command] (those that are: the others are recorded defects, with witnesses). *)
From Coq Require Import Lia.
From Patronus Require Import SmtParse BVLemmas ExprLemmas EvalProofs SmtCharLemmas SmtSerLemmas SmtSemLemmas SmtSerProofs SmtParseLemmas SmtParseProofs SmtRoundTrip.
Open Scope string_scope.
Open Scope list_scope.
Open Scope N_scope.

(** ** commands: what the writer emits is read back *)

(** the command the reader returns for the writer's output of [c] *)
Definition rt_cmd (c : smt_cmd) : smt_cmd :=
  match c with
  | CAssert e => CAssert (rt e false)
  | CDefineConst s v => CDefineConst s (rt v false)
  | CGetValue e => CGetValue (rt e false)
  | CCheckSatAssuming [e] => CCheckSatAssuming [rt e false]
  | c => c
  end.

Definition expr_rt_ok (top : symtab) (e : expr) : Prop :=
  wt e = true /\ built e = true /\ idx32 e = true /\ table_for top e.

Definition keys_clean (top : symtab) : Prop :=
  forall n, name_ok n = false \/ all_digits n = true -> assoc_str n top = None.

Definition ty32 (t : ty) : Prop :=
  match t with TBV w => 0 < w /\ w < 2 ^ 32 | TArr i d => 0 < i /\ i < 2 ^ 32 /\ 0 < d /\ d < 2 ^ 32 end.

(** which commands round-trip (the others are the recorded defects) *)
Definition cmd_rt_pre (top : symtab) (c : smt_cmd) : Prop :=
  match c with
  | CAssert e | CGetValue e => expr_rt_ok top e
  | CCheckSatAssuming [e] => expr_rt_ok top e
  | CCheckSatAssuming _ => False
  | CDeclareConst s =>
      keys_clean top /\ exists n, symbol_name_of s = Some n /\ name_ok n = true /\ s = sym_of n (type_of s) /\ ty32 (type_of s)
  | CDefineConst s v =>
      expr_rt_ok top v /\ type_of v = type_of s /\
      exists n, symbol_name_of s = Some n /\ name_ok n = true /\ s = sym_of n (type_of s) /\ ty32 (type_of s)
  | CPush n | CPop n => n < 2 ^ 64
  | CSetOption k v => symbol_name (escape_id v) = Some v
  | CSetInfo _ _ | CGetUnsatAssumptions => False
  | CExit | CCheckSat | CSetLogic _ => True
  end.

Lemma run_expr top e mb rest : expr_rt_ok top e ->
  run (toks_of_sx (ser e mb) ++ rest) [] (nst_new top) false = POk (EE (rt e mb), nst_new top, rest).
Proof.
  intros (Hwt & Hbu & Hix & Hsy & Hkeys).
  pose proof (sxi_ser (nst_new top) Hkeys e Hwt Hbu Hix Hsy mb) as Hs.
  destruct (machine_sx (nst_new top) _ _ Hs) as [Hr _]. now rewrite (Hr [] rest I).
Qed.

Lemma run_sort top t rest : keys_clean top -> ty32 t ->
  run (toks_of_sx (ser_type t) ++ rest) [] (nst_new top) false = POk (ET t, nst_new top, rest).
Proof.
  intros Hk Ht.
  assert (Hs : sxi (nst_new top) (ser_type t) = POk (IType t)).
  { destruct t as [w | i d]; cbn [ty32] in Ht.
    - cbn [ser_type]. apply (elem_item (nst_new top) Hk w). tauto.
    - apply (ser_type_arr_item (nst_new top) Hk i d); tauto. }
  destruct (machine_sx (nst_new top) _ _ Hs) as [Hr _]. now rewrite (Hr [] rest I).
Qed.

Lemma name_token n : name_ok n = true -> forall rest, value_token (ltok_of_atom (escape_id n) :: rest) = POk (n, rest).
Proof.
  intros Hn rest. destruct (name_ok_facts n Hn) as (Hs & _). unfold escape_id in *.
  destruct (is_simple_id n) eqn:Es.
  - destruct n as [|c r]; [discriminate|]. unfold ltok_of_atom. rewrite (is_simple_id_first _ c r eq_refl Es). reflexivity.
  - change (String.append "|" (String.append n "|")) with (String c_bar (String.append n "|")) in *.
    unfold ltok_of_atom. change (Ascii.eqb c_bar c_bar) with true. cbv iota.
    unfold symbol_name in Hs. change (Ascii.eqb c_bar c_bar) with true in Hs. cbv iota in Hs. rewrite Hs. reflexivity.
Qed.

Lemma mk_symbol_ok n t : ty32 t -> mk_symbol n t = POk (sym_of n t).
Proof.
  destruct t as [w | i d]; cbn [ty32 mk_symbol sym_of]; intros H; [|reflexivity].
  assert (E : (w =? 0) = false) by (apply N.eqb_neq; lia). now rewrite E.
Qed.

Lemma toks_app1 h (args : list sx) :
  toks_of_sx (SxList (SxAtom h :: args)) = TkOpen :: ltok_of_atom h :: concat (map toks_of_sx args) ++ [TkClose].
Proof. rewrite toks_list. cbn [map concat]. unfold toks_of_sx at 1. cbn [flatten map ltok_of app]. reflexivity. Qed.


Lemma run_paren_expr top e mb rest : expr_rt_ok top e ->
  run (toks_of_sx (SxList [ser e mb]) ++ rest) [] (nst_new top) false = POk (EE (rt e mb), nst_new top, rest).
Proof.
  intros (Hwt & Hbu & Hix & Hsy & Hkeys).
  pose proof (sxi_ser (nst_new top) Hkeys e Hwt Hbu Hix Hsy mb) as Hs.
  assert (Hg : sxi (nst_new top) (SxList [ser e mb]) = POk (IExpr (rt e mb))).
  { rewrite sxi_list_eq. cbn [sxi_list]. rewrite Hs. reflexivity. }
  destruct (machine_sx (nst_new top) _ _ Hg) as [Hr _]. now rewrite (Hr [] rest I).
Qed.

Theorem parse_cmd_ser_lemma :
  forall (top : symtab) (c : smt_cmd) (t : sx),
    cmd_rt_pre top c -> ser_cmd c = Ok t -> parse_command_toks top (toks_of_sx t) = POk (rt_cmd c).
Proof.
  intros top c t Hpre Hser. unfold parse_command_toks.
  destruct c as [ | | l | k v | k v | e | s | s v | es | n | n | e | ]; cbn [cmd_rt_pre ser_cmd rt_cmd] in *;
    try contradiction.
  - inversion Hser; subst. reflexivity.
  - inversion Hser; subst. reflexivity.
  - inversion Hser; subst. destruct l; reflexivity.
  - (* set-option *)
    inversion Hser; subst. rewrite toks_app1. cbn [map concat skip_open next_no_comment pbind].
    change (ltok_of_atom "set-option") with (TkValue "set-option"). cbn [next_no_comment pbind].
    unfold parse_command_body.
    change (String.eqb "set-option" "exit") with false. change (String.eqb "set-option" "check-sat") with false.
    change (String.eqb "set-option" "set-logic") with false. change (String.eqb "set-option" "set-option") with true. cbn [orb].
    unfold toks_of_sx. cbn [flatten map ltok_of app].
    change (ltok_of_atom (String ":" k)) with (TkValue (String ":" k)). cbn [value_token next_no_comment pbind snd fst].
    (* the value: a plain or a quoted symbol *)
    unfold escape_id in *. destruct (is_simple_id v) eqn:Es.
    + destruct v as [|c r]; [discriminate|]. unfold ltok_of_atom. rewrite (is_simple_id_first _ c r eq_refl Es).
      cbn [any_string_token next_no_comment pbind fst snd String.append]. change (Ascii.eqb ":" ":") with true. cbv iota.
      cbn [skip_close next_no_comment pbind]. reflexivity.
    + change (String.append "|" (String.append v "|")) with (String c_bar (String.append v "|")) in *.
      unfold ltok_of_atom. change (Ascii.eqb c_bar c_bar) with true. cbv iota.
      unfold symbol_name in Hpre. change (Ascii.eqb c_bar c_bar) with true in Hpre. cbv iota in Hpre. rewrite Hpre.
      cbn [any_string_token next_no_comment pbind fst snd String.append]. change (Ascii.eqb ":" ":") with true. cbv iota.
      cbn [skip_close next_no_comment pbind]. reflexivity.
  - (* assert *)
    inversion Hser; subst. rewrite toks_app1. cbn [map concat skip_open next_no_comment pbind].
    change (ltok_of_atom "assert") with (TkValue "assert"). cbn [next_no_comment pbind].
    unfold parse_command_body.
    change (String.eqb "assert" "exit") with false. change (String.eqb "assert" "check-sat") with false.
    change (String.eqb "assert" "set-logic") with false.
    change (String.eqb "assert" "set-option" || String.eqb "assert" "set-info") with false.
    change (String.eqb "assert" "assert") with true. cbv iota.
    unfold parse_expr_internal, parse_eot. rewrite app_nil_r, (run_expr top e false [TkClose] Hpre).
    cbn [pbind skip_close next_no_comment fst snd]. reflexivity.
  - (* declare-const *)
    destruct Hpre as (Hk & n & Hn & Hok & Hs & Hty). rewrite Hn in Hser. inversion Hser; subst t.
    rewrite toks_app1. cbn [map concat skip_open next_no_comment pbind].
    change (ltok_of_atom "declare-const") with (TkValue "declare-const"). cbn [next_no_comment pbind].
    unfold parse_command_body.
    change (String.eqb "declare-const" "exit") with false. change (String.eqb "declare-const" "check-sat") with false.
    change (String.eqb "declare-const" "set-logic") with false.
    change (String.eqb "declare-const" "set-option" || String.eqb "declare-const" "set-info") with false.
    change (String.eqb "declare-const" "assert") with false. change (String.eqb "declare-const" "declare-const") with true. cbv iota.
    rewrite app_nil_r. unfold toks_of_sx at 1. cbn [flatten map ltok_of app].
    rewrite (name_token n Hok). cbn [pbind fst snd].
    unfold parse_type, parse_eot. rewrite (run_sort top _ [TkClose] Hk Hty). cbn [pbind].
    rewrite (mk_symbol_ok n _ Hty). cbn [pbind skip_close next_no_comment fst snd]. now rewrite <- Hs.
  - (* define-fun *)
    destruct Hpre as (Hv & Htv & n & Hn & Hok & Hs & Hty). rewrite Hn in Hser. inversion Hser; subst t.
    rewrite toks_app1. cbn [map concat skip_open next_no_comment pbind].
    change (ltok_of_atom "define-fun") with (TkValue "define-fun"). cbn [next_no_comment pbind].
    unfold parse_command_body.
    change (String.eqb "define-fun" "exit") with false. change (String.eqb "define-fun" "check-sat") with false.
    change (String.eqb "define-fun" "set-logic") with false.
    change (String.eqb "define-fun" "set-option" || String.eqb "define-fun" "set-info") with false.
    change (String.eqb "define-fun" "assert") with false. change (String.eqb "define-fun" "declare-const") with false.
    change (String.eqb "define-fun" "declare-fun") with false. change (String.eqb "define-fun" "define-const") with false.
    change (String.eqb "define-fun" "define-fun") with true. cbv iota.
    rewrite app_nil_r. unfold toks_of_sx at 1 2. cbn [flatten flat_map map ltok_of app].
    rewrite (name_token n Hok). cbn [pbind fst snd skip_open skip_close next_no_comment].
    destruct Hv as (Hwt & Hbu & Hix & Hsy & Hkeys).
    unfold parse_type, parse_eot. rewrite <- app_assoc. rewrite (run_sort top _ _ Hkeys Hty). cbn [pbind].
    unfold parse_expr_internal, parse_eot. rewrite (run_expr top v false [TkClose] (conj Hwt (conj Hbu (conj Hix (conj Hsy Hkeys))))).
    cbn [pbind]. rewrite (rt_type v false Hwt Hbu), Htv, ty_eqb_refl.
    rewrite (mk_symbol_ok n _ Hty). cbn [pbind skip_close next_no_comment fst snd]. now rewrite <- Hs.
  - (* check-sat-assuming with one assumption *)
    destruct es as [|e [|e2 es]]; try contradiction. inversion Hser; subst t. cbn [map].
    rewrite toks_app1. cbn [map concat skip_open next_no_comment pbind].
    change (ltok_of_atom "check-sat-assuming") with (TkValue "check-sat-assuming"). cbn [next_no_comment pbind].
    unfold parse_command_body.
    change (String.eqb "check-sat-assuming" "exit") with false. change (String.eqb "check-sat-assuming" "check-sat") with false.
    change (String.eqb "check-sat-assuming" "set-logic") with false.
    change (String.eqb "check-sat-assuming" "set-option" || String.eqb "check-sat-assuming" "set-info") with false.
    change (String.eqb "check-sat-assuming" "assert") with false. change (String.eqb "check-sat-assuming" "declare-const") with false.
    change (String.eqb "check-sat-assuming" "declare-fun") with false. change (String.eqb "check-sat-assuming" "define-const") with false.
    change (String.eqb "check-sat-assuming" "define-fun") with false. change (String.eqb "check-sat-assuming" "check-sat-assuming") with true. cbv iota.
    unfold parse_expr_internal, parse_eot. rewrite app_nil_r, (run_paren_expr top e false [TkClose] Hpre).
    cbn [pbind skip_close next_no_comment fst snd]. reflexivity.
  - (* push *)
    inversion Hser; subst. rewrite toks_app1. cbn [map concat skip_open next_no_comment pbind].
    change (ltok_of_atom "push") with (TkValue "push"). cbn [next_no_comment pbind].
    unfold parse_command_body. cbn [String.eqb Ascii.eqb Bool.eqb orb]. cbv iota.
    unfold toks_of_sx. cbn [flatten map ltok_of app].
    destruct (all_digits_first _ (dec_string_digits n)) as (c & r & E & Hc & _).
    assert (Hb : ltok_of_atom (dec_string n) = TkValue (dec_string n)).
    { unfold ltok_of_atom. rewrite E. clear -Hc. revert Hc. all_ascii c; vm_compute; intros H; first [reflexivity | discriminate H]. }
    rewrite Hb. cbn [value_token next_no_comment pbind fst snd]. rewrite (parse_uint_dec 64 n Hpre).
    cbn [pbind skip_close next_no_comment fst snd]. reflexivity.
  - (* pop *)
    inversion Hser; subst. rewrite toks_app1. cbn [map concat skip_open next_no_comment pbind].
    change (ltok_of_atom "pop") with (TkValue "pop"). cbn [next_no_comment pbind].
    unfold parse_command_body. cbn [String.eqb Ascii.eqb Bool.eqb orb]. cbv iota.
    unfold toks_of_sx. cbn [flatten map ltok_of app].
    destruct (all_digits_first _ (dec_string_digits n)) as (c & r & E & Hc & _).
    assert (Hb : ltok_of_atom (dec_string n) = TkValue (dec_string n)).
    { unfold ltok_of_atom. rewrite E. clear -Hc. revert Hc. all_ascii c; vm_compute; intros H; first [reflexivity | discriminate H]. }
    rewrite Hb. cbn [value_token next_no_comment pbind fst snd]. rewrite (parse_uint_dec 64 n Hpre).
    cbn [pbind skip_close next_no_comment fst snd]. reflexivity.
  - (* get-value *)
    inversion Hser; subst. rewrite toks_app1. cbn [map concat skip_open next_no_comment pbind].
    change (ltok_of_atom "get-value") with (TkValue "get-value"). cbn [next_no_comment pbind].
    unfold parse_command_body. cbn [String.eqb Ascii.eqb Bool.eqb orb]. cbv iota.
    unfold parse_expr_internal, parse_eot. rewrite app_nil_r, (run_paren_expr top e false [TkClose] Hpre).
    cbn [pbind skip_close next_no_comment fst snd]. reflexivity.
Qed.

(** the writer's commands that the reader does not read back *)
Lemma cmd_not_read_back_witness :
  (exists t, ser_cmd (CCheckSatAssuming [BVSymbol "a" 1; BVSymbol "b" 1]) = Ok t /\
             parse_command_toks [("a", BVSymbol "a" 1); ("b", BVSymbol "b" 1)] (toks_of_sx t) = PErr) /\
  (exists t, ser_cmd (CCheckSatAssuming []) = Ok t /\ parse_command_toks [] (toks_of_sx t) = PErr) /\
  (exists t, ser_cmd CGetUnsatAssumptions = Ok t /\ parse_command_toks [] (toks_of_sx t) = PErr) /\
  (exists t, ser_cmd (CSetInfo "status" "sat") = Ok t /\ parse_command_toks [] (toks_of_sx t) = POk (CSetOption "status" "sat")).
Proof. repeat split; eexists; split; try reflexivity; vm_compute; reflexivity. Qed.

(** a symbol named like a numeral hides the index of the writer's own indexed operators *)
Lemma numeral_symbol_witness :
  let e := BVSlice (BVSymbol "x" 8) 3 0 in
  let top := [("x", BVSymbol "x" 8); ("3", BVSymbol "3" 1)] in
  wt e = true /\ built e = true /\ parse_expr_toks top (toks_of_sx (ser e false)) = PErr.
Proof. vm_compute. repeat split. Qed.
