(** * Proofs/SmtCmdRoundTrip.v — C14: the commands the writer emits are read back by
    [parse_command] (those that are: the others are recorded defects, with witnesses). *)
From Coq Require Import Lia.
From Patronus Require Import SmtParse BVLemmas ExprLemmas EvalProofs SmtCharLemmas SmtSerLemmas SmtSemLemmas SmtSerProofs SmtParseLemmas SmtParseProofs SmtRoundTrip.
Open Scope string_scope.
Open Scope list_scope.
Open Scope N_scope.

Section CV.
Variable cv : variant.
Local Notation is_simple_id := (SmtSer.is_simple_id cv) (only parsing).
Local Notation escape_id := (SmtSer.escape_id cv) (only parsing).
Local Notation ser := (SmtSer.ser cv) (only parsing).
Local Notation ser_cmd := (SmtSer.ser_cmd cv) (only parsing).
Local Notation name_ok := (SmtSer.name_ok cv) (only parsing).
Local Notation declared := (SmtSer.declared cv) (only parsing).
Local Notation symbols_declared := (SmtSer.symbols_declared cv) (only parsing).
Local Notation lx_go := (SmtLex.lx_go cv) (only parsing).
Local Notation lex_impl := (SmtLex.lex_impl cv) (only parsing).
Local Notation early_other := (SmtParse.early_other cv) (only parsing).
Local Notation early_parse := (SmtParse.early_parse cv) (only parsing).
Local Notation step := (SmtParse.step cv) (only parsing).
Local Notation run := (SmtParse.run cv) (only parsing).
Local Notation parse_eot := (SmtParse.parse_eot cv) (only parsing).
Local Notation parse_expr_internal := (SmtParse.parse_expr_internal cv) (only parsing).
Local Notation parse_type := (SmtParse.parse_type cv) (only parsing).
Local Notation parse_expr_toks := (SmtParse.parse_expr_toks cv) (only parsing).
Local Notation parse_expr_str := (SmtParse.parse_expr_str cv) (only parsing).
Local Notation skip_expr := (SmtParse.skip_expr cv) (only parsing).
Local Notation parse_get_value_response_toks := (SmtParse.parse_get_value_response_toks cv) (only parsing).
Local Notation parse_get_value_response_str := (SmtParse.parse_get_value_response_str cv) (only parsing).
Local Notation parse_expr_list_go := (SmtParse.parse_expr_list_go cv) (only parsing).
Local Notation parse_expr_list_rest := (SmtParse.parse_expr_list_rest cv) (only parsing).
Local Notation parse_unsat_assumptions_toks := (SmtParse.parse_unsat_assumptions_toks cv) (only parsing).
Local Notation parse_unsat_assumptions_str := (SmtParse.parse_unsat_assumptions_str cv) (only parsing).
Local Notation parse_command_body := (SmtParse.parse_command_body cv) (only parsing).
Local Notation parse_command_toks := (SmtParse.parse_command_toks cv) (only parsing).
Local Notation parse_command_str := (SmtParse.parse_command_str cv) (only parsing).
Local Notation count_parens := (SmtParse.count_parens cv) (only parsing).
Local Notation rc_balance := (SmtParse.rc_balance cv) (only parsing).
Local Notation read_command := (SmtParse.read_command cv) (only parsing).
Local Notation is_simple_id_loop := (SmtSerLemmas.is_simple_id_loop cv) (only parsing).
Local Notation is_simple_id_chars := (SmtSerLemmas.is_simple_id_chars cv) (only parsing).
Local Notation is_simple_id_first := (SmtSerLemmas.is_simple_id_first cv) (only parsing).
Local Notation escape_sound_gen := (SmtSerLemmas.escape_sound_gen cv) (only parsing).
Local Notation escape_sound_lemma := (SmtSerLemmas.escape_sound_lemma cv) (only parsing).
Local Notation good := (SmtSerProofs.good cv) (only parsing).
Local Notation symbols_declared_app := (SmtSerProofs.symbols_declared_app cv) (only parsing).
Local Notation name_ok_facts := (SmtSerProofs.name_ok_facts cv) (only parsing).
Local Notation symbol_good := (SmtSerProofs.symbol_good cv) (only parsing).
Local Notation ser_core := (SmtSerProofs.ser_core cv) (only parsing).
Local Notation ser_eq := (SmtSerProofs.ser_eq cv) (only parsing).
Local Notation core_good := (SmtSerProofs.core_good cv) (only parsing).
Local Notation wrap_good_e := (SmtSerProofs.wrap_good_e cv) (only parsing).
Local Notation ser_good := (SmtSerProofs.ser_good cv) (only parsing).
Local Notation ser_sorted_sound_lemma := (SmtSerProofs.ser_sorted_sound_lemma cv) (only parsing).
Local Notation name_ok_intro := (SmtSerProofs.name_ok_intro cv) (only parsing).
Local Notation noop_slice_latent := (SmtSerProofs.noop_slice_latent cv) (only parsing).
Local Notation cont := (SmtParseProofs.cont cv) (only parsing).
Local Notation runs_to := (SmtParseProofs.runs_to cv) (only parsing).
Local Notation run_cons := (SmtParseProofs.run_cons cv) (only parsing).
Local Notation cont_nonempty := (SmtParseProofs.cont_nonempty cv) (only parsing).
Local Notation run_items := (SmtParseProofs.run_items cv) (only parsing).
Local Notation run_group := (SmtParseProofs.run_group cv) (only parsing).
Local Notation runs_value := (SmtParseProofs.runs_value cv) (only parsing).
Local Notation runs_escaped := (SmtParseProofs.runs_escaped cv) (only parsing).
Local Notation atom_item := (SmtParseProofs.atom_item cv) (only parsing).
Local Notation sxi := (SmtParseProofs.sxi cv) (only parsing).
Local Notation sxi_list := (SmtParseProofs.sxi_list cv) (only parsing).
Local Notation sxi_list_eq := (SmtParseProofs.sxi_list_eq cv) (only parsing).
Local Notation machine_sx := (SmtParseProofs.machine_sx cv) (only parsing).
Local Notation early_plain := (SmtParseProofs.early_plain cv) (only parsing).
Local Notation early_other_lookup := (SmtParseProofs.early_other_lookup cv) (only parsing).
Local Notation early_other_kw := (SmtParseProofs.early_other_kw cv) (only parsing).
Local Notation simple_plain := (SmtParseProofs.simple_plain cv) (only parsing).
Local Notation table_for := (SmtParseProofs.table_for cv) (only parsing).
Local Notation keys_ok := (SmtParseProofs.keys_ok cv) (only parsing).
Local Notation theory_not_ok := (SmtParseProofs.theory_not_ok cv) (only parsing).
Local Notation atom_head := (SmtParseProofs.atom_head cv) (only parsing).
Local Notation simple_not_kw := (SmtParseProofs.simple_not_kw cv) (only parsing).
Local Notation atom_symbol := (SmtParseProofs.atom_symbol cv) (only parsing).
Local Notation head_item := (SmtRoundTrip.head_item cv) (only parsing).
Local Notation numeral_item := (SmtRoundTrip.numeral_item cv) (only parsing).
Local Notation bitvec_item := (SmtRoundTrip.bitvec_item cv) (only parsing).
Local Notation elem_item := (SmtRoundTrip.elem_item cv) (only parsing).
Local Notation ser_type_arr_item := (SmtRoundTrip.ser_type_arr_item cv) (only parsing).
Local Notation syms_in := (SmtRoundTrip.syms_in cv) (only parsing).
Local Notation lit_item := (SmtRoundTrip.lit_item cv) (only parsing).
Local Notation sxi_wrap := (SmtRoundTrip.sxi_wrap cv) (only parsing).
Local Notation early_bits := (SmtRoundTrip.early_bits cv) (only parsing).
Local Notation early_zeros := (SmtRoundTrip.early_zeros cv) (only parsing).
Local Notation sxi_ser := (SmtRoundTrip.sxi_ser cv) (only parsing).
Local Notation parse_ser_lemma := (SmtRoundTrip.parse_ser_lemma cv) (only parsing).
Local Notation run_state := (SmtRoundTrip.run_state cv) (only parsing).
Local Notation end_of_tokens := (SmtRoundTrip.end_of_tokens cv) (only parsing).
Local Notation run_app_state := (SmtRoundTrip.run_app_state cv) (only parsing).
Local Notation run_nil := (SmtRoundTrip.run_nil cv) (only parsing).
Local Notation truncated_lemma := (SmtRoundTrip.truncated_lemma cv) (only parsing).
Local Notation trailing_token_error_lemma := (SmtRoundTrip.trailing_token_error_lemma cv) (only parsing).


(** ** commands: what the writer emits is read back *)

(** the command the reader returns for the writer's output of [c] *)
Definition rt_cmd (c : smt_cmd) : smt_cmd :=
  match c with
  | CAssert e => CAssert (rt e false)
  | CDefineConst s v => CDefineConst s (rt v false)
  | CGetValue e => CGetValue (rt e false)
  | CCheckSatAssuming es => CCheckSatAssuming (map (fun e => rt e false) es)
  | c => c
  end.

Definition expr_rt_ok (top : symtab) (e : expr) : Prop :=
  wt e = true /\ built e = true /\ idx32 e = true /\ table_for top e.

Definition keys_clean (top : symtab) : Prop :=
  forall n, name_ok n = false \/ (cv = Cur /\ kw_tok n = true) -> assoc_str n top = None.

Definition ty32 (t : ty) : Prop :=
  match t with TBV w => 0 < w /\ w < 2 ^ 32 | TArr i d => 0 < i /\ i < 2 ^ 32 /\ 0 < d /\ d < 2 ^ 32 end.

(** which commands round-trip; the conditions [cv = Fix] and [cv = Cur -> ..] are the recorded defects
    of the current code, which the repaired variant does not have *)
Definition cmd_rt_pre (top : symtab) (c : smt_cmd) : Prop :=
  match c with
  | CAssert e | CGetValue e => expr_rt_ok top e
  | CCheckSatAssuming es => (cv = Cur -> length es = 1%nat) /\ Forall (expr_rt_ok top) es
  | CDeclareConst s =>
      keys_clean top /\ exists n, symbol_name_of s = Some n /\ name_ok n = true /\ s = sym_of n (type_of s) /\ ty32 (type_of s)
  | CDefineConst s v =>
      expr_rt_ok top v /\ type_of v = type_of s /\
      exists n, symbol_name_of s = Some n /\ name_ok n = true /\ s = sym_of n (type_of s) /\ ty32 (type_of s)
  | CPush n | CPop n => n < 2 ^ 64
  | CSetOption k v => symbol_name (escape_id v) = Some v
  | CSetInfo k v => cv <> Cur /\ symbol_name (escape_id v) = Some v
  | CGetUnsatAssumptions => cv <> Cur
  | CExit | CCheckSat | CSetLogic _ => True
  end.

Lemma run_expr top e mb rest : expr_rt_ok top e ->
  run (toks_of_sx (ser e mb) ++ rest) [] (nst_new top) false = POk (EE (rt e mb), nst_new top, rest).
Proof.
  intros (Hwt & Hbu & Hix & Hsy & Hkeys).
  pose proof (sxi_ser (nst_new top) Hkeys e Hwt Hbu Hix Hsy mb) as Hs.
  destruct (machine_sx (nst_new top) _ _ Hs) as [Hr _]. now rewrite (Hr [] rest I).
Qed.

Lemma run_sort top t rest : keys_clean top -> ty32 t ->
  run (toks_of_sx (ser_type t) ++ rest) [] (nst_new top) false = POk (ET t, nst_new top, rest).
Proof.
  intros Hk Ht.
  assert (Hs : sxi (nst_new top) (ser_type t) = POk (IType t)).
  { destruct t as [w | i d]; cbn [ty32] in Ht.
    - cbn [ser_type]. apply (elem_item (nst_new top) Hk w). tauto.
    - apply (ser_type_arr_item (nst_new top) Hk i d); tauto. }
  destruct (machine_sx (nst_new top) _ _ Hs) as [Hr _]. now rewrite (Hr [] rest I).
Qed.

Lemma ty32_pos t : ty32 t -> ty_posb t = true.
Proof.
  destruct t as [w | i d]; cbn [ty32 ty_posb]; intros H.
  - assert (E : (w =? 0) = false) by (apply N.eqb_neq; lia). now rewrite E.
  - assert (E1 : (i =? 0) = false) by (apply N.eqb_neq; lia). assert (E2 : (d =? 0) = false) by (apply N.eqb_neq; lia). now rewrite E1, E2.
Qed.

(** patches/0018 changes nothing for the sorts the writer emits *)
Lemma sort_guard {A} t (x : pres A) : ty32 t ->
  match cv with Fix2 => if ty_posb t then x else PErr | _ => x end = x.
Proof. intros H. rewrite (ty32_pos t H). destruct cv; reflexivity. Qed.

Lemma name_token n : name_ok n = true -> forall rest, value_token (ltok_of_atom (escape_id n) :: rest) = POk (n, rest).
Proof.
  intros Hn rest. destruct (name_ok_facts n Hn) as (Hs & _). unfold SmtSer.escape_id in *.
  destruct (is_simple_id n) eqn:Es.
  - destruct n as [|c r]; [discriminate|]. unfold ltok_of_atom. rewrite (is_simple_id_first _ c r eq_refl Es). reflexivity.
  - change (String.append "|" (String.append n "|")) with (String c_bar (String.append n "|")) in *.
    unfold ltok_of_atom. change (Ascii.eqb c_bar c_bar) with true. cbv iota.
    unfold symbol_name in Hs. change (Ascii.eqb c_bar c_bar) with true in Hs. cbv iota in Hs. rewrite Hs. reflexivity.
Qed.

Lemma mk_symbol_ok n t : ty32 t -> mk_symbol n t = POk (sym_of n t).
Proof.
  destruct t as [w | i d]; cbn [ty32 mk_symbol sym_of]; intros H; [|reflexivity].
  assert (E : (w =? 0) = false) by (apply N.eqb_neq; lia). now rewrite E.
Qed.

Lemma toks_app1 h (args : list sx) :
  toks_of_sx (SxList (SxAtom h :: args)) = TkOpen :: ltok_of_atom h :: concat (map toks_of_sx args) ++ [TkClose].
Proof. rewrite toks_list. cbn [map concat]. unfold toks_of_sx at 1. cbn [flatten map ltok_of app]. reflexivity. Qed.


Lemma run_paren_expr top e mb rest : expr_rt_ok top e ->
  run (toks_of_sx (SxList [ser e mb]) ++ rest) [] (nst_new top) false = POk (EE (rt e mb), nst_new top, rest).
Proof.
  intros (Hwt & Hbu & Hix & Hsy & Hkeys).
  pose proof (sxi_ser (nst_new top) Hkeys e Hwt Hbu Hix Hsy mb) as Hs.
  assert (Hg : sxi (nst_new top) (SxList [ser e mb]) = POk (IExpr (rt e mb))).
  { rewrite sxi_list_eq. cbn [SmtParseProofs.sxi_list]. rewrite Hs. reflexivity. }
  destruct (machine_sx (nst_new top) _ _ Hg) as [Hr _]. now rewrite (Hr [] rest I).
Qed.

Lemma body_gua top toks :
  parse_command_body top "get-unsat-assumptions" toks = match cv with Cur => PErr | Fix | Fix2 => POk (CGetUnsatAssumptions, toks) end.
Proof. reflexivity. Qed.

Lemma cv_cases : cv = Cur \/ cv <> Cur.
Proof. destruct cv; [left; reflexivity | right; discriminate | right; discriminate]. Qed.

Lemma match_cur {A} (a b : A) : cv = Cur -> match cv with Cur => a | Fix | Fix2 => b end = a.
Proof. intros E. rewrite E. reflexivity. Qed.

Lemma match_fix {A} (a b : A) : cv <> Cur -> match cv with Cur => a | Fix | Fix2 => b end = b.
Proof. intros E. destruct cv; [now elim E | reflexivity | reflexivity]. Qed.

Lemma any_token v : symbol_name (escape_id v) = Some v ->
  forall rest, any_string_token (ltok_of_atom (escape_id v) :: rest) = POk (v, rest).
Proof.
  intros Hs rest. unfold SmtSer.escape_id in *. destruct (is_simple_id v) eqn:Es.
  - destruct v as [|c r]; [discriminate|]. unfold ltok_of_atom. rewrite (is_simple_id_first _ c r eq_refl Es). reflexivity.
  - change (String.append "|" (String.append v "|")) with (String c_bar (String.append v "|")) in *.
    unfold ltok_of_atom. change (Ascii.eqb c_bar c_bar) with true. cbv iota.
    unfold symbol_name in Hs. change (Ascii.eqb c_bar c_bar) with true in Hs. cbv iota in Hs. rewrite Hs. reflexivity.
Qed.

(** the list of assumptions (repaired reader): [parse_expr_list] up to the closing parenthesis *)
Definition first_ok (h : ltok) : bool := match h with TkOpen | TkValue _ | TkEscaped _ => true | _ => false end.

Lemma toks_head t : exists h r, toks_of_sx t = h :: r /\ first_ok h = true.
Proof.
  destruct t as [a | l].
  - exists (ltok_of_atom a), []. split; [reflexivity|]. unfold ltok_of_atom. destruct a as [|c r]; [reflexivity|].
    destruct (Ascii.eqb c c_bar); [destruct (quoted_body r)|]; reflexivity.
  - rewrite toks_list. eexists _, _. split; reflexivity.
Qed.

Lemma list_step fuel h r st acc : first_ok h = true ->
  parse_expr_list_rest (S fuel) (h :: r) st acc =
  pbind (parse_expr_internal (h :: r) st) (fun r0 => let '(e, st', rest) := r0 in parse_expr_list_rest fuel rest st' (e :: acc)).
Proof. intros H. destruct h; try discriminate H; reflexivity. Qed.

Lemma run_list top es : Forall (expr_rt_ok top) es -> forall fuel acc rest, (length es < fuel)%nat ->
  parse_expr_list_rest fuel (concat (map toks_of_sx (map (fun e => ser e false) es)) ++ TkClose :: rest) (nst_new top) acc
  = POk (rev acc ++ map (fun e => rt e false) es, rest).
Proof.
  induction 1 as [|e es He Hes IH]; intros fuel acc rest Hf.
  - destruct fuel; [inversion Hf|]. cbn [map concat app SmtParse.parse_expr_list_rest next_no_comment pbind]. now rewrite app_nil_r.
  - destruct fuel as [|fuel]; [inversion Hf|]. cbn [map concat]. rewrite <- app_assoc.
    pose proof (run_expr top e false (concat (map toks_of_sx (map (fun e => ser e false) es)) ++ TkClose :: rest) He) as R.
    destruct (toks_head (ser e false)) as (h & r & Eh & Hh). rewrite Eh in *. cbn [app] in *.
    rewrite (list_step _ _ _ _ _ Hh). unfold SmtParse.parse_expr_internal, SmtParse.parse_eot. rewrite R. cbn [pbind].
    rewrite IH by (cbn [length] in Hf; lia). cbn [rev map]. now rewrite <- app_assoc.
Qed.

Lemma toks_count (l : list sx) : (length l <= length (concat (map toks_of_sx l)))%nat.
Proof.
  induction l as [|t l IH]; [apply le_n|]. cbn [map concat length]. rewrite app_length.
  destruct (toks_head t) as (h & r & -> & _). cbn [length]. lia.
Qed.

Theorem parse_cmd_ser_lemma :
  forall (top : symtab) (c : smt_cmd) (t : sx),
    cmd_rt_pre top c -> ser_cmd c = Ok t -> parse_command_toks top (toks_of_sx t) = POk (rt_cmd c).
Proof.
  intros top c t Hpre Hser. unfold SmtParse.parse_command_toks.
  destruct c as [ | | l | k v | k v | e | s | s v | es | n | n | e | ]; cbn [cmd_rt_pre SmtSer.ser_cmd rt_cmd] in *;
    try contradiction.
  - inversion Hser; subst. reflexivity.
  - inversion Hser; subst. reflexivity.
  - inversion Hser; subst. destruct l; reflexivity.
  - (* set-option *)
    inversion Hser; subst. rewrite toks_app1. cbn [map concat skip_open next_no_comment pbind].
    change (ltok_of_atom "set-option") with (TkValue "set-option"). cbn [next_no_comment pbind].
    unfold SmtParse.parse_command_body.
    change (String.eqb "set-option" "exit") with false. change (String.eqb "set-option" "check-sat") with false.
    change (String.eqb "set-option" "set-logic") with false. change (String.eqb "set-option" "set-option") with true. cbn [orb].
    unfold toks_of_sx. cbn [flatten map ltok_of app].
    change (ltok_of_atom (String ":" k)) with (TkValue (String ":" k)). cbn [value_token next_no_comment pbind snd fst].
    (* the value: a plain or a quoted symbol *)
    unfold SmtSer.escape_id in *. destruct (is_simple_id v) eqn:Es.
    + destruct v as [|c r]; [discriminate|]. unfold ltok_of_atom. rewrite (is_simple_id_first _ c r eq_refl Es).
      cbn [any_string_token next_no_comment pbind fst snd String.append]. change (Ascii.eqb ":" ":") with true. cbv iota.
      cbn [skip_close next_no_comment pbind]. reflexivity.
    + change (String.append "|" (String.append v "|")) with (String c_bar (String.append v "|")) in *.
      unfold ltok_of_atom. change (Ascii.eqb c_bar c_bar) with true. cbv iota.
      unfold symbol_name in Hpre. change (Ascii.eqb c_bar c_bar) with true in Hpre. cbv iota in Hpre. rewrite Hpre.
      cbn [any_string_token next_no_comment pbind fst snd String.append]. change (Ascii.eqb ":" ":") with true. cbv iota.
      cbn [skip_close next_no_comment pbind]. reflexivity.
  - (* set-info: the repaired variant only *)
    destruct Hpre as [Ec Hpre]. rewrite (match_fix _ _ Ec) in Hser.
    inversion Hser; subst t. rewrite toks_app1. cbn [map concat skip_open next_no_comment pbind].
    change (ltok_of_atom "set-info") with (TkValue "set-info"). cbn [next_no_comment pbind].
    unfold SmtParse.parse_command_body.
    change (String.eqb "set-info" "exit") with false. change (String.eqb "set-info" "check-sat") with false.
    change (String.eqb "set-info" "set-logic") with false. change (String.eqb "set-info" "set-option") with false.
    change (String.eqb "set-info" "set-info") with true. cbn [orb].
    unfold toks_of_sx. cbn [flatten map ltok_of app].
    change (ltok_of_atom (String ":" k)) with (TkValue (String ":" k)). cbn [value_token next_no_comment pbind snd fst].
    rewrite (any_token v Hpre). cbn [pbind fst snd String.append]. change (Ascii.eqb ":" ":") with true. cbv iota.
    cbn [skip_close next_no_comment pbind]. reflexivity.
  - (* assert *)
    inversion Hser; subst. rewrite toks_app1. cbn [map concat skip_open next_no_comment pbind].
    change (ltok_of_atom "assert") with (TkValue "assert"). cbn [next_no_comment pbind].
    unfold SmtParse.parse_command_body.
    change (String.eqb "assert" "exit") with false. change (String.eqb "assert" "check-sat") with false.
    change (String.eqb "assert" "set-logic") with false.
    change (String.eqb "assert" "set-option" || String.eqb "assert" "set-info") with false.
    change (String.eqb "assert" "assert") with true. cbv iota.
    unfold SmtParse.parse_expr_internal, SmtParse.parse_eot. rewrite app_nil_r, (run_expr top e false [TkClose] Hpre).
    cbn [pbind skip_close next_no_comment fst snd]. reflexivity.
  - (* declare-const *)
    destruct Hpre as (Hk & n & Hn & Hok & Hs & Hty). rewrite Hn in Hser. inversion Hser; subst t.
    rewrite toks_app1. cbn [map concat skip_open next_no_comment pbind].
    change (ltok_of_atom "declare-const") with (TkValue "declare-const"). cbn [next_no_comment pbind].
    unfold SmtParse.parse_command_body.
    change (String.eqb "declare-const" "exit") with false. change (String.eqb "declare-const" "check-sat") with false.
    change (String.eqb "declare-const" "set-logic") with false.
    change (String.eqb "declare-const" "set-option" || String.eqb "declare-const" "set-info") with false.
    change (String.eqb "declare-const" "assert") with false. change (String.eqb "declare-const" "declare-const") with true. cbv iota.
    rewrite app_nil_r. unfold toks_of_sx at 1. cbn [flatten map ltok_of app].
    rewrite (name_token n Hok). cbn [pbind fst snd].
    unfold SmtParse.parse_type, SmtParse.parse_eot. rewrite (run_sort top _ [TkClose] Hk Hty). cbn [pbind]. rewrite (sort_guard _ _ Hty). cbn [pbind].
    rewrite (mk_symbol_ok n _ Hty). cbn [pbind skip_close next_no_comment fst snd]. now rewrite <- Hs.
  - (* define-fun *)
    destruct Hpre as (Hv & Htv & n & Hn & Hok & Hs & Hty). rewrite Hn in Hser. inversion Hser; subst t.
    rewrite toks_app1. cbn [map concat skip_open next_no_comment pbind].
    change (ltok_of_atom "define-fun") with (TkValue "define-fun"). cbn [next_no_comment pbind].
    unfold SmtParse.parse_command_body.
    change (String.eqb "define-fun" "exit") with false. change (String.eqb "define-fun" "check-sat") with false.
    change (String.eqb "define-fun" "set-logic") with false.
    change (String.eqb "define-fun" "set-option" || String.eqb "define-fun" "set-info") with false.
    change (String.eqb "define-fun" "assert") with false. change (String.eqb "define-fun" "declare-const") with false.
    change (String.eqb "define-fun" "declare-fun") with false. change (String.eqb "define-fun" "define-const") with false.
    change (String.eqb "define-fun" "define-fun") with true. cbv iota.
    rewrite app_nil_r. unfold toks_of_sx at 1 2. cbn [flatten flat_map map ltok_of app].
    rewrite (name_token n Hok). cbn [pbind fst snd skip_open skip_close next_no_comment].
    destruct Hv as (Hwt & Hbu & Hix & Hsy & Hkeys).
    unfold SmtParse.parse_type, SmtParse.parse_eot. rewrite <- app_assoc. rewrite (run_sort top _ _ Hkeys Hty). cbn [pbind]. rewrite (sort_guard _ _ Hty). cbn [pbind].
    unfold SmtParse.parse_expr_internal, SmtParse.parse_eot. rewrite (run_expr top v false [TkClose] (conj Hwt (conj Hbu (conj Hix (conj Hsy Hkeys))))).
    cbn [pbind]. rewrite (rt_type v false Hwt Hbu), Htv, ty_eqb_refl.
    rewrite (mk_symbol_ok n _ Hty). cbn [pbind skip_close next_no_comment fst snd]. now rewrite <- Hs.
  - (* check-sat-assuming: one assumption in the current code, any number in the repaired one *)
    destruct Hpre as [Hlen Hall]. inversion Hser; subst t.
    rewrite toks_app1. cbn [map concat skip_open next_no_comment pbind].
    change (ltok_of_atom "check-sat-assuming") with (TkValue "check-sat-assuming"). cbn [next_no_comment pbind].
    unfold SmtParse.parse_command_body.
    change (String.eqb "check-sat-assuming" "exit") with false. change (String.eqb "check-sat-assuming" "check-sat") with false.
    change (String.eqb "check-sat-assuming" "set-logic") with false.
    change (String.eqb "check-sat-assuming" "set-option" || String.eqb "check-sat-assuming" "set-info") with false.
    change (String.eqb "check-sat-assuming" "assert") with false. change (String.eqb "check-sat-assuming" "declare-const") with false.
    change (String.eqb "check-sat-assuming" "declare-fun") with false. change (String.eqb "check-sat-assuming" "define-const") with false.
    change (String.eqb "check-sat-assuming" "define-fun") with false. change (String.eqb "check-sat-assuming" "check-sat-assuming") with true. cbv iota.
    rewrite app_nil_r.
    destruct cv_cases as [Ec | Ec].
    + rewrite (match_cur _ _ Ec). specialize (Hlen Ec). destruct es as [|e [|e2 es]]; try discriminate Hlen.
      inversion Hall as [|? ? He _]; subst. cbn [map].
      unfold SmtParse.parse_expr_internal, SmtParse.parse_eot. rewrite (run_paren_expr top e false [TkClose] He).
      cbn [pbind skip_close next_no_comment fst snd]. reflexivity.
    + rewrite (match_fix _ _ Ec). rewrite toks_list. cbn [app skip_open next_no_comment pbind]. rewrite <- app_assoc. cbn [app].
      rewrite (run_list top es Hall).
      * cbn [pbind fst snd rev app skip_close next_no_comment]. reflexivity.
      * rewrite app_length. pose proof (toks_count (map (fun e => ser e false) es)) as Hc. rewrite map_length in Hc. lia.
  - (* push *)
    inversion Hser; subst. rewrite toks_app1. cbn [map concat skip_open next_no_comment pbind].
    change (ltok_of_atom "push") with (TkValue "push"). cbn [next_no_comment pbind].
    unfold SmtParse.parse_command_body. cbn [String.eqb Ascii.eqb Bool.eqb orb]. cbv iota.
    unfold toks_of_sx. cbn [flatten map ltok_of app].
    destruct (all_digits_first _ (dec_string_digits n)) as (c & r & E & Hc & _).
    assert (Hb : ltok_of_atom (dec_string n) = TkValue (dec_string n)).
    { unfold ltok_of_atom. rewrite E. clear -Hc. revert Hc. all_ascii c; vm_compute; intros H; first [reflexivity | discriminate H]. }
    rewrite Hb. cbn [value_token next_no_comment pbind fst snd]. rewrite (parse_uint_dec 64 n Hpre).
    cbn [pbind skip_close next_no_comment fst snd]. reflexivity.
  - (* pop *)
    inversion Hser; subst. rewrite toks_app1. cbn [map concat skip_open next_no_comment pbind].
    change (ltok_of_atom "pop") with (TkValue "pop"). cbn [next_no_comment pbind].
    unfold SmtParse.parse_command_body. cbn [String.eqb Ascii.eqb Bool.eqb orb]. cbv iota.
    unfold toks_of_sx. cbn [flatten map ltok_of app].
    destruct (all_digits_first _ (dec_string_digits n)) as (c & r & E & Hc & _).
    assert (Hb : ltok_of_atom (dec_string n) = TkValue (dec_string n)).
    { unfold ltok_of_atom. rewrite E. clear -Hc. revert Hc. all_ascii c; vm_compute; intros H; first [reflexivity | discriminate H]. }
    rewrite Hb. cbn [value_token next_no_comment pbind fst snd]. rewrite (parse_uint_dec 64 n Hpre).
    cbn [pbind skip_close next_no_comment fst snd]. reflexivity.
  - (* get-value *)
    inversion Hser; subst. rewrite toks_app1. cbn [map concat skip_open next_no_comment pbind].
    change (ltok_of_atom "get-value") with (TkValue "get-value"). cbn [next_no_comment pbind].
    unfold SmtParse.parse_command_body. cbn [String.eqb Ascii.eqb Bool.eqb orb]. cbv iota.
    unfold SmtParse.parse_expr_internal, SmtParse.parse_eot. rewrite app_nil_r, (run_paren_expr top e false [TkClose] Hpre).
    cbn [pbind skip_close next_no_comment fst snd]. reflexivity.
  - (* get-unsat-assumptions: the repaired variant only *)
    inversion Hser; subst t. rewrite toks_app1. cbn [map concat skip_open next_no_comment pbind].
    change (ltok_of_atom "get-unsat-assumptions") with (TkValue "get-unsat-assumptions"). cbn [next_no_comment pbind].
    rewrite body_gua, (match_fix _ _ Hpre). reflexivity.
Qed.

End CV.

(** the writer's commands that the current reader does not read back *)
Lemma cmd_not_read_back_witness :
  (exists t, ser_cmd Cur (CCheckSatAssuming [BVSymbol "a" 1; BVSymbol "b" 1]) = Ok t /\
             parse_command_toks Cur [("a", BVSymbol "a" 1); ("b", BVSymbol "b" 1)] (toks_of_sx t) = PErr) /\
  (exists t, ser_cmd Cur (CCheckSatAssuming []) = Ok t /\ parse_command_toks Cur [] (toks_of_sx t) = PErr) /\
  (exists t, ser_cmd Cur CGetUnsatAssumptions = Ok t /\ parse_command_toks Cur [] (toks_of_sx t) = PErr) /\
  (exists t, ser_cmd Cur (CSetInfo "status" "sat") = Ok t /\ parse_command_toks Cur [] (toks_of_sx t) = POk (CSetOption "status" "sat")).
Proof. repeat split; eexists; split; try reflexivity; vm_compute; reflexivity. Qed.

(** ... and the repaired reader does *)
Lemma cmd_read_back_fix_witness :
  (exists t, ser_cmd Fix (CCheckSatAssuming [BVSymbol "a" 1; BVSymbol "b" 1]) = Ok t /\
             parse_command_toks Fix [("a", BVSymbol "a" 1); ("b", BVSymbol "b" 1)] (toks_of_sx t) =
             POk (CCheckSatAssuming [BVSymbol "a" 1; BVSymbol "b" 1])) /\
  (exists t, ser_cmd Fix (CCheckSatAssuming []) = Ok t /\ parse_command_toks Fix [] (toks_of_sx t) = POk (CCheckSatAssuming [])) /\
  (exists t, ser_cmd Fix CGetUnsatAssumptions = Ok t /\ parse_command_toks Fix [] (toks_of_sx t) = POk CGetUnsatAssumptions) /\
  (exists t, ser_cmd Fix (CSetInfo "status" "sat") = Ok t /\ parse_command_toks Fix [] (toks_of_sx t) = POk (CSetInfo "status" "sat")).
Proof. repeat split; eexists; split; try reflexivity; vm_compute; reflexivity. Qed.

(** in the repaired variant every command of the writer is read back: the conditions left are those on
    the expressions and names inside *)
Theorem parse_cmd_ser_fix :
  forall (top : symtab) (c : smt_cmd) (t : sx),
    cmd_rt_pre Fix top c -> ser_cmd Fix c = Ok t -> parse_command_toks Fix top (toks_of_sx t) = POk (rt_cmd c).
Proof. exact (parse_cmd_ser_lemma Fix). Qed.

(** [cmd_rt_pre] for a repaired variant, without the conditions on the variant *)
Definition cmd_rt_pre_fix (v : variant) (top : symtab) (c : smt_cmd) : Prop :=
  match c with
  | CCheckSatAssuming es => Forall (expr_rt_ok v top) es
  | CSetInfo k x => symbol_name (escape_id v x) = Some x
  | CGetUnsatAssumptions => True
  | c => cmd_rt_pre v top c
  end.

Theorem parse_cmd_ser_repaired :
  forall (v : variant) (top : symtab) (c : smt_cmd) (t : sx),
    v <> Cur -> cmd_rt_pre_fix v top c -> ser_cmd v c = Ok t -> parse_command_toks v top (toks_of_sx t) = POk (rt_cmd c).
Proof.
  intros v top c t Hv Hpre. apply parse_cmd_ser_lemma.
  destruct c; cbn [cmd_rt_pre_fix cmd_rt_pre] in *; try exact Hpre; try (split; [exact Hv | exact Hpre]); try exact Hv.
  split; [intros E; now elim Hv | exact Hpre].
Qed.

(** current code: a symbol named like a numeral hides the index of the writer's own indexed operators;
    repaired: numerals are never looked up *)
Lemma numeral_symbol_witness :
  let e := BVSlice (BVSymbol "x" 8) 3 0 in
  let top := [("x", BVSymbol "x" 8); ("3", BVSymbol "3" 1)] in
  wt e = true /\ built e = true /\ parse_expr_toks Cur top (toks_of_sx (ser Cur e false)) = PErr.
Proof. vm_compute. repeat split. Qed.

Lemma numeral_symbol_fix_witness :
  let e := BVSlice (BVSymbol "x" 8) 3 0 in
  let top := [("x", BVSymbol "x" 8); ("3", BVSymbol "3" 1)] in
  parse_expr_toks Fix top (toks_of_sx (ser Fix e false)) = POk e.
Proof. vm_compute. reflexivity. Qed.
