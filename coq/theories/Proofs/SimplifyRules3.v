(** * Proofs/SimplifyRules3.v — and/or/xor (all arms), concat and slice rules. *)
From Coq Require Import Lia.
From Patronus Require Import Simplify BVLemmas ExprLemmas EvalProofs BVRuleLemmas ExprEqb SimplifyBuilders
     SimplifyRules1 SimplifyRules2 SimplifyMask.
Open Scope N_scope.

Lemma lone_typed a b w wl vl le other :
  wt a = true -> wt b = true -> type_of a = TBV w -> type_of b = TBV w ->
  ((a = BVLiteral wl vl /\ le = a /\ other = b /\ (forall w' v', b <> BVLiteral w' v')) \/
   (b = BVLiteral wl vl /\ le = b /\ other = a /\ (forall w' v', a <> BVLiteral w' v'))) ->
  wl = w /\ vl < 2 ^ w /\ le = BVLiteral w vl /\ wt other = true /\ type_of other = TBV w.
Proof.
  intros Wa Wb Ta Tb [(-> & -> & -> & _)|(-> & -> & -> & _)].
  - destruct (lit_typed _ _ _ Wa Ta) as (-> & _ & H). auto.
  - destruct (lit_typed _ _ _ Wb Tb) as (-> & _ & H). auto.
Qed.

(** ** and *)
Lemma simplify_bv_and_sound a b w r :
  wt (BVAnd a b w) = true -> simplify_bv_and a b = Some r -> ok_rw (BVAnd a b w) r.
Proof.
  intros Hwt Hs. pose proof Hwt as Hwt'. apply wt_and in Hwt'. destruct Hwt' as (Wa & Wb & Ta & Tb).
  pose proof (width_pos _ _ Wa Ta) as Hpos.
  assert (Hwa : width a = w) by (unfold width; now rewrite Ta).
  unfold simplify_bv_and in Hs. fold (and_nolit a b) in Hs.
  destruct (expr_eqb a b) eqn:Eab.
  { apply expr_eqb_eq in Eab. subst b. inv_some.
    eapply (ok_rw_of_B _ _ w); [assumption|reflexivity|apply B_of_wt; eassumption|].
    intros rho _. cbn [ebv]. unfold bv_and. now rewrite N.land_diag. }
  pose proof (find_lits_view a b) as V. destruct (find_lits_commutative a b) as [wa va wb vb|wl vl le other|].
  - destruct V as [-> ->]. inv_some. rewrite Hwa.
    destruct (lit_typed _ _ _ Wa Ta) as (E & _ & Hva); subst wa.
    eapply (ok_rw_of_B _ _ w); [assumption|reflexivity|apply B_lit; [assumption|now apply land_bound]|].
    intros rho _. reflexivity.
  - destruct (lone_typed _ _ _ _ _ _ _ Wa Wb Ta Tb V) as (-> & Hvl & -> & Wo & To).
    assert (Hval : forall rho, bv_and (ebv rho a) (ebv rho b) = bv_and (ebv rho other) vl).
    { intros rho. destruct V as [(-> & _ & -> & _)|(-> & _ & -> & _)]; cbn [ebv]; [apply N.land_comm|reflexivity]. }
    destruct (N.eqb_spec vl 0) as [->|Hz].
    { inv_some. eapply (ok_rw_of_B _ _ w); [assumption|reflexivity|apply B_zero; assumption|].
      intros rho _. cbn [ebv]. rewrite Hval. unfold bv_and. now rewrite N.land_0_r. }
    unfold lit_is_all_ones in Hs. destruct (N.eqb_spec vl (N.ones w)) as [->|Hno].
    { inv_some. eapply (ok_rw_of_B _ _ w); [assumption|reflexivity|apply B_of_wt; eassumption|].
      intros rho Hr. cbn [ebv]. rewrite Hval. symmetry. apply and_ones_r. now apply ebv_bound. }
    fold (and_mask_arm w vl other) in Hs.
    pose proof (and_mask_arm_sound w vl other r Wo To Hvl Hs) as HB.
    eapply (ok_rw_of_B _ _ w); [assumption|reflexivity|exact HB|].
    intros rho _. cbn [ebv]. now rewrite Hval.
  - destruct V as [Na Nb]. now apply (and_nolit_sound a b w Wa Wb Ta Tb).
Qed.

(** ** or *)
Lemma simplify_bv_or_sound a b w r :
  wt (BVOr a b w) = true -> simplify_bv_or a b = Some r -> ok_rw (BVOr a b w) r.
Proof.
  intros Hwt Hs. pose proof Hwt as Hwt'. apply wt_or in Hwt'. destruct Hwt' as (Wa & Wb & Ta & Tb).
  pose proof (width_pos _ _ Wa Ta) as Hpos.
  assert (Hwa : width a = w) by (unfold width; now rewrite Ta).
  unfold simplify_bv_or in Hs. fold (or_nolit a b) in Hs.
  destruct (expr_eqb a b) eqn:Eab.
  { apply expr_eqb_eq in Eab. subst b. inv_some.
    eapply (ok_rw_of_B _ _ w); [assumption|reflexivity|apply B_of_wt; eassumption|].
    intros rho _. cbn [ebv]. unfold bv_or. now rewrite N.lor_diag. }
  pose proof (find_lits_view a b) as V. destruct (find_lits_commutative a b) as [wa va wb vb|wl vl le other|].
  - destruct V as [-> ->]. inv_some. rewrite Hwa.
    destruct (lit_typed _ _ _ Wa Ta) as (E & _ & Hva); subst wa.
    destruct (lit_typed _ _ _ Wb Tb) as (E & _ & Hvb); subst wb.
    eapply (ok_rw_of_B _ _ w); [assumption|reflexivity|apply B_lit; [assumption|now apply lor_bound]|].
    intros rho _. reflexivity.
  - destruct (lone_typed _ _ _ _ _ _ _ Wa Wb Ta Tb V) as (-> & Hvl & -> & Wo & To).
    assert (Hval : forall rho, bv_or (ebv rho a) (ebv rho b) = bv_or (ebv rho other) vl).
    { intros rho. destruct V as [(-> & _ & -> & _)|(-> & _ & -> & _)]; cbn [ebv]; [apply N.lor_comm|reflexivity]. }
    destruct (N.eqb_spec vl 0) as [->|Hz].
    { inv_some. eapply (ok_rw_of_B _ _ w); [assumption|reflexivity|apply B_of_wt; eassumption|].
      intros rho _. cbn [ebv]. rewrite Hval. unfold bv_or. now rewrite N.lor_0_r. }
    unfold lit_is_all_ones in Hs. destruct (N.eqb_spec vl (N.ones w)) as [->|Hno]; [|discriminate].
    inv_some. eapply (ok_rw_of_B _ _ w); [assumption|reflexivity|apply B_ones; assumption|].
    intros rho Hr. cbn [ebv]. rewrite Hval. symmetry. apply or_ones_r. now apply ebv_bound.
  - destruct V as [Na Nb]. now apply (or_nolit_sound a b w Wa Wb Ta Tb).
Qed.

(** ** xor *)
Lemma simplify_bv_xor_sound a b w r :
  wt (BVXor a b w) = true -> simplify_bv_xor a b = Some r -> ok_rw (BVXor a b w) r.
Proof.
  intros Hwt Hs. pose proof Hwt as Hwt'. apply wt_xor in Hwt'. destruct Hwt' as (Wa & Wb & Ta & Tb).
  pose proof (width_pos _ _ Wa Ta) as Hpos.
  assert (Hwa : width a = w) by (unfold width; now rewrite Ta).
  unfold simplify_bv_xor in Hs. fold (xor_nolit a b) in Hs.
  destruct (expr_eqb a b) eqn:Eab.
  { apply expr_eqb_eq in Eab. subst b. inv_some. rewrite Hwa.
    eapply (ok_rw_of_B _ _ w); [assumption|reflexivity|apply B_zero; assumption|].
    intros rho _. cbn [ebv]. unfold bv_xor. now rewrite N.lxor_nilpotent. }
  pose proof (find_lits_view a b) as V. destruct (find_lits_commutative a b) as [wa va wb vb|wl vl le other|].
  - destruct V as [-> ->]. inv_some. rewrite Hwa.
    destruct (lit_typed _ _ _ Wa Ta) as (E & _ & Hva); subst wa.
    destruct (lit_typed _ _ _ Wb Tb) as (E & _ & Hvb); subst wb.
    eapply (ok_rw_of_B _ _ w); [assumption|reflexivity|apply B_lit; [assumption|now apply lxor_bound]|].
    intros rho _. reflexivity.
  - destruct (lone_typed _ _ _ _ _ _ _ Wa Wb Ta Tb V) as (-> & Hvl & -> & Wo & To).
    assert (Hval : forall rho, bv_xor (ebv rho a) (ebv rho b) = bv_xor (ebv rho other) vl).
    { intros rho. destruct V as [(-> & _ & -> & _)|(-> & _ & -> & _)]; cbn [ebv]; [apply N.lxor_comm|reflexivity]. }
    destruct (N.eqb_spec vl 0) as [->|Hz].
    { inv_some. eapply (ok_rw_of_B _ _ w); [assumption|reflexivity|apply B_of_wt; eassumption|].
      intros rho _. cbn [ebv]. rewrite Hval. unfold bv_xor. now rewrite N.lxor_0_r. }
    unfold lit_is_all_ones in Hs. destruct (N.eqb_spec vl (N.ones w)) as [->|Hno]; [|discriminate].
    inv_some. eapply (ok_rw_of_B _ _ w); [assumption|reflexivity|apply B_mk_not; apply B_of_wt; eassumption|].
    intros rho Hr. cbn [ebv]. rewrite Hval. symmetry. apply xor_ones_r.
  - destruct V as [Na Nb]. now apply (xor_nolit_sound a b w Wa Wb Ta Tb).
Qed.

(** ** concat *)
Lemma slice_dec e : {x : expr * N * N | e = BVSlice (fst (fst x)) (snd (fst x)) (snd x)} +
                    {forall i h l, e <> BVSlice i h l}.
Proof. destruct e; try (right; intros; discriminate). left. exists (e, hi, lo). reflexivity. Qed.

Lemma simplify_bv_concat_sound a b w r :
  wt (BVConcat a b w) = true -> simplify_bv_concat a b = Some r -> ok_rw (BVConcat a b w) r.
Proof.
  intros Hwt Hs. pose proof Hwt as Hwt'. apply wt_concat in Hwt'.
  destruct Hwt' as (Wa & Wb & wa & wb & Ta & Tb & ->).
  pose proof (width_pos _ _ Wa Ta) as Hpa. pose proof (width_pos _ _ Wb Tb) as Hpb.
  assert (Hwb : width b = wb) by (unfold width; now rewrite Tb).
  unfold simplify_bv_concat in Hs.
  destruct (concat_dec a) as [[[[aa ab] aw] ->]|Nca]; cbn [fst snd] in *.
  { (* (aa # ab) # b -> aa # (ab # b) *)
    inv_some. pose proof Wa as Wa'. apply wt_concat in Wa'.
    destruct Wa' as (Waa & Wab & waa & wab & Taa & Tab & ->). cbn in Ta. inversion Ta; subst wa.
    eapply (ok_rw_of_B' _ _ (waa + wab + wb)); [assumption|reflexivity| | |].
    - apply B_mk_concat; [apply B_of_wt; eassumption|]. apply B_mk_concat; apply B_of_wt; eassumption.
    - lia.
    - intros rho _. cbn [ebv]. unfold width. rewrite Tab, Tb. symmetry. apply concat_assoc. }
  destruct (lit_dec a) as [[[wla va] ->]|Nla]; cbn [fst snd] in *.
  { destruct (lit_typed _ _ _ Wa Ta) as (E & _ & Hva); subst wla.
    destruct (lit_dec b) as [[[wlb vb] ->]|Nlb]; cbn [fst snd] in *.
    { destruct (lit_typed _ _ _ Wb Tb) as (E & _ & Hvb); subst wlb. inv_some.
      eapply (ok_rw_of_B _ _ (wa + wb)); [assumption|reflexivity|apply B_lit; [lia|now apply bv_concat_bound]|].
      intros rho _. cbn [ebv width type_of]. reflexivity. }
    destruct (concat_dec b) as [[[[ba bb] bw] ->]|Ncb]; cbn [fst snd] in *.
    2: { exfalso. destruct b; try discriminate Hs; [eapply Nlb|eapply Ncb]; reflexivity. }
    pose proof Wb as Wb'. apply wt_concat in Wb'.
    destruct Wb' as (Wba & Wbb & wba & wbb & Tba & Tbb & ->). cbn in Tb. inversion Tb; subst wb.
    destruct (lit_dec ba) as [[[wlba vba] ->]|Nlba]; cbn [fst snd] in *.
    2: { exfalso. not_lit ba Nlba; discriminate Hs. }
    destruct (lit_typed _ _ _ Wba Tba) as (E & _ & Hvba); subst wlba. inv_some.
    eapply (ok_rw_of_B' _ _ (wa + (wba + wbb))); [assumption|reflexivity| | |].
    - apply B_mk_concat; [apply B_lit; [lia|now apply bv_concat_bound]|apply B_of_wt; eassumption].
    - lia.
    - intros rho _. cbn [ebv]. unfold width. cbn [type_of]. rewrite Tbb. apply concat_assoc. }
  destruct (slice_dec a) as [[[[ea hi_a] lo_a] ->]|Nsa]; cbn [fst snd] in *.
  2: { exfalso. destruct a; try discriminate Hs; [eapply Nla|eapply Nsa|eapply Nca]; reflexivity. }
  destruct (slice_dec b) as [[[[eb hi_b] lo_b] ->]|Nsb]; cbn [fst snd] in *.
  2: { exfalso. destruct b; try discriminate Hs. eapply Nsb; reflexivity. }
  destruct (expr_eqb ea eb) eqn:Eab; cbn [andb] in Hs; [|discriminate].
  destruct (N.eqb_spec lo_a (hi_b + 1)) as [->|Hne]; [|discriminate].
  apply expr_eqb_eq in Eab. subst eb. inv_some.
  pose proof Wa as Wa'. apply wt_slice in Wa'. destruct Wa' as (Wea & we & Tea & Hhia & Hloa).
  pose proof Wb as Wb'. apply wt_slice in Wb'. destruct Wb' as (_ & we' & Tea' & Hhib & Hlob).
  assert (we' = we) by congruence; subst we'. clear Tea'.
  cbn in Ta, Tb. inversion Ta; subst wa. inversion Tb; subst wb.
  eapply (ok_rw_of_B' _ _ (hi_a - (hi_b + 1) + 1 + (hi_b - lo_b + 1))); [assumption|reflexivity| | |].
  - eapply B_mk_slice; [apply B_of_wt; eassumption|lia|lia].
  - lia.
  - intros rho _. cbn [ebv]. unfold width. cbn [type_of]. symmetry. apply concat_adjacent_slices; lia.
Qed.

(** ** slice *)
Lemma simplify_bv_slice_sound e hi lo r :
  wt (BVSlice e hi lo) = true -> simplify_bv_slice e hi lo = Some r -> ok_rw (BVSlice e hi lo) r.
Proof.
  intros Hwt Hs. pose proof Hwt as Hwt'. apply wt_slice in Hwt'. destruct Hwt' as (We & we & Te & Hhi & Hlo).
  assert (Tr : type_of (BVSlice e hi lo) = TBV (hi - lo + 1)) by reflexivity.
  destruct e; cbn [simplify_bv_slice] in Hs; try discriminate.
  - (* literal *)
    inv_some. destruct (lit_typed _ _ _ We Te) as (E & _ & Hv); subst w.
    eapply (ok_rw_of_B _ _ (hi - lo + 1)); [assumption|reflexivity|apply B_lit; [lia|apply bv_slice_bound]|].
    intros rho _. reflexivity.
  - (* sign extension *)
    pose proof We as We'. apply wt_sext in We'. destruct We' as (Wi & Ti & Hby).
    cbn in Te. inversion Te; subst we.
    pose proof (width_pos _ _ Wi Ti) as Hpi.
    assert (Hwi : width e = w - by_) by (unfold width; now rewrite Ti). rewrite !Hwi in Hs.
    destruct (N.leb_spec (w - by_) lo) as [Hhigh|Hnot].
    + inv_some. eapply (ok_rw_of_B' _ _ (hi - lo + 1)); [assumption|reflexivity| | |].
      * apply B_mk_sext. eapply B_mk_slice; [apply B_of_wt; eassumption|lia|lia].
      * lia.
      * intros rho Hr. cbn [ebv]. rewrite Hwi. symmetry.
        replace (w - by_ - 1 - (w - by_ - 1) + 1) with 1 by lia.
        apply slice_sext_high; [assumption|now apply ebv_bound|lia|lia|lia].
    + destruct (N.ltb_spec hi (w - by_)) as [Hlow|Hboth]; inv_some.
      * eapply (ok_rw_of_B _ _ (hi - lo + 1)); [assumption|reflexivity| |].
        -- eapply B_mk_slice; [apply B_of_wt; eassumption|lia|lia].
        -- intros rho _. cbn [ebv]. rewrite Hwi. symmetry. apply slice_sext_low; lia.
      * eapply (ok_rw_of_B' _ _ (hi - lo + 1)); [assumption|reflexivity| | |].
        -- apply B_mk_sext. eapply B_mk_slice; [apply B_of_wt; eassumption|lia|lia].
        -- lia.
        -- intros rho Hr. cbn [ebv]. rewrite Hwi. symmetry.
           apply slice_sext_both; [assumption|now apply ebv_bound|lia|lia|lia].
  - (* slice of slice *)
    inv_some. pose proof We as We'. apply wt_slice in We'. destruct We' as (Wi & wi & Ti & Hhi' & Hlo').
    cbn in Te. inversion Te; subst we.
    eapply (ok_rw_of_B' _ _ (hi - lo + 1)); [assumption|reflexivity| | |].
    + eapply B_mk_slice; [apply B_of_wt; eassumption|lia|lia].
    + lia.
    + intros rho _. cbn [ebv]. symmetry. apply slice_slice; lia.
  - (* not *)
    inv_some. pose proof We as We'. apply wt_not in We'. destruct We' as (Wi & Ti).
    cbn in Te. inversion Te; subst we.
    eapply (ok_rw_of_B _ _ (hi - lo + 1)); [assumption|reflexivity| |].
    + apply B_mk_not. eapply B_mk_slice; [apply B_of_wt; eassumption|lia|lia].
    + intros rho Hr. cbn [ebv]. symmetry. apply slice_not; [now apply ebv_bound|lia|lia].
  - (* negate *)
    destruct (N.eqb_spec lo 0) as [->|Hl0]; [|discriminate]. inv_some.
    pose proof We as We'. apply wt_neg in We'. destruct We' as (Wi & Ti).
    cbn in Te. inversion Te; subst we.
    eapply (ok_rw_of_B _ _ (hi - 0 + 1)); [assumption|reflexivity| |].
    + apply B_mk_negate. eapply B_mk_slice; [apply B_of_wt; eassumption|lia|lia].
    + intros rho Hr. cbn [ebv]. symmetry. apply slice_neg. lia.
  - (* concat *)
    pose proof We as We'. apply wt_concat in We'.
    destruct We' as (Wa & Wb & wa & wb & Ta & Tb & ->). cbn in Te. inversion Te; subst we.
    pose proof (width_pos _ _ Wa Ta) as Hpa. pose proof (width_pos _ _ Wb Tb) as Hpb.
    assert (Hwb : width e2 = wb) by (unfold width; now rewrite Tb). rewrite !Hwb in Hs.
    destruct (N.ltb_spec hi wb) as [Hlow|Hnl].
    + inv_some. eapply (ok_rw_of_B _ _ (hi - lo + 1)); [assumption|reflexivity| |].
      * eapply B_mk_slice; [apply B_of_wt; eassumption|lia|lia].
      * intros rho Hr. cbn [ebv]. rewrite Hwb. symmetry. apply slice_concat_low; [lia|lia|now apply ebv_bound].
    + destruct (N.leb_spec wb lo) as [Hhigh|Hboth]; inv_some.
      * eapply (ok_rw_of_B' _ _ (hi - lo + 1)); [assumption|reflexivity| | |].
        -- eapply B_mk_slice; [apply B_of_wt; eassumption|lia|lia].
        -- lia.
        -- intros rho Hr. cbn [ebv]. rewrite Hwb. symmetry. apply slice_concat_high; [lia|lia|now apply ebv_bound].
      * eapply (ok_rw_of_B' _ _ (hi - lo + 1)); [assumption|reflexivity| | |].
        -- apply B_mk_concat; eapply B_mk_slice; try (apply B_of_wt; eassumption); lia.
        -- lia.
        -- intros rho Hr. cbn [ebv]. rewrite Hwb. symmetry. apply slice_concat_both; [lia|lia|now apply ebv_bound].
  - (* and *)
    inv_some. pose proof We as We'. apply wt_and in We'. destruct We' as (Wa & Wb & Ta & Tb).
    cbn in Te. inversion Te; subst we.
    eapply (ok_rw_of_B _ _ (hi - lo + 1)); [assumption|reflexivity| |].
    + apply B_mk_and; eapply B_mk_slice; try (apply B_of_wt; eassumption); lia.
    + intros rho _. cbn [ebv]. symmetry. apply slice_and.
  - (* or *)
    inv_some. pose proof We as We'. apply wt_or in We'. destruct We' as (Wa & Wb & Ta & Tb).
    cbn in Te. inversion Te; subst we.
    eapply (ok_rw_of_B _ _ (hi - lo + 1)); [assumption|reflexivity| |].
    + apply B_mk_or; eapply B_mk_slice; try (apply B_of_wt; eassumption); lia.
    + intros rho _. cbn [ebv]. symmetry. apply slice_or.
  - (* xor *)
    inv_some. pose proof We as We'. apply wt_xor in We'. destruct We' as (Wa & Wb & Ta & Tb).
    cbn in Te. inversion Te; subst we.
    eapply (ok_rw_of_B _ _ (hi - lo + 1)); [assumption|reflexivity| |].
    + apply B_mk_xor; eapply B_mk_slice; try (apply B_of_wt; eassumption); lia.
    + intros rho _. cbn [ebv]. symmetry. apply slice_xor.
  - (* add *)
    destruct (N.eqb_spec lo 0) as [->|Hl0]; [|discriminate]. inv_some.
    pose proof We as We'. apply wt_add in We'. destruct We' as (Wa & Wb & Ta & Tb).
    cbn in Te. inversion Te; subst we.
    eapply (ok_rw_of_B _ _ (hi - 0 + 1)); [assumption|reflexivity| |].
    + apply B_mk_add; eapply B_mk_slice; try (apply B_of_wt; eassumption); lia.
    + intros rho _. cbn [ebv]. symmetry. apply slice_add. lia.
  - (* mul *)
    destruct (N.eqb_spec lo 0) as [->|Hl0]; [|discriminate]. inv_some.
    pose proof We as We'. apply wt_mul in We'. destruct We' as (Wa & Wb & Ta & Tb).
    cbn in Te. inversion Te; subst we.
    eapply (ok_rw_of_B _ _ (hi - 0 + 1)); [assumption|reflexivity| |].
    + apply B_mk_mul; eapply B_mk_slice; try (apply B_of_wt; eassumption); lia.
    + intros rho _. cbn [ebv]. symmetry. apply slice_mul. lia.
  - (* sub *)
    destruct (N.eqb_spec lo 0) as [->|Hl0]; [|discriminate]. inv_some.
    pose proof We as We'. apply wt_sub in We'. destruct We' as (Wa & Wb & Ta & Tb).
    cbn in Te. inversion Te; subst we.
    eapply (ok_rw_of_B _ _ (hi - 0 + 1)); [assumption|reflexivity| |].
    + apply B_mk_sub; eapply B_mk_slice; try (apply B_of_wt; eassumption); lia.
    + intros rho _. cbn [ebv]. symmetry. apply slice_sub. lia.
  - (* ite *)
    inv_some. pose proof We as We'. apply wt_ite in We'.
    destruct We' as (Wc & Wt & Wf & Tc & w' & Tt & Tf). cbn [type_of] in Te. rewrite Tf in Te. inversion Te; subst w'.
    eapply (ok_rw_of_B _ _ (hi - lo + 1)); [assumption|reflexivity| |].
    + apply B_mk_ite; [apply B_of_wt; eassumption| |]; eapply B_mk_slice; try (apply B_of_wt; eassumption); lia.
    + intros rho _. cbn [ebv]. now destruct (ebv rho e1 =? 1).
Qed.
