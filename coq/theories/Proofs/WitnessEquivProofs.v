(** * Proofs/WitnessEquivProofs.v — the witness that is read back ([wit_canon w]) carries the
    same information as the original: same failed properties, input values, display names,
    bit-vector values, recorded index sets and array contents at the recorded indices.
    Also: the meaning of the boolean oracle [wit_equiv_b] used by the tie. *)
From Coq Require Import Decimal DecimalN.
From Coq Require Import NArith Ascii String Bool List Lia PeanoNat.
From Patronus Require Import WitnessIO WitnessTextLemmas WitnessIOProofs.
Import ListNotations.
Open Scope N_scope.

(* ------------------------------------------------------------------------- the relation *)
Definition array_same (a : array_value) (indices : list bits) (a' : array_value) (indices' : list bits) : Prop :=
  av_iw a' = av_iw a /\ av_dw a' = av_dw a /\
  (forall i, In i indices <-> In i indices') /\
  (forall i, In i indices -> av_select a' i = av_select a i).

Definition init_equiv (v : init_value) (name : option str) (id : nat) (v' : init_value) (name' : option str) : Prop :=
  match v with
  | IVBitVec b => v' = IVBitVec b /\ name' = Some (display_name (lit "state_") name id)
  | IVArray a [] => v' = IVNone
  | IVArray a indices =>
      exists a' indices', v' = IVArray a' indices' /\ array_same a indices a' indices' /\
                          name' = Some (display_name (lit "state_") name id)
  | IVNone => v' = IVNone
  end.

Definition wit_equiv (w w' : btor_witness) : Prop :=
  w_failed w' = w_failed w /\
  w_inputs w' = w_inputs w /\
  (w_inputs w <> [] -> w_input_names w' = canon_names (w_input_names w) 0) /\
  (forall id, (id < length (w_init w))%nat ->
     init_equiv (nth id (w_init w) IVNone) (nth id (w_init_names w) None) id
                (nth id (w_init w') IVNone) (nth id (w_init_names w') None)) /\
  (length (w_init w') <= length (w_init w))%nat /\
  length (w_init_names w') = length (w_init w').

(* ------------------------------------------------------------------------- boolean helpers *)
Lemma list_eqb_refl : forall (A : Type) (eqb : A -> A -> bool) (l : list A),
  (forall x, In x l -> eqb x x = true) -> list_eqb eqb l l = true.
Proof.
  intros A eqb l. induction l as [|x l IH]; intros H; [reflexivity|].
  cbn [list_eqb]. rewrite (H x (or_introl eq_refl)). apply IH. intros y Hy. apply H. right. exact Hy.
Qed.

Lemma list_eqb_eq : forall (A : Type) (eqb : A -> A -> bool) (a b : list A),
  (forall x y, eqb x y = true -> x = y) -> list_eqb eqb a b = true -> a = b.
Proof.
  intros A eqb a. induction a as [|x a IH]; intros [|y b] Heq H; cbn [list_eqb] in H; try discriminate; [reflexivity|].
  apply andb_true_iff in H. destruct H as [H1 H2]. f_equal; [apply Heq; exact H1|apply IH; assumption].
Qed.

Lemma opt_str_eqb_refl : forall x, opt_str_eqb x x = true.
Proof. intros [s|]; cbn [opt_str_eqb]; [apply str_eqb_refl|reflexivity]. Qed.

Lemma opt_str_eqb_eq : forall x y, opt_str_eqb x y = true -> x = y.
Proof.
  intros [s|] [t|] H; cbn [opt_str_eqb] in H; try discriminate; [|reflexivity].
  f_equal. apply str_eqb_eq. exact H.
Qed.

Lemma value_eqb_eq : forall x y, value_eqb x y = true -> x = y.
Proof.
  intros [[a|a]|] [[b|b]|] H; cbn [value_eqb] in H; try discriminate; [|reflexivity].
  f_equal. f_equal. apply bits_eqb_eq. exact H.
Qed.

Lemma mem_bits_in : forall i l, mem_bits i l = true <-> In i l.
Proof.
  intros i l. unfold mem_bits. rewrite existsb_exists. split.
  - intros [x [Hx He]]. apply bits_eqb_eq in He. subst x. exact Hx.
  - intros H. exists i. split; [exact H|apply bits_eqb_refl].
Qed.

(* ------------------------------------------------------------------------- the canonical array *)
Lemma ins_dedup_in : forall x y l, In x (ins_dedup y l) <-> x = y \/ In x l.
Proof.
  intros x y l. induction l as [|z l IH]; cbn [ins_dedup].
  - split; [intros [H|[]]; left; symmetry; exact H|intros [H|[]]; left; symmetry; exact H].
  - destruct (bits_eqb y z) eqn:E.
    + apply bits_eqb_eq in E. subst z. split.
      * intros H. right. exact H.
      * intros [H|H]; [left; symmetry; exact H|exact H].
    + destruct (bits_val y <? bits_val z).
      * split; [intros [H|H]; [left; symmetry; exact H|right; exact H]
               |intros [H|H]; [left; symmetry; exact H|right; exact H]].
      * split.
        -- intros [H|H]; [right; left; exact H|]. apply IH in H. destruct H as [H|H]; [left; exact H|right; right; exact H].
        -- intros [H|[H|H]]; [right; apply IH; left; exact H|left; exact H|right; apply IH; right; exact H].
Qed.

Lemma fold_ins_dedup_in : forall x rest acc,
  In x (fold_left (fun acc i => ins_dedup i acc) rest acc) <-> In x rest \/ In x acc.
Proof.
  intros x rest. induction rest as [|i rest IH]; intros acc; cbn [fold_left].
  - split; [intros H; right; exact H|intros [[]|H]; exact H].
  - rewrite IH. rewrite ins_dedup_in. cbn [In]. split.
    + intros [H|[H|H]]; [left; right; exact H|left; left; symmetry; exact H|right; exact H].
    + intros [[H|H]|H]; [right; left; symmetry; exact H|left; exact H|right; right; exact H].
Qed.

Lemma fold_store_iw : forall (a : array_value) rest acc,
  av_iw (fold_left (fun acc i => av_store acc i (av_select a i)) rest acc) = av_iw acc /\
  av_default (fold_left (fun acc i => av_store acc i (av_select a i)) rest acc) = av_default acc.
Proof.
  intros a rest. induction rest as [|i rest IH]; intros acc; cbn [fold_left]; [split; reflexivity|].
  destruct (IH (av_store acc i (av_select a i))) as [H1 H2]. rewrite H1, H2. split; reflexivity.
Qed.

(** every entry of the accumulated array is (j, a[j]) *)
Definition entries_of (a : array_value) (l : list (bits * bits)) : Prop :=
  forall j d, In (j, d) l -> d = av_select a j.

Lemma fold_store_entries : forall (a : array_value) rest acc,
  entries_of a (av_entries acc) ->
  entries_of a (av_entries (fold_left (fun acc i => av_store acc i (av_select a i)) rest acc)) /\
  (forall i, In i rest \/ (exists d, In (i, d) (av_entries acc)) ->
             exists d, In (i, d) (av_entries (fold_left (fun acc i => av_store acc i (av_select a i)) rest acc))).
Proof.
  intros a rest. induction rest as [|i rest IH]; intros acc Hacc; cbn [fold_left].
  - split; [exact Hacc|]. intros j [[]|H]. exact H.
  - assert (Hacc' : entries_of a (av_entries (av_store acc i (av_select a i)))).
    { intros j d Hin. cbn [av_store av_entries] in Hin. destruct Hin as [Hin|Hin].
      - inversion Hin. subst. reflexivity.
      - apply Hacc. exact Hin. }
    destruct (IH _ Hacc') as [H1 H2]. split; [exact H1|].
    intros j [[Hj|Hj]|[d Hd]].
    + subst j. apply H2. right. exists (av_select a i). cbn [av_store av_entries]. left. reflexivity.
    + apply H2. left. exact Hj.
    + apply H2. right. exists d. cbn [av_store av_entries]. right. exact Hd.
Qed.

Lemma assoc_bits_some : forall i l, (exists d, In (i, d) l) -> exists d, assoc_bits i l = Some d.
Proof.
  intros i l. induction l as [|[k e] l IH]; intros [d Hd]; [destruct Hd|].
  cbn [assoc_bits]. destruct (bits_eqb i k) eqn:E; [exists e; reflexivity|].
  destruct Hd as [Hd|Hd].
  - inversion Hd. subst. rewrite bits_eqb_refl in E. discriminate.
  - apply IH. exists d. exact Hd.
Qed.

Lemma select_entries_of : forall (a acc : array_value) i,
  entries_of a (av_entries acc) -> (exists d, In (i, d) (av_entries acc)) ->
  av_select acc i = av_select a i.
Proof.
  intros a acc i Hent Hex. unfold av_select at 1.
  destruct (assoc_bits_some i _ Hex) as [d Hd]. rewrite Hd.
  apply assoc_bits_in in Hd. apply Hent. exact Hd.
Qed.

Lemma canon_array_same : forall a indices,
  array_ok a = true -> all_width (av_iw a) indices = true -> indices <> [] ->
  exists a' indices', canon_array a indices = IVArray a' indices' /\ array_same a indices a' indices'.
Proof.
  intros a indices Hok Hw Hne. unfold canon_array.
  destruct (sort_indices indices) as [|i0 rest] eqn:Es.
  - exfalso. destruct indices as [|x l]; [contradiction|].
    pose proof (in_sort_indices x (x :: l) (or_introl eq_refl)) as Hin. rewrite Es in Hin. destruct Hin.
  - eexists. eexists. split; [reflexivity|].
    set (fresh := av_store (av_new (length i0) (repeat false (length (av_select a i0)))) i0 (av_select a i0)).
    assert (Hi0 : In i0 indices) by (apply sort_indices_in; rewrite Es; left; reflexivity).
    destruct (fold_store_iw a rest fresh) as [Hiw Hdef].
    assert (Hfresh : entries_of a (av_entries fresh)).
    { intros j d Hin. cbn in Hin. destruct Hin as [Hin|[]]. inversion Hin. subst. reflexivity. }
    destruct (fold_store_entries a rest fresh Hfresh) as [Hent Hkeys].
    split; [|split; [|split]].
    + rewrite Hiw. cbn. apply (all_width_in _ _ _ Hw Hi0).
    + unfold av_dw. rewrite Hdef. cbn. rewrite repeat_length. apply array_ok_select_length. exact Hok.
    + intros i. rewrite fold_ins_dedup_in. cbn [In]. split.
      * intros Hi. apply in_sort_indices in Hi. rewrite Es in Hi. destruct Hi as [Hi|Hi]; [right; left; exact Hi|left; exact Hi].
      * intros [Hi|[Hi|[]]]; apply sort_indices_in; rewrite Es; [right; exact Hi|left; exact Hi].
    + intros i Hi. apply select_entries_of; [exact Hent|].
      apply Hkeys. apply in_sort_indices in Hi. rewrite Es in Hi. destruct Hi as [Hi|Hi].
      * right. exists (av_select a i0). subst i. cbn. left. reflexivity.
      * left. exact Hi.
Qed.

(* ------------------------------------------------------------------------- canon_inits *)
Lemma canon_inits_get_below : forall vals names id acc j,
  (j < id)%nat ->
  get_at IVNone (fst (canon_inits vals names id acc)) j = get_at IVNone (fst acc) j /\
  get_at None (snd (canon_inits vals names id acc)) j = get_at None (snd acc) j.
Proof.
  induction vals as [|v vals IH]; intros names id acc j Hj.
  - destruct names; split; reflexivity.
  - destruct names as [|n names]; [split; reflexivity|].
    cbn [canon_inits].
    destruct (IH names (S id)
                 (match canon_value v with
                  | IVNone => acc
                  | cv => (set_at IVNone (fst acc) id cv, set_at None (snd acc) id (Some (display_name (lit "state_") n id)))
                  end) j ltac:(lia)) as [H1 H2].
    rewrite H1, H2.
    destruct (canon_value v); cbn [fst snd]; try (split; reflexivity);
      split; apply get_at_set_at_other; lia.
Qed.

Lemma canon_inits_lengths : forall vals names id acc,
  length (snd acc) = length (fst acc) -> (length (fst acc) <= id)%nat ->
  length (snd (canon_inits vals names id acc)) = length (fst (canon_inits vals names id acc)) /\
  (length (fst (canon_inits vals names id acc)) <= id + length vals)%nat.
Proof.
  induction vals as [|v vals IH]; intros names id acc Hl Hb.
  - destruct names; cbn [canon_inits length]; split; try assumption; lia.
  - destruct names as [|n names]; [cbn [canon_inits length]; split; [assumption|lia]|].
    cbn [canon_inits length].
    set (acc' := match canon_value v with
                 | IVNone => acc
                 | cv => (set_at IVNone (fst acc) id cv, set_at None (snd acc) id (Some (display_name (lit "state_") n id)))
                 end).
    assert (Hacc' : length (snd acc') = length (fst acc') /\ (length (fst acc') <= S id)%nat).
    { unfold acc'. destruct (canon_value v); cbn [fst snd]; rewrite ?set_at_length; split; lia. }
    destruct Hacc' as [Hl' Hb'].
    destruct (IH names (S id) acc' Hl' Hb') as [H1 H2]. split; [exact H1|lia].
Qed.

Lemma init_equiv_b_canon : forall v n id,
  init_value_ok v = true ->
  init_equiv_b v n id (canon_value v)
               (match canon_value v with IVNone => None | _ => Some (display_name (lit "state_") n id) end) = true.
Proof.
  intros v n id Hok. destruct v as [b|a indices|].
  - cbn [canon_value init_equiv_b]. rewrite bits_eqb_refl. cbn [andb]. apply str_eqb_refl.
  - cbn [init_value_ok] in Hok.
    apply andb_true_iff in Hok. destruct Hok as [Hok Hw].
    apply andb_true_iff in Hok. destruct Hok as [Haok _].
    destruct indices as [|x l].
    + reflexivity.
    + destruct (canon_array_same a (x :: l) Haok Hw ltac:(discriminate)) as [a' [idx' [E [Hiw [Hdw [Hmem Hsel]]]]]].
      cbn [canon_value]. rewrite E. unfold init_equiv_b.
      rewrite Hiw, Hdw, !Nat.eqb_refl. cbn [andb opt_str_eqb]. rewrite str_eqb_refl, andb_true_r.
      apply andb_true_iff. split.
      * apply forallb_forall. intros i Hi. apply andb_true_iff. split.
        -- apply mem_bits_in. apply Hmem. exact Hi.
        -- rewrite (Hsel i Hi). apply bits_eqb_refl.
      * apply forallb_forall. intros i Hi. apply mem_bits_in. apply Hmem. exact Hi.
  - reflexivity.
Qed.

Lemma inits_equiv_b_canon : forall vals names id acc,
  length vals = length names -> forallb init_value_ok vals = true ->
  (length (fst acc) <= id)%nat -> (length (snd acc) <= id)%nat ->
  inits_equiv_b vals names id (fst (canon_inits vals names id acc)) (snd (canon_inits vals names id acc)) = true.
Proof.
  induction vals as [|v vals IH]; intros names id acc Hlen Hok Hb1 Hb2.
  - destruct names; reflexivity.
  - destruct names as [|n names]; [discriminate Hlen|].
    cbn [forallb] in Hok. apply andb_true_iff in Hok. destruct Hok as [Hv Hok].
    cbn [canon_inits inits_equiv_b].
    set (acc' := match canon_value v with
                 | IVNone => acc
                 | cv => (set_at IVNone (fst acc) id cv, set_at None (snd acc) id (Some (display_name (lit "state_") n id)))
                 end).
    destruct (canon_inits_get_below vals names (S id) acc' id ltac:(lia)) as [H1 H2].
    rewrite H1, H2.
    assert (Hget : get_at IVNone (fst acc') id = canon_value v /\
                   get_at None (snd acc') id = match canon_value v with IVNone => None | _ => Some (display_name (lit "state_") n id) end).
    { unfold acc'. destruct (canon_value v); cbn [fst snd]; rewrite ?get_at_set_at; try (split; reflexivity).
      split; apply get_at_beyond; assumption. }
    destruct Hget as [G1 G2]. rewrite G1, G2. rewrite (init_equiv_b_canon v n id Hv). cbn [andb].
    apply IH; try assumption.
    + injection Hlen as Hlen. exact Hlen.
    + unfold acc'. destruct (canon_value v); cbn [fst]; rewrite ?set_at_length; lia.
    + unfold acc'. destruct (canon_value v); cbn [snd]; rewrite ?set_at_length; lia.
Qed.

Lemma value_eqb_refl_ok : forall v, input_value_ok v = true -> value_eqb v v = true.
Proof. intros [[b|a]|] H; cbn in H; try discriminate. cbn [value_eqb]. apply bits_eqb_refl. Qed.

Theorem canon_equiv_b_lemma : forall w, wit_complete w = true -> wit_equiv_b w (wit_canon w) = true.
Proof.
  intros w H. destruct (complete_inv w H) as [Hne Hu32 Hfr Hlen Hin Hok Hinn Hframes Hb1 Hb2 Hb3 Hsmall].
  unfold wit_equiv_b, wit_canon.
  cbn [w_failed w_inputs w_input_names w_init w_init_names].
  destruct (canon_inits_lengths (w_init w) (w_init_names w) 0 ([], []) eq_refl (Nat.le_refl 0)) as [HL1 HL2].
  repeat (apply andb_true_iff; split).
  - apply list_eqb_refl. intros x _. apply N.eqb_refl.
  - apply list_eqb_refl. intros f Hf. apply list_eqb_refl. intros v Hv.
    rewrite forallb_forall in Hframes. specialize (Hframes f Hf). unfold frame_ok in Hframes.
    apply andb_true_iff in Hframes. destruct Hframes as [_ Hvals].
    rewrite forallb_forall in Hvals. apply value_eqb_refl_ok. apply Hvals. exact Hv.
  - destruct (w_inputs w); [reflexivity|]. apply list_eqb_refl. intros x _. apply opt_str_eqb_refl.
  - apply inits_equiv_b_canon; try assumption; cbn; lia.
  - apply Nat.leb_le. cbn [Nat.add] in HL2. exact HL2.
  - apply Nat.eqb_eq. exact HL1.
Qed.

(* ------------------------------------------------------------------------- meaning of the oracle *)
Lemma init_equiv_b_sound : forall v n id v' n',
  init_equiv_b v n id v' n' = true -> init_equiv v n id v' n'.
Proof.
  intros v n id v' n' H. destruct v as [b|a indices|]; cbn [init_equiv_b init_equiv] in *.
  - apply andb_true_iff in H. destruct H as [H1 H2]. destruct v' as [b'| |]; try discriminate.
    apply bits_eqb_eq in H1. subst b'. split; [reflexivity|]. apply opt_str_eqb_eq in H2. exact H2.
  - destruct indices as [|x l].
    + destruct v'; try discriminate. reflexivity.
    + apply andb_true_iff in H. destruct H as [H1 H2]. destruct v' as [|a' idx'|]; try discriminate.
      apply opt_str_eqb_eq in H2.
      repeat (apply andb_true_iff in H1; let H' := fresh "Hc" in destruct H1 as [H1 H']).
      apply Nat.eqb_eq in H1. apply Nat.eqb_eq in Hc1.
      rewrite forallb_forall in Hc0. rewrite forallb_forall in Hc.
      exists a', idx'. split; [reflexivity|]. split; [|exact H2].
      split; [exact H1|]. split; [exact Hc1|]. split.
      * intros i. split.
        -- intros Hi. specialize (Hc0 i Hi). apply andb_true_iff in Hc0. destruct Hc0 as [Hm _].
           apply mem_bits_in. exact Hm.
        -- intros Hi. apply mem_bits_in. apply Hc. exact Hi.
      * intros i Hi. specialize (Hc0 i Hi). apply andb_true_iff in Hc0. destruct Hc0 as [_ Hs].
        apply bits_eqb_eq. exact Hs.
  - destruct v'; try discriminate. reflexivity.
Qed.

Lemma inits_equiv_b_sound : forall vals names id vals' names',
  length vals = length names ->
  inits_equiv_b vals names id vals' names' = true ->
  forall k, (k < length vals)%nat ->
    init_equiv (nth k vals IVNone) (nth k names None) (id + k) (nth (id + k) vals' IVNone) (nth (id + k) names' None).
Proof.
  induction vals as [|v vals IH]; intros names id vals' names' Hlen H k Hk; [cbn in Hk; lia|].
  destruct names as [|n names]; [discriminate Hlen|].
  cbn [inits_equiv_b] in H. apply andb_true_iff in H. destruct H as [H1 H2].
  destruct k as [|k].
  - cbn [nth]. rewrite Nat.add_0_r. apply init_equiv_b_sound. exact H1.
  - cbn [nth]. replace (id + S k)%nat with (S id + k)%nat by lia.
    apply IH; try assumption.
    + injection Hlen as Hlen. exact Hlen.
    + cbn [length] in Hk. lia.
Qed.

Theorem wit_equiv_b_sound_lemma : forall w w',
  length (w_init w) = length (w_init_names w) ->
  wit_equiv_b w w' = true -> wit_equiv w w'.
Proof.
  intros w w' Hlen H. unfold wit_equiv_b in H.
  repeat (apply andb_true_iff in H; let H' := fresh "Hc" in destruct H as [H H']).
  unfold wit_equiv. split; [|split; [|split; [|split; [|split]]]].
  - symmetry. apply (list_eqb_eq _ N.eqb); [|exact H]. intros x y E. apply N.eqb_eq. exact E.
  - symmetry. apply (list_eqb_eq _ (list_eqb value_eqb)); [|exact Hc3].
    intros x y E. apply (list_eqb_eq _ value_eqb); [apply value_eqb_eq|exact E].
  - intros Hne. destruct (w_inputs w); [contradiction|].
    symmetry. apply (list_eqb_eq _ opt_str_eqb); [apply opt_str_eqb_eq|exact Hc2].
  - intros id Hid. apply (inits_equiv_b_sound _ _ 0 _ _ Hlen Hc1 id Hid).
  - apply Nat.leb_le. exact Hc0.
  - apply Nat.eqb_eq. exact Hc.
Qed.

Theorem witness_roundtrip_lemma : forall w, wit_complete w = true ->
  exists text w', wit_print_text w = WOk text /\ wit_parse_single text = WOk w' /\
                  (forall pm, wit_parse_text pm text = WOk [w']) /\ wit_equiv w w'.
Proof.
  intros w H. destruct (roundtrip_canon_lemma w H) as [text [Hp [Hall Hsingle]]].
  exists text, (wit_canon w). split; [exact Hp|]. split; [exact Hsingle|]. split; [exact Hall|].
  apply wit_equiv_b_sound_lemma.
  - destruct (complete_inv w H). assumption.
  - apply canon_equiv_b_lemma. exact H.
Qed.
