(** * Proofs/SimplifyTermMeasure.v — a termination measure for the simplifier model.

    [mu : expr -> N] is a polynomial interpretation whose coefficients depend on bit widths:

      - leaves 1;  not/negate/sext  x+1;  zext  x+4;  slice  2x   (slices are pushed down, so the
        slice must "multiply"; every other operator has an additive constant that the doubled
        copy pays for);
      - concat(a,b) = 2a+b+1   (right re-association decreases);
      - and/or/xor of width w:  2^(w+3) (a+b) + 1   (an and-with-mask expands into a left-nested
        concat of at most w+2 slices/zeros of the other operand, worth less than 2^(w+2) (2x+1));
      - equal of operand width w:  64^w (a+b)   (an equality with a concat duplicates the other
        operand into two equalities of smaller widths under a 1-bit and);
      - add/mul: the and/or/xor value + 1;  uge: the equal value + 1;  implies, ite: just above the
        1-bit and/or they turn into;  shifts: 4(a+b) (+1), above the concat/ext of a slice they
        turn into.

    Executable, so candidate rewrite steps can be tested by [vm_compute] (see SimplifyTermTest.v). *)
From Patronus Require Import Simplify.
Open Scope N_scope.

(** coefficient of the bitwise operators *)
Definition cP (w : N) : N := 2 ^ (w + 3).
(** coefficient of equality *)
Definition cE (w : N) : N := 64 ^ w.

Definition mB (w a b : N) : N := cP w * (a + b) + 1.
Definition mE (w a b : N) : N := cE w * (a + b).

Fixpoint mu (e : expr) : N :=
  match e with
  | BVSymbol _ _ => 1
  | BVLiteral _ _ => 1
  | BVZeroExt x _ _ => mu x + 4
  | BVSignExt x _ _ => mu x + 1
  | BVSlice x _ _ => 2 * mu x
  | BVNot x _ => mu x + 1
  | BVNegate x _ => mu x + 1
  | BVEqual a b => mE (width a) (mu a) (mu b)
  | BVImplies a b => 16 * (mu a + mu b) + 18
  | BVGreater a b => mu a + mu b + 1
  | BVGreaterSigned a b _ => mu a + mu b + 1
  | BVGreaterEqual a b => mE (width a) (mu a) (mu b) + 1
  | BVGreaterEqualSigned a b _ => mu a + mu b + 1
  | BVConcat a b _ => 2 * mu a + mu b + 1
  | BVAnd a b w => mB w (mu a) (mu b)
  | BVOr a b w => mB w (mu a) (mu b)
  | BVXor a b w => mB w (mu a) (mu b)
  | BVShiftLeft a b _ => 4 * (mu a + mu b)
  | BVArithmeticShiftRight a b _ => 4 * (mu a + mu b)
  | BVShiftRight a b _ => 4 * (mu a + mu b) + 1
  | BVAdd a b w => mB w (mu a) (mu b) + 1
  | BVMul a b w => mB w (mu a) (mu b) + 1
  | BVSignedDiv a b _ => mu a + mu b + 1
  | BVUnsignedDiv a b _ => mu a + mu b + 1
  | BVSignedMod a b _ => mu a + mu b + 1
  | BVSignedRem a b _ => mu a + mu b + 1
  | BVUnsignedRem a b _ => mu a + mu b + 1
  | BVSub a b _ => mu a + mu b + 1
  | BVArrayRead a b _ => mu a + mu b + 1
  | BVIte c t f => 16 * (mu c + mu t + mu f) + 2
  | ArraySymbol _ _ _ => 1
  | ArrayConstant x _ _ => mu x + 1
  | ArrayEqual a b => mu a + mu b + 1
  | ArrayStore a b c => mu a + mu b + mu c + 1
  | ArrayIte c t f => mu c + mu t + mu f + 1
  end.

(** ** an instrumented copy of the driver, for testing the measure by computation:
    returns the result of [simp] and whether the measure behaved at every step
    (children never increase it, a fired rule strictly decreases it) *)
Inductive chk_res : Type :=
| CBad (where_ : expr) (cs : list expr) (r : option expr)   (* measure violation at this node *)
| CRes (r : sres).

Fixpoint chk_children (f : expr -> chk_res) (cs : list expr) : chk_res + list expr :=
  match cs with
  | [] => inr []
  | c :: rest =>
      match f c with
      | CRes (SOk c') => match chk_children f rest with
                         | inr rest' => inr (c' :: rest')
                         | inl err => inl err
                         end
      | err => inl err
      end
  end.

Fixpoint chk (fuel : nat) (e : expr) : chk_res :=
  match fuel with
  | O => CRes SFuel
  | S f =>
      match chk_children (chk f) (children e) with
      | inl err => err
      | inr cs =>
          if mu e <? mu (rebuild e cs) then CBad e cs None else
          match simplify e cs with
          | Panic => CRes SPanic
          | Ok (Some r) =>
              if mu (rebuild e cs) <=? mu r then CBad e cs (Some r)
              else if expr_eqb r e then CRes (SOk e) else chk f r
          | Ok None => if list_eqb cs (children e) then CRes (SOk e) else chk f (rebuild e cs)
          end
      end
  end.
