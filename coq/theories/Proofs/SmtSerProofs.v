(** * Proofs/SmtSerProofs.v — C05: the term the writer produces is well-sorted for the strict
    reference checker and evaluates, under every assignment, to the value of the expression. *)
From Coq Require Import Lia.
From Patronus Require Import SmtSer BVLemmas ExprLemmas EvalProofs SmtCharLemmas SmtSerLemmas SmtSemLemmas.
Open Scope string_scope.
Open Scope list_scope.
Open Scope N_scope.

Section CV.
Variable cv : variant.
Local Notation ser := (SmtSer.ser cv) (only parsing).
Local Notation escape_id := (SmtSer.escape_id cv) (only parsing).
Local Notation name_ok := (SmtSer.name_ok cv) (only parsing).
Local Notation declared := (SmtSer.declared cv) (only parsing).
Local Notation symbols_declared := (SmtSer.symbols_declared cv) (only parsing).
Local Notation escape_sound_lemma := (SmtSerLemmas.escape_sound_lemma cv) (only parsing).

(** ** widths of well-typed expressions are positive *)

Definition ty_pos (t : ty) : Prop :=
  match t with TBV w => 0 < w | TArr i d => 0 < i /\ 0 < d end.

Lemma wt_pos e : wt e = true -> ty_pos (type_of e).
Proof.
  induction e as
      [ n w | w v | a IHa by_ w | a IHa by_ w | a IHa hi lo | a IHa w | a IHa w
      | a IHa b IHb | a IHa b IHb | a IHa b IHb | a IHa b IHb w | a IHa b IHb | a IHa b IHb w
      | a IHa b IHb w | a IHa b IHb w | a IHa b IHb w | a IHa b IHb w | a IHa b IHb w
      | a IHa b IHb w | a IHa b IHb w | a IHa b IHb w | a IHa b IHb w
      | a IHa b IHb w | a IHa b IHb w | a IHa b IHb w | a IHa b IHb w | a IHa b IHb w
      | a IHa b IHb w | a IHa b IHb w | a IHa b IHb c IHc
      | n iw dw | a IHa iw dw | a IHa b IHb | a IHa b IHb c IHc | a IHa b IHb c IHc ];
    intros Hwt; cbn [type_of ty_pos]; try lia.
  - now apply wt_sym in Hwt.
  - now apply wt_lit in Hwt.
  - apply wt_zext in Hwt. lia.
  - apply wt_sext in Hwt. lia.
  - apply wt_not in Hwt. destruct Hwt as [Hwa Hta]. specialize (IHa Hwa). now rewrite Hta in IHa.
  - apply wt_neg in Hwt. destruct Hwt as [Hwa Hta]. specialize (IHa Hwa). now rewrite Hta in IHa.
  - apply wt_concat in Hwt. destruct Hwt as (Hwa & Hwb & wa & wb & Hta & Htb & ->).
    specialize (IHa Hwa). rewrite Hta in IHa. cbn [ty_pos] in IHa. lia.
  - apply wt_and in Hwt. destruct Hwt as (Hwa & _ & Hta & _). specialize (IHa Hwa). now rewrite Hta in IHa.
  - apply wt_or in Hwt. destruct Hwt as (Hwa & _ & Hta & _). specialize (IHa Hwa). now rewrite Hta in IHa.
  - apply wt_xor in Hwt. destruct Hwt as (Hwa & _ & Hta & _). specialize (IHa Hwa). now rewrite Hta in IHa.
  - apply wt_shl in Hwt. destruct Hwt as (Hwa & _ & Hta & _). specialize (IHa Hwa). now rewrite Hta in IHa.
  - apply wt_ashr in Hwt. destruct Hwt as (Hwa & _ & Hta & _). specialize (IHa Hwa). now rewrite Hta in IHa.
  - apply wt_lshr in Hwt. destruct Hwt as (Hwa & _ & Hta & _). specialize (IHa Hwa). now rewrite Hta in IHa.
  - apply wt_add in Hwt. destruct Hwt as (Hwa & _ & Hta & _). specialize (IHa Hwa). now rewrite Hta in IHa.
  - apply wt_mul in Hwt. destruct Hwt as (Hwa & _ & Hta & _). specialize (IHa Hwa). now rewrite Hta in IHa.
  - apply wt_sdiv in Hwt. destruct Hwt as (Hwa & _ & Hta & _). specialize (IHa Hwa). now rewrite Hta in IHa.
  - apply wt_udiv in Hwt. destruct Hwt as (Hwa & _ & Hta & _). specialize (IHa Hwa). now rewrite Hta in IHa.
  - apply wt_smod in Hwt. destruct Hwt as (Hwa & _ & Hta & _). specialize (IHa Hwa). now rewrite Hta in IHa.
  - apply wt_srem in Hwt. destruct Hwt as (Hwa & _ & Hta & _). specialize (IHa Hwa). now rewrite Hta in IHa.
  - apply wt_urem in Hwt. destruct Hwt as (Hwa & _ & Hta & _). specialize (IHa Hwa). now rewrite Hta in IHa.
  - apply wt_sub in Hwt. destruct Hwt as (Hwa & _ & Hta & _). specialize (IHa Hwa). now rewrite Hta in IHa.
  - apply wt_read in Hwt. destruct Hwt as (Hwa & _ & iw & Hta & _). specialize (IHa Hwa). rewrite Hta in IHa.
    cbn [ty_pos] in IHa. lia.
  - apply wt_ite in Hwt. destruct Hwt as (_ & _ & Hwc & _ & w' & _ & Htc). apply (IHc Hwc).
  - now apply wt_node_ok in Hwt; unfold node_ok in Hwt; cbn [check1 leaf_ok is_some] in Hwt;
      rewrite !andb_true_iff, !N.ltb_lt in Hwt.
  - apply wt_aconst in Hwt. destruct Hwt as (Hwa & Hta & Hiw). specialize (IHa Hwa). rewrite Hta in IHa.
    cbn [ty_pos] in IHa. lia.
  - apply wt_store in Hwt. destruct Hwt as (Hwa & _). apply (IHa Hwa).
  - apply wt_aite in Hwt. destruct Hwt as (_ & _ & Hwc & _). apply (IHc Hwc).
Qed.

(** ** the statement proved by induction *)

Definition good (G : sctx) (rho : env) (e : expr) (mb : bool) : Prop :=
  scheck G (ser e mb) = Some (sort_for (type_of e) mb) /\
  seval (smodel_of G rho) (ser e mb) = Some (sval_for (type_of e) mb (ebv rho e) (earr rho e)).

(** the result conversions of the writer *)
Lemma wrap_good G M t p mb v f core :
  (forall w, t = TBV w -> v < 2 ^ w) ->
  scheck G core = Some (sort_for t p) ->
  seval M core = Some (sval_for t p v f) ->
  let r1 := match t with TBV w => w =? 1 | TArr _ _ => false end in
  scheck G (wrap r1 p mb core) = Some (sort_for t mb) /\
  seval M (wrap r1 p mb core) = Some (sval_for t mb v f).
Proof.
  intros Hb Sc Vc r1. subst r1. destruct t as [w | i d].
  2:{ unfold wrap. cbn [andb]. split; assumption. }
  specialize (Hb w eq_refl). cbn [sort_for sval_for] in *.
  destruct (N.eqb_spec w 1) as [-> | Hw1].
  - unfold wrap, elem_sort in *. change (1 =? 1) with true in *. cbv iota in *. cbn [andb].
    destruct mb, p; cbn [negb andb]; try (split; assumption).
    + (* Bool -> bit-vector *)
      split.
      * erewrite scheck_head by reflexivity. cbn [map_opt]. rewrite Sc. reflexivity.
      * erewrite seval_head by reflexivity. cbn [map_opt]. rewrite Vc.
        change (seval M (SxAtom "#b1")) with (Some (SVBits 1 1)).
        change (seval M (SxAtom "#b0")) with (Some (SVBits 1 0)).
        cbn [apply_op sort_of_val ssort_eqb]. change (1 =? 1) with true. cbv iota.
        destruct (lt2_cases v Hb) as [-> | ->]; reflexivity.
    + (* bit-vector -> Bool *)
      split.
      * erewrite scheck_head by reflexivity. cbn [map_opt]. rewrite Sc.
        change (scheck G (SxAtom "#b1")) with (Some (SoBV 1)). apply sort_eq2.
      * erewrite seval_head by reflexivity. cbn [map_opt]. rewrite Vc.
        change (seval M (SxAtom "#b1")) with (Some (SVBits 1 1)). apply apply_eq2. reflexivity.
  - unfold wrap, elem_sort in *. apply N.eqb_neq in Hw1. rewrite Hw1 in *. cbn [andb].
    destruct mb, p; split; assumption.
Qed.

(** ** symbols *)

Lemma symbols_declared_app G l1 l2 :
  forallb (declared G) (l1 ++ l2) = true <-> forallb (declared G) l1 = true /\ forallb (declared G) l2 = true.
Proof. rewrite forallb_app, andb_true_iff. tauto. Qed.

Lemma name_ok_facts n : name_ok n = true ->
  symbol_name (escape_id n) = Some n /\ String.eqb n "true" = false /\ String.eqb n "false" = false.
Proof.
  unfold SmtSer.name_ok. destruct (symbol_name (escape_id n)) as [n'|]; [|discriminate].
  rewrite andb_true_iff, negb_true_iff, orb_false_iff. intros [He [Ht _]]. apply String.eqb_eq in He. subst n'.
  split; [reflexivity|].
  unfold is_theory_name, str_in in Ht.
  split; destruct (String.eqb_spec n "true") as [-> | _]; try reflexivity;
    try (vm_compute in Ht; discriminate Ht);
    destruct (String.eqb_spec n "false") as [-> | _]; try reflexivity; vm_compute in Ht; discriminate Ht.
Qed.

Lemma symbol_good G rho n t :
  declared G (n, t) = true -> ty_pos t ->
  (forall w, t = TBV w -> rho_bv rho n w < 2 ^ w) ->
  let v := match t with TBV w => rho_bv rho n w | TArr _ _ => 0 end in
  let f := match t with TArr i d => rho_arr rho n i d | TBV _ => fun _ => 0 end in
  scheck G (SxAtom (escape_id n)) = Some (sort_for t false) /\
  seval (smodel_of G rho) (SxAtom (escape_id n)) = Some (sval_for t false v f).
Proof.
  unfold SmtSer.declared. cbn [fst snd]. rewrite andb_true_iff. intros [Hn Hg] Hpos Hb.
  destruct (name_ok_facts n Hn) as (Hs & Ht & Hf).
  destruct (G n) as [s|] eqn:EG; [|discriminate]. apply ssort_eqb_eq in Hg. subst s.
  cbn [scheck seval]. unfold check_atom, eval_atom. rewrite Hs, Ht, Hf.
  split; [rewrite EG; destruct t; reflexivity|].
  unfold smodel_of. rewrite EG.
  destruct t as [w | i d]; cbn [sort_of_ty sval_for sort_for].
  - unfold elem_sort. destruct (w =? 1) eqn:E1; [|reflexivity].
    apply N.eqb_eq in E1. subst w. reflexivity.
  - now rewrite !sort_bits_elem.
Qed.

(** the head of [ser] without the result conversion *)
Definition ser_core (e : expr) : sx :=
  let c := consumes_bv e in
  let app1 (h : string) (a : expr) := SxList [SxAtom h; ser a c] in
  let app2 (h : string) (a b : expr) := SxList [SxAtom h; ser a c; ser b c] in
  let app3 (h : string) (a b d : expr) := SxList [SxAtom h; ser a c; ser b c; ser d c] in
    match e with
    | BVSymbol n _ => SxAtom (escape_id n)
    | BVLiteral w v =>
        if 1 <? w then SxAtom (String.append "#b" (bits_str w v))
        else if (w =? 1) && (v =? 1) then SxAtom "true"
        else SxAtom "false"
    | BVZeroExt a by_ _ =>
        if is_1bit a then
          SxList [SxAtom "ite"; ser a c;
                  SxAtom (String.append "#b" (String.append (zeros by_) "1"));
                  SxAtom (String.append "#b" (String.append (zeros by_) "0"))]
        else SxList [indexed "zero_extend" [by_]; ser a c]
    | BVSignExt a by_ _ => SxList [indexed "sign_extend" [by_]; ser a c]
    | BVSlice a hi lo =>
        if (lo =? 0) && (width a - 1 =? hi) then ser a c
        else SxList [indexed "extract" [hi; lo]; ser a c]
    | BVNot a _ => if is_1bit a then app1 "not" a else app1 "bvnot" a
    | BVNegate a _ => app1 "bvneg" a
    | BVEqual a b => app2 "=" a b
    | BVImplies a b => app2 "=>" a b
    | BVGreater a b => app2 "bvugt" a b
    | BVGreaterSigned a b _ => app2 "bvsgt" a b
    | BVGreaterEqual a b => app2 "bvuge" a b
    | BVGreaterEqualSigned a b _ => app2 "bvsge" a b
    | BVConcat a b _ => app2 "concat" a b
    | BVAnd a b _ => if is_1bit e then app2 "and" a b else app2 "bvand" a b
    | BVOr a b _ => if is_1bit e then app2 "or" a b else app2 "bvor" a b
    | BVXor a b _ => if is_1bit e then app2 "xor" a b else app2 "bvxor" a b
    | BVShiftLeft a b _ => app2 "bvshl" a b
    | BVArithmeticShiftRight a b _ => app2 "bvashr" a b
    | BVShiftRight a b _ => app2 "bvlshr" a b
    | BVAdd a b _ => app2 "bvadd" a b
    | BVMul a b _ => app2 "bvmul" a b
    | BVSignedDiv a b _ => app2 "bvsdiv" a b
    | BVUnsignedDiv a b _ => app2 "bvudiv" a b
    | BVSignedMod a b _ => app2 "bvsmod" a b
    | BVSignedRem a b _ => app2 "bvsrem" a b
    | BVUnsignedRem a b _ => app2 "bvurem" a b
    | BVSub a b _ => app2 "bvsub" a b
    | BVArrayRead a i _ => app2 "select" a i
    | BVIte a b d => app3 "ite" a b d
    | ArraySymbol n _ _ => SxAtom (escape_id n)
    | ArrayConstant a iw dw =>
        SxList [SxList [SxAtom "as"; SxAtom "const"; ser_type (TArr iw dw)]; ser a c]
    | ArrayEqual a b => app2 "=" a b
    | ArrayStore a i d => app3 "store" a i d
    | ArrayIte a b d => app3 "ite" a b d
    end.

Lemma ser_eq e mb : ser e mb = wrap (is_1bit e) (produces_bv e) mb (ser_core e).
Proof. destruct e; reflexivity. Qed.

Section Main.
  Variables (G : sctx) (rho : env).
  Hypothesis Hrho : env_wf rho.

  Definition core_good (e : expr) : Prop :=
    scheck G (ser_core e) = Some (sort_for (type_of e) (produces_bv e)) /\
    seval (smodel_of G rho) (ser_core e) = Some (sval_for (type_of e) (produces_bv e) (ebv rho e) (earr rho e)).

  Lemma wrap_good_e e mb : wt e = true -> core_good e -> good G rho e mb.
  Proof.
    intros Hwt [Sc Vc]. unfold good. rewrite ser_eq. unfold is_1bit.
    apply wrap_good; try assumption. intros w Ht. now apply ebv_bound.
  Qed.

  Ltac child IH mb Ht S V :=
    destruct (IH mb) as [S V]; rewrite Ht in S, V; cbn [sort_for sval_for sort_of_ty] in S, V.


  Ltac prep1 lem Hwt Hbu Hs IHa :=
    apply lem in Hwt; destruct Hwt as (Hwa & Hta);
    specialize (IHa Hwa Hbu Hs);
    pose proof (ebv_bound rho Hrho _ _ Hwa Hta) as Ba.
  Ltac prep2 lem Hwt Hbu Hs IHa IHb :=
    apply lem in Hwt; destruct Hwt as (Hwa & Hwb & Hta & Htb);
    destruct Hbu as [Hba Hbb]; destruct Hs as [Hsa Hsb];
    specialize (IHa Hwa Hba Hsa); specialize (IHb Hwb Hbb Hsb);
    pose proof (ebv_bound rho Hrho _ _ Hwa Hta) as Ba;
    pose proof (ebv_bound rho Hrho _ _ Hwb Htb) as Bb.
  Ltac prep2x lem Hwt Hbu Hs IHa IHb :=
    apply lem in Hwt; destruct Hwt as (Hwa & Hwb & w' & Hta & Htb);
    destruct Hbu as [Hba Hbb]; destruct Hs as [Hsa Hsb];
    specialize (IHa Hwa Hba Hsa); specialize (IHb Hwb Hbb Hsb);
    pose proof (ebv_bound rho Hrho _ _ Hwa Hta) as Ba;
    pose proof (ebv_bound rho Hrho _ _ Hwb Htb) as Bb.
  Ltac sort_step :=
    erewrite scheck_head by reflexivity; cbn [map_opt].
  Ltac val_step :=
    erewrite seval_head by reflexivity; cbn [map_opt].
  Ltac bin_arith lem Hwt Hbu Hs IHa IHb :=
    apply lem in Hwt; destruct Hwt as (Hwa & Hwb & Hta & Htb);
    destruct Hbu as [Hba Hbb]; destruct Hs as [Hsa Hsb];
    specialize (IHa Hwa Hba Hsa); specialize (IHb Hwb Hbb Hsb);
    destruct (IHa true) as [Sa Va]; rewrite Hta in Sa, Va; cbn [sort_for sval_for sort_of_ty] in Sa, Va;
    destruct (IHb true) as [Sb Vb]; rewrite Htb in Sb, Vb; cbn [sort_for sval_for sort_of_ty] in Sb, Vb;
    cbn [sort_for sval_for]; split;
    [ sort_step; rewrite Sa, Sb; cbn [op_sort left_assoc fold_left so_bits2 so_bits2_args]; rewrite N.eqb_refl; reflexivity
    | val_step; rewrite Va, Vb; cbn [apply_op left_assoc fold_left bits2 bits2_args]; rewrite N.eqb_refl;
      rewrite ?smt_ashr_ok, ?smt_sdiv_ok, ?smt_srem_ok, ?smt_smod_ok; reflexivity ].
  Ltac bool_res := change (sort_for (TBV 1) false) with SoBool; cbn [sval_for]; change (1 =? 1) with true; cbv iota.

  Ltac childk IH mb Ht S V :=
    destruct (IH mb) as [S V]; rewrite Ht in S, V; cbn [sort_for sort_of_ty] in S.

  Lemma ser_good e : wt e = true -> built e = true -> symbols_declared G e = true -> forall mb, good G rho e mb.
  Proof.
    unfold SmtSer.symbols_declared.
    induction e as
      [ n w | w v | a IHa by_ w | a IHa by_ w | a IHa hi lo | a IHa w | a IHa w
      | a IHa b IHb | a IHa b IHb | a IHa b IHb | a IHa b IHb w | a IHa b IHb | a IHa b IHb w
      | a IHa b IHb w | a IHa b IHb w | a IHa b IHb w | a IHa b IHb w | a IHa b IHb w
      | a IHa b IHb w | a IHa b IHb w | a IHa b IHb w | a IHa b IHb w
      | a IHa b IHb w | a IHa b IHb w | a IHa b IHb w | a IHa b IHb w | a IHa b IHb w
      | a IHa b IHb w | a IHa b IHb w | a IHa b IHb c IHc
      | n iw dw | a IHa iw dw | a IHa b IHb | a IHa b IHb c IHc | a IHa b IHb c IHc ];
      intros Hwt Hbu Hs mb; apply wrap_good_e; try assumption;
      cbn [symbols built] in Hs, Hbu;
      rewrite ?symbols_declared_app in Hs; rewrite ?andb_true_iff in Hbu;
      unfold core_good; cbn [ser_core consumes_bv produces_bv type_of ebv earr].

    - (* BVSymbol *)
      cbn [forallb] in Hs. rewrite andb_true_r in Hs.
      apply (symbol_good G rho n (TBV w) Hs).
      + cbn [ty_pos]. now apply wt_sym in Hwt.
      + intros w0 E. inversion E; subst. apply (proj1 Hrho).
    - (* BVLiteral *)
      apply wt_lit in Hwt. destruct Hwt as [Hw Hv]. cbn [sort_for sval_for].
      destruct (N.ltb_spec 1 w) as [H1 | H1].
      + assert (E : (w =? 1) = false) by (apply N.eqb_neq; lia). unfold elem_sort. rewrite E.
        cbn [scheck seval]. change (String.append "#b" (bits_str w v)) with (String "#"%char (String "b"%char (bits_str w v))).
        pose proof (bv_literal_bits w v Hw Hv) as L.
        change (String.append "#b" (bits_str w v)) with (String "#"%char (String "b"%char (bits_str w v))) in L.
        rewrite (check_atom_lit _ _ _ _ L), (eval_atom_lit _ _ _ _ L). split; reflexivity.
      + assert (w = 1) by lia. subst w. change (1 =? 1) with true. cbn [andb elem_sort].
        destruct (lt2_cases v Hv) as [-> | ->]; split; reflexivity.
    - (* BVZeroExt *)
      apply wt_zext in Hwt. destruct Hwt as (Hwa & Hta & Hlt). destruct Hbu as [Hby Hba].
      specialize (IHa Hwa Hba Hs). child IHa false Hta Sa Va.
      pose proof (ebv_bound rho Hrho _ _ Hwa Hta) as Ba.
      unfold is_1bit. rewrite Hta. cbn [sort_for sval_for].
      destruct (N.eqb_spec (w - by_) 1) as [E1 | E1].
      + rewrite E1 in *. unfold elem_sort in Sa. change (1 =? 1) with true in Sa, Va. cbv iota in Sa, Va.
        assert (w = by_ + 1) by lia. subst w.
        pose proof (bv_literal_zeros by_ "1"%char 1 eq_refl) as L1.
        pose proof (bv_literal_zeros by_ "0"%char 0 eq_refl) as L0.
        split.
        * sort_step. rewrite Sa, (check_atom_b _ _ _ _ L1), (check_atom_b _ _ _ _ L0).
          cbn [op_sort ssort_eqb]. now rewrite N.eqb_refl.
        * val_step. rewrite Va, (eval_atom_b _ _ _ _ L1), (eval_atom_b _ _ _ _ L0).
          cbn [apply_op sort_of_val ssort_eqb]. rewrite N.eqb_refl. unfold bv_zext.
          destruct (lt2_cases _ Ba) as [-> | ->]; reflexivity.
      + apply N.eqb_neq in E1. unfold elem_sort in Sa. rewrite E1 in Sa.
        split.
        * unfold indexed. cbn [map]. erewrite scheck_indexed; [| reflexivity | apply idx_zero_extend | exact Sa].
          cbn [idx_sort]. replace (w - by_ + by_) with w by lia. reflexivity.
        * unfold indexed. cbn [map]. erewrite seval_indexed; [| reflexivity | apply idx_zero_extend | exact Va].
          cbn [apply_idx]. replace (w - by_ + by_) with w by lia. reflexivity.
    - (* BVSignExt *)
      apply wt_sext in Hwt. destruct Hwt as (Hwa & Hta & Hlt). destruct Hbu as [Hby Hba].
      specialize (IHa Hwa Hba Hs). child IHa true Hta Sa Va.
      cbn [sort_for sval_for]. unfold width. rewrite Hta.
      split.
      + unfold indexed. cbn [map]. erewrite scheck_indexed; [| reflexivity | apply idx_sign_extend | exact Sa].
        cbn [idx_sort]. replace (w - by_ + by_) with w by lia. reflexivity.
      + unfold indexed. cbn [map]. erewrite seval_indexed; [| reflexivity | apply idx_sign_extend | exact Va].
        cbn [apply_idx]. replace (w - by_ + by_) with w by lia. reflexivity.
    - (* BVSlice *)
      apply wt_slice in Hwt. destruct Hwt as (Hwa & we & Hta & Hhi & Hlo). destruct Hbu as [Hno Hba].
      specialize (IHa Hwa Hba Hs). child IHa false Hta Sa Va.
      apply negb_true_iff in Hno. rewrite Hno. cbn [sort_for sval_for].
      (* the source is wider than one bit: a one-bit source only has the no-op slice *)
      assert (E1 : (we =? 1) = false).
      { apply N.eqb_neq. intros ->. unfold width in Hno. rewrite Hta in Hno.
        assert (hi = 0) by lia. assert (lo = 0) by lia. subst. discriminate Hno. }
      unfold elem_sort in Sa. rewrite E1 in Sa, Va.
      assert (Hc : ((hi <? we) && (lo <=? hi)) = true).
      { apply andb_true_iff. split; [now apply N.ltb_lt | now apply N.leb_le]. }
      split.
      + unfold indexed. cbn [map]. erewrite scheck_indexed; [| reflexivity | apply idx_extract | exact Sa].
        cbn [idx_sort]. now rewrite Hc.
      + unfold indexed. cbn [map]. erewrite seval_indexed; [| reflexivity | apply idx_extract | exact Va].
        cbn [apply_idx]. now rewrite Hc.
    - (* BVNot *)
      prep1 wt_not Hwt Hbu Hs IHa. child IHa false Hta Sa Va. unfold is_1bit. rewrite Hta. cbn [sort_for sval_for].
      destruct (N.eqb_spec w 1) as [-> | E1].
      + unfold elem_sort in *. change (1 =? 1) with true in *. cbv iota in *. split.
        * sort_step. rewrite Sa. reflexivity.
        * val_step. rewrite Va. cbn [apply_op]. now rewrite not_bool.
      + apply N.eqb_neq in E1. unfold elem_sort in *. rewrite E1 in *. split.
        * sort_step. rewrite Sa. reflexivity.
        * val_step. rewrite Va. reflexivity.
    - (* BVNegate *)
      prep1 wt_neg Hwt Hbu Hs IHa. child IHa true Hta Sa Va. cbn [sort_for sval_for]. split.
      + sort_step. rewrite Sa. reflexivity.
      + val_step. rewrite Va. reflexivity.
    - (* BVEqual *)
      prep2x wt_eq Hwt Hbu Hs IHa IHb. child IHa false Hta Sa Va. child IHb false Htb Sb Vb. bool_res.
      unfold bv_eq. rewrite b2n_eqb1. split.
      + sort_step. rewrite Sa, Sb. apply sort_eq2.
      + val_step. rewrite Va, Vb. apply apply_eq2.
        destruct (N.eqb_spec w' 1) as [-> | E1]; cbn [sval_eqb].
        * now rewrite eq_bool.
        * now rewrite N.eqb_refl.
    - (* BVImplies *)
      prep2 wt_implies Hwt Hbu Hs IHa IHb. child IHa false Hta Sa Va. child IHb false Htb Sb Vb. bool_res.
      unfold elem_sort in *. change (1 =? 1) with true in *. cbv iota in *. split.
      + sort_step. rewrite Sa, Sb. reflexivity.
      + val_step. rewrite Va, Vb. cbn [apply_op right_assoc right_assoc_go bool2]. now rewrite implies_bool.
    - (* BVGreater *)
      prep2x wt_ugt Hwt Hbu Hs IHa IHb. child IHa true Hta Sa Va. child IHb true Htb Sb Vb. bool_res.
      unfold bv_ugt. rewrite b2n_eqb1. split.
      + sort_step. rewrite Sa, Sb. cbn [op_sort so_bitscmp_args]. now rewrite N.eqb_refl.
      + val_step. rewrite Va, Vb. cbn [apply_op bitscmp_args]. now rewrite N.eqb_refl.
    - (* BVGreaterSigned *)
      prep2 wt_sgt Hwt Hbu Hs IHa IHb. child IHa true Hta Sa Va. child IHb true Htb Sb Vb. bool_res.
      pose proof (wt_pos a Hwa) as Hp. rewrite Hta in Hp. cbn [ty_pos] in Hp.
      unfold width. rewrite Hta. rewrite <- (smt_sgt_ok w _ _ Hp Ba Bb), b2n_eqb1. split.
      + sort_step. rewrite Sa, Sb. cbn [op_sort so_bitscmp_args]. now rewrite N.eqb_refl.
      + val_step. rewrite Va, Vb. cbn [apply_op bitscmp_args]. now rewrite N.eqb_refl.
    - (* BVGreaterEqual *)
      prep2x wt_uge Hwt Hbu Hs IHa IHb. child IHa true Hta Sa Va. child IHb true Htb Sb Vb. bool_res.
      unfold bv_uge. rewrite b2n_eqb1. split.
      + sort_step. rewrite Sa, Sb. cbn [op_sort so_bitscmp_args]. now rewrite N.eqb_refl.
      + val_step. rewrite Va, Vb. cbn [apply_op bitscmp_args]. rewrite N.eqb_refl. now rewrite smt_uge_ok.
    - (* BVGreaterEqualSigned *)
      prep2 wt_sge Hwt Hbu Hs IHa IHb. child IHa true Hta Sa Va. child IHb true Htb Sb Vb. bool_res.
      pose proof (wt_pos a Hwa) as Hp. rewrite Hta in Hp. cbn [ty_pos] in Hp.
      unfold width. rewrite Hta. rewrite <- (smt_sge_ok w _ _ Hp Ba Bb), b2n_eqb1. split.
      + sort_step. rewrite Sa, Sb. cbn [op_sort so_bitscmp_args]. now rewrite N.eqb_refl.
      + val_step. rewrite Va, Vb. cbn [apply_op bitscmp_args]. now rewrite N.eqb_refl.
    - (* BVConcat *)
      apply wt_concat in Hwt. destruct Hwt as (Hwa & Hwb & wa & wb & Hta & Htb & ->).
      destruct Hbu as [Hba Hbb]. destruct Hs as [Hsa Hsb].
      specialize (IHa Hwa Hba Hsa). specialize (IHb Hwb Hbb Hsb).
      child IHa true Hta Sa Va. child IHb true Htb Sb Vb. cbn [sort_for sval_for].
      unfold width. rewrite Htb. split.
      + sort_step. rewrite Sa, Sb. reflexivity.
      + val_step. rewrite Va, Vb. reflexivity.
    - (* BVAnd *)
      prep2 wt_and Hwt Hbu Hs IHa IHb. child IHa false Hta Sa Va. child IHb false Htb Sb Vb.
      cbn [is_1bit type_of sort_for sval_for].
      destruct (N.eqb_spec w 1) as [-> | E1].
      + unfold elem_sort in *. change (1 =? 1) with true in *. cbv iota in *. split.
        * sort_step. rewrite Sa, Sb. reflexivity.
        * val_step. rewrite Va, Vb. cbn [apply_op left_assoc fold_left bool2]. now rewrite and_bool.
      + apply N.eqb_neq in E1. unfold elem_sort in *. rewrite E1 in *. split.
        * sort_step. rewrite Sa, Sb. cbn [op_sort left_assoc fold_left so_bits2]. now rewrite N.eqb_refl.
        * val_step. rewrite Va, Vb. cbn [apply_op left_assoc fold_left bits2]. now rewrite N.eqb_refl.
    - (* BVOr *)
      prep2 wt_or Hwt Hbu Hs IHa IHb. child IHa false Hta Sa Va. child IHb false Htb Sb Vb.
      cbn [is_1bit type_of sort_for sval_for].
      destruct (N.eqb_spec w 1) as [-> | E1].
      + unfold elem_sort in *. change (1 =? 1) with true in *. cbv iota in *. split.
        * sort_step. rewrite Sa, Sb. reflexivity.
        * val_step. rewrite Va, Vb. cbn [apply_op left_assoc fold_left bool2]. now rewrite or_bool.
      + apply N.eqb_neq in E1. unfold elem_sort in *. rewrite E1 in *. split.
        * sort_step. rewrite Sa, Sb. cbn [op_sort left_assoc fold_left so_bits2]. now rewrite N.eqb_refl.
        * val_step. rewrite Va, Vb. cbn [apply_op left_assoc fold_left bits2]. now rewrite N.eqb_refl.
    - (* BVXor *)
      prep2 wt_xor Hwt Hbu Hs IHa IHb. child IHa false Hta Sa Va. child IHb false Htb Sb Vb.
      cbn [is_1bit type_of sort_for sval_for].
      destruct (N.eqb_spec w 1) as [-> | E1].
      + unfold elem_sort in *. change (1 =? 1) with true in *. cbv iota in *. split.
        * sort_step. rewrite Sa, Sb. reflexivity.
        * val_step. rewrite Va, Vb. cbn [apply_op left_assoc fold_left bool2]. now rewrite xor_bool.
      + apply N.eqb_neq in E1. unfold elem_sort in *. rewrite E1 in *. split.
        * sort_step. rewrite Sa, Sb. cbn [op_sort left_assoc fold_left so_bits2]. now rewrite N.eqb_refl.
        * val_step. rewrite Va, Vb. cbn [apply_op left_assoc fold_left bits2]. rewrite N.eqb_refl.
          now rewrite smt_xor_ok.
    - bin_arith wt_shl Hwt Hbu Hs IHa IHb.
    - bin_arith wt_ashr Hwt Hbu Hs IHa IHb.
    - bin_arith wt_lshr Hwt Hbu Hs IHa IHb.
    - bin_arith wt_add Hwt Hbu Hs IHa IHb.
    - bin_arith wt_mul Hwt Hbu Hs IHa IHb.
    - bin_arith wt_sdiv Hwt Hbu Hs IHa IHb.
    - bin_arith wt_udiv Hwt Hbu Hs IHa IHb.
    - bin_arith wt_smod Hwt Hbu Hs IHa IHb.
    - bin_arith wt_srem Hwt Hbu Hs IHa IHb.
    - bin_arith wt_urem Hwt Hbu Hs IHa IHb.
    - bin_arith wt_sub Hwt Hbu Hs IHa IHb.
    - (* BVArrayRead *)
      apply wt_read in Hwt. destruct Hwt as (Hwa & Hwb & iw & Hta & Htb).
      destruct Hbu as [Hba Hbb]. destruct Hs as [Hsa Hsb].
      specialize (IHa Hwa Hba Hsa). specialize (IHb Hwb Hbb Hsb).
      pose proof (ebv_bound rho Hrho _ _ Hwb Htb) as Bb.
      child IHa false Hta Sa Va. childk IHb false Htb Sb Vb. cbn [sort_for]. split.
      + sort_step. rewrite Sa, Sb. cbn [op_sort]. now rewrite ssort_eqb_refl.
      + val_step. rewrite Va, Vb. cbn [apply_op]. rewrite sval_elem_sort, ssort_eqb_refl.
        rewrite sval_elem_enc by assumption. now rewrite (dec_elem w _ (fun _ => 0)).
    - (* BVIte *)
      apply wt_ite in Hwt. destruct Hwt as (Hwa & Hwb & Hwc & Hta & w' & Htb & Htc).
      destruct Hbu as [[Hba Hbb] Hbc]. destruct Hs as (Hsa & Hsb & Hsc).
      specialize (IHa Hwa Hba Hsa). specialize (IHb Hwb Hbb Hsb). specialize (IHc Hwc Hbc Hsc).
      child IHa false Hta Sa Va. childk IHb false Htb Sb Vb. childk IHc false Htc Sc Vc.
      unfold elem_sort in Sa. change (1 =? 1) with true in Sa, Va. cbv iota in Sa, Va.
      rewrite Htc. cbn [sort_for]. split.
      + sort_step. rewrite Sa, Sb, Sc. cbn [op_sort]. now rewrite ssort_eqb_refl.
      + val_step. rewrite Va, Vb, Vc. cbn [apply_op]. rewrite !sval_elem_sort, ssort_eqb_refl.
        destruct (ebv rho a =? 1); reflexivity.
    - (* ArraySymbol *)
      cbn [forallb] in Hs. rewrite andb_true_r in Hs.
      apply (symbol_good G rho n (TArr iw dw) Hs).
      + apply (wt_pos _ Hwt).
      + intros w0 E. discriminate E.
    - (* ArrayConstant *)
      apply wt_aconst in Hwt. destruct Hwt as (Hwa & Hta & Hiw).
      specialize (IHa Hwa Hbu Hs). pose proof (ebv_bound rho Hrho _ _ Hwa Hta) as Ba.
      pose proof (wt_pos a Hwa) as Hp. rewrite Hta in Hp. cbn [ty_pos] in Hp.
      childk IHa false Hta Sa Va. cbn [sort_for sval_for sort_of_ty].
      assert (Hso : sort_of_sx (ser_type (TArr iw dw)) = Some (SoArr (elem_sort iw) (elem_sort dw))).
      { apply (sort_of_sx_ser_type (TArr iw dw)). split; assumption. }
      split.
      + now apply scheck_as_const.
      + erewrite seval_as_const; [| exact Hso | exact Va | apply sval_elem_sort].
        rewrite sval_elem_enc by assumption. reflexivity.
    - (* ArrayEqual *)
      apply wt_aeq in Hwt. destruct Hwt as (Hwa & Hwb & iw & dw & Hta & Htb).
      destruct Hbu as [Hba Hbb]. destruct Hs as [Hsa Hsb].
      specialize (IHa Hwa Hba Hsa). specialize (IHb Hwb Hbb Hsb).
      child IHa false Hta Sa Va. child IHb false Htb Sb Vb. bool_res.
      unfold index_width. rewrite Hta. rewrite b2n_eqb1. split.
      + sort_step. rewrite Sa, Sb. apply sort_eq2.
      + val_step. rewrite Va, Vb. apply apply_eq2. cbn [sval_eqb].
        rewrite !ssort_eqb_refl, sort_bits_elem. reflexivity.
    - (* ArrayStore *)
      apply wt_store in Hwt. destruct Hwt as (Hwa & Hwb & Hwc & iw & dw & Hta & Htb & Htc).
      destruct Hbu as [[Hba Hbb] Hbc]. destruct Hs as (Hsa & Hsb & Hsc).
      specialize (IHa Hwa Hba Hsa). specialize (IHb Hwb Hbb Hsb). specialize (IHc Hwc Hbc Hsc).
      pose proof (ebv_bound rho Hrho _ _ Hwb Htb) as Bb. pose proof (ebv_bound rho Hrho _ _ Hwc Htc) as Bc.
      child IHa false Hta Sa Va. childk IHb false Htb Sb Vb. childk IHc false Htc Sc Vc.
      rewrite Hta. cbn [sort_for sval_for sort_of_ty]. split.
      + sort_step. rewrite Sa, Sb, Sc. cbn [op_sort]. now rewrite !ssort_eqb_refl.
      + val_step. rewrite Va, Vb, Vc. cbn [apply_op]. rewrite !sval_elem_sort, !ssort_eqb_refl.
        cbn [andb]. rewrite !sval_elem_enc by assumption. reflexivity.
    - (* ArrayIte *)
      apply wt_aite in Hwt. destruct Hwt as (Hwa & Hwb & Hwc & Hta & iw & dw & Htb & Htc).
      destruct Hbu as [[Hba Hbb] Hbc]. destruct Hs as (Hsa & Hsb & Hsc).
      specialize (IHa Hwa Hba Hsa). specialize (IHb Hwb Hbb Hsb). specialize (IHc Hwc Hbc Hsc).
      child IHa false Hta Sa Va. child IHb false Htb Sb Vb. child IHc false Htc Sc Vc.
      unfold elem_sort in Sa. change (1 =? 1) with true in Sa, Va. cbv iota in Sa, Va.
      rewrite Htc. cbn [sort_for sval_for sort_of_ty]. split.
      + sort_step. rewrite Sa, Sb, Sc. cbn [op_sort]. now rewrite ssort_eqb_refl.
      + val_step. rewrite Va, Vb, Vc. cbn [apply_op sort_of_val]. rewrite ssort_eqb_refl.
        destruct (ebv rho a =? 1); reflexivity.
  Qed.
End Main.

(** ** the theorems of C05 about terms *)

Definition zero_env : env := {| rho_bv := fun _ _ => 0; rho_arr := fun _ _ _ _ => 0 |}.

Lemma zero_env_wf : env_wf zero_env.
Proof. split; intros; cbn; apply pow2_pos. Qed.

Theorem ser_sorted_sound_lemma :
  forall (G : sctx) (e : expr) (mb : bool),
    wt e = true -> built e = true -> symbols_declared G e = true ->
    scheck G (ser e mb) = Some (sort_for (type_of e) mb) /\
    forall rho, env_wf rho ->
      seval (smodel_of G rho) (ser e mb) = Some (sval_for (type_of e) mb (ebv rho e) (earr rho e)).
Proof.
  intros G e mb Hwt Hb Hs. split.
  - apply (ser_good G zero_env zero_env_wf e Hwt Hb Hs mb).
  - intros rho Hrho. apply (ser_good G rho Hrho e Hwt Hb Hs mb).
Qed.

(** what [name_ok] asks of a name, in terms of the standard's notions *)
Lemma name_ok_intro n :
  name_chars_ok n = true -> is_reserved n = false -> is_theory_name n = false ->
  is_solver_reserved n = false -> name_ok n = true.
Proof.
  intros Hc Hr Ht Hs. unfold SmtSer.name_ok. rewrite (escape_sound_lemma n Hc Hr), String.eqb_refl, Ht, Hs. reflexivity.
Qed.

(** the latent defect behind [built]: for a one-bit source even the intended output of a
    no-op slice (the child alone) is given the bit-vector-to-Bool conversion although the
    child already is a Bool *)
Lemma noop_slice_latent :
  exists G e, wt e = true /\ symbols_declared G e = true /\ built e = false /\ scheck G (ser e false) = None.
Proof.
  exists (upd empty_ctx "x" SoBool), (BVSlice (BVSymbol "x" 1) 0 0). destruct cv; vm_compute; repeat split.
Qed.

End CV.
