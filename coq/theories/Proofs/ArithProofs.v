(** * Proofs/ArithProofs.v — what [from_arith] builds for a binary node and what it denotes;
    soundness of the six rules of [create_rewrites]. *)
From Coq Require Import Lia ZArith.
From Patronus Require Import Arith BVLemmas ExprLemmas EvalProofs ArithLemmas.
Open Scope N_scope.

(** ** width terms *)

Inductive wterm : arith -> N -> Prop :=
| wterm_const w : w <= u32_max -> wterm (AWidth w) w
| wterm_maxp1 a b wa wb w :
    wterm a wa -> wterm b wb -> eval_width_max_plus_1 wa wb = Ok w -> wterm (AMaxP1 a b) w
| wterm_wlsh a b wa wb w :
    wterm a wa -> wterm b wb -> eval_width_left_shift wa wb = Ok w -> wterm (AWlsh a b) w.

Lemma checked32_ok x w : checked32 x = Ok w -> w = x /\ w <= u32_max.
Proof.
  unfold checked32. destruct (N.leb_spec x u32_max) as [Hle | Hgt]; intros H; inversion H; subst; auto.
Qed.

Lemma checked32_fits x : x <= u32_max -> checked32 x = Ok x.
Proof. intros H. unfold checked32. destruct (N.leb_spec x u32_max) as [Hle | Hgt]; [reflexivity | lia]. Qed.

Lemma wterm_le t w : wterm t w -> w <= u32_max.
Proof.
  induction 1 as [w H | a b wa wb w _ _ _ _ H | a b wa wb w _ _ _ _ H]; auto.
  - unfold eval_width_max_plus_1 in H. now apply checked32_ok in H.
  - unfold eval_width_left_shift in H. destruct (32 <=? wb).
    + inversion H. lia.
    + now apply checked32_ok in H.
Qed.

Lemma as_u32_small w : w <= u32_max -> as_u32 w = w.
Proof.
  intros H. unfold as_u32. apply N.mod_small. change (2 ^ 32) with 4294967296.
  unfold u32_max in H. lia.
Qed.

Lemma wterm_get_width t w : wterm t w -> get_width t = Ok w.
Proof.
  induction 1 as [w H | a b wa wb w _ IHa _ IHb H | a b wa wb w _ IHa _ IHb H];
    cbn [get_width]; [reflexivity | |]; rewrite IHa, IHb; cbn [bind]; exact H.
Qed.

Lemma wterm_from_arith t w : wterm t w -> forall ew, from_arith ew t = Ok (BVLiteral 32 w).
Proof.
  induction 1 as [w H | a b wa wb w Ha IHa Hb IHb H | a b wa wb w Ha IHa Hb IHb H]; intros ew;
    cbn [from_arith]; [reflexivity | |];
    rewrite IHa, IHb; cbn [bind get_u64];
    rewrite (as_u32_small wa (wterm_le _ _ Ha)), (as_u32_small wb (wterm_le _ _ Hb)), H;
    reflexivity.
Qed.

(** ** one binary node *)

Lemma extend_ok e W w s : type_of e = TBV w -> w <= W -> extend e W w s = Ok (ext_expr e W w s).
Proof.
  intros Ht Hle. unfold extend, ext_expr. rewrite Ht, N.eqb_refl. cbn [negb].
  destruct (N.ltb_spec W w); [lia|].
  destruct (N.eqb_spec W w); [reflexivity|].
  replace (w + (W - w)) with W by lia. destruct s; reflexivity.
Qed.

Lemma type_of_ext_expr e W w s : type_of e = TBV w -> type_of (ext_expr e W w s) = TBV W.
Proof.
  intros Ht. unfold ext_expr. destruct (N.eqb_spec W w); [subst; exact Ht|].
  destruct s; reflexivity.
Qed.

Lemma type_of_mk_op op a b w : type_of (mk_op op a b w) = TBV w.
Proof. destruct op; reflexivity. Qed.

Lemma patronus_bin_op_ok op wo wa sa ea wb sb eb :
  1 <= wo -> type_of ea = TBV wa -> type_of eb = TBV wb ->
  patronus_bin_op op wo wa sa ea wb sb eb = Ok (bin_expr op wo wa sa ea wb sb eb).
Proof.
  intros Hwo Hta Htb. unfold patronus_bin_op, bin_expr.
  set (W := N.max (N.max wa wb) wo).
  rewrite (extend_ok ea W wa sa Hta) by (unfold W; lia).
  rewrite (extend_ok eb W wb sb Htb) by (unfold W; lia).
  cbn [bind]. rewrite (type_of_ext_expr ea W wa sa Hta), (type_of_ext_expr eb W wb sb Htb).
  rewrite N.eqb_refl. cbn [negb].
  destruct (N.eqb_spec W wo); [reflexivity|].
  destruct (N.eqb_spec wo 0); [lia | reflexivity].
Qed.

Lemma b2n_sign s : negb (b2n s =? 0) = s.
Proof. destruct s; reflexivity. Qed.

(** [from_arith] on a binary node whose width positions are width terms and whose operands
    lower to expressions of the declared widths *)
Lemma from_arith_bin op two wo twa wa sa ta twb wb sb tb ea eb ew :
  wterm two wo -> wterm twa wa -> wterm twb wb -> 1 <= wo ->
  from_arith wa ta = Ok ea -> type_of ea = TBV wa ->
  from_arith wb tb = Ok eb -> type_of eb = TBV wb ->
  from_arith ew (ABin op two twa (ASign sa) ta twb (ASign sb) tb)
    = Ok (bin_expr op wo wa sa ea wb sb eb).
Proof.
  intros Hwo Hwa Hwb Hpos Hfa Hta Hfb Htb. cbn [from_arith].
  rewrite (wterm_get_width _ _ Hwa), (wterm_get_width _ _ Hwb). cbn [bind].
  rewrite Hfb, Hfa. cbn [bind].
  rewrite (wterm_from_arith _ _ Hwo), (wterm_from_arith _ _ Hwa), (wterm_from_arith _ _ Hwb).
  cbn [bind get_u64].
  rewrite (as_u32_small _ (wterm_le _ _ Hwo)), (as_u32_small _ (wterm_le _ _ Hwa)),
    (as_u32_small _ (wterm_le _ _ Hwb)), !b2n_sign.
  now apply patronus_bin_op_ok.
Qed.

Lemma type_of_bin_expr op wo wa sa ea wb sb eb : 1 <= wo ->
  type_of (bin_expr op wo wa sa ea wb sb eb) = TBV wo.
Proof.
  intros Hwo. unfold bin_expr. destruct (N.eqb_spec (N.max (N.max wa wb) wo) wo) as [He | Hne].
  - rewrite type_of_mk_op. now rewrite He.
  - cbn [type_of]. f_equal. lia.
Qed.

Lemma wt_ext_expr e W w s : wt e = true -> type_of e = TBV w -> 1 <= w -> w <= W ->
  wt (ext_expr e W w s) = true.
Proof.
  intros Hwt Ht Hw Hle. unfold ext_expr. destruct (N.eqb_spec W w); [exact Hwt|].
  assert (Hsub : W - (W - w) = w) by lia.
  assert (Hlt : (W - w <? W) = true) by (apply N.ltb_lt; lia).
  destruct s; cbn [wt]; unfold node_ok; cbn [check1 leaf_ok]; rewrite Ht, Hsub; cbn [expect_bv_of];
    rewrite N.eqb_refl; cbn [bind_ty is_some]; rewrite Hlt, Hwt; reflexivity.
Qed.

Lemma wt_mk_op op a b w : wt a = true -> wt b = true -> type_of a = TBV w -> type_of b = TBV w ->
  wt (mk_op op a b w) = true.
Proof.
  intros Ha Hb Hta Htb.
  destruct op; cbn [mk_op wt]; unfold node_ok; cbn [check1 leaf_ok];
    unfold expect_same_width_bvs_of, expect_same_width_bvs; rewrite Hta, Htb, N.eqb_refl;
    cbn [expect_bv_of]; rewrite N.eqb_refl; cbn [is_some]; rewrite Ha, Hb; reflexivity.
Qed.

Lemma wt_bin_expr op wo wa sa ea wb sb eb :
  1 <= wo -> 1 <= wa -> 1 <= wb -> wt ea = true -> wt eb = true ->
  type_of ea = TBV wa -> type_of eb = TBV wb ->
  wt (bin_expr op wo wa sa ea wb sb eb) = true.
Proof.
  intros Hwo Hwa Hwb Ha Hb Hta Htb. unfold bin_expr.
  set (W := N.max (N.max wa wb) wo).
  assert (Hop : wt (mk_op op (ext_expr ea W wa sa) (ext_expr eb W wb sb) W) = true).
  { apply wt_mk_op; try (apply wt_ext_expr; auto; unfold W; lia); now apply type_of_ext_expr. }
  destruct (N.eqb_spec W wo) as [He | Hne]; [exact Hop|].
  cbn [wt]; unfold node_ok; cbn [check1 leaf_ok]. rewrite type_of_mk_op, Hop.
  destruct (N.leb_spec W (wo - 1)); [unfold W in *; lia|].
  destruct (N.ltb_spec (wo - 1) 0); [lia | reflexivity].
Qed.

Lemma ebv_ext_expr rho e W w s : type_of e = TBV w -> ebv rho e < 2 ^ w ->
  ebv rho (ext_expr e W w s) = extv s w W (ebv rho e).
Proof.
  intros Ht Hb. unfold ext_expr. destruct (N.eqb_spec W w) as [He | Hne].
  - subst. now rewrite extv_same.
  - destruct s; cbn [ebv extv]; [|reflexivity]. unfold width. now rewrite Ht.
Qed.

Lemma ebv_mk_op rho op a b w : ebv rho (mk_op op a b w) = op_val op w (ebv rho a) (ebv rho b).
Proof. destruct op; reflexivity. Qed.

Lemma op_val_bound op W x y : x < 2 ^ W -> op_val op W x y < 2 ^ W.
Proof.
  intros Hx. destruct op; cbn [op_val];
    auto using bv_add_bound, bv_sub_bound, bv_mul_bound, bv_shl_bound, bv_lshr_bound, bv_ashr_bound.
Qed.

(** the value of what [from_arith] builds is [den_bin] of the operand values *)
Lemma ebv_bin_expr rho op wo wa sa ea wb sb eb :
  1 <= wo -> type_of ea = TBV wa -> type_of eb = TBV wb ->
  ebv rho ea < 2 ^ wa -> ebv rho eb < 2 ^ wb ->
  ebv rho (bin_expr op wo wa sa ea wb sb eb) = den_bin op wo wa sa (ebv rho ea) wb sb (ebv rho eb).
Proof.
  intros Hwo Hta Htb Hba Hbb. unfold bin_expr, den_bin.
  set (W := N.max (N.max wa wb) wo).
  assert (Hv : ebv rho (mk_op op (ext_expr ea W wa sa) (ext_expr eb W wb sb) W)
               = op_val op W (extv sa wa W (ebv rho ea)) (extv sb wb W (ebv rho eb))).
  { now rewrite ebv_mk_op, !ebv_ext_expr. }
  destruct (N.eqb_spec W wo) as [He | Hne].
  - rewrite Hv. unfold trunc. rewrite <- He. symmetry. apply N.mod_small.
    apply op_val_bound. apply extv_bound; [unfold W; lia | exact Hba].
  - cbn [ebv]. rewrite Hv. unfold bv_slice, trunc.
    rewrite N.pow_0_r, N.div_1_r. f_equal. f_equal. lia.
Qed.

(** ** rule soundness *)


Lemma operand_symbol w n : 1 <= w -> operand_ok w (ASymbol n).
Proof.
  intros Hw. exists (BVSymbol n w). cbn [from_arith]. destruct (N.eqb_spec w 0); [lia|].
  repeat split. cbn [wt]. unfold node_ok. cbn [check1 leaf_ok is_some andb].
  rewrite andb_true_r. apply N.ltb_lt. lia.
Qed.

Lemma wterm_width w : width_ok w -> wterm (AWidth w) w.
Proof. intros [_ H]. now constructor. Qed.

(** the common skeleton: a node over two lowered operands *)
Lemma node_ok_lowered op two wo twa wa sa ta twb wb sb tb ea eb ew :
  wterm two wo -> wterm twa wa -> wterm twb wb -> 1 <= wo -> 1 <= wa -> 1 <= wb ->
  from_arith wa ta = Ok ea -> type_of ea = TBV wa -> wt ea = true ->
  from_arith wb tb = Ok eb -> type_of eb = TBV wb -> wt eb = true ->
  let e := bin_expr op wo wa sa ea wb sb eb in
  from_arith ew (ABin op two twa (ASign sa) ta twb (ASign sb) tb) = Ok e /\
  type_of e = TBV wo /\ wt e = true /\
  forall rho, env_wf rho ->
    ebv rho e = den_bin op wo wa sa (ebv rho ea) wb sb (ebv rho eb) /\ ebv rho e < 2 ^ wo.
Proof.
  intros Hwo Hwa Hwb Ho Ha Hb Hfa Hta Hwta Hfb Htb Hwtb e. subst e.
  split; [now apply from_arith_bin|]. split; [now apply type_of_bin_expr|].
  split; [now apply wt_bin_expr|]. intros rho Hrho.
  assert (Hba : ebv rho ea < 2 ^ wa) by now apply ebv_bound.
  assert (Hbb : ebv rho eb < 2 ^ wb) by now apply ebv_bound.
  split; [now apply ebv_bin_expr|]. rewrite ebv_bin_expr by assumption. apply den_bin_bound.
Qed.

(** ** the rules, instantiated *)

Local Open Scope string_scope.

Lemma inst_commute_add wo wa wb sa sb ta tb :
  let sigma := subst_of (asg_commute wo wa wb sa sb) (ops2 ta tb) in
  inst sigma (r_lhs rule_commute_add)
    = ABin OAdd (AWidth wo) (AWidth wa) (ASign sa) ta (AWidth wb) (ASign sb) tb /\
  inst sigma (r_rhs rule_commute_add)
    = ABin OAdd (AWidth wo) (AWidth wb) (ASign sb) tb (AWidth wa) (ASign sa) ta.
Proof. destruct sa, sb; split; reflexivity. Qed.

Lemma inst_commute_mul wo wa wb sa sb ta tb :
  let sigma := subst_of (asg_commute wo wa wb sa sb) (ops2 ta tb) in
  inst sigma (r_lhs rule_commute_mul)
    = ABin OMul (AWidth wo) (AWidth wa) (ASign sa) ta (AWidth wb) (ASign sb) tb /\
  inst sigma (r_rhs rule_commute_mul)
    = ABin OMul (AWidth wo) (AWidth wb) (ASign sb) tb (AWidth wa) (ASign sa) ta.
Proof. destruct sa, sb; split; reflexivity. Qed.

Lemma inst_mult_to_add wo wa wb sa sb ta :
  let sigma := subst_of (asg_commute wo wa wb sa sb) (ops1 ta) in
  inst sigma (r_lhs rule_mult_to_add)
    = ABin OMul (AWidth wo) (AWidth wa) (ASign sa) ta (AWidth wb) (ASign sb) (AConst 2) /\
  inst sigma (r_rhs rule_mult_to_add)
    = ABin OAdd (AWidth wo) (AWidth wa) (ASign sa) ta (AWidth wa) (ASign sa) ta.
Proof. destruct sa, sb; split; reflexivity. Qed.

Lemma inst_merge wo wab wa wb wc sa ta tb tc :
  let sigma := subst_of (asg_merge wo wab wa wb wc sa) (ops3 ta tb tc) in
  inst sigma (r_lhs rule_merge_left_shift)
    = ABin OShl (AWidth wo) (AWidth wab) (ASign sa)
        (ABin OShl (AWidth wab) (AWidth wa) (ASign sa) ta (AWidth wb) (ASign false) tb)
        (AWidth wc) (ASign false) tc /\
  inst sigma (r_rhs rule_merge_left_shift)
    = ABin OShl (AWidth wo) (AWidth wa) (ASign sa) ta
        (AMaxP1 (AWidth wb) (AWidth wc)) (ASign false)
        (ABin OAdd (AMaxP1 (AWidth wb) (AWidth wc)) (AWidth wb) (ASign false) tb (AWidth wc) (ASign false) tc).
Proof. destruct sa; split; reflexivity. Qed.

Lemma inst_unmerge wo wa wbc wb wc sa ta tb tc :
  let sigma := subst_of (asg_unmerge wo wa wbc wb wc sa) (ops3 ta tb tc) in
  inst sigma (r_lhs rule_unmerge_left_shift)
    = ABin OShl (AWidth wo) (AWidth wa) (ASign sa) ta (AWidth wbc) (ASign false)
        (ABin OAdd (AWidth wbc) (AWidth wb) (ASign false) tb (AWidth wc) (ASign false) tc) /\
  inst sigma (r_rhs rule_unmerge_left_shift)
    = ABin OShl (AWidth wo) (AWlsh (AWidth wa) (AWidth wb)) (ASign sa)
        (ABin OShl (AWlsh (AWidth wa) (AWidth wb)) (AWidth wa) (ASign sa) ta (AWidth wb) (ASign false) tb)
        (AWidth wc) (ASign false) tc.
Proof. destruct sa; split; reflexivity. Qed.

Lemma inst_lsm wo wab wa wb wc ta tb tc :
  let sigma := subst_of (asg_lsm wo wab wa wb wc) (ops3 ta tb tc) in
  inst sigma (r_lhs rule_left_shift_mult)
    = ABin OShl (AWidth wo) (AWidth wab) (ASign false)
        (ABin OMul (AWidth wab) (AWidth wa) (ASign false) ta (AWidth wb) (ASign false) tb)
        (AWidth wc) (ASign false) tc /\
  inst sigma (r_rhs rule_left_shift_mult)
    = ABin OMul (AWidth wo) (AWlsh (AWidth wa) (AWidth wc)) (ASign false)
        (ABin OShl (AWlsh (AWidth wa) (AWidth wc)) (AWidth wa) (ASign false) ta (AWidth wc) (ASign false) tc)
        (AWidth wb) (ASign false) tb.
Proof. split; reflexivity. Qed.

(** the side conditions, as arithmetic *)

Lemma cond_merge wo wab wa wb wc sa :
  eval_condition rule_merge_left_shift (asg_merge wo wab wa wb wc sa) = Ok true -> (wo <= wab)%N.
Proof.
  cbv [eval_condition r_cond r_cond_vars rule_merge_left_shift asg_merge lookup_all lookup
       String.eqb Ascii.eqb Bool.eqb bind nth_w nth_error].
  intros H. injection H as H1. now apply N.leb_le.
Qed.

Lemma cond_unmerge wo wa wbc wb wc sa :
  eval_condition rule_unmerge_left_shift (asg_unmerge wo wa wbc wb wc sa) = Ok true ->
  (N.max wb wc + 1 <= wbc)%N.
Proof.
  cbv [eval_condition r_cond r_cond_vars rule_unmerge_left_shift asg_unmerge lookup_all lookup
       String.eqb Ascii.eqb Bool.eqb bind nth_w nth_error].
  intros H. destruct (checked32 (N.max wb wc + 1)) as [m|] eqn:Hm; [|discriminate].
  apply checked32_ok in Hm. destruct Hm as [Hm _]. injection H as H1. apply N.leb_le in H1. lia.
Qed.

Lemma cond_mult_to_add wo wa wb sa sb :
  eval_condition rule_mult_to_add (asg_commute wo wa wb sa sb) = Ok true ->
  (sb = false /\ 1 < wb)%N \/ (sb = true /\ 2 < wb)%N \/ (wo <= wb)%N.
Proof.
  cbv [eval_condition r_cond r_cond_vars rule_mult_to_add asg_commute lookup_all lookup
       String.eqb Ascii.eqb Bool.eqb bind nth_w nth_error].
  intros H. injection H as H1.
  apply orb_true_iff in H1. destruct H1 as [H1 | H1]; [apply orb_true_iff in H1; destruct H1 as [H1 | H1]|].
  - apply andb_true_iff in H1. destruct H1 as [Hs Hw]. left. apply N.ltb_lt in Hw.
    destruct sb; cbn in Hs; [discriminate | split; [reflexivity | exact Hw]].
  - apply andb_true_iff in H1. destruct H1 as [Hs Hw]. right; left. apply N.ltb_lt in Hw.
    destruct sb; cbn in Hs; [split; [reflexivity | exact Hw] | discriminate].
  - right; right. now apply N.leb_le.
Qed.

Lemma cond_lsm wo wab wa wb wc :
  eval_condition rule_left_shift_mult (asg_lsm wo wab wa wb wc) = Ok true ->
  (wa + wb <= wab)%N /\ exists l, eval_width_left_shift wab wc = Ok l /\ (l <= wo)%N.
Proof.
  cbv [eval_condition r_cond r_cond_vars rule_left_shift_mult asg_lsm lookup_all lookup
       String.eqb Ascii.eqb Bool.eqb bind nth_w nth_error mul_no_ov lsh_no_ov].
  intros H. destruct (checked32 (wa + wb)) as [s|] eqn:Hs; [|discriminate].
  apply checked32_ok in Hs. destruct Hs as [Hs _]. subst s.
  destruct (N.leb_spec (wa + wb) wab) as [Hle | Hgt]; [|discriminate].
  split; [exact Hle|].
  destruct (eval_width_left_shift wab wc) as [l|]; [|discriminate].
  exists l. split; [reflexivity|]. injection H as H1. now apply N.leb_le.
Qed.

Local Close Scope string_scope.

(** ** soundness *)

Lemma same_value_intro wo l r el er :
  from_arith 0 l = Ok el -> from_arith 0 r = Ok er -> wt el = true -> wt er = true ->
  type_of el = TBV wo -> type_of er = TBV wo ->
  (forall rho, env_wf rho -> cong wo (Z.of_N (ebv rho el)) (Z.of_N (ebv rho er))) ->
  same_value wo l r.
Proof.
  intros Hl Hr Hwl Hwr Htl Htr Hc. exists el, er. repeat split; auto.
  intros rho Hrho. apply (cong_eq wo); auto using ebv_bound.
Qed.

Section TwoOperands.
  Variables (wo wa wb : N) (sa sb : bool) (ta tb : arith).
  Hypothesis Hwo : width_ok wo.
  Hypothesis Hwa : width_ok wa.
  Hypothesis Hwb : width_ok wb.
  Hypothesis Hta : operand_ok wa ta.
  Hypothesis Htb : operand_ok wb tb.

  Lemma commute_add_sound_lemma :
    same_value wo (ABin OAdd (AWidth wo) (AWidth wa) (ASign sa) ta (AWidth wb) (ASign sb) tb)
                  (ABin OAdd (AWidth wo) (AWidth wb) (ASign sb) tb (AWidth wa) (ASign sa) ta).
  Proof.
    destruct Hta as (ea & Hfa & Htya & Hwta). destruct Htb as (eb & Hfb & Htyb & Hwtb).
    destruct Hwo as [Ho1 Ho2], Hwa as [Ha1 Ha2], Hwb as [Hb1 Hb2].
    destruct (node_ok_lowered OAdd (AWidth wo) wo (AWidth wa) wa sa ta (AWidth wb) wb sb tb ea eb 0)
      as (Hl & Htl & Hwl & Hvl); auto using wterm_const.
    destruct (node_ok_lowered OAdd (AWidth wo) wo (AWidth wb) wb sb tb (AWidth wa) wa sa ta eb ea 0)
      as (Hr & Htr & Hwr & Hvr); auto using wterm_const.
    eapply same_value_intro; eauto. intros rho Hrho.
    destruct (Hvl rho Hrho) as [El _]. destruct (Hvr rho Hrho) as [Er _]. rewrite El, Er.
    assert (Hba : ebv rho ea < 2 ^ wa) by now apply ebv_bound.
    assert (Hbb : ebv rho eb < 2 ^ wb) by now apply ebv_bound.
    eapply cong_trans; [now apply den_bin_add|].
    apply cong_sym. eapply cong_trans; [now apply den_bin_add|].
    rewrite Z.add_comm. apply cong_refl.
  Qed.

  Lemma commute_mul_sound_lemma :
    same_value wo (ABin OMul (AWidth wo) (AWidth wa) (ASign sa) ta (AWidth wb) (ASign sb) tb)
                  (ABin OMul (AWidth wo) (AWidth wb) (ASign sb) tb (AWidth wa) (ASign sa) ta).
  Proof.
    destruct Hta as (ea & Hfa & Htya & Hwta). destruct Htb as (eb & Hfb & Htyb & Hwtb).
    destruct Hwo as [Ho1 Ho2], Hwa as [Ha1 Ha2], Hwb as [Hb1 Hb2].
    destruct (node_ok_lowered OMul (AWidth wo) wo (AWidth wa) wa sa ta (AWidth wb) wb sb tb ea eb 0)
      as (Hl & Htl & Hwl & Hvl); auto using wterm_const.
    destruct (node_ok_lowered OMul (AWidth wo) wo (AWidth wb) wb sb tb (AWidth wa) wa sa ta eb ea 0)
      as (Hr & Htr & Hwr & Hvr); auto using wterm_const.
    eapply same_value_intro; eauto. intros rho Hrho.
    destruct (Hvl rho Hrho) as [El _]. destruct (Hvr rho Hrho) as [Er _]. rewrite El, Er.
    assert (Hba : ebv rho ea < 2 ^ wa) by now apply ebv_bound.
    assert (Hbb : ebv rho eb < 2 ^ wb) by now apply ebv_bound.
    eapply cong_trans; [now apply den_bin_mul|].
    apply cong_sym. eapply cong_trans; [now apply den_bin_mul|].
    rewrite Z.mul_comm. apply cong_refl.
  Qed.
End TwoOperands.

(** the constant 2 at width [wb] *)
Definition two_at (wb : N) : N := if wb <? 64 then 2 mod 2 ^ wb else 2.

Lemma two_at_bound wb : 1 <= wb -> two_at wb < 2 ^ wb.
Proof.
  intros H. unfold two_at. destruct (N.ltb_spec wb 64) as [Hlt | Hge]; [apply mod_bound|].
  apply N.lt_le_trans with (2 ^ 64); [reflexivity | now apply pow2_le_mono; lia].
Qed.

Lemma two_at_cong wb : cong wb (Z.of_N (two_at wb)) 2.
Proof.
  unfold two_at. destruct (wb <? 64); [|apply cong_refl].
  rewrite of_N_mod. apply cong_mod. lia.
Qed.

Lemma operand_two wb : 1 <= wb ->
  from_arith wb (AConst 2) = Ok (BVLiteral wb (two_at wb)) /\ wt (BVLiteral wb (two_at wb)) = true.
Proof.
  intros H. cbn [from_arith]. destruct (N.eqb_spec wb 0); [lia|]. split; [reflexivity|].
  cbn [wt]. unfold node_ok. cbn [check1 leaf_ok is_some andb].
  rewrite andb_true_r. apply andb_true_iff. split; apply N.ltb_lt; [lia | now apply two_at_bound].
Qed.

Lemma P_2 : P 2 = 4%Z. Proof. reflexivity. Qed.
Lemma P_1 : P 1 = 2%Z. Proof. reflexivity. Qed.

Lemma mult_to_add_sound_lemma wo wa wb sa sb ta :
  width_ok wo -> width_ok wa -> width_ok wb -> operand_ok wa ta ->
  ((sb = false /\ 1 < wb) \/ (sb = true /\ 2 < wb) \/ wo <= wb) ->
  same_value wo (ABin OMul (AWidth wo) (AWidth wa) (ASign sa) ta (AWidth wb) (ASign sb) (AConst 2))
                (ABin OAdd (AWidth wo) (AWidth wa) (ASign sa) ta (AWidth wa) (ASign sa) ta).
Proof.
  intros [Ho1 Ho2] [Ha1 Ha2] [Hb1 Hb2] (ea & Hfa & Htya & Hwta) Hcond.
  destruct (operand_two wb Hb1) as [Hf2 Hwt2].
  destruct (node_ok_lowered OMul (AWidth wo) wo (AWidth wa) wa sa ta (AWidth wb) wb sb (AConst 2)
              ea (BVLiteral wb (two_at wb)) 0)
    as (Hl & Htl & Hwl & Hvl); auto using wterm_const.
  destruct (node_ok_lowered OAdd (AWidth wo) wo (AWidth wa) wa sa ta (AWidth wa) wa sa ta ea ea 0)
    as (Hr & Htr & Hwr & Hvr); auto using wterm_const.
  eapply same_value_intro; eauto. intros rho Hrho.
  destruct (Hvl rho Hrho) as [El _]. destruct (Hvr rho Hrho) as [Er _]. rewrite El, Er.
  assert (Hba : ebv rho ea < 2 ^ wa) by now apply ebv_bound.
  pose proof (two_at_bound wb Hb1) as Hb2'.
  cbn [ebv].
  eapply cong_trans; [now apply den_bin_mul|].
  apply cong_sym. eapply cong_trans; [now apply den_bin_add|]. apply cong_sym.
  set (A := sval sa wa (ebv rho ea)).
  replace (A + A)%Z with (A * 2)%Z by lia.
  apply cong_mul; [apply cong_refl|].
  (* the constant reads as 2 modulo 2^wo *)
  destruct Hcond as [[Hs Hw] | [[Hs Hw] | Hle]].
  - subst sb. replace (sval false wb (two_at wb)) with 2%Z; [apply cong_refl|]. symmetry.
    apply (sval_unique false wb); auto using two_at_cong.
    pose proof (P_le 2 wb ltac:(lia)) as Hp. rewrite P_2 in Hp. lia.
  - subst sb. replace (sval true wb (two_at wb)) with 2%Z; [apply cong_refl|]. symmetry.
    apply (sval_unique true wb); auto using two_at_cong.
    pose proof (P_le 2 (wb - 1) ltac:(lia)) as Hp. rewrite P_2 in Hp. lia.
  - apply cong_weaken with wb; auto.
    eapply cong_trans; [apply sval_cong | apply two_at_cong].
Qed.

(** an addition wide enough not to wrap is exact *)
Lemma add_exact m wb wc y z : N.max wb wc + 1 <= m -> y < 2 ^ wb -> z < 2 ^ wc -> y + z < 2 ^ m.
Proof.
  intros Hm Hy Hz.
  assert (H1 : 2 ^ wb <= 2 ^ (m - 1)) by (apply pow2_le_mono; lia).
  assert (H2 : 2 ^ wc <= 2 ^ (m - 1)) by (apply pow2_le_mono; lia).
  rewrite (pow2_split m) by lia. lia.
Qed.

Lemma den_add_exact m wb wc y z : 1 <= wb -> 1 <= wc -> N.max wb wc + 1 <= m ->
  y < 2 ^ wb -> z < 2 ^ wc -> den_bin OAdd m wb false y wc false z = y + z.
Proof.
  intros Hb Hc Hm Hy Hz. apply (cong_eq m).
  - apply den_bin_bound.
  - now apply add_exact with wb wc.
  - eapply cong_trans; [now apply den_bin_add|]. cbn [sval]. rewrite N2Z.inj_add. apply cong_refl.
Qed.

(** [(a << b) << c  =>  a << (b + c)] *)
Lemma merge_left_shift_sound_lemma wo wab wa wb wc sa ta tb tc :
  width_ok wo -> width_ok wab -> width_ok wa -> width_ok wb -> width_ok wc ->
  N.max wb wc + 1 <= u32_max ->
  operand_ok wa ta -> operand_ok wb tb -> operand_ok wc tc ->
  wo <= wab ->
  same_value wo
    (ABin OShl (AWidth wo) (AWidth wab) (ASign sa)
       (ABin OShl (AWidth wab) (AWidth wa) (ASign sa) ta (AWidth wb) (ASign false) tb)
       (AWidth wc) (ASign false) tc)
    (ABin OShl (AWidth wo) (AWidth wa) (ASign sa) ta
       (AMaxP1 (AWidth wb) (AWidth wc)) (ASign false)
       (ABin OAdd (AMaxP1 (AWidth wb) (AWidth wc)) (AWidth wb) (ASign false) tb (AWidth wc) (ASign false) tc)).
Proof.
  intros [Ho1 Ho2] [Hab1 Hab2] [Ha1 Ha2] [Hb1 Hb2] [Hc1 Hc2] Hm
    (ea & Hfa & Htya & Hwta) (eb & Hfb & Htyb & Hwtb) (ec & Hfc & Htyc & Hwtc) Hcond.
  set (m := N.max wb wc + 1).
  assert (Hwm : wterm (AMaxP1 (AWidth wb) (AWidth wc)) m).
  { apply wterm_maxp1 with wb wc; auto using wterm_const. unfold eval_width_max_plus_1.
    now apply checked32_fits. }
  (* lhs: inner, outer *)
  destruct (node_ok_lowered OShl (AWidth wab) wab (AWidth wa) wa sa ta (AWidth wb) wb false tb ea eb wab)
    as (Hli & Htli & Hwli & Hvli); auto using wterm_const.
  set (ei := bin_expr OShl wab wa sa ea wb false eb) in *.
  destruct (node_ok_lowered OShl (AWidth wo) wo (AWidth wab) wab sa
              (ABin OShl (AWidth wab) (AWidth wa) (ASign sa) ta (AWidth wb) (ASign false) tb)
              (AWidth wc) wc false tc ei ec 0)
    as (Hl & Htl & Hwl & Hvl); auto using wterm_const.
  (* rhs: sum, outer *)
  destruct (node_ok_lowered OAdd (AMaxP1 (AWidth wb) (AWidth wc)) m (AWidth wb) wb false tb (AWidth wc) wc false tc eb ec m)
    as (Hrs & Htrs & Hwrs & Hvrs); auto using wterm_const; [unfold m; lia|].
  set (es := bin_expr OAdd m wb false eb wc false ec) in *.
  destruct (node_ok_lowered OShl (AWidth wo) wo (AWidth wa) wa sa ta (AMaxP1 (AWidth wb) (AWidth wc)) m false
              (ABin OAdd (AMaxP1 (AWidth wb) (AWidth wc)) (AWidth wb) (ASign false) tb (AWidth wc) (ASign false) tc)
              ea es 0)
    as (Hr & Htr & Hwr & Hvr); auto using wterm_const; [unfold m; lia|].
  eapply same_value_intro; eauto. intros rho Hrho.
  destruct (Hvli rho Hrho) as [Eli Bli]. destruct (Hvl rho Hrho) as [El _].
  destruct (Hvrs rho Hrho) as [Ers Brs]. destruct (Hvr rho Hrho) as [Er _].
  assert (Hba : ebv rho ea < 2 ^ wa) by now apply ebv_bound.
  assert (Hbb : ebv rho eb < 2 ^ wb) by now apply ebv_bound.
  assert (Hbc : ebv rho ec < 2 ^ wc) by now apply ebv_bound.
  set (x := ebv rho ea) in *. set (y := ebv rho eb) in *. set (z := ebv rho ec) in *.
  rewrite El, Er.
  (* lhs = A * 2^y * 2^z *)
  eapply cong_trans; [now apply den_bin_shl|].
  apply cong_trans with (sval sa wa x * P y * P z)%Z.
  { apply cong_mul; [|apply cong_refl].
    apply cong_weaken with wab; auto.
    eapply cong_trans; [apply sval_cong|]. rewrite Eli. now apply den_bin_shl. }
  (* rhs = A * 2^(y+z) *)
  apply cong_sym. eapply cong_trans; [now apply den_bin_shl; auto; unfold m; lia|].
  rewrite Ers, den_add_exact by (auto; unfold m; lia).
  rewrite P_add, Z.mul_assoc. apply cong_refl.
Qed.

(** the intermediate width chosen by [wlsh] loses no bits of [a << b] *)
Lemma wlsh_value wa wb w : eval_width_left_shift wa wb = Ok w ->
  w <= u32_max /\ ((32 <= wb /\ w = u32_max) \/ (wb < 32 /\ w = wa + (2 ^ wb - 1))).
Proof.
  unfold eval_width_left_shift. destruct (N.leb_spec 32 wb) as [Hge | Hlt]; intros H.
  - injection H as H. subst. split; [lia | left; auto].
  - apply checked32_ok in H. destruct H as [H1 H2]. split; [exact H2 | right; auto].
Qed.

Lemma P_pos' w : (1 <= P w)%Z.
Proof. pose proof (P_pos w). lia. Qed.

(** [sval s wab I = A * 2^y] when the shifted value fits [wab = wa + 2^wb - 1] bits *)
Lemma shifted_fits (s : bool) wa wb wab x y I :
  1 <= wa -> x < 2 ^ wa -> y < 2 ^ wb -> wab = wa + (2 ^ wb - 1) -> I < 2 ^ wab ->
  cong wab (Z.of_N I) (sval s wa x * P y) -> sval s wab I = (sval s wa x * P y)%Z.
Proof.
  intros Ha Hx Hy Hwab HI Hc.
  assert (Hy' : y <= 2 ^ wb - 1) by lia.
  pose proof (P_le y (2 ^ wb - 1) Hy') as Hpy. pose proof (P_pos y) as Hpy0.
  apply sval_unique; auto; [lia|].
  pose proof (sval_range s wa x Ha Hx) as Hr.
  destruct s.
  - replace (wab - 1) with ((wa - 1) + (2 ^ wb - 1)) by lia. rewrite P_add.
    pose proof (P_pos (wa - 1)) as Hp1. nia.
  - rewrite Hwab, P_add. pose proof (P_pos wa) as Hp1. nia.
Qed.

(** [a << (b + c)  =>  (a << b) << c] *)
Lemma unmerge_left_shift_sound_lemma wo wa wbc wb wc sa ta tb tc wab :
  width_ok wo -> width_ok wa -> width_ok wbc -> width_ok wb -> width_ok wc ->
  eval_width_left_shift wa wb = Ok wab ->
  operand_ok wa ta -> operand_ok wb tb -> operand_ok wc tc ->
  N.max wb wc + 1 <= wbc ->
  same_value wo
    (ABin OShl (AWidth wo) (AWidth wa) (ASign sa) ta (AWidth wbc) (ASign false)
       (ABin OAdd (AWidth wbc) (AWidth wb) (ASign false) tb (AWidth wc) (ASign false) tc))
    (ABin OShl (AWidth wo) (AWlsh (AWidth wa) (AWidth wb)) (ASign sa)
       (ABin OShl (AWlsh (AWidth wa) (AWidth wb)) (AWidth wa) (ASign sa) ta (AWidth wb) (ASign false) tb)
       (AWidth wc) (ASign false) tc).
Proof.
  intros [Ho1 Ho2] [Ha1 Ha2] [Hbc1 Hbc2] [Hb1 Hb2] [Hc1 Hc2] Hwl
    (ea & Hfa & Htya & Hwta) (eb & Hfb & Htyb & Hwtb) (ec & Hfc & Htyc & Hwtc) Hcond.
  destruct (wlsh_value wa wb wab Hwl) as [Hab2 Hcases].
  assert (Hab1 : 1 <= wab) by (unfold u32_max in *; pose proof (pow2_pos wb); lia).
  assert (Hww : wterm (AWlsh (AWidth wa) (AWidth wb)) wab).
  { apply wterm_wlsh with wa wb; auto using wterm_const. }
  (* lhs: sum, outer *)
  destruct (node_ok_lowered OAdd (AWidth wbc) wbc (AWidth wb) wb false tb (AWidth wc) wc false tc eb ec wbc)
    as (Hls & Htls & Hwls & Hvls); auto using wterm_const.
  set (es := bin_expr OAdd wbc wb false eb wc false ec) in *.
  destruct (node_ok_lowered OShl (AWidth wo) wo (AWidth wa) wa sa ta (AWidth wbc) wbc false
              (ABin OAdd (AWidth wbc) (AWidth wb) (ASign false) tb (AWidth wc) (ASign false) tc) ea es 0)
    as (Hl & Htl & Hwl' & Hvl); auto using wterm_const.
  (* rhs: inner, outer *)
  destruct (node_ok_lowered OShl (AWlsh (AWidth wa) (AWidth wb)) wab (AWidth wa) wa sa ta (AWidth wb) wb false tb ea eb wab)
    as (Hri & Htri & Hwri & Hvri); auto using wterm_const.
  set (ei := bin_expr OShl wab wa sa ea wb false eb) in *.
  destruct (node_ok_lowered OShl (AWidth wo) wo (AWlsh (AWidth wa) (AWidth wb)) wab sa
              (ABin OShl (AWlsh (AWidth wa) (AWidth wb)) (AWidth wa) (ASign sa) ta (AWidth wb) (ASign false) tb)
              (AWidth wc) wc false tc ei ec 0)
    as (Hr & Htr & Hwr & Hvr); auto using wterm_const.
  eapply same_value_intro; eauto. intros rho Hrho.
  destruct (Hvls rho Hrho) as [Els Bls]. destruct (Hvl rho Hrho) as [El _].
  destruct (Hvri rho Hrho) as [Eri Bri]. destruct (Hvr rho Hrho) as [Er _].
  assert (Hba : ebv rho ea < 2 ^ wa) by now apply ebv_bound.
  assert (Hbb : ebv rho eb < 2 ^ wb) by now apply ebv_bound.
  assert (Hbc : ebv rho ec < 2 ^ wc) by now apply ebv_bound.
  set (x := ebv rho ea) in *. set (y := ebv rho eb) in *. set (z := ebv rho ec) in *.
  rewrite El, Er.
  (* lhs = A * 2^(y+z) *)
  eapply cong_trans; [now apply den_bin_shl|].
  rewrite Els, den_add_exact by auto. rewrite P_add, Z.mul_assoc.
  (* rhs = (A * 2^y) * 2^z *)
  apply cong_sym. eapply cong_trans; [now apply den_bin_shl|].
  apply cong_mul; [|apply cong_refl].
  assert (Hci : cong wab (Z.of_N (ebv rho ei)) (sval sa wa x * P y)).
  { rewrite Eri. now apply den_bin_shl. }
  destruct (N.le_gt_cases wo wab) as [Hle | Hgt].
  - apply cong_weaken with wab; auto. eapply cong_trans; [apply sval_cong | exact Hci].
  - destruct Hcases as [[_ Hmax] | [Hlt Hval]]; [lia|].
    rewrite (shifted_fits sa wa wb wab x y (ebv rho ei)); auto. apply cong_refl.
Qed.

(** [(a * b) << c  =>  (a << c) * b], all unsigned *)
Lemma left_shift_mult_sound_lemma wo wab wa wb wc ta tb tc :
  width_ok wo -> width_ok wab -> width_ok wa -> width_ok wb -> width_ok wc ->
  operand_ok wa ta -> operand_ok wb tb -> operand_ok wc tc ->
  wa + wb <= wab -> (exists l, eval_width_left_shift wab wc = Ok l /\ l <= wo) ->
  same_value wo
    (ABin OShl (AWidth wo) (AWidth wab) (ASign false)
       (ABin OMul (AWidth wab) (AWidth wa) (ASign false) ta (AWidth wb) (ASign false) tb)
       (AWidth wc) (ASign false) tc)
    (ABin OMul (AWidth wo) (AWlsh (AWidth wa) (AWidth wc)) (ASign false)
       (ABin OShl (AWlsh (AWidth wa) (AWidth wc)) (AWidth wa) (ASign false) ta (AWidth wc) (ASign false) tc)
       (AWidth wb) (ASign false) tb).
Proof.
  intros [Ho1 Ho2] [Hab1 Hab2] [Ha1 Ha2] [Hb1 Hb2] [Hc1 Hc2]
    (ea & Hfa & Htya & Hwta) (eb & Hfb & Htyb & Hwtb) (ec & Hfc & Htyc & Hwtc) Hmul (l & Hl & Hlo).
  (* the width of the right-hand side's intermediate shift exists *)
  assert (Hwac : exists wac, eval_width_left_shift wa wc = Ok wac).
  { destruct (wlsh_value wab wc l Hl) as [Hl2 [[Hge _] | [Hlt Hval]]];
      unfold eval_width_left_shift; destruct (N.leb_spec 32 wc); try lia; eauto.
    exists (wa + (2 ^ wc - 1)). apply checked32_fits. lia. }
  destruct Hwac as [wac Hwac].
  destruct (wlsh_value wa wc wac Hwac) as [Hac2 Hcases].
  assert (Hac1 : 1 <= wac) by (unfold u32_max in *; pose proof (pow2_pos wc); lia).
  assert (Hww : wterm (AWlsh (AWidth wa) (AWidth wc)) wac).
  { apply wterm_wlsh with wa wc; auto using wterm_const. }
  (* lhs: product, outer *)
  destruct (node_ok_lowered OMul (AWidth wab) wab (AWidth wa) wa false ta (AWidth wb) wb false tb ea eb wab)
    as (Hlp & Htlp & Hwlp & Hvlp); auto using wterm_const.
  set (ep := bin_expr OMul wab wa false ea wb false eb) in *.
  destruct (node_ok_lowered OShl (AWidth wo) wo (AWidth wab) wab false
              (ABin OMul (AWidth wab) (AWidth wa) (ASign false) ta (AWidth wb) (ASign false) tb)
              (AWidth wc) wc false tc ep ec 0)
    as (Hlf & Htl & Hwl & Hvl); auto using wterm_const.
  (* rhs: inner shift, outer product *)
  destruct (node_ok_lowered OShl (AWlsh (AWidth wa) (AWidth wc)) wac (AWidth wa) wa false ta (AWidth wc) wc false tc ea ec wac)
    as (Hri & Htri & Hwri & Hvri); auto using wterm_const.
  set (ei := bin_expr OShl wac wa false ea wc false ec) in *.
  destruct (node_ok_lowered OMul (AWidth wo) wo (AWlsh (AWidth wa) (AWidth wc)) wac false
              (ABin OShl (AWlsh (AWidth wa) (AWidth wc)) (AWidth wa) (ASign false) ta (AWidth wc) (ASign false) tc)
              (AWidth wb) wb false tb ei eb 0)
    as (Hr & Htr & Hwr & Hvr); auto using wterm_const.
  eapply same_value_intro; eauto. intros rho Hrho.
  destruct (Hvlp rho Hrho) as [Elp Blp]. destruct (Hvl rho Hrho) as [El _].
  destruct (Hvri rho Hrho) as [Eri Bri]. destruct (Hvr rho Hrho) as [Er _].
  assert (Hba : ebv rho ea < 2 ^ wa) by now apply ebv_bound.
  assert (Hbb : ebv rho eb < 2 ^ wb) by now apply ebv_bound.
  assert (Hbc : ebv rho ec < 2 ^ wc) by now apply ebv_bound.
  set (x := ebv rho ea) in *. set (y := ebv rho eb) in *. set (z := ebv rho ec) in *.
  rewrite El, Er.
  (* lhs = (x * y) * 2^z *)
  eapply cong_trans; [now apply den_bin_shl|]. cbn [sval].
  assert (Hp : cong wab (Z.of_N (ebv rho ep)) (Z.of_N x * Z.of_N y)).
  { rewrite Elp. eapply cong_trans; [now apply den_bin_mul|]. apply cong_refl. }
  assert (Hpe : Z.of_N (ebv rho ep) = (Z.of_N x * Z.of_N y)%Z).
  { apply (cong_small wab); auto.
    pose proof (of_N_lt x wa Hba) as Hx. pose proof (of_N_lt y wb Hbb) as Hy.
    pose proof (P_le (wa + wb) wab Hmul) as Hle. rewrite P_add in Hle. nia. }
  rewrite Hpe.
  (* rhs = (x * 2^z) * y *)
  apply cong_sym. eapply cong_trans; [now apply den_bin_mul|]. cbn [sval].
  replace (Z.of_N x * Z.of_N y * P z)%Z with (Z.of_N x * P z * Z.of_N y)%Z by lia.
  apply cong_mul; [|apply cong_refl].
  assert (Hci : cong wac (Z.of_N (ebv rho ei)) (Z.of_N x * P z)).
  { rewrite Eri. eapply cong_trans; [now apply den_bin_shl|]. apply cong_refl. }
  destruct (N.le_gt_cases wo wac) as [Hle | Hgt].
  - apply cong_weaken with wac; auto.
  - destruct Hcases as [[_ Hmax] | [Hlt Hval]]; [lia|].
    pose proof (shifted_fits false wa wc wac x z (ebv rho ei) Ha1 Hba Hbc Hval Bri Hci) as E.
    cbn [sval] in E. rewrite E. apply cong_refl.
Qed.

(** ** the statements pinned in Props/C19.v *)

Lemma rule_commute_add_sound_lemma : forall wo wa wb sa sb ta tb,
  width_ok wo -> width_ok wa -> width_ok wb -> operand_ok wa ta -> operand_ok wb tb ->
  let asg := asg_commute wo wa wb sa sb in
  let sigma := subst_of asg (ops2 ta tb) in
  eval_condition rule_commute_add asg = Ok true ->
  same_value wo (inst sigma (r_lhs rule_commute_add)) (inst sigma (r_rhs rule_commute_add)).
Proof.
  intros wo wa wb sa sb ta tb Hwo Hwa Hwb Hta Htb asg sigma _. subst sigma asg.
  destruct (inst_commute_add wo wa wb sa sb ta tb) as [Hl Hr]. cbv zeta in Hl, Hr. rewrite Hl, Hr.
  now apply commute_add_sound_lemma.
Qed.

Lemma rule_commute_mul_sound_lemma : forall wo wa wb sa sb ta tb,
  width_ok wo -> width_ok wa -> width_ok wb -> operand_ok wa ta -> operand_ok wb tb ->
  let asg := asg_commute wo wa wb sa sb in
  let sigma := subst_of asg (ops2 ta tb) in
  eval_condition rule_commute_mul asg = Ok true ->
  same_value wo (inst sigma (r_lhs rule_commute_mul)) (inst sigma (r_rhs rule_commute_mul)).
Proof.
  intros wo wa wb sa sb ta tb Hwo Hwa Hwb Hta Htb asg sigma _. subst sigma asg.
  destruct (inst_commute_mul wo wa wb sa sb ta tb) as [Hl Hr]. cbv zeta in Hl, Hr. rewrite Hl, Hr.
  now apply commute_mul_sound_lemma.
Qed.

Lemma rule_mult_to_add_sound_lemma : forall wo wa wb sa sb ta,
  width_ok wo -> width_ok wa -> width_ok wb -> operand_ok wa ta ->
  let asg := asg_commute wo wa wb sa sb in
  let sigma := subst_of asg (ops1 ta) in
  eval_condition rule_mult_to_add asg = Ok true ->
  same_value wo (inst sigma (r_lhs rule_mult_to_add)) (inst sigma (r_rhs rule_mult_to_add)).
Proof.
  intros wo wa wb sa sb ta Hwo Hwa Hwb Hta asg sigma Hc. subst sigma asg.
  destruct (inst_mult_to_add wo wa wb sa sb ta) as [Hl Hr]. cbv zeta in Hl, Hr. rewrite Hl, Hr.
  apply mult_to_add_sound_lemma; auto. now apply (cond_mult_to_add wo wa wb sa sb).
Qed.

Lemma rule_merge_left_shift_sound_lemma : forall wo wab wa wb wc sa ta tb tc,
  width_ok wo -> width_ok wab -> width_ok wa -> width_ok wb -> width_ok wc ->
  operand_ok wa ta -> operand_ok wb tb -> operand_ok wc tc ->
  let asg := asg_merge wo wab wa wb wc sa in
  let sigma := subst_of asg (ops3 ta tb tc) in
  eval_condition rule_merge_left_shift asg = Ok true ->
  N.max wb wc + 1 <= u32_max ->
  same_value wo (inst sigma (r_lhs rule_merge_left_shift)) (inst sigma (r_rhs rule_merge_left_shift)).
Proof.
  intros wo wab wa wb wc sa ta tb tc Hwo Hwab Hwa Hwb Hwc Hta Htb Htc asg sigma Hc Hov. subst sigma asg.
  destruct (inst_merge wo wab wa wb wc sa ta tb tc) as [Hl Hr]. cbv zeta in Hl, Hr. rewrite Hl, Hr.
  apply merge_left_shift_sound_lemma; auto. now apply (cond_merge wo wab wa wb wc sa).
Qed.

Lemma rule_unmerge_left_shift_sound_lemma : forall wo wa wbc wb wc sa ta tb tc,
  width_ok wo -> width_ok wa -> width_ok wbc -> width_ok wb -> width_ok wc ->
  operand_ok wa ta -> operand_ok wb tb -> operand_ok wc tc ->
  let asg := asg_unmerge wo wa wbc wb wc sa in
  let sigma := subst_of asg (ops3 ta tb tc) in
  eval_condition rule_unmerge_left_shift asg = Ok true ->
  eval_width_left_shift wa wb <> Panic ->
  same_value wo (inst sigma (r_lhs rule_unmerge_left_shift)) (inst sigma (r_rhs rule_unmerge_left_shift)).
Proof.
  intros wo wa wbc wb wc sa ta tb tc Hwo Hwa Hwbc Hwb Hwc Hta Htb Htc asg sigma Hc Hov. subst sigma asg.
  destruct (inst_unmerge wo wa wbc wb wc sa ta tb tc) as [Hl Hr]. cbv zeta in Hl, Hr. rewrite Hl, Hr.
  destruct (eval_width_left_shift wa wb) as [wab|] eqn:Hwab; [|congruence].
  apply unmerge_left_shift_sound_lemma with wab; auto. now apply (cond_unmerge wo wa wbc wb wc sa).
Qed.

Lemma rule_left_shift_mult_sound_lemma : forall wo wab wa wb wc ta tb tc,
  width_ok wo -> width_ok wab -> width_ok wa -> width_ok wb -> width_ok wc ->
  operand_ok wa ta -> operand_ok wb tb -> operand_ok wc tc ->
  let asg := asg_lsm wo wab wa wb wc in
  let sigma := subst_of asg (ops3 ta tb tc) in
  eval_condition rule_left_shift_mult asg = Ok true ->
  same_value wo (inst sigma (r_lhs rule_left_shift_mult)) (inst sigma (r_rhs rule_left_shift_mult)).
Proof.
  intros wo wab wa wb wc ta tb tc Hwo Hwab Hwa Hwb Hwc Hta Htb Htc asg sigma Hc. subst sigma asg.
  destruct (inst_lsm wo wab wa wb wc ta tb tc) as [Hl Hr]. cbv zeta in Hl, Hr. rewrite Hl, Hr.
  destruct (cond_lsm wo wab wa wb wc Hc) as [Hmul Hlsh].
  now apply left_shift_mult_sound_lemma.
Qed.

(** the two right-hand sides whose derived width can leave [u32]: the side condition holds, the
    left-hand side lowers, the right-hand side panics (arithmetic.rs:40 / :49, overflow checks on) *)
Lemma merge_left_shift_rhs_overflow_lemma :
  exists wo wab wa wb wc sa,
    width_ok wo /\ width_ok wab /\ width_ok wa /\ width_ok wb /\ width_ok wc /\
    let asg := asg_merge wo wab wa wb wc sa in
    let sigma := subst_of asg [] in
    eval_condition rule_merge_left_shift asg = Ok true /\
    (exists e, from_arith 0 (inst sigma (r_lhs rule_merge_left_shift)) = Ok e) /\
    from_arith 0 (inst sigma (r_rhs rule_merge_left_shift)) = Panic.
Proof.
  exists 1, 1, 1, u32_max, 1, false. unfold width_ok, u32_max.
  repeat split; try lia; try (vm_compute; congruence).
  eexists. vm_compute. reflexivity.
Qed.

Lemma unmerge_left_shift_rhs_overflow_lemma :
  exists wo wa wbc wb wc sa,
    width_ok wo /\ width_ok wa /\ width_ok wbc /\ width_ok wb /\ width_ok wc /\
    let asg := asg_unmerge wo wa wbc wb wc sa in
    let sigma := subst_of asg [] in
    eval_condition rule_unmerge_left_shift asg = Ok true /\
    (exists e, from_arith 0 (inst sigma (r_lhs rule_unmerge_left_shift)) = Ok e) /\
    from_arith 0 (inst sigma (r_rhs rule_unmerge_left_shift)) = Panic.
Proof.
  exists 1, u32_max, 2, 1, 1, false. unfold width_ok, u32_max.
  repeat split; try lia; try (vm_compute; congruence).
  eexists. vm_compute. reflexivity.
Qed.
