(** * Proofs/SmtSerLemmas.v — lemmas about atoms: identifiers, numerals, literals. *)
From Coq Require Import Lia DecimalString DecimalN DecimalPos.
From Patronus Require Import SmtSer BVLemmas SmtCharLemmas.
Open Scope string_scope.
Open Scope list_scope.
Open Scope N_scope.

(** ** identifiers *)

Lemma id_chars_ok_forall s first : id_chars_ok s first = true -> str_forall is_sym_char s = true.
Proof.
  revert first. induction s as [|c r IH]; intros first H; cbn [id_chars_ok str_forall] in *; [reflexivity|].
  destruct (id_char_ok c) eqn:Ec; cbn [negb] in H; [|discriminate].
  rewrite (id_char_sym c Ec). cbn [andb].
  destruct (id_is_num c && first); [discriminate|]. eapply IH; eassumption.
Qed.

(** what [is_simple_id] says in either variant: the loop accepts; in [Fix] also: not reserved *)
Lemma is_simple_id_loop v s : is_simple_id v s = true -> s <> EmptyString /\ id_chars_ok s true = true.
Proof.
  unfold is_simple_id. destruct s as [|c r]; [discriminate|]. intros H. split; [discriminate|].
  destruct v; [exact H | |]; apply andb_true_iff in H; tauto.
Qed.

Lemma smt_reserved_same : smt_reserved_words = reserved_words.
Proof. reflexivity. Qed.

Lemma is_simple_id_fix_not_reserved v s : v <> Cur -> is_simple_id v s = true -> is_reserved s = false.
Proof.
  intros Hv. unfold is_simple_id. destruct s as [|c r]; [discriminate|]. intros H.
  destruct v; [now elim Hv | |]; apply andb_true_iff in H.
  all: destruct H as [H _]; apply negb_true_iff in H; unfold is_reserved; now rewrite <- smt_reserved_same.
Qed.

Lemma is_simple_id_chars v s : is_simple_id v s = true -> is_simple_chars s = true.
Proof.
  intros H0. destruct (is_simple_id_loop v s H0) as [Hne H].
  destruct s as [|c r]; [congruence|]. unfold is_simple_chars.
  rewrite (id_chars_ok_forall _ _ H). cbn [id_chars_ok] in H.
  destruct (id_char_ok c); cbn [negb] in H; [|discriminate].
  rewrite <- id_num_digit. destruct (id_is_num c); cbn [andb] in H |- *; [discriminate|reflexivity].
Qed.

Lemma is_simple_id_first v s c r : s = String c r -> is_simple_id v s = true -> Ascii.eqb c c_bar = false.
Proof.
  intros -> H0. destruct (is_simple_id_loop v _ H0) as [_ H]. cbn [id_chars_ok] in H.
  destruct (id_char_ok c) eqn:Ec; cbn [negb] in H; [|discriminate]. now apply id_char_not_bar.
Qed.

(** characters that may appear in a name the writer can quote *)
Definition name_chars_ok (s : string) : bool := str_forall quoted_char_ok s.

Lemma quoted_body_cons c r : r <> EmptyString ->
  quoted_body (String c r) =
  if quoted_char_ok c then match quoted_body r with Some b => Some (String c b) | None => None end else None.
Proof. destruct r; [congruence | reflexivity]. Qed.

Lemma quoted_body_app s : name_chars_ok s = true -> quoted_body (String.append s "|") = Some s.
Proof.
  induction s as [|c r IH]; intros H; [reflexivity|].
  unfold name_chars_ok in H. cbn [str_forall] in H. apply andb_true_iff in H. destruct H as [Hc Hr].
  change (String.append (String c r) "|") with (String c (String.append r "|")).
  rewrite quoted_body_cons by (destruct r; discriminate).
  rewrite Hc, (IH Hr). reflexivity.
Qed.

(** [escape_sound]: every name made of admissible characters that is not a reserved word is
    written as ONE symbol token that denotes exactly that name - in the repaired variant [Fix]
    without the exception. *)
Lemma escape_sound_gen v n :
  name_chars_ok n = true -> (v = Cur -> is_reserved n = false) -> symbol_name (escape_id v n) = Some n.
Proof.
  intros Hc Hr. unfold escape_id. destruct (is_simple_id v n) eqn:Es.
  - assert (Hres : is_reserved n = false).
    { destruct v; [now apply Hr | |]; (eapply is_simple_id_fix_not_reserved; [|exact Es]; discriminate). }
    destruct n as [|c r]; [discriminate|]. unfold symbol_name.
    rewrite (is_simple_id_first v _ c r eq_refl Es).
    unfold is_simple_symbol. rewrite (is_simple_id_chars v _ Es), Hres. reflexivity.
  - change (String.append "|" (String.append n "|")) with (String c_bar (String.append n "|")).
    unfold symbol_name. change (Ascii.eqb c_bar c_bar) with true. cbv iota.
    now apply quoted_body_app.
Qed.

Lemma escape_sound_lemma v n :
  name_chars_ok n = true -> is_reserved n = false -> symbol_name (escape_id v n) = Some n.
Proof. intros Hc Hr. apply escape_sound_gen; auto. Qed.

Lemma escape_sound_repaired v n : v <> Cur -> name_chars_ok n = true -> symbol_name (escape_id v n) = Some n.
Proof. intros Hv Hc. apply escape_sound_gen; [assumption | intros E; now elim Hv]. Qed.

Lemma escape_sound_fix n : name_chars_ok n = true -> symbol_name (escape_id Fix n) = Some n.
Proof. intros Hc. apply escape_sound_gen; [assumption | discriminate]. Qed.

(** ** numerals *)

Lemma numeral_dec n : numeral (dec_string n) = Some n.
Proof.
  unfold numeral, dec_string.
  rewrite NilZero.usu.
  - rewrite DecimalN.Unsigned.of_to. now rewrite String.eqb_refl.
  - destruct n as [|p]; [discriminate|]. apply DecimalPos.Unsigned.to_uint_nonnil.
Qed.

(** ** binary literals *)

Lemma digits_val_bits k v len acc :
  digits_val bit_of 2 (bits_str_nat k v) len acc =
  Some (len + N.of_nat k, acc * 2 ^ N.of_nat k + v mod 2 ^ N.of_nat k).
Proof.
  revert len acc. induction k as [|k IH]; intros len acc.
  - cbn [bits_str_nat digits_val N.of_nat]. rewrite N.mod_1_r. apply f_equal. apply f_equal2; lia.
  - cbn [bits_str_nat digits_val].
    assert (Hb : bit_of (if N.testbit v (N.of_nat k) then "1"%char else "0"%char)
                 = Some (b2n (N.testbit v (N.of_nat k)))) by (destruct (N.testbit v (N.of_nat k)); reflexivity).
    rewrite Hb, IH. apply f_equal. apply f_equal2; [lia|].
    rewrite Nnat.Nat2N.inj_succ, N.pow_succ_r'.
    set (K := N.of_nat k).
    assert (Hm : v mod (2 * 2 ^ K) = v mod 2 ^ K + 2 ^ K * b2n (N.testbit v K)).
    { rewrite (N.mul_comm 2). rewrite N.mod_mul_r by (try apply pow2_nz; lia).
      f_equal. f_equal. rewrite N.testbit_spec' . reflexivity. }
    rewrite Hm. lia.
Qed.

Lemma bv_literal_b x : x <> EmptyString ->
  bv_literal (String.append "#b" x) = digits_val bit_of 2 x 0 0.
Proof. destruct x; [congruence | reflexivity]. Qed.

Lemma bv_literal_bits w v : 0 < w -> v < 2 ^ w ->
  bv_literal (String.append "#b" (bits_str w v)) = Some (w, v).
Proof.
  intros Hw Hv. unfold bits_str.
  rewrite bv_literal_b by (destruct (N.to_nat w) eqn:Ek; [lia | discriminate]).
  rewrite digits_val_bits. rewrite Nnat.N2Nat.id.
  apply f_equal. apply f_equal2; [lia|]. rewrite N.mod_small by assumption. lia.
Qed.

Lemma digits_val_zeros k (last : ascii) d len acc : bit_of last = Some d ->
  digits_val bit_of 2 (String.append (zeros_nat k) (String last EmptyString)) len acc =
  Some (len + N.of_nat k + 1, acc * 2 ^ (N.of_nat k + 1) + d).
Proof.
  intros Hd. revert len acc. induction k as [|k IH]; intros len acc.
  - cbn [zeros_nat String.append digits_val N.of_nat]. rewrite Hd. apply f_equal. apply f_equal2; lia.
  - cbn [zeros_nat String.append digits_val]. change (bit_of "0") with (Some 0). cbv iota beta.
    rewrite IH. apply f_equal. apply f_equal2; [lia|].
    rewrite Nnat.Nat2N.inj_succ. replace (N.succ (N.of_nat k) + 1) with (N.succ (N.of_nat k + 1)) by lia.
    rewrite N.pow_succ_r'. lia.
Qed.

Lemma bv_literal_zeros by_ (last : ascii) d : bit_of last = Some d ->
  bv_literal (String.append "#b" (String.append (zeros by_) (String last EmptyString))) = Some (by_ + 1, d).
Proof.
  intros Hd. unfold zeros.
  rewrite bv_literal_b by (destruct (zeros_nat (N.to_nat by_)); discriminate).
  rewrite (digits_val_zeros _ _ d) by assumption.
  rewrite Nnat.N2Nat.id. apply f_equal. apply f_equal2; lia.
Qed.

(** an atom that starts with '#' is not a symbol *)
Lemma symbol_name_hash r : symbol_name (String "#"%char r) = None.
Proof. reflexivity. Qed.

(** ** S-expressions: reading back what [flatten] prints *)

Lemma read_go_flatten :
  forall t rest stack cur, read_go (flatten t ++ rest) stack cur = read_go rest stack (t :: cur).
Proof.
  fix IH 1. intros t rest stack cur. destruct t as [a | l].
  - reflexivity.
  - cbn [flatten app read_go]. rewrite <- app_assoc.
    assert (Hl : forall l' acc, read_go (flat_map flatten l' ++ [StClose] ++ rest) (cur :: stack) acc
                                = read_go rest stack (SxList (rev acc ++ l') :: cur)).
    { induction l' as [|x l' IHl]; intros acc.
      - cbn [flat_map app read_go]. now rewrite app_nil_r.
      - cbn [flat_map]. rewrite <- app_assoc. rewrite IH. rewrite IHl. cbn [rev]. now rewrite <- app_assoc. }
    apply (Hl l []).
Qed.

Lemma read_one_flatten t : read_one (flatten t) = Some t.
Proof.
  unfold read_one, read_all. rewrite <- (app_nil_r (flatten t)), read_go_flatten. reflexivity.
Qed.
