(** * Proofs/ContextOracleProofs.v — the model passes the property oracle of C12

    The predicates of Model/ContextOracle.v are what the driver evaluates on the
    IMPLEMENTATION's observations.  Here: evaluated on the model's own observations
    they are always true (for every well-formed history), and they mean what their
    names say ([cx_keys_nodup] is [NoDup], ...). *)
From Coq Require Import NArith PeanoNat String List Bool Lia.
From Patronus Require Import Context ContextOracle ContextProofs.
Import ListNotations.
Open Scope N_scope.

(* ------------------------------------------------------------------ the boolean tests decide *)
Lemma cx_ostr_eqb_eq a b : cx_ostr_eqb a b = true <-> a = b.
Proof.
  destruct a as [x|], b as [y|]; cbn [cx_ostr_eqb]; try (split; discriminate); [|tauto].
  rewrite String.eqb_eq. split; [now intros ->|now intros [= ->]].
Qed.

Lemma cx_key_eqb_eq a b : cx_key_eqb a b = true <-> a = b.
Proof.
  destruct a, b; cbn [cx_key_eqb]; try (split; discriminate).
  - rewrite andb_true_iff, cx_ostr_eqb_eq, N.eqb_eq. split; [now intros [-> ->]|now intros [= -> ->]].
  - rewrite !andb_true_iff, cx_ostr_eqb_eq, !N.eqb_eq. split; [now intros [[-> ->] ->]|now intros [= -> -> ->]].
  - rewrite andb_true_iff, N.eqb_eq, cx_words_eqb_eq. split; [now intros [-> ->]|now intros [= -> ->]].
  - rewrite cx_node_eqb_eq. split; [now intros ->|now intros [= ->]].
Qed.

Lemma cx_key_absent_spec k l : cx_key_absent k l = true <-> ~ In k l.
Proof.
  induction l as [|x t IH]; cbn [cx_key_absent In]; [tauto|].
  rewrite andb_true_iff, negb_true_iff, IH. split.
  - intros [Hx Ht] [->|H]; [|contradiction].
    rewrite (proj2 (cx_key_eqb_eq k k) eq_refl) in Hx. discriminate.
  - intro H. split; [|tauto].
    destruct (cx_key_eqb k x) eqn:E; [|reflexivity]. apply cx_key_eqb_eq in E. subst. tauto.
Qed.

(** [cx_keys_nodup] is [NoDup]: no two references denote the same expression *)
Lemma cx_keys_nodup_spec l : cx_keys_nodup l = true <-> NoDup l.
Proof.
  induction l as [|x t IH]; cbn [cx_keys_nodup].
  - split; [constructor|reflexivity].
  - rewrite andb_true_iff, cx_key_absent_spec, IH. split.
    + intros [H1 H2]. now constructor.
    + intro H. inversion H; subst. tauto.
Qed.

Lemma cx_nth_map {A B} (f : A -> B) (l : list A) (i : N) : cx_nth (map f l) i = option_map f (cx_nth l i).
Proof. rewrite !cx_nth_spec. apply nth_error_map. Qed.

(* ------------------------------------------------------------------ names are always resolved *)
Definition sym_ok (strings : list string) (n : cx_node) : Prop :=
  match n with
  | CnBVSymbol s _ => exists str, cx_nth strings s = Some str
  | CnArraySymbol s _ _ => exists str, cx_nth strings s = Some str
  | _ => True
  end.

Definition names_ok (c : cx) : Prop := forall r n, cx_lookup c r = Some n -> sym_ok (cx_strings c) n.

Lemma sym_ok_resolved c n : sym_ok (cx_strings c) n -> key_resolved (cx_key_of c n).
Proof. destruct n; cbn; try tauto; intros [s ->]; exact I. Qed.

Lemma sym_ok_prefix l l' n : prefix l l' -> sym_ok l n -> sym_ok l' n.
Proof. intro P. destruct n; cbn; try tauto; intros [s H]; exists s; eapply cx_nth_prefix; eauto. Qed.

Definition npres {A} (m : cx_m A) : Prop := forall c c' r, names_ok c -> m c = (c', r) -> names_ok c'.

Lemma npres_bind {A B} (m : cx_m A) (f : A -> cx_m B) : npres m -> (forall a, npres (f a)) -> npres (cx_bind m f).
Proof.
  intros Pm Pf c c' r Inv. unfold cx_bind. destruct (m c) as [c1 [a| |]] eqn:E.
  - intro H. eapply Pf; [|exact H]. eapply Pm; eauto.
  - intros [= <- <-]. eapply Pm; eauto.
  - intros [= <- <-]. eapply Pm; eauto.
Qed.

Lemma npres_pure {A} (f : cx -> cx_res A) : npres (fun c => (c, f c)).
Proof. intros c c' r Inv [= <- <-]. exact Inv. Qed.

Lemma npres_ret {A} (a : A) : npres (cx_ret a).
Proof. exact (npres_pure (fun _ => CxOk a)). Qed.
Lemma npres_fail {A} : npres (@cx_fail A).
Proof. exact (npres_pure (fun _ => CxPanic)). Qed.
Lemma npres_assert b : npres (cx_assert b).
Proof. exact (npres_pure (fun _ => if b then CxOk tt else CxPanic)). Qed.
Lemma npres_lift {A} (r : cx_res A) : npres (cx_lift r).
Proof. exact (npres_pure (fun _ => r)). Qed.
Lemma npres_get_type r : npres (cx_get_type r).
Proof. exact (npres_pure (fun c => cx_type_of (cx_exprs c) r)). Qed.
Lemma npres_get_true : npres cx_get_true.
Proof. exact (npres_pure (fun c => CxOk (cx_true c))). Qed.
Lemma npres_get_false : npres cx_get_false.
Proof. exact (npres_pure (fun c => CxOk (cx_false c))). Qed.

Lemma npres_value_index w ws : npres (cx_value_index w ws).
Proof.
  intros c c' r Inv. unfold cx_value_index. destruct (cx_get_index (cx_values c) ws w) as [it r'].
  intros [= <- <-]. exact Inv.
Qed.

Lemma npres_string s : npres (cx_string s).
Proof.
  intros c c' r Inv H. pose proof (proj1 (good_string s) _ _ _ H) as (PS & _).
  unfold cx_string in H. destruct (cx_intern String.eqb s (cx_strings c)) as [ss i].
  inversion H; subst; clear H. intros rr nn H0. unfold cx_lookup in H0. cbn [cx_exprs cx_strings] in *.
  eapply sym_ok_prefix; [exact PS|]. exact (Inv _ _ H0).
Qed.

Lemma names_add_expr n c c' r : names_ok c -> sym_ok (cx_strings c) n -> cx_add_expr n c = (c', r) -> names_ok c'.
Proof.
  intros Inv Hn H. unfold cx_add_expr, cx_intern in H.
  destruct (cx_find cx_node_eqb n (cx_exprs c) 0); inversion H; subst; clear H; intros rr nn H0;
    unfold cx_lookup in H0; cbn [cx_exprs cx_strings] in *.
  - exact (Inv _ _ H0).
  - apply cx_nth_snoc in H0 as [H0|[-> _]]; [exact (Inv _ _ H0)|exact Hn].
Qed.

Lemma npres_add_expr n :
  (match n with CnBVSymbol _ _ => False | CnArraySymbol _ _ _ => False | _ => True end) -> npres (cx_add_expr n).
Proof.
  intros Hn c c' r Inv H. eapply names_add_expr; eauto. destruct n; cbn; auto; contradiction.
Qed.

Lemma cx_string_spec s c c' r : cx_string s c = (c', r) -> exists i, r = CxOk i /\ cx_nth (cx_strings c') i = Some s.
Proof.
  unfold cx_string. pose proof (cx_intern_nth String.eqb String.eqb_eq s (cx_strings c)) as H.
  destruct (cx_intern String.eqb s (cx_strings c)) as [ss i]. intros [= <- <-]. exists i. auto.
Qed.

Lemma npres_bv_symbol s w : npres (cx_bv_symbol s w).
Proof.
  intros c c' r Inv. unfold cx_bv_symbol, cx_bind, cx_assert.
  destruct (negb (w =? 0)); [|intros [= <- <-]; exact Inv].
  destruct (cx_string s c) as [c1 r1] eqn:E.
  pose proof (npres_string s _ _ _ Inv E) as Inv1.
  destruct (cx_string_spec _ _ _ _ E) as (i & -> & Hi).
  intro H. eapply names_add_expr; [exact Inv1| |exact H]. cbn. eauto.
Qed.

Lemma npres_array_symbol s iw dw : npres (cx_array_symbol s iw dw).
Proof.
  intros c c' r Inv. unfold cx_array_symbol, cx_bind, cx_assert.
  destruct (negb (iw =? 0)); [|intros [= <- <-]; exact Inv].
  destruct (negb (dw =? 0)); [|intros [= <- <-]; exact Inv].
  destruct (cx_string s c) as [c1 r1] eqn:E.
  pose proof (npres_string s _ _ _ Inv E) as Inv1.
  destruct (cx_string_spec _ _ _ _ E) as (i & -> & Hi).
  intro H. eapply names_add_expr; [exact Inv1| |exact H]. cbn. eauto.
Qed.

Ltac npres_step :=
  first
    [ apply npres_bv_symbol | apply npres_array_symbol
    | apply npres_bind; [|intro]
    | apply npres_ret | apply npres_fail | apply npres_assert | apply npres_lift
    | apply npres_get_type | apply npres_string | apply npres_value_index
    | apply npres_get_true | apply npres_get_false
    | apply npres_add_expr; exact I
    | match goal with
      | |- npres (match ?x with _ => _ end) => destruct x
      | |- npres (if ?b then _ else _) => destruct b
      end ].

Lemma npres_lit_arr_fold es : forall arr, npres (cx_lit_arr_fold es arr).
Proof.
  induction es as [|[i d] t IH]; intro arr; cbn [cx_lit_arr_fold].
  - apply npres_ret.
  - unfold cx_array_store, cx_bv_lit.
    repeat (apply npres_bind; [repeat npres_step|intro]). apply IH.
Qed.

Lemma npres_run_op o c c' r :
  cx_op_names_ok c o = true -> names_ok c -> cx_run_op o c = (c', r) -> names_ok c'.
Proof.
  intros Hok Inv. revert c' r.
  change (forall c' r, cx_run_op o c = (c', r) -> names_ok c') with
    (forall c' r, (fun c0 => cx_run_op o c0) c = (c', r) -> names_ok c').
  destruct o; cbn [cx_run_op cx_op_names_ok] in *.
  4:{ (* symbol(name, type): the name reference is valid *)
    intros c' r. unfold cx_as_expr, cx_symbol, cx_bind, cx_assert, cx_ret.
    destruct (cx_nth (cx_strings c) name) as [str|] eqn:En; [|discriminate].
    destruct t.
    - destruct (negb (w =? 0)); [|intros [= <- <-]; exact Inv].
      destruct (cx_add_expr (CnBVSymbol name w) c) as [c1 [i| |]] eqn:E; intros [= <- <-];
        (eapply names_add_expr; [exact Inv| |exact E]); cbn; eauto.
    - destruct (cx_add_expr (CnArraySymbol name iw dw) c) as [c1 [i| |]] eqn:E; intros [= <- <-];
        (eapply names_add_expr; [exact Inv| |exact E]); cbn; eauto. }
  all: intros c' r H; revert c c' r Inv H; clear Hok;
    match goal with |- forall c c' r, names_ok c -> ?m c = (c', r) -> names_ok c' => change (npres m) end;
    unfold cx_as_expr, cx_bit_vec_val,
    cx_zero, cx_one, cx_ones, cx_zero_array, cx_lit_arr, cx_distinct, cx_ite, cx_implies, cx_greater,
    cx_greater_signed, cx_greater_or_equal, cx_greater_or_equal_signed, cx_negate, cx_not, cx_xor3, cx_majority,
    cx_concat, cx_slice, cx_extend, cx_array_read, cx_zero, cx_lit_value, cx_bin, cx_equal, cx_array_const,
    cx_array_store, cx_zero_extend, cx_sign_extend, cx_assert_same_width, cx_assert_bool, cx_bv_type, cx_bv_lit;
    repeat first [ npres_step | apply npres_lit_arr_fold ].
Qed.

Lemma names_ok_default : names_ok cx_default.
Proof.
  rewrite cx_default_eq. intros r n. unfold cx_lookup. cbn [cx_exprs cx_strings]. rewrite cx_nth_spec.
  destruct (N.to_nat r) as [|[|k]]; cbn; try (intros [= <-]; exact I). now destruct k.
Qed.

Lemma names_ok_exec ops : forall c, cx_hist_ok ops c = true -> names_ok c -> names_ok (cx_exec ops c).
Proof.
  induction ops as [|o t IH]; intros c Hh Inv; [exact Inv|].
  cbn [cx_hist_ok] in Hh. apply andb_true_iff in Hh as [Ho Ht].
  rewrite cx_exec_cons. apply IH; [exact Ht|].
  destruct (cx_run_op o c) as [c' r] eqn:E. cbn [fst]. eapply npres_run_op; eauto.
Qed.

(* ------------------------------------------------------------------ the model passes the oracle *)
Lemma NoDup_map_inj_on {A B} (f : A -> B) (l : list A) :
  NoDup l -> (forall x y, In x l -> In y l -> f x = f y -> x = y) -> NoDup (map f l).
Proof.
  induction l as [|a t IH]; intros ND Hinj; cbn [map]; [constructor|].
  inversion ND as [|? ? Ha ND']; subst. constructor.
  - intro H. apply in_map_iff in H as (y & Hy & Hin).
    assert (y = a) by (apply Hinj; [now right|now left|exact Hy]). subst. contradiction.
  - apply IH; [exact ND'|]. intros x y Hx Hy. apply Hinj; now right.
Qed.

(** same structure => same reference, as the oracle tests it *)
Lemma model_keys_nodup ops :
  cx_hist_ok ops cx_default = true -> cx_keys_nodup (cx_keys (cx_exec ops cx_default)) = true.
Proof.
  intro Hh. apply cx_keys_nodup_spec. unfold cx_keys.
  set (c := cx_exec ops cx_default).
  assert (Inv : cx_inv c) by (apply cx_exec_inv, cx_inv_default).
  assert (Nm : names_ok c) by (apply names_ok_exec; [exact Hh|apply names_ok_default]).
  apply NoDup_map_inj_on; [exact (cv_exprs _ Inv)|].
  intros x y Hx Hy Hk.
  apply In_cx_nth in Hx as [r1 H1]. apply In_cx_nth in Hy as [r2 H2].
  assert (r1 = r2).
  { eapply (canonical_key_lemma ops r1 r2 x y); eauto. apply sym_ok_resolved. exact (Nm _ _ H1). }
  subst. unfold c in *. congruence.
Qed.

(** true / false, as the oracle tests it *)
Lemma model_tf_ok ops :
  let c := cx_exec ops cx_default in cx_tf_ok (cx_keys c) (cx_true c) (cx_false c) = true.
Proof.
  intro c. destruct (true_false_lemma ops) as (T & F & L1 & L0 & Hflags). fold c in T, F, L1, L0, Hflags.
  unfold cx_tf_ok, cx_key_is, cx_keys. rewrite T, F, !cx_nth_map.
  unfold cx_lookup in L1, L0. rewrite L1, L0. cbn [option_map cx_key_of N.eqb Pos.eqb andb].
  destruct (Hflags _ _ _ L1) as (Ht1 & _). destruct (proj1 Ht1 eq_refl) as (_ & W1).
  destruct (Hflags _ _ _ L0) as (_ & Hf0). destruct (proj1 Hf0 eq_refl) as (_ & W0).
  rewrite W1, W0. reflexivity.
Qed.

Lemma cx_all_flags_ok_map (c : cx) (l : list cx_node) :
  (forall n, In n l -> cx_flags_ok (cx_key_of c n) (cx_is_true n) (cx_is_false n) = true) ->
  cx_all_flags_ok (map (cx_key_of c) l) (map (fun n => (cx_is_true n, cx_is_false n)) l) = true.
Proof.
  induction l as [|n t IH]; intro H; cbn [map cx_all_flags_ok]; [reflexivity|].
  rewrite H by now left. cbn [andb]. apply IH. intros m Hm. apply H. now right.
Qed.

Lemma eqb_of_iff (a b : bool) : (a = true <-> b = true) -> Bool.eqb a b = true.
Proof. destruct a, b; cbn; intros [H1 H2]; auto; try (symmetry; auto). Qed.

(** is_true / is_false (interner index tests) agree with the literal value, as the oracle tests it *)
Lemma model_flags_ok ops :
  let c := cx_exec ops cx_default in cx_all_flags_ok (cx_keys c) (cx_flags c) = true.
Proof.
  intro c. unfold cx_keys, cx_flags. apply cx_all_flags_ok_map. intros n Hn.
  apply In_cx_nth in Hn as [r Hr].
  destruct n; cbn [cx_key_of cx_flags_ok cx_is_true cx_is_false negb andb]; try reflexivity.
  destruct (true_false_lemma ops) as (_ & _ & _ & _ & Hflags). fold c in Hflags.
  destruct (Hflags r idx w Hr) as (Ht & Hf). cbn [cx_is_true cx_is_false] in Ht, Hf.
  apply andb_true_iff. split; apply eqb_of_iff.
  - rewrite Ht, andb_true_iff, N.eqb_eq, cx_words_eqb_eq. tauto.
  - rewrite Hf, andb_true_iff, N.eqb_eq, cx_words_eqb_eq. tauto.
Qed.

(** what a reference denoted when it was returned is what it denotes at the end, as the oracle tests it *)
Lemma model_obs_stable_from ops0 :
  forall ops, let c := cx_exec ops0 cx_default in
    names_ok c -> cx_hist_ok ops c = true ->
    cx_obs_stable (cx_keys (cx_exec ops c)) (cx_observe ops c) = true.
Proof.
  intros ops. revert ops0. induction ops as [|o t IH]; intros ops0 c Nm Hh; [reflexivity|].
  cbn [cx_hist_ok] in Hh. apply andb_true_iff in Hh as [Ho Ht].
  cbn [cx_observe]. rewrite cx_exec_cons.
  destruct (cx_run_op o c) as [c' r] eqn:E. cbn [fst] in *.
  assert (Ec' : c' = cx_exec (ops0 ++ [o]) cx_default).
  { rewrite cx_exec_app. fold c. cbn. now rewrite E. }
  assert (Nm' : names_ok c') by (eapply npres_run_op; eauto).
  assert (IH' : cx_obs_stable (cx_keys (cx_exec t c')) (cx_observe t c') = true).
  { rewrite Ec'. apply IH; rewrite <- Ec'; assumption. }
  destruct r as [[i|i]| |]; try exact IH'.
  destruct (cx_lookup c' i) as [n|] eqn:L; [|exact IH'].
  cbn [cx_obs_stable].
  destruct (stable_lemma (ops0 ++ [o]) t i n) as (L' & _ & _ & K); [rewrite <- Ec'; exact L|].
  rewrite <- Ec' in L', K. unfold cx_keys at 1. rewrite cx_nth_map. unfold cx_lookup in L'. rewrite L'.
  cbn [option_map]. rewrite K by (apply sym_ok_resolved; exact (Nm' _ _ L)).
  rewrite (proj2 (cx_key_eqb_eq _ _) eq_refl). exact IH'.
Qed.

Lemma model_obs_stable ops :
  cx_hist_ok ops cx_default = true ->
  cx_obs_stable (cx_keys (cx_exec ops cx_default)) (cx_observe ops cx_default) = true.
Proof.
  intro H. apply (model_obs_stable_from [] ops); [apply names_ok_default|exact H].
Qed.

Lemma model_oracle_lemma :
  forall ops, cx_hist_ok ops cx_default = true ->
    let c := cx_exec ops cx_default in
    cx_keys_nodup (cx_keys c) = true /\
    cx_obs_stable (cx_keys c) (cx_observe ops cx_default) = true /\
    cx_tf_ok (cx_keys c) (cx_true c) (cx_false c) = true /\
    cx_all_flags_ok (cx_keys c) (cx_flags c) = true.
Proof.
  intros ops H c. split; [exact (model_keys_nodup ops H)|]. split; [exact (model_obs_stable ops H)|].
  split; [exact (model_tf_ok ops)|exact (model_flags_ok ops)].
Qed.
