(** * Proofs/EncodingExamples.v — concrete systems on which the encoding of the
    current code produces an ill-formed script (witnesses of the [_refuted]
    theorems of Props/C04.v), evaluated inside the kernel. *)
From Coq Require Import List.
From Patronus Require Import Encoding.
Import ListNotations.
Open Scope N_scope.
Open Scope string_scope.

(** the naming used in the examples: inputs keep their name, other signals get a
    name that depends on the expression only (injective on the signals of each example) *)
Definition ex_nm (e : expr) : string :=
  match e with
  | BVSymbol n _ => n
  | BVAdd _ _ _ => "__n_add"
  | BVMul _ _ _ => "__n_mul"
  | BVEqual _ _ => "__n_eq"
  | _ => "__n_other"
  end.

(** D1: a signal shared by an init and a next expression and used by nothing else.
    input i:4; state s init i+1 next s; state t init 0 next (i+1)*(i+1); bad t == 9 *)
Definition ex1_i := BVSymbol "i" 4.
Definition ex1_i1 := BVAdd ex1_i (BVLiteral 4 1) 4.
Definition ex1_sys : sys :=
  {| s_inputs := [ex1_i];
     s_states := [ {| st_sym := BVSymbol "s" 4; st_init := Some ex1_i1; st_next := Some (BVSymbol "s" 4) |};
                   {| st_sym := BVSymbol "t" 4; st_init := Some (BVLiteral 4 0); st_next := Some (BVMul ex1_i1 ex1_i1 4) |} ];
     s_outputs := []; s_bads := [BVEqual (BVSymbol "t" 4) (BVLiteral 4 9)]; s_constraints := [] |}.

Lemma ex1_current_ill_formed :
  sys_ok ex1_sys = true /\
  script_check [] (script Current (enc_new ex1_sys ex_nm) 0 1) = false /\
  script_first_bad [] (script Current (enc_new ex1_sys ex_nm) 0 1) =
    Some (DefineFun "__n_add@0" (TBV 4) (BVAdd (BVSymbol "i@0" 4) (BVLiteral 4 1) 4)) /\
  script_check [] (script Fixed (enc_new ex1_sys ex_nm) 0 3) = true.
Proof. vm_compute. repeat split. Qed.

(** D4: entry at a later step: a signal used only by init expressions over a
    signal used by init and next expressions only.
    input i:3; state s init e+e next s; state t next i+1; e = (i+1)*(i+1); bad t == 5 *)
Definition ex4_i := BVSymbol "i" 3.
Definition ex4_n1 := BVAdd ex4_i (BVLiteral 3 1) 3.
Definition ex4_e := BVMul ex4_n1 ex4_n1 3.
Definition ex4_sys : sys :=
  {| s_inputs := [ex4_i];
     s_states := [ {| st_sym := BVSymbol "s" 3; st_init := Some (BVSub ex4_e ex4_e 3); st_next := Some (BVSymbol "s" 3) |};
                   {| st_sym := BVSymbol "t" 3; st_init := None; st_next := Some ex4_n1 |} ];
     s_outputs := []; s_bads := [BVEqual (BVSymbol "t" 3) (BVLiteral 3 5)]; s_constraints := [] |}.

Lemma ex4_current_ill_formed :
  sys_ok ex4_sys = true /\
  script_check [] (script Current (enc_new ex4_sys ex_nm) 1 1) = false /\
  script_first_bad [] (script Current (enc_new ex4_sys ex_nm) 1 1) =
    Some (DefineFun "__n_mul@1" (TBV 3) (BVMul (BVSymbol "__n_add@1" 3) (BVSymbol "__n_add@1" 3) 3)) /\
  script_check [] (script Fixed (enc_new ex4_sys ex_nm) 1 2) = true.
Proof. vm_compute. repeat split. Qed.

(** D2: a shared sub-term of an init expression reads a state: it is defined
    before the state's step-0 symbol is declared (both variants).
    state s next s-1; state t init (s+1)*(s+1) next t; bad t == 4 *)
Definition ex2_s := BVSymbol "s" 3.
Definition ex2_s1 := BVAdd ex2_s (BVLiteral 3 1) 3.
Definition ex2_sys : sys :=
  {| s_inputs := [];
     s_states := [ {| st_sym := ex2_s; st_init := None; st_next := Some (BVSub ex2_s (BVLiteral 3 1) 3) |};
                   {| st_sym := BVSymbol "t" 3; st_init := Some (BVMul ex2_s1 ex2_s1 3); st_next := Some (BVSymbol "t" 3) |} ];
     s_outputs := []; s_bads := [BVEqual (BVSymbol "t" 3) (BVLiteral 3 4)]; s_constraints := [] |}.

Lemma ex2_ill_formed :
  sys_ok ex2_sys = true /\
  script_first_bad [] (script Current (enc_new ex2_sys ex_nm) 0 0) =
    Some (DefineFun "__n_add@0" (TBV 3) (BVAdd (BVSymbol "s@0" 3) (BVLiteral 3 1) 3)) /\
  script_check [] (script Fixed (enc_new ex2_sys ex_nm) 0 0) = false.
Proof. vm_compute. repeat split. Qed.

(** D3: an init expression reads a LATER state (both variants).
    state s init t+1 next s; state t next t; bad s == 3 *)
Definition ex3_sys : sys :=
  {| s_inputs := [];
     s_states := [ {| st_sym := BVSymbol "s" 3; st_init := Some (BVAdd (BVSymbol "t" 3) (BVLiteral 3 1) 3); st_next := Some (BVSymbol "s" 3) |};
                   {| st_sym := BVSymbol "t" 3; st_init := None; st_next := Some (BVSymbol "t" 3) |} ];
     s_outputs := []; s_bads := [BVEqual (BVSymbol "s" 3) (BVLiteral 3 3)]; s_constraints := [] |}.

Lemma ex3_ill_formed :
  sys_ok ex3_sys = true /\
  script_first_bad [] (script Current (enc_new ex3_sys ex_nm) 0 0) =
    Some (DefineFun "s" (TBV 3) (BVAdd (BVSymbol "t" 3) (BVLiteral 3 1) 3)) /\
  script_check [] (script Fixed (enc_new ex3_sys ex_nm) 0 0) = false.
Proof. vm_compute. repeat split. Qed.
