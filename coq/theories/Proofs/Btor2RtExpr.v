(** * Proofs/Btor2RtExpr.v — what the reader rebuilds from what the writer printed, on expressions.

    [tr m e] is the expression the btor2 reader ends up with for the lines the writer emits for
    [e]: the symbols are replaced along the symbol map [m] (writer symbol -> reader symbol), and
    every node is rebuilt by the builders of context.rs, i.e. put into their normal form
    ([norm_node]: a slice of the whole operand and an extension by zero bits are the operand).

    Proved here: [tr] keeps types and well-typedness, is stable under extensions of the map by
    symbols that do not occur, and MEANS THE SAME: evaluating [tr m e] under an environment is
    evaluating [e] under the environment pulled back along [m] ([tr_eval]); the same for the
    renaming pass of the reader ([rename_eval]). *)
From Coq Require Import List Lia Bool String NArith.
From Patronus Require Import Expr ExprLemmas ExprEqb Eval EvalProofs SysClosed Btor2Parse Btor2Ser Btor2ExprFacts Btor2RoundTripSpec.
Import ListNotations.
Open Scope N_scope.

(** ** symbol maps *)
Definition smap : Type := list (expr * expr).

Fixpoint sm_find (m : smap) (s : expr) : option expr :=
  match m with
  | [] => None
  | (k, v) :: m' => if expr_eqb s k then Some v else sm_find m' s
  end.

Definition sm_app (m : smap) (s : expr) : expr :=
  match sm_find m s with Some v => v | None => s end.

Definition sm_dom (m : smap) : list expr := map fst m.

(** every symbol is mapped to a well-typed symbol of its own type *)
Definition map_ok (m : smap) : Prop :=
  forall s v, sm_find m s = Some v -> is_symbol v = true /\ type_of v = type_of s /\ wt v = true.

Lemma map_ok_nil : map_ok [].
Proof. intros s v H. discriminate. Qed.

Lemma map_ok_cons m k v :
  map_ok m -> is_symbol v = true -> type_of v = type_of k -> wt v = true -> map_ok ((k, v) :: m).
Proof.
  intros Hm H1 H2 H3 s v0 H. cbn [sm_find] in H. destruct (expr_eqb s k) eqn:E.
  - apply expr_eqb_eq in E. subst s. inversion H; subst v0. auto.
  - apply Hm. exact H.
Qed.

Lemma sm_find_dom m s v : sm_find m s = Some v -> In s (sm_dom m).
Proof.
  induction m as [|[k v0] m IH]; cbn [sm_find sm_dom map fst]; [discriminate|].
  destruct (expr_eqb s k) eqn:E; intros H.
  - apply expr_eqb_eq in E. subst. left. reflexivity.
  - right. apply IH. exact H.
Qed.

Lemma sm_find_not_dom m s : ~ In s (sm_dom m) -> sm_find m s = None.
Proof.
  induction m as [|[k v0] m IH]; cbn [sm_find sm_dom map fst]; [reflexivity|].
  intros H. destruct (expr_eqb s k) eqn:E; [apply expr_eqb_eq in E; subst; exfalso; apply H; left; reflexivity|].
  apply IH. intros Hin. apply H. right. exact Hin.
Qed.

Lemma sm_app_type m s : map_ok m -> type_of (sm_app m s) = type_of s.
Proof. intros Hm. unfold sm_app. destruct (sm_find m s) eqn:E; [apply (Hm _ _ E)|reflexivity]. Qed.

Lemma sm_app_wt m s : map_ok m -> wt s = true -> wt (sm_app m s) = true.
Proof. intros Hm H. unfold sm_app. destruct (sm_find m s) eqn:E; [apply (Hm _ _ E)|exact H]. Qed.

Lemma sm_app_symbol m s : map_ok m -> is_symbol s = true -> is_symbol (sm_app m s) = true.
Proof. intros Hm H. unfold sm_app. destruct (sm_find m s) eqn:E; [apply (Hm _ _ E)|exact H]. Qed.

(** ** the translation *)
Fixpoint tr (m : smap) (e : expr) : expr :=
  let t := tr m in
  match e with
  | BVSymbol _ _ | ArraySymbol _ _ _ => sm_app m e
  | BVLiteral _ _ => e
  | BVZeroExt x b w => norm_node (BVZeroExt (t x) b w)
  | BVSignExt x b w => norm_node (BVSignExt (t x) b w)
  | BVSlice x h l => norm_node (BVSlice (t x) h l)
  | BVNot x w => BVNot (t x) w
  | BVNegate x w => BVNegate (t x) w
  | BVEqual a b => BVEqual (t a) (t b)
  | BVImplies a b => BVImplies (t a) (t b)
  | BVGreater a b => BVGreater (t a) (t b)
  | BVGreaterSigned a b w => BVGreaterSigned (t a) (t b) w
  | BVGreaterEqual a b => BVGreaterEqual (t a) (t b)
  | BVGreaterEqualSigned a b w => BVGreaterEqualSigned (t a) (t b) w
  | BVConcat a b w => BVConcat (t a) (t b) w
  | BVAnd a b w => BVAnd (t a) (t b) w
  | BVOr a b w => BVOr (t a) (t b) w
  | BVXor a b w => BVXor (t a) (t b) w
  | BVShiftLeft a b w => BVShiftLeft (t a) (t b) w
  | BVArithmeticShiftRight a b w => BVArithmeticShiftRight (t a) (t b) w
  | BVShiftRight a b w => BVShiftRight (t a) (t b) w
  | BVAdd a b w => BVAdd (t a) (t b) w
  | BVMul a b w => BVMul (t a) (t b) w
  | BVSignedDiv a b w => BVSignedDiv (t a) (t b) w
  | BVUnsignedDiv a b w => BVUnsignedDiv (t a) (t b) w
  | BVSignedMod a b w => BVSignedMod (t a) (t b) w
  | BVSignedRem a b w => BVSignedRem (t a) (t b) w
  | BVUnsignedRem a b w => BVUnsignedRem (t a) (t b) w
  | BVSub a b w => BVSub (t a) (t b) w
  | BVArrayRead a b w => BVArrayRead (t a) (t b) w
  | BVIte a b c => BVIte (t a) (t b) (t c)
  | ArrayConstant x iw dw => ArrayConstant (t x) iw dw
  | ArrayEqual a b => ArrayEqual (t a) (t b)
  | ArrayStore a b c => ArrayStore (t a) (t b) (t c)
  | ArrayIte a b c => ArrayIte (t a) (t b) (t c)
  end.

(** the node with translated children, before the builder's normal form *)
Definition pre (m : smap) (e : expr) : expr :=
  let t := tr m in
  match e with
  | BVSymbol _ _ | ArraySymbol _ _ _ | BVLiteral _ _ => e
  | BVZeroExt x b w => BVZeroExt (t x) b w
  | BVSignExt x b w => BVSignExt (t x) b w
  | BVSlice x h l => BVSlice (t x) h l
  | BVNot x w => BVNot (t x) w
  | BVNegate x w => BVNegate (t x) w
  | BVEqual a b => BVEqual (t a) (t b)
  | BVImplies a b => BVImplies (t a) (t b)
  | BVGreater a b => BVGreater (t a) (t b)
  | BVGreaterSigned a b w => BVGreaterSigned (t a) (t b) w
  | BVGreaterEqual a b => BVGreaterEqual (t a) (t b)
  | BVGreaterEqualSigned a b w => BVGreaterEqualSigned (t a) (t b) w
  | BVConcat a b w => BVConcat (t a) (t b) w
  | BVAnd a b w => BVAnd (t a) (t b) w
  | BVOr a b w => BVOr (t a) (t b) w
  | BVXor a b w => BVXor (t a) (t b) w
  | BVShiftLeft a b w => BVShiftLeft (t a) (t b) w
  | BVArithmeticShiftRight a b w => BVArithmeticShiftRight (t a) (t b) w
  | BVShiftRight a b w => BVShiftRight (t a) (t b) w
  | BVAdd a b w => BVAdd (t a) (t b) w
  | BVMul a b w => BVMul (t a) (t b) w
  | BVSignedDiv a b w => BVSignedDiv (t a) (t b) w
  | BVUnsignedDiv a b w => BVUnsignedDiv (t a) (t b) w
  | BVSignedMod a b w => BVSignedMod (t a) (t b) w
  | BVSignedRem a b w => BVSignedRem (t a) (t b) w
  | BVUnsignedRem a b w => BVUnsignedRem (t a) (t b) w
  | BVSub a b w => BVSub (t a) (t b) w
  | BVArrayRead a b w => BVArrayRead (t a) (t b) w
  | BVIte a b c => BVIte (t a) (t b) (t c)
  | ArrayConstant x iw dw => ArrayConstant (t x) iw dw
  | ArrayEqual a b => ArrayEqual (t a) (t b)
  | ArrayStore a b c => ArrayStore (t a) (t b) (t c)
  | ArrayIte a b c => ArrayIte (t a) (t b) (t c)
  end.

Lemma tr_pre m e : is_symbol e = false -> tr m e = norm_node (pre m e).
Proof. destruct e; cbn [is_symbol]; intros H; try discriminate; reflexivity. Qed.

Lemma pre_children m e : is_symbol e = false -> children (pre m e) = map (tr m) (children e).
Proof. destruct e; cbn [is_symbol]; intros H; try discriminate; reflexivity. Qed.

(** induction over expressions with the children as a list *)
Lemma expr_ind_children (P : expr -> Prop) :
  (forall e, Forall P (children e) -> P e) -> forall e, P e.
Proof.
  intros H. induction e; apply H; cbn [children]; repeat constructor; assumption.
Qed.

(** [norm_node] keeps type, well-typedness and meaning *)
Lemma norm_node_cases e : norm_node e = e \/ (exists x, children e = [x] /\ norm_node e = x /\
  ((exists hi, e = BVSlice x hi 0 /\ type_of x = TBV (hi + 1)) \/ (exists w, e = BVZeroExt x 0 w) \/ (exists w, e = BVSignExt x 0 w))).
Proof.
  destruct e; cbn [norm_node]; auto.
  - destruct (N.eqb_spec by_ 0) as [->|]; [right|auto]. exists e. repeat split; eauto.
  - destruct (N.eqb_spec by_ 0) as [->|]; [right|auto]. exists e. repeat split; eauto.
  - destruct (N.eqb_spec lo 0) as [->|]; cbn [andb]; [|auto].
    destruct (N.eqb_spec (hi + 1) (width e)) as [E|]; [right|auto]. exists e. repeat split; auto.
    left. exists hi. split; auto. unfold width in E. destruct (type_of e) eqn:Et.
    + subst. reflexivity.
    + lia.
Qed.

Lemma norm_node_type e : wt e = true -> type_of (norm_node e) = type_of e.
Proof.
  intros Hwt. destruct (norm_node_cases e) as [->|(x & Hc & -> & [(hi & -> & Ht)|[(w & ->)|(w & ->)]])]; auto.
  - rewrite Ht. cbn [type_of]. f_equal. lia.
  - apply wt_zext in Hwt. destruct Hwt as (_ & Ht & _). rewrite Ht. cbn [type_of]. f_equal. lia.
  - apply wt_sext in Hwt. destruct Hwt as (_ & Ht & _). rewrite Ht. cbn [type_of]. f_equal. lia.
Qed.

Lemma norm_node_wt e : wt e = true -> wt (norm_node e) = true.
Proof.
  intros Hwt. destruct (norm_node_cases e) as [->|(x & Hc & -> & _)]; auto.
  apply (wt_child e); auto. rewrite Hc. left. reflexivity.
Qed.

Lemma earr_of_bv rho x w : wt x = true -> type_of x = TBV w -> earr rho x = fun _ => 0.
Proof.
  intros Hwt Ht. pose proof (wt_array_type x Hwt) as Ha. rewrite Ht in Ha.
  destruct x; cbn [is_array_type] in Ha; try discriminate; reflexivity.
Qed.

Lemma norm_node_eval rho e : env_wf rho -> wt e = true ->
  ebv rho (norm_node e) = ebv rho e /\ earr rho (norm_node e) = earr rho e.
Proof.
  intros Hrho Hwt. destruct (norm_node_cases e) as [->|(x & Hc & -> & [(hi & -> & Ht)|[(w & ->)|(w & ->)]])]; auto.
  - apply wt_slice in Hwt. destruct Hwt as (Hx & _). split; [|rewrite (earr_of_bv rho x _ Hx Ht); reflexivity]. cbn [ebv]. unfold bv_slice.
    pose proof (ebv_bound rho Hrho x (hi + 1) Hx Ht) as Hb.
    rewrite N.pow_0_r, N.div_1_r, N.sub_0_r. symmetry. apply N.mod_small. exact Hb.
  - apply wt_zext in Hwt. destruct Hwt as (Hx & Ht & _). split; [reflexivity|rewrite (earr_of_bv rho x _ Hx Ht); reflexivity].
  - apply wt_sext in Hwt. destruct Hwt as (Hx & Ht & _). split; [|rewrite (earr_of_bv rho x _ Hx Ht); reflexivity]. cbn [ebv]. unfold bv_sext. destruct (msb _ _); [|reflexivity]. cbn. lia.
Qed.

(** ** [tr] keeps types and well-typedness *)
Ltac fa_inv :=
  repeat match goal with
         | H : Forall _ [] |- _ => clear H
         | H : Forall _ (_ :: _) |- _ =>
             let H1 := fresh "Hc" in let H2 := fresh "Hr" in
             apply Forall_cons_iff in H; destruct H as [H1 H2]
         end.

Lemma pre_node_ok m e :
  is_symbol e = false -> Forall (fun c => type_of (tr m c) = type_of c) (children e) ->
  node_ok (pre m e) = node_ok e /\ type_of (pre m e) = type_of e.
Proof.
  intros Hs H. destruct e; cbn [is_symbol] in Hs; try discriminate; cbn [children] in H; fa_inv;
    unfold node_ok; cbn [pre check1 leaf_ok type_of];
    unfold expect_same_width_bvs_of, expect_same_width_bvs, expect_same_size_arrays;
    repeat match goal with Hc : type_of (tr m _) = _ |- _ => rewrite Hc; clear Hc end; split; reflexivity.
Qed.

Lemma tr_ok m : map_ok m -> forall e, wt e = true -> type_of (tr m e) = type_of e /\ wt (tr m e) = true.
Proof.
  intros Hm. apply (expr_ind_children (fun e => wt e = true -> type_of (tr m e) = type_of e /\ wt (tr m e) = true)).
  intros e IH Hwt. destruct (is_symbol e) eqn:Es.
  - destruct e; cbn [is_symbol] in Es; try discriminate; cbn [tr]; split; auto using sm_app_type, sm_app_wt.
  - rewrite (tr_pre m e Es).
    rewrite wt_children in Hwt. apply andb_true_iff in Hwt. destruct Hwt as [Hn Hc].
    rewrite forallb_forall in Hc. rewrite Forall_forall in IH.
    assert (Hty : Forall (fun c => type_of (tr m c) = type_of c) (children e)).
    { apply Forall_forall. intros c Hin. apply IH; auto. }
    destruct (pre_node_ok m e Es Hty) as [Hno Hpt].
    assert (Hwp : wt (pre m e) = true).
    { rewrite wt_children, Hno, Hn, (pre_children m e Es). cbn [andb]. apply forallb_forall.
      intros c' Hin. apply in_map_iff in Hin. destruct Hin as (c & <- & Hin). apply IH; auto. }
    split; [rewrite (norm_node_type _ Hwp); exact Hpt|apply norm_node_wt; exact Hwp].
Qed.

Lemma tr_type m e : map_ok m -> wt e = true -> type_of (tr m e) = type_of e.
Proof. intros Hm H. apply (tr_ok m Hm e H). Qed.

Lemma tr_wt m e : map_ok m -> wt e = true -> wt (tr m e) = true.
Proof. intros Hm H. apply (tr_ok m Hm e H). Qed.

Lemma pre_ok m e : map_ok m -> is_symbol e = false -> wt e = true ->
  wt (pre m e) = true /\ type_of (pre m e) = type_of e.
Proof.
  intros Hm Es Hwt.
  assert (Hty : Forall (fun c => type_of (tr m c) = type_of c) (children e)).
  { apply Forall_forall. intros c Hin. apply tr_type; auto. apply (wt_child e); auto. }
  destruct (pre_node_ok m e Es Hty) as [Hno Hpt]. split; [|exact Hpt].
  pose proof Hwt as Hwt'. rewrite wt_children in Hwt'. apply andb_true_iff in Hwt'. destruct Hwt' as [Hn Hc].
  rewrite wt_children, Hno, Hn, (pre_children m e Es). cbn [andb]. apply forallb_forall.
  intros c' Hin. apply in_map_iff in Hin. destruct Hin as (c & <- & Hin). apply tr_wt; auto. apply (wt_child e); auto.
Qed.

(** ** stability under extensions of the map *)
Lemma tr_extend m m' e : (forall s, In s (syms e) -> sm_app m' s = sm_app m s) -> tr m' e = tr m e.
Proof.
  induction e; cbn [syms tr]; intros H;
    repeat match goal with
           | IH : _ -> tr m' ?x = tr m ?x |- _ =>
               rewrite IH by (intros s0 Hs0; apply H; rewrite ?in_app_iff; auto); clear IH
           end; try reflexivity; apply H; left; reflexivity.
Qed.

(** ** meaning *)
Definition env_pull (f : expr -> expr) (rho : env) : env :=
  {| rho_bv := fun n w => match f (BVSymbol n w) with BVSymbol n' w' => rho_bv rho n' w' | _ => 0 end;
     rho_arr := fun n iw dw => match f (ArraySymbol n iw dw) with
                               | ArraySymbol n' iw' dw' => rho_arr rho n' iw' dw'
                               | _ => fun _ => 0
                               end |}.

Lemma env_pull_wf f rho : type_keeping f -> env_wf rho -> env_wf (env_pull f rho).
Proof.
  intros Hf [Hb Ha]. split.
  - intros n w. cbn [env_pull rho_bv]. destruct (Hf (BVSymbol n w) eq_refl) as [Hs Ht].
    destruct (f (BVSymbol n w)); cbn [is_symbol type_of] in *; try discriminate. inversion Ht; subst. apply Hb.
  - intros n iw dw i. cbn [env_pull rho_arr]. destruct (Hf (ArraySymbol n iw dw) eq_refl) as [Hs Ht].
    destruct (f (ArraySymbol n iw dw)); cbn [is_symbol type_of] in *; try discriminate. inversion Ht; subst. apply Ha.
Qed.

Lemma sm_app_keeping m : map_ok m -> type_keeping (sm_app m).
Proof. intros Hm s Hs. split; [apply sm_app_symbol|apply sm_app_type]; auto. Qed.

(** a symbol-to-symbol substitution under the pulled-back environment *)
Lemma sym_pull f rho s : type_keeping f -> is_symbol s = true ->
  ebv rho (f s) = ebv (env_pull f rho) s /\ earr rho (f s) = earr (env_pull f rho) s.
Proof.
  intros Hf Hs. destruct (Hf s Hs) as [Hfs Hft].
  destruct s; cbn [is_symbol] in Hs; try discriminate; cbn [ebv earr env_pull rho_bv rho_arr];
    destruct (f _); cbn [is_symbol type_of] in *; try discriminate; inversion Hft; subst; split; reflexivity.
Qed.

Ltac both_inv :=
  repeat match goal with
         | H : _ /\ _ |- _ => destruct H
         end.

Lemma tr_eval m rho : map_ok m -> env_wf rho -> forall e, wt e = true ->
  ebv rho (tr m e) = ebv (env_pull (sm_app m) rho) e /\ earr rho (tr m e) = earr (env_pull (sm_app m) rho) e.
Proof.
  intros Hm Hrho.
  apply (expr_ind_children (fun e => wt e = true ->
           ebv rho (tr m e) = ebv (env_pull (sm_app m) rho) e /\ earr rho (tr m e) = earr (env_pull (sm_app m) rho) e)).
  intros e IH Hwt. destruct (is_symbol e) eqn:Es.
  - assert (tr m e = sm_app m e) as -> by (destruct e; cbn [is_symbol] in Es; try discriminate; reflexivity).
    apply sym_pull; auto using sm_app_keeping.
  - rewrite (tr_pre m e Es). destruct (pre_ok m e Hm Es Hwt) as [Hwp _].
    destruct (norm_node_eval rho (pre m e) Hrho Hwp) as [-> ->].
    assert (Hk : Forall (fun c => (ebv rho (tr m c) = ebv (env_pull (sm_app m) rho) c /\
                                   earr rho (tr m c) = earr (env_pull (sm_app m) rho) c) /\
                                  type_of (tr m c) = type_of c) (children e)).
    { rewrite Forall_forall in IH. apply Forall_forall. intros c Hin.
      assert (Hwc : wt c = true) by (apply (wt_child e); auto). split; [apply IH; auto|apply tr_type; auto]. }
    clear IH Hwp.
    destruct e; cbn [is_symbol] in Es; try discriminate; cbn [children] in Hk; fa_inv; both_inv;
      cbn [pre ebv earr]; unfold width, index_width;
      repeat match goal with
             | H : ebv rho (tr m _) = _ |- _ => rewrite H; clear H
             | H : earr rho (tr m _) = _ |- _ => rewrite H; clear H
             | H : type_of (tr m _) = _ |- _ => rewrite H; clear H
             end; split; reflexivity.
Qed.

(** the renaming pass of the reader is a symbol substitution *)
Lemma rename_sym_keeping ren : type_keeping (rename_sym ren).
Proof. intros s Hs. split; [apply rename_sym_is_symbol; exact Hs|apply rename_sym_type]. Qed.

Lemma rename_eval ren rho : forall e,
  ebv rho (rename ren e) = ebv (env_pull (rename_sym ren) rho) e /\
  earr rho (rename ren e) = earr (env_pull (rename_sym ren) rho) e.
Proof.
  induction e; both_inv;
    try (apply (sym_pull (rename_sym ren) rho); [apply rename_sym_keeping|reflexivity]);
    cbn [rename ebv earr]; unfold width, index_width; rewrite ?type_of_rename;
    repeat match goal with
           | H : ebv rho (rename ren _) = _ |- _ => rewrite H; clear H
           | H : earr rho (rename ren _) = _ |- _ => rewrite H; clear H
           end; split; reflexivity.
Qed.

Lemma rename_nil e : rename [] e = e.
Proof. induction e; cbn [rename rename_sym lookup_name]; congruence. Qed.
