(** * Proofs/WitFullExamples.v — a small unsafe system on which the full BMC model and the PDR model with
    its witness path are RUN (non-vacuity of the C03 theorems about them).

    input en:1; state c:2 init 0 next c + zext(en); constraint en == 1;
    bad states: c == 2, c > 2, c > 1.  Under the constraint c counts 0, 1, 2: the least counterexample has
    two steps and violates exactly the bad states 0 and 2. *)
From Coq Require Import List String NArith Lia.
From Patronus Require Import SysExec ReachSpec Witness Bmc BmcWit BmcWitFull PdrSys PdrImpl PdrWit Encoding EncodingOrder
     BmcProofs BmcWitFullProofs.
Import ListNotations.
Open Scope N_scope.
Open Scope string_scope.

Definition exw_c := BVSymbol "c" 2.
Definition exw_en := BVSymbol "en" 1.
Definition exw_sys : sys :=
  {| s_inputs := [exw_en];
     s_states := [ {| st_sym := exw_c; st_init := Some (BVLiteral 2 0);
                      st_next := Some (BVAdd exw_c (BVZeroExt exw_en 1 2) 2) |} ];
     s_outputs := [];
     s_bads := [BVEqual exw_c (BVLiteral 2 2); BVGreater exw_c (BVLiteral 2 2); BVGreater exw_c (BVLiteral 2 1)];
     s_constraints := [BVEqual exw_en (BVLiteral 1 1)] |}.

Definition exw_nm (e : expr) : string :=
  match e with
  | BVSymbol n _ => n
  | BVAdd _ _ _ => "__add"
  | BVZeroExt _ _ _ => "__zext"
  | BVEqual (BVSymbol _ 1) _ => "__cons"
  | BVEqual _ _ => "__eq"
  | BVGreater _ (BVLiteral _ 2) => "__gt2"
  | BVGreater _ _ => "__gt1"
  | _ => "__other"
  end.

Definition exw_witness : witness :=
  {| w_init := [Some (VB 0)]; w_init_names := [Some "c"];
     w_inputs := [[Some (VB 1)]; [Some (VB 1)]; [Some (VB 1)]]; w_input_names := [Some "en"];
     w_failed := [0; 2] |}.

Lemma exw_hypotheses :
  sys_wf exw_sys = true /\ nodup_exprs (s_inputs exw_sys) = true /\
  names_ok (enc_new exw_sys exw_nm) = true /\ init_deps_acyclic exw_sys.
Proof.
  split; [vm_compute; reflexivity|]. split; [vm_compute; reflexivity|]. split; [vm_compute; reflexivity|].
  exists (fun _ => 0%nat). intros st e st' Hst Hst' He Hy. cbn in Hst.
  destruct Hst as [<-|[]]. cbn in He. injection He as <-. cbn in Hy. contradiction.
Qed.

(** solvers with faults, built from the enumerating solver *)
Definition exw_unknown_on_plain_check : solver unit :=      (* "unknown" to the (check-sat) of check_constraints *)
  {| sv_check := fun sc a b => match b with [] => SUnknown | _ => sv_check (enum_solver unit) sc a b end;
     sv_value := sv_value (enum_solver unit); sv_fault := fun _ => None |}.
Definition exw_unsat_on_plain_check : solver unit :=        (* claims the constraints are contradictory *)
  {| sv_check := fun sc a b => match b with [] => SUnsat | _ => sv_check (enum_solver unit) sc a b end;
     sv_value := sv_value (enum_solver unit); sv_fault := fun _ => None |}.
Definition exw_error_at_step (k : N) : solver unit :=       (* the unroll of step k fails *)
  {| sv_check := sv_check (enum_solver unit); sv_value := sv_value (enum_solver unit);
     sv_fault := fun p => match p with PhUnroll j => if N.eqb j k then Some tt else None | _ => None end |}.
Definition exw_value_error : solver unit :=                 (* get-value of an input symbol fails *)
  {| sv_check := sv_check (enum_solver unit);
     sv_value := fun sc m s => match s with BVSymbol "en@1" _ => GErr tt | _ => sv_value (enum_solver unit) sc m s end;
     sv_fault := fun _ => None |}.
Definition exw_gives_up : solver unit :=                    (* "unknown" to every query with an assumption *)
  {| sv_check := fun sc a b => match b with [] => sv_check (enum_solver unit) sc a b | _ => SUnknown end;
     sv_value := sv_value (enum_solver unit); sv_fault := fun _ => None |}.

(** every parameter combination returns the witness; the other exits are reached too *)
Lemma exw_bmc_runs :
  (forall cc ind, bmc_model_full unit (enum_solver unit) exw_sys exw_nm cc ind 5 = FFail 2 exw_witness) /\
  check_witness exw_sys exw_witness = true /\
  bmc_model_full unit (enum_solver unit) exw_sys exw_nm true true 1 = FSuccess /\
  bmc_model_full unit exw_unknown_on_plain_check exw_sys exw_nm true false 5 = FUnknown /\
  bmc_model_full unit exw_unknown_on_plain_check exw_sys exw_nm false false 5 = FFail 2 exw_witness /\
  bmc_model_full unit exw_unsat_on_plain_check exw_sys exw_nm true true 5 = FPanic /\
  bmc_model_full unit (exw_error_at_step 1) exw_sys exw_nm false true 5 = FErr tt /\
  bmc_model_full unit exw_value_error exw_sys exw_nm false false 5 = FErr tt /\
  bmc_model_full unit exw_gives_up exw_sys exw_nm true true 5 = FUnknown /\
  bmc_model_full unit (enum_solver unit) exw_sys exw_nm false false 2001 = FPanic.
Proof.
  split; [intros [|] [|]; vm_compute; reflexivity|]. vm_compute. repeat split; reflexivity.
Qed.

(** the PDR model with its witness path, the exhaustive-search oracle for the PDR queries and the
    enumerating solver for the BMC run after the restart: Fail with the same witness; a failing restart is
    an error; a restarted solver that gives up makes the verdict Unknown *)
Definition exw_pdr (restart_fault : option unit) (sv : solver unit) :=
  pdr_wit unit exw_sys exw_nm (sys_enum_solve unit exw_sys) (fun _ => None) 3 true restart_fault sv 50 50.

Lemma exw_pdr_runs :
  (exists st, exw_pdr None (enum_solver unit) = Ok _ _ _ _ (VFail witness exw_witness, st)) /\
  (match exw_pdr (Some tt) (enum_solver unit) with Err _ _ _ _ (ESolver _ tt) _ => true | _ => false end) = true /\
  (match exw_pdr None exw_gives_up with Ok _ _ _ _ (VUnknown _, _) => true | _ => false end) = true /\
  (match exw_pdr None exw_value_error with Err _ _ _ _ (ESolver _ tt) _ => true | _ => false end) = true.
Proof.
  split; [eexists; vm_compute; reflexivity|]. vm_compute. repeat split; reflexivity.
Qed.

(** ** a system whose constraints become unsatisfiable (for the C02 theorems about [check_constraints])

    state c:2 init 0 next c + 1; constraint not (c == 2); bad state c == [b].  Executions have at most one
    step (c = 0, 1); at step 2 the constraints are contradictory.  With b = 3 no bad state is ever reached:
    [check_constraints = false] answers Success, [check_constraints = true] trips the assert_eq! at step 2.
    With b = 1 the counterexample of one step is reported with and without [check_constraints]. *)
Definition exp_sys (b : N) : sys :=
  {| s_inputs := [];
     s_states := [ {| st_sym := exw_c; st_init := Some (BVLiteral 2 0);
                      st_next := Some (BVAdd exw_c (BVLiteral 2 1) 2) |} ];
     s_outputs := [];
     s_bads := [BVEqual exw_c (BVLiteral 2 b)];
     s_constraints := [BVNot (BVEqual exw_c (BVLiteral 2 2)) 1] |}.

Definition exp_nm (e : expr) : string :=
  match e with
  | BVSymbol n _ => n
  | BVAdd _ _ _ => "__add"
  | BVNot _ _ => "__not"
  | BVEqual _ (BVLiteral _ 2) => "__eq2"
  | BVEqual _ _ => "__eqb"
  | _ => "__other"
  end.

Definition exp_signals_ok (b : N) (k_max : nat) : bool :=
  forallb (fun k => match signals_at (enc_new (exp_sys b) exp_nm) (s_constraints (exp_sys b)) k,
                          signals_at (enc_new (exp_sys b) exp_nm) (s_bads (exp_sys b)) k with
                    | Some _, Some _ => true | _, _ => false end) (range (N.of_nat k_max + 1)).

Lemma exp_runs :
  (sys_wf (exp_sys 3) = true /\ nodup_exprs (s_inputs (exp_sys 3)) = true /\ names_ok (enc_new (exp_sys 3) exp_nm) = true /\
   exp_signals_ok 3 5 = true /\ exp_signals_ok 1 5 = true) /\
  (forall ind, bmc_model_full unit (enum_solver unit) (exp_sys 3) exp_nm false ind 5 = FSuccess) /\
  (forall ind, bmc_model_full unit (enum_solver unit) (exp_sys 3) exp_nm true ind 5 = FPanic) /\
  (forall ind, bmc_model_full unit (enum_solver unit) (exp_sys 3) exp_nm true ind 1 = FSuccess) /\
  (forall cc ind, exists w, bmc_model_full unit (enum_solver unit) (exp_sys 1) exp_nm cc ind 5 = FFail 1 w).
Proof.
  split; [vm_compute; repeat split; reflexivity|].
  split; [intros [|]; vm_compute; reflexivity|].
  split; [intros [|]; vm_compute; reflexivity|].
  split; [intros [|]; vm_compute; reflexivity|].
  intros [|] [|]; eexists; vm_compute; reflexivity.
Qed.

From Patronus Require Import BmcFullExact.
Lemma enum_solver_total (EM : Type) : solver_total (enum_solver EM).
Proof.
  unfold enum_solver, lift_solver. split; [|split; [|split]]; cbn.
  - intros sc a b. destruct (enum_model sc a b); discriminate.
  - intros sc a b e. destruct (enum_model sc a b); discriminate.
  - intros sc m s e. discriminate.
  - reflexivity.
Qed.

Lemma enum_solver_sound_total (EM : Type) : solver_sound (enum_solver EM) /\ solver_total (enum_solver EM).
Proof. split; [apply enum_solver_sound|apply enum_solver_total]. Qed.
