(** * Proofs/Btor2ParseProofs.v — the acceptance invariant of the btor2 reader model.

    Main result [accepted_weak]: with debug assertions on ([dbg = true]) and no
    [sort bitvec 0] line, a system returned by [parse_lines] has only well-typed
    expressions, typed init/next, symbol inputs/states, and is closed. *)
From Coq Require Import List Lia Bool String Ascii NArith FMapPositive.
From Patronus Require Import Expr ExprLemmas SysClosed Btor2Parse Btor2ExprFacts.
Import ListNotations.
Open Scope N_scope.

(** ** the result monad *)
Lemma pbind_ok {A B} (m : pres A) (f : A -> pres B) r :
  pbind m f = POk r -> exists a, m = POk a /\ f a = POk r.
Proof. destruct m; cbn [pbind]; try discriminate. eauto. Qed.

Lemma of_opt_ok {A} (o : option A) a : of_opt o = POk a -> o = Some a.
Proof. destruct o; cbn [of_opt]; intros H; inversion H; reflexivity. Qed.

Ltac binv H a Ha :=
  apply pbind_ok in H; destruct H as (a & Ha & H).

(** ** builders with debug assertions on *)
Lemma unwrap_bv_ok e w : unwrap_bv e = POk w -> type_of e = TBV w.
Proof. unfold unwrap_bv. destruct (type_of e); intros H; inversion H; reflexivity. Qed.

Lemma b_same_ok mk a b r :
  b_same true mk a b = POk r -> exists w, type_of a = TBV w /\ type_of b = TBV w /\ r = mk a b w.
Proof.
  unfold b_same. intros H. binv H wa Ha. binv H wb Hb.
  apply unwrap_bv_ok in Ha, Hb. destruct (N.eqb_spec wa wb); [|discriminate].
  inversion H; subst. eauto.
Qed.

Lemma b_cmp_ok mk a b r :
  b_cmp true mk a b = POk r -> exists w, type_of a = TBV w /\ type_of b = TBV w /\ r = mk a b.
Proof.
  unfold b_cmp. intros H. binv H wa Ha. binv H wb Hb.
  apply unwrap_bv_ok in Ha, Hb. destruct (N.eqb_spec wa wb); [|discriminate].
  inversion H; subst. eauto.
Qed.

Lemma b_equal_ok a b r :
  b_equal true a b = POk r ->
  type_of a = type_of b /\ r = (if is_bv_ty (type_of a) then BVEqual a b else ArrayEqual a b).
Proof.
  unfold b_equal. cbn [andb]. destruct (ty_eqb (type_of a) (type_of b)) eqn:E; cbn [negb]; [|discriminate].
  apply ty_eqb_eq in E. intros H; inversion H. auto.
Qed.

Lemma b_implies_ok a b r : b_implies true a b = POk r -> r = BVImplies a b.
Proof.
  unfold b_implies. intros H. binv H wa Ha. destruct (negb (wa =? 1)); [discriminate|].
  binv H wb Hb. destruct (negb (wb =? 1)); [discriminate|]. inversion H; reflexivity.
Qed.

Lemma b_ite_ok c t f r :
  b_ite true c t f = POk r -> r = (if is_bv_ty (type_of t) then BVIte c t f else ArrayIte c t f).
Proof.
  unfold b_ite. intros H. binv H wc Hc. destruct (negb (wc =? 1)); [discriminate|].
  destruct (negb (ty_eqb (type_of t) (type_of f))); [discriminate|]. inversion H; reflexivity.
Qed.

Lemma b_not_ok e r : b_not e = POk r -> exists w, type_of e = TBV w /\ r = BVNot e w.
Proof. unfold b_not. intros H. binv H w Hw. apply unwrap_bv_ok in Hw. inversion H; eauto. Qed.

Lemma b_neg_ok e r : b_neg e = POk r -> exists w, type_of e = TBV w /\ r = BVNegate e w.
Proof. unfold b_neg. intros H. binv H w Hw. apply unwrap_bv_ok in Hw. inversion H; eauto. Qed.

Lemma u32add_true_ok a b s : u32add true a b = POk s -> s = a + b.
Proof. unfold u32add. destruct (a + b <=? U32MAX); intros H; inversion H; reflexivity. Qed.

Lemma u32sub_true_ok a b d : u32sub true a b = POk d -> d = a - b /\ b <= a.
Proof. unfold u32sub. destruct (N.leb_spec b a) as [Hle|Hlt]; intros H; inversion H; auto. Qed.

Lemma b_concat_ok a b r :
  b_concat true a b = POk r ->
  exists wa wb, type_of a = TBV wa /\ type_of b = TBV wb /\ r = BVConcat a b (wa + wb).
Proof.
  unfold b_concat. intros H. binv H wa Ha. binv H wb Hb. binv H w Hw.
  apply unwrap_bv_ok in Ha, Hb. apply u32add_true_ok in Hw. inversion H; subst. eauto.
Qed.

Lemma b_slice_ok e hi lo r : b_slice true e hi lo = POk r -> r = e \/ r = BVSlice e hi lo.
Proof.
  unfold b_slice. intros H.
  assert (Hb : (if hi <? lo then PPanic PSliceOrder else POk (BVSlice e hi lo)) = POk r -> r = BVSlice e hi lo).
  { destruct (hi <? lo); intros H'; inversion H'; reflexivity. }
  destruct (lo =? 0).
  - binv H h1 Hh. binv H w Hw. destruct (h1 =? w).
    + inversion H; auto.
    + right; auto.
  - right; auto.
Qed.

Lemma b_ext_ok mk e by_ r :
  b_ext true mk e by_ = POk r ->
  r = e \/ exists w, type_of e = TBV w /\ by_ <> 0 /\ r = mk e by_ (w + by_).
Proof.
  unfold b_ext. destruct (N.eqb_spec by_ 0).
  - intros H; inversion H; auto.
  - intros H. binv H w Hw. binv H w' Hw'. apply unwrap_bv_ok in Hw. apply u32add_true_ok in Hw'.
    inversion H; subst. right; eauto.
Qed.

Lemma b_read_ok a i r : b_read a i = POk r -> exists iw dw, type_of a = TArr iw dw /\ r = BVArrayRead a i dw.
Proof. unfold b_read. destruct (type_of a) eqn:E; intros H; inversion H; eauto. Qed.

Lemma b_array_const_ok e iw r : b_array_const e iw = POk r -> exists w, type_of e = TBV w /\ r = ArrayConstant e iw w.
Proof. unfold b_array_const. intros H. binv H w Hw. apply unwrap_bv_ok in Hw. inversion H; eauto. Qed.

Lemma b_lit_ok w v r : b_lit w v = POk r -> w <> 0 /\ r = BVLiteral w v.
Proof. unfold b_lit. destruct (N.eqb_spec w 0); intros H; inversion H; auto. Qed.

(** the type checker with overflow checks agrees with [check1] *)
Lemma tcheck_true_check1 e t : tcheck true e = POk t -> is_some (check1 e) = true.
Proof.
  destruct e; cbn [tcheck check1]; intros H;
    try (apply of_opt_ok in H; cbn [check1] in H; rewrite H; reflexivity).
  - binv H d Hd. apply u32sub_true_ok in Hd. destruct Hd as [-> _].
    destruct (expect_bv_of (type_of e) (w - by_)); [reflexivity|discriminate].
  - binv H d Hd. apply u32sub_true_ok in Hd. destruct Hd as [-> _].
    destruct (expect_bv_of (type_of e) (w - by_)); [reflexivity|discriminate].
  - destruct (type_of e1); [|discriminate]. destruct (type_of e2); [|discriminate].
    binv H s Hs. apply u32add_true_ok in Hs. subst s. unfold expect_bv_of.
    destruct (w0 + w1 =? w); [reflexivity|discriminate].
Qed.

Lemma check_expr_type_ok r tpe c :
  check_expr_type true r tpe = POk c -> c = r /\ is_some (check1 r) = true /\ type_of r = tpe.
Proof.
  unfold check_expr_type. intros H. binv H t Ht. apply tcheck_true_check1 in Ht.
  destruct (ty_eqb (type_of r) tpe) eqn:E; [|discriminate]. apply ty_eqb_eq in E.
  inversion H; subst. repeat split; auto.
Qed.

(** ** good expressions: well typed and closed in a list of declared symbols *)
Definition good (d : list expr) (e : expr) : Prop := wt e = true /\ incl (syms e) d.

Lemma good_mono d d' e : incl d d' -> good d e -> good d' e.
Proof. intros Hi [Hw Hc]. split; auto. eapply incl_tran; eauto. Qed.

Lemma good_node d r :
  is_symbol r = false -> is_some (check1 r) = true -> leaf_ok r = true ->
  (forall c, In c (children r) -> good d c) -> good d r.
Proof.
  intros Hs Hc Hl Hk. split.
  - apply wt_intro; auto. intros c Hin. apply (Hk c Hin).
  - rewrite syms_children by exact Hs. intros x Hx. apply in_flat_map in Hx.
    destruct Hx as (c & Hin & Hx). destruct (Hk c Hin) as [_ Hcl]. apply Hcl. exact Hx.
Qed.

Lemma good_not d e w : good d e -> type_of e = TBV w -> good d (BVNot e w).
Proof. intros [Hw Hc] Ht. split; [apply wt_not_intro; auto | exact Hc]. Qed.

(** ** operator tables: shape of the constructors *)
Definition mk_ok (mk : expr -> expr -> N -> expr) : Prop :=
  forall a b w, is_symbol (mk a b w) = false /\ children (mk a b w) = [a; b] /\
                (type_of b = TBV w -> leaf_ok (mk a b w) = true).
Definition cmp_ok (mk : expr -> expr -> expr) : Prop :=
  forall a b, is_symbol (mk a b) = false /\ children (mk a b) = [a; b] /\ leaf_ok (mk a b) = true.

Definition binop_ok (bo : binop) : Prop :=
  match bo with BSame mk _ _ => mk_ok mk | BCmp mk _ => cmp_ok mk | _ => True end.

Ltac solve_mk_ok :=
  cbn [binop_ok]; try exact I;
  first [ (intros a b w; split; [reflexivity|split; [reflexivity|]]; cbn [leaf_ok]; intros Ht; try reflexivity;
           rewrite Ht; apply ty_eqb_refl)
        | (intros a b; split; [reflexivity|split; reflexivity]) ].

Lemma bin_table_ok op bo : bin_table op = Some bo -> binop_ok bo.
Proof.
  unfold bin_table.
  repeat match goal with
         | |- (if ?c then _ else _) = Some _ -> _ =>
             destruct c; [intros H; inversion H; subst; solve_mk_ok|]
         end.
  discriminate.
Qed.

(** ** the invariant of the line fold *)
Definition decl (st : pstate) : list expr := p_inputs st ++ map st_sym (p_states st).

Definition state_good (d : list expr) (s : state) : Prop :=
  is_symbol (st_sym s) = true /\ wt (st_sym s) = true /\
  (forall e, st_init s = Some e -> good d e /\ type_of e = type_of (st_sym s)) /\
  (forall e, st_next s = Some e -> good d e /\ type_of e = type_of (st_sym s)).

Record inv (st : pstate) : Prop := mkInv {
  inv_types : forall k t, PM.find k (p_types st) = Some t -> ty_pos t;
  inv_signals : forall k e, PM.find k (p_signals st) = Some e -> good (decl st) e;
  inv_inputs : forall e, In e (p_inputs st) -> is_symbol e = true /\ wt e = true;
  inv_states : forall s, In s (p_states st) -> state_good (decl st) s;
  inv_statemap : forall k i, PM.find k (p_statemap st) = Some i -> (i < List.length (p_states st))%nat;
  inv_outputs : forall o, In o (p_outputs st) -> good (decl st) (snd o);
  inv_bads : forall e, In e (p_bads st) -> good (decl st) e;
  inv_constraints : forall e, In e (p_constraints st) -> good (decl st) e
}.

Lemma get_expr_good st tok e : inv st -> get_expr st tok = POk e -> good (decl st) e.
Proof.
  intros Hinv. unfold get_expr. destruct (parse_line_id tok) as [[id neg]|]; [|discriminate].
  destruct (PM.find (key id) (p_signals st)) as [s|] eqn:E; [|discriminate].
  apply (inv_signals _ Hinv) in E. destruct neg.
  - intros H. apply b_not_ok in H. destruct H as (w & Ht & ->). apply good_not; auto.
  - intros H; inversion H; subst; auto.
Qed.

Lemma good_lit d w v : 0 < w -> v < 2 ^ w -> good d (BVLiteral w v).
Proof. intros Hw Hv. split; [apply wt_lit_intro; auto | cbn [syms]; apply incl_nil_l]. Qed.

Lemma pow2_pos w : 0 < 2 ^ w.
Proof. apply N.neq_0_lt_0, N.pow_nonzero. discriminate. Qed.

(** ** unary operators *)
Lemma parse_unary_good st toks u e n :
  inv st -> parse_unary true st toks u = POk (e, n) -> good (decl st) e.
Proof.
  intros Hinv H. unfold parse_unary, lower_unary in H.
  binv H u0 Hr. binv H tpe Htpe. binv H e0 He0. binv H rc Hrc. destruct rc as [r count].
  binv H c Hc. apply check_expr_type_ok in Hc. destruct Hc as (-> & Hck & Hty). inversion H; subst e n; clear H.
  pose proof (get_expr_good _ _ _ Hinv He0) as Hg0.
  destruct u.
  - (* not *)
    binv Hrc r0 Hb. inversion Hrc; subst. apply b_not_ok in Hb. destruct Hb as (w & Ht & ->).
    apply good_not; auto.
  - (* neg *)
    binv Hrc r0 Hb. inversion Hrc; subst. apply b_neg_ok in Hb. destruct Hb as (w & Ht & ->).
    apply good_node; auto. cbn [children]. intros c0 [<-|[]]; auto.
  - (* redand *)
    binv Hrc w Hw. apply unwrap_bv_ok in Hw. destruct (w =? 1).
    + inversion Hrc; subst; auto.
    + binv Hrc m Hm. binv Hrc q Hq. inversion Hrc; subst.
      apply b_lit_ok in Hm. destruct Hm as [Hw0 ->]. apply b_equal_ok in Hq. destruct Hq as [_ ->].
      rewrite Hw. cbn [is_bv_ty]. rewrite Hw in Hck. cbn [is_bv_ty] in Hck.
      apply good_node; auto. cbn [children]. intros c0 [<-|[<-|[]]]; auto.
      apply good_lit; [lia|]. pose proof (pow2_pos w). lia.
  - (* redor *)
    binv Hrc w Hw. apply unwrap_bv_ok in Hw. destruct (w =? 1).
    + inversion Hrc; subst; auto.
    + binv Hrc z Hz. binv Hrc q Hq. binv Hrc r0 Hn. inversion Hrc; subst.
      apply b_lit_ok in Hz. destruct Hz as [Hw0 ->]. apply b_equal_ok in Hq. destruct Hq as [_ ->].
      rewrite Hw in Hn. cbn [is_bv_ty] in Hn. apply b_not_ok in Hn. destruct Hn as (w1 & Ht1 & ->).
      apply good_not; auto. destruct Hg0 as [Hw0' Hc0]. split.
      * apply (wt_eq_intro _ _ w); auto. apply wt_lit_intro; [lia|apply pow2_pos].
      * cbn [syms]. rewrite app_nil_r. auto.
  - (* redxor *)
    binv Hrc w Hw. apply unwrap_bv_ok in Hw. destruct (w =? 1).
    + inversion Hrc; subst; auto.
    + destruct (N.eqb_spec w 0); [discriminate|]. inversion Hrc; subst.
      destruct Hg0 as [Hw0' Hc0].
      assert (Hs0 : wt (BVSlice e0 0 0) = true) by (apply (wt_slice_intro e0 w); auto; lia).
      assert (Hle : 1 + N.of_nat (N.to_nat (w - 1)) <= w) by (rewrite N2Nat.id; lia).
      destruct (xor_chain_wt (N.to_nat (w - 1)) e0 w 1 (BVSlice e0 0 0) Hw0' Hw Hle Hs0 (type_of_slice1 e0 0)) as [Hx _].
      split; auto. apply xor_chain_syms; auto.
  - (* slice *)
    binv Hrc u1 Hr1. binv Hrc hi1 Hm. binv Hrc lo1 Hl. binv Hrc r0 Hb. inversion Hrc; subst.
    apply b_slice_ok in Hb. destruct Hb as [->| ->]; auto.
    apply good_node; auto. cbn [children]. intros c0 [<-|[]]; auto.
  - (* uext *)
    binv Hrc u1 Hr1. binv Hrc by_ Hby. binv Hrc r0 Hb. inversion Hrc; subst.
    apply b_ext_ok in Hb. destruct Hb as [->|(w & Ht & Hby0 & ->)]; auto.
    apply good_node; auto.
    + cbn [leaf_ok]. apply N.ltb_lt. destruct Hg0 as [Hw0' _]. pose proof (wt_bv_pos _ _ Hw0' Ht). lia.
    + cbn [children]. intros c0 [<-|[]]; auto.
  - (* sext *)
    binv Hrc u1 Hr1. binv Hrc by_ Hby. binv Hrc r0 Hb. inversion Hrc; subst.
    apply b_ext_ok in Hb. destruct Hb as [->|(w & Ht & Hby0 & ->)]; auto.
    apply good_node; auto.
    + cbn [leaf_ok]. apply N.ltb_lt. destruct Hg0 as [Hw0' _]. pose proof (wt_bv_pos _ _ Hw0' Ht). lia.
    + cbn [children]. intros c0 [<-|[]]; auto.
  - discriminate.
Qed.

(** ** binary operators *)
Lemma good_pair d a b : good d a -> good d b -> forall c0, In c0 [a; b] -> good d c0.
Proof. intros Ha Hb c0 [<-|[<-|[]]]; auto. Qed.

Lemma parse_binary_good st toks bo e n :
  inv st -> binop_ok bo -> parse_binary true st toks bo = POk (e, n) -> good (decl st) e.
Proof.
  intros Hinv Hbo H. unfold parse_binary, lower_binary in H.
  binv H u0 Hr. binv H tpe Htpe. binv H a Ha. binv H b Hb. binv H r Hrc.
  binv H c Hc. apply check_expr_type_ok in Hc. destruct Hc as (-> & Hck & Hty). inversion H; subst e n; clear H.
  pose proof (get_expr_good _ _ _ Hinv Ha) as Hga. pose proof (get_expr_good _ _ _ Hinv Hb) as Hgb.
  destruct bo.
  - (* same-width family *)
    cbn [binop_ok] in Hbo. binv Hrc inner Hin.
    assert (Hinner : exists x y w, inner = mk x y w /\ good (decl st) x /\ good (decl st) y /\ type_of y = TBV w).
    { destruct swap; apply b_same_ok in Hin; destruct Hin as (w & Hta & Htb & ->); eauto 10. }
    destruct Hinner as (x & y & w & -> & Hgx & Hgy & Hty').
    destruct (Hbo x y w) as (Hs & Hk & Hl).
    destruct negafter.
    + binv Hrc c1 Hc1. apply check_expr_type_ok in Hc1. destruct Hc1 as (_ & Hck1 & Hty1).
      apply b_not_ok in Hrc. destruct Hrc as (w1 & Ht1 & ->). apply good_not; auto.
      apply good_node; auto. rewrite Hk. apply good_pair; auto.
    + inversion Hrc; subst. apply good_node; auto. rewrite Hk. apply good_pair; auto.
  - (* unsigned comparisons *)
    cbn [binop_ok] in Hbo.
    assert (Hr' : exists x y, r = mk x y /\ good (decl st) x /\ good (decl st) y).
    { destruct swap; apply b_cmp_ok in Hrc; destruct Hrc as (w & Hta & Htb & ->); eauto 10. }
    destruct Hr' as (x & y & -> & Hgx & Hgy). destruct (Hbo x y) as (Hs & Hk & Hl).
    apply good_node; auto. rewrite Hk. apply good_pair; auto.
  - (* eq / neq *)
    binv Hrc inner Hin. apply b_equal_ok in Hin. destruct Hin as [Htab ->].
    assert (Hshape : forall q, q = (if is_bv_ty (type_of a) then BVEqual a b else ArrayEqual a b) ->
                     is_some (check1 q) = true -> good (decl st) q).
    { intros q -> Hq. destruct (is_bv_ty (type_of a)); apply good_node; auto; cbn [children]; apply good_pair; auto. }
    destruct negafter.
    + binv Hrc c1 Hc1. apply check_expr_type_ok in Hc1. destruct Hc1 as (_ & Hck1 & Hty1).
      apply b_not_ok in Hrc. destruct Hrc as (w1 & Ht1 & ->). apply good_not; auto.
    + inversion Hrc; subst. auto.
  - (* iff *)
    destruct (negb (ty_eqb tpe (TBV 1))); [discriminate|].
    destruct (ty_eqb (type_of a) (TBV 1)) eqn:Ea; cbn [negb] in Hrc; [|discriminate].
    destruct (negb (ty_eqb (type_of b) (TBV 1))); [discriminate|].
    apply b_equal_ok in Hrc. destruct Hrc as [_ ->]. apply ty_eqb_eq in Ea. rewrite Ea in *. cbn [is_bv_ty] in *.
    apply good_node; auto. cbn [children]. apply good_pair; auto.
  - (* implies *)
    apply b_implies_ok in Hrc. subst r. apply good_node; auto. cbn [children]. apply good_pair; auto.
  - (* concat *)
    apply b_concat_ok in Hrc. destruct Hrc as (wa & wb & Hta & Htb & ->).
    apply good_node; auto. cbn [children]. apply good_pair; auto.
  - (* read *)
    apply b_read_ok in Hrc. destruct Hrc as (iw & dw & Hta & ->).
    apply good_node; auto. cbn [children]. apply good_pair; auto.
  - discriminate.
Qed.

(** ** ternary operators *)
Lemma good_triple d a b c : good d a -> good d b -> good d c -> forall c0, In c0 [a; b; c] -> good d c0.
Proof. intros Ha Hb Hc c0 [<-|[<-|[<-|[]]]]; auto. Qed.

Lemma parse_ternary_good st toks is_ite e n :
  inv st -> parse_ternary true st toks is_ite = POk (e, n) -> good (decl st) e.
Proof.
  intros Hinv H. unfold parse_ternary, lower_ternary in H.
  binv H u0 Hr. binv H tpe Htpe. binv H a Ha. binv H b Hb. binv H c Hc. binv H r Hrc.
  binv H k Hk. apply check_expr_type_ok in Hk. destruct Hk as (-> & Hck & Hty). inversion H; subst e n; clear H.
  pose proof (get_expr_good _ _ _ Hinv Ha) as Hga. pose proof (get_expr_good _ _ _ Hinv Hb) as Hgb.
  pose proof (get_expr_good _ _ _ Hinv Hc) as Hgc.
  destruct is_ite.
  - apply b_ite_ok in Hrc. subst r.
    destruct (is_bv_ty (type_of b)); apply good_node; auto; cbn [children]; apply good_triple; auto.
  - inversion Hrc; subst. apply good_node; auto. cbn [children]. apply good_triple; auto.
Qed.

(** ** constants are canonical: the value fits the width *)
Lemma slen_cons c s : slen (String c s) = N.succ (slen s).
Proof. unfold slen. cbn [String.length]. apply Nat2N.inj_succ. Qed.

Lemma digits_val_bound r : 0 < r ->
  (forall c d, digit_in r c = Some d -> d < r) ->
  forall s acc v, digits_val r s acc = Some v -> v + 1 <= (acc + 1) * r ^ slen s.
Proof.
  intros Hr Hd. induction s as [|c s IH]; intros acc v H; cbn [digits_val] in H.
  - inversion H; subst. unfold slen. cbn. lia.
  - destruct (digit_in r c) as [d|] eqn:E; [|discriminate]. apply Hd in E.
    apply IH in H. rewrite slen_cons, N.pow_succ_r'.
    assert (acc * r + d + 1 <= (acc + 1) * r) by nia.
    assert (0 < r ^ slen s) by (apply N.neq_0_lt_0, N.pow_nonzero; lia).
    nia.
Qed.

Lemma bin_digit_bound c d : digit_in 2 c = Some d -> d < 2.
Proof.
  unfold digit_in. cbn [N.eqb Pos.eqb]. unfold bin_digit.
  destruct (N.leb_spec 48 (N_of_ascii c)) as [?|?]; cbn [andb]; [|discriminate].
  destruct (N.leb_spec (N_of_ascii c) 49) as [?|?]; [|discriminate]. intros Hq; inversion Hq. lia.
Qed.

Lemma hex_digit_bound c d : digit_in 16 c = Some d -> d < 16.
Proof.
  unfold digit_in. cbn [N.eqb Pos.eqb]. unfold hex_digit.
  repeat match goal with
         | |- context[N.leb ?a ?b] => destruct (N.leb_spec a b) as [?|?]; cbn [andb]
         end; intros Hq; inversion Hq; lia.
Qed.

Lemma wide_value_bound radix w body v : wide_value radix w body = POk v -> v < 2 ^ w.
Proof.
  unfold wide_value. destruct (String.eqb body "+"); [discriminate|].
  set (ds := strip_plus body). set (n := slen ds).
  destruct (radix =? 2).
  - destruct (N.ltb_spec w n) as [?|?]; [discriminate|]. intros Hq. apply of_opt_ok in Hq.
    apply (digits_val_bound 2) in Hq; [|lia|exact bin_digit_bound].
    fold n in Hq. assert (2 ^ n <= 2 ^ w) by (apply N.pow_le_mono_r; lia). lia.
  - destruct (radix =? 16).
    + destruct (n <=? 16 * ((w + 63) / 64)).
      * destruct (digits_val 16 ds 0) as [v0|] eqn:E; [|discriminate].
        destruct (N.ltb_spec w (4 * n)) as [?|?]; [discriminate|]. intros Hq; inversion Hq; subst v0.
        apply (digits_val_bound 16) in E; [|lia|exact hex_digit_bound].
        fold n in E. assert (16 ^ n = 2 ^ (4 * n)) by (rewrite N.pow_mul_r; reflexivity).
        assert (2 ^ (4 * n) <= 2 ^ w) by (apply N.pow_le_mono_r; lia). lia.
      * destruct (all_hex _); discriminate.
    + destruct (split_at _ ds) as [chunk rest]. destruct (first_is_cont rest); [discriminate|].
      destruct (parse_unsigned 10 chunk); [|discriminate]. intros Hq. binv Hq v1 Hv1.
      destruct (N.ltb_spec (v1 mod 2 ^ (64 * ((w + 63) / 64))) (2 ^ w)) as [?|?]; [|discriminate].
      inversion Hq; subst. assumption.
Qed.

Lemma lit_value_bound radix w tok v : lit_value radix w tok = POk v -> w <> 0 /\ v < 2 ^ w.
Proof.
  unfold lit_value. destruct (N.eqb_spec w 0); [discriminate|]. intros H. split; auto.
  destruct tok as [|c r].
  - inversion H. apply pow2_pos.
  - destruct (Ascii.eqb c "-").
    + destruct r; [discriminate|]. binv H v0 Hv0. inversion H; subst.
      apply N.mod_lt. apply N.pow_nonzero. discriminate.
    + binv H v0 Hv0. inversion H; subst v0. clear H.
      destruct (w <=? 128).
      * destruct (parse_unsigned radix _); [|discriminate].
        destruct (N.ltb_spec n0 (2 ^ w)) as [?|?]; [|discriminate]. inversion Hv0; subst; auto.
      * eapply wide_value_bound; eauto.
Qed.

Lemma get_bv_width_ok st tok w : get_bv_width st tok = POk w -> get_tpe st tok = POk (TBV w).
Proof. unfold get_bv_width. intros H. binv H t Ht. destruct t; inversion H; subst; auto. Qed.

Lemma parse_format_good st toks op e n : parse_format st toks op = POk (e, n) -> forall d, good d e.
Proof.
  unfold parse_format. intros H d. binv H w Hw.
  destruct (seq op "zero").
  { binv H r Hr. inversion H; subst. apply b_lit_ok in Hr. destruct Hr as [Hw0 ->].
    apply good_lit; [lia|apply pow2_pos]. }
  destruct (seq op "one").
  { binv H r Hr. inversion H; subst. apply b_lit_ok in Hr. destruct Hr as [Hw0 ->].
    apply good_lit; [lia|]. apply N.pow_gt_1; lia. }
  destruct (seq op "ones").
  { binv H r Hr. inversion H; subst. apply b_lit_ok in Hr. destruct Hr as [Hw0 ->].
    apply good_lit; [lia|]. pose proof (pow2_pos w). lia. }
  destruct (Nat.ltb _ 4); [discriminate|]. binv H v Hv. inversion H; subst.
  apply lit_value_bound in Hv. destruct Hv as [Hw0 Hv]. apply good_lit; [lia|auto].
Qed.

(** ** maps *)
Lemma key_inj a b : key a = key b -> a = b.
Proof.
  unfold key. intros H. apply N.succ_inj. rewrite <- !N.succ_pos_spec. rewrite H. reflexivity.
Qed.

Lemma find_add_cases {A} k k' (v x : A) m :
  PM.find k (PM.add k' v m) = Some x -> x = v \/ PM.find k m = Some x.
Proof.
  destruct (Pos.eq_dec k k') as [->|Hne].
  - rewrite PM.gss. intros H; inversion H; auto.
  - rewrite PM.gso by exact Hne. auto.
Qed.

(** ** monotonicity in the declared symbols *)
Lemma state_good_mono d d' s : incl d d' -> state_good d s -> state_good d' s.
Proof.
  intros Hi (H1 & H2 & H3 & H4). repeat split; auto.
  - destruct (H3 e H) as [Hg _]. destruct (good_mono d d' e Hi Hg). auto.
  - destruct (H3 e H) as [Hg _]. destruct (good_mono d d' e Hi Hg). auto.
  - destruct (H3 e H); auto.
  - destruct (H4 e H) as [Hg _]. destruct (good_mono d d' e Hi Hg). auto.
  - destruct (H4 e H) as [Hg _]. destruct (good_mono d d' e Hi Hg). auto.
  - destruct (H4 e H); auto.
Qed.

Lemma inv_update st st' :
  inv st ->
  incl (decl st) (decl st') ->
  (forall k t, PM.find k (p_types st') = Some t -> ty_pos t) ->
  (forall k e, PM.find k (p_signals st') = Some e -> PM.find k (p_signals st) = Some e \/ good (decl st') e) ->
  (forall e, In e (p_inputs st') -> In e (p_inputs st) \/ (is_symbol e = true /\ wt e = true)) ->
  (forall s, In s (p_states st') -> In s (p_states st) \/ state_good (decl st') s) ->
  (forall k i, PM.find k (p_statemap st') = Some i -> (i < List.length (p_states st'))%nat) ->
  (forall o, In o (p_outputs st') -> In o (p_outputs st) \/ good (decl st') (snd o)) ->
  (forall e, In e (p_bads st') -> In e (p_bads st) \/ good (decl st') e) ->
  (forall e, In e (p_constraints st') -> In e (p_constraints st) \/ good (decl st') e) ->
  inv st'.
Proof.
  intros Hinv Hd Ht Hs Hi Hst Hsm Ho Hb Hc. constructor; auto.
  - intros k e H. destruct (Hs k e H) as [H'|H']; auto. eapply good_mono; eauto. eapply inv_signals; eauto.
  - intros e H. destruct (Hi e H) as [H'|H']; auto. eapply inv_inputs; eauto.
  - intros s H. destruct (Hst s H) as [H'|H']; auto. eapply state_good_mono; eauto. eapply inv_states; eauto.
  - intros o H. destruct (Ho o H) as [H'|H']; auto. eapply good_mono; eauto. eapply inv_outputs; eauto.
  - intros e H. destruct (Hb e H) as [H'|H']; auto. eapply good_mono; eauto. eapply inv_bads; eauto.
  - intros e H. destruct (Hc e H) as [H'|H']; auto. eapply good_mono; eauto. eapply inv_constraints; eauto.
Qed.

(** ** name bookkeeping does not touch the part of the state the invariant speaks about *)
Definition core_eq (st st' : pstate) : Prop :=
  p_types st = p_types st' /\ p_statemap st = p_statemap st' /\ p_signals st = p_signals st' /\
  p_inputs st = p_inputs st' /\ p_states st = p_states st' /\ p_outputs st = p_outputs st' /\
  p_bads st = p_bads st' /\ p_constraints st = p_constraints st'.

Lemma core_eq_refl st : core_eq st st.
Proof. repeat split. Qed.

Lemma core_eq_trans a b c : core_eq a b -> core_eq b c -> core_eq a c.
Proof. unfold core_eq. intuition congruence. Qed.

Lemma core_eq_decl st st' : core_eq st st' -> decl st = decl st'.
Proof. unfold core_eq, decl. intros (_ & _ & _ & -> & -> & _). reflexivity. Qed.

Lemma inv_core st st' : core_eq st st' -> inv st -> inv st'.
Proof.
  intros Hc Hinv. pose proof (core_eq_decl _ _ Hc) as Hd.
  destruct Hc as (H1 & H2 & H3 & H4 & H5 & H6 & H7 & H8). destruct Hinv.
  constructor; rewrite <- ?Hd, <- ?H1, <- ?H2, <- ?H3, <- ?H4, <- ?H5, <- ?H6, <- ?H7, <- ?H8; auto.
Qed.

Lemma core_note_name st e n : core_eq st (note_name st e n).
Proof. unfold note_name. destruct (is_symbol e); repeat split. Qed.

Lemma core_set_used st u : core_eq st (set_used st u).
Proof. repeat split. Qed.

Lemma core_add_unique st b : core_eq st (fst (add_unique st b)).
Proof. unfold add_unique. cbn [fst]. apply core_set_used. Qed.

Lemma core_label_name st toks d : core_eq st (fst (label_name st toks d)).
Proof. unfold label_name. apply core_add_unique. Qed.

Lemma incl_decl_refl st : incl (decl st) (decl st).
Proof. apply incl_refl. Qed.

Lemma inv_set_signal st id e : inv st -> good (decl st) e -> inv (set_signal st id e).
Proof.
  intros Hinv Hg. apply (inv_update st); auto.
  - apply incl_refl.
  - apply (inv_types _ Hinv).
  - cbn [set_signal p_signals]. intros k x H. apply find_add_cases in H. destruct H as [->|H]; auto.
  - apply (inv_statemap _ Hinv).
Qed.

Lemma finish_node_inv st toks id e n : inv st -> good (decl st) e -> inv (finish_node st toks id (e, n)).
Proof.
  intros Hinv Hg. pose proof (inv_set_signal st id e Hinv Hg) as H1. unfold finish_node.
  destruct (nth_error toks n) as [name|]; auto. destruct (include_name name); auto.
  destruct (add_unique (set_signal st id e) (clean_up_name name)) as [st2 nm] eqn:E.
  pose proof (core_add_unique (set_signal st id e) (clean_up_name name)) as Hc. rewrite E in Hc. cbn [fst] in Hc.
  eapply inv_core; [apply core_note_name|]. eapply inv_core; eauto.
Qed.

(** ** sort lines *)
Lemma get_tpe_pos st tok t : inv st -> get_tpe st tok = POk t -> ty_pos t.
Proof.
  intros Hinv. unfold get_tpe. destruct (parse_line_id tok) as [[id neg]|]; [|discriminate].
  destruct neg; [discriminate|]. intros H. apply of_opt_ok in H. eapply inv_types; eauto.
Qed.

Lemma inv_set_types st k t : inv st -> ty_pos t -> inv (set_types st (PM.add k t (p_types st))).
Proof.
  intros Hinv Ht. apply (inv_update st); auto.
  - apply incl_refl.
  - cbn [set_types p_types]. intros k' t' H. apply find_add_cases in H. destruct H as [->|H]; auto.
    eapply inv_types; eauto.
  - apply (inv_statemap _ Hinv).
Qed.

Lemma parse_sort_inv st toks id st' :
  inv st -> zero_sort_line toks = false -> seq (tokn toks 1) "sort" = true ->
  parse_sort st toks id = POk st' -> inv st'.
Proof.
  intros Hinv Hz Hop. unfold parse_sort. unfold zero_sort_line in Hz. rewrite Hop in Hz. cbn [andb] in Hz.
  destruct (seq (tokn toks 2) "bitvec").
  - cbn [andb] in Hz. intros H. binv H u Hu. binv H w Hw. apply of_opt_ok in Hw. rewrite Hw in Hz.
    inversion H; subst. apply inv_set_types; auto. cbn [ty_pos]. destruct w; [discriminate|lia].
  - destruct (seq (tokn toks 2) "array"); [|discriminate].
    intros H. binv H u Hu. binv H it Hit. binv H dt Hdt.
    apply (get_tpe_pos _ _ _ Hinv) in Hit, Hdt.
    destruct it as [iw|]; [|discriminate]. destruct dt as [dw|]; [|discriminate].
    inversion H; subst. apply inv_set_types; auto. cbn [ty_pos] in *. split; assumption.
Qed.

(** ** declarations *)
Lemma b_symbol_ok name t sym :
  b_symbol name t = POk sym -> ty_pos t -> is_symbol sym = true /\ wt sym = true /\ syms sym = [sym] /\ type_of sym = t.
Proof.
  unfold b_symbol. destruct t as [w|iw dw].
  - destruct (N.eqb_spec w 0); [discriminate|]. intros H Hp; inversion H; subst.
    repeat split. cbn [wt]. unfold node_ok. cbn [check1 is_some leaf_ok andb].
    rewrite andb_true_r. apply N.ltb_lt. lia.
  - intros H [Hi Hd]; inversion H; subst. repeat split.
    cbn [wt]. unfold node_ok. cbn [check1 is_some leaf_ok andb].
    apply N.ltb_lt in Hi, Hd. rewrite Hi, Hd. reflexivity.
Qed.

Lemma parse_input_inv st toks id st' : inv st -> parse_input st toks id = POk st' -> inv st'.
Proof.
  intros Hinv H. unfold parse_input in H. binv H tpe Ht.
  pose proof (get_tpe_pos _ _ _ Hinv Ht) as Hpos.
  destruct (label_name st toks "_input") as [st1 name] eqn:E.
  pose proof (core_label_name st toks "_input") as Hc. rewrite E in Hc. cbn [fst] in Hc.
  binv H sym Hs. inversion H; subst st'. clear H.
  destruct (b_symbol_ok _ _ _ Hs Hpos) as (Hsym & Hwt & Hsy & Hty).
  pose proof (inv_core _ _ Hc Hinv) as Hinv1.
  assert (Hinv2 : inv (add_input st1 sym)).
  { apply (inv_update st1); auto.
    - unfold decl. cbn [add_input p_inputs p_states]. intros x Hx. apply in_app_iff in Hx.
      apply in_app_iff. destruct Hx; auto. left. apply in_app_iff; auto.
    - apply (inv_types _ Hinv1).
    - cbn [add_input p_inputs]. intros e He. apply in_app_iff in He. destruct He as [He|[<-|[]]]; auto.
    - apply (inv_statemap _ Hinv1). }
  eapply inv_set_signal.
  - eapply inv_core; [apply core_note_name|exact Hinv2].
  - rewrite <- (core_eq_decl _ _ (core_note_name (add_input st1 sym) sym name)).
    split; auto. rewrite Hsy. intros x [<-|[]]. unfold decl. cbn [add_input p_inputs p_states].
    apply in_app_iff. left. apply in_app_iff. right. left. reflexivity.
Qed.

Lemma parse_state_inv st toks id st' : inv st -> parse_state st toks id = POk st' -> inv st'.
Proof.
  intros Hinv H. unfold parse_state in H. binv H tpe Ht.
  pose proof (get_tpe_pos _ _ _ Hinv Ht) as Hpos.
  destruct (label_name st toks "_state") as [st1 name] eqn:E.
  pose proof (core_label_name st toks "_state") as Hc. rewrite E in Hc. cbn [fst] in Hc.
  binv H sym Hs. inversion H; subst st'. clear H.
  destruct (b_symbol_ok _ _ _ Hs Hpos) as (Hsym & Hwt & Hsy & Hty).
  pose proof (inv_core _ _ Hc Hinv) as Hinv1.
  set (s := {| st_sym := sym; st_init := None; st_next := None |}).
  assert (Hinv2 : inv (add_state st1 id s)).
  { apply (inv_update st1); auto.
    - unfold decl. cbn [add_state p_inputs p_states]. rewrite map_app. intros x Hx. apply in_app_iff in Hx.
      apply in_app_iff. destruct Hx; auto. right. apply in_app_iff; auto.
    - apply (inv_types _ Hinv1).
    - cbn [add_state p_states]. intros s0 Hs0. apply in_app_iff in Hs0. destruct Hs0 as [Hs0|[<-|[]]]; auto.
      right. unfold state_good. cbn [s st_sym st_init st_next]. repeat split; auto; discriminate.
    - cbn [add_state p_statemap p_states]. intros k i Hk. rewrite app_length. cbn [List.length].
      apply find_add_cases in Hk. destruct Hk as [->|Hk]; [lia|].
      pose proof (inv_statemap _ Hinv1 _ _ Hk). lia. }
  eapply inv_set_signal.
  - eapply inv_core; [apply core_note_name|exact Hinv2].
  - rewrite <- (core_eq_decl _ _ (core_note_name (add_state st1 id s) sym name)).
    split; auto. rewrite Hsy. intros x [<-|[]]. unfold decl. cbn [add_state p_inputs p_states].
    rewrite map_app. apply in_app_iff. right. apply in_app_iff. right. left. reflexivity.
Qed.

(** ** init / next *)
Lemma update_nth_In {A} (f : A -> A) (d : A) : forall n l x,
  In x (update_nth n f l) -> In x l \/ (x = f (nth n l d) /\ (n < List.length l)%nat).
Proof.
  induction n as [|n IH]; intros [|y l] x H; cbn [update_nth] in H; try contradiction.
  - destruct H as [<-|H]; [right; cbn; split; [reflexivity|lia] | left; right; exact H].
  - destruct H as [<-|H]; [left; left; reflexivity|].
    destruct (IH l x H) as [H'|[H' Hl]]; [left; right; exact H'|right]. cbn [nth List.length]. split; [exact H'|lia].
Qed.

Lemma update_nth_map {A B} (g : A -> B) (f : A -> A) : (forall a, g (f a) = g a) ->
  forall n l, map g (update_nth n f l) = map g l.
Proof.
  intros Hg. induction n as [|n IH]; intros [|y l]; cbn [update_nth map]; try reflexivity.
  - rewrite Hg. reflexivity.
  - rewrite IH. reflexivity.
Qed.

Lemma update_nth_length {A} (f : A -> A) : forall n l, List.length (update_nth n f l) = List.length l.
Proof. induction n as [|n IH]; intros [|y l]; cbn [update_nth List.length]; auto. Qed.

Lemma get_state_lt st tok i : inv st -> get_state st tok = POk i -> (i < List.length (p_states st))%nat.
Proof.
  intros Hinv. unfold get_state. destruct (parse_line_id tok) as [[id neg]|]; [|discriminate].
  destruct neg; [discriminate|]. intros H. apply of_opt_ok in H. eapply inv_statemap; eauto.
Qed.

Lemma parse_init_next_inv st toks is_init st' : inv st -> parse_init_next st toks is_init = POk st' -> inv st'.
Proof.
  intros Hinv H. unfold parse_init_next in H.
  binv H u Hu. binv H tpe Ht. binv H idx Hidx.
  pose proof (get_state_lt _ _ _ Hinv Hidx) as Hlt.
  set (s0 := nth idx (p_states st) dummy_state) in *.
  assert (Hin0 : In s0 (p_states st)) by (apply nth_In; exact Hlt).
  destruct (inv_states _ Hinv _ Hin0) as (Hsym & Hwt & Hi0 & Hn0).
  destruct (ty_eqb (type_of (st_sym s0)) tpe) eqn:Ety; cbn [negb] in H; [|discriminate].
  apply ty_eqb_eq in Ety.
  binv H maybe Hm. pose proof (get_expr_good _ _ _ Hinv Hm) as Hgm.
  binv H e He.
  destruct (ty_eqb (type_of e) tpe) eqn:Ete; cbn [negb] in H; [|discriminate].
  apply ty_eqb_eq in Ete. inversion H; subst st'. clear H.
  assert (Hge : good (decl st) e).
  { destruct (is_init && is_bv_ty (type_of maybe) && negb (is_bv_ty (type_of (st_sym s0)))) eqn:El.
    - apply b_array_const_ok in He. destruct He as (w & Htm & ->).
      destruct (type_of (st_sym s0)) as [|iw dw] eqn:Es; [rewrite !andb_false_r in El; discriminate|].
      pose proof (wt_pos _ Hwt) as Hp. rewrite Es in Hp. cbn [ty_pos] in Hp. destruct Hgm as [Hwm Hcm].
      split; [apply wt_aconst_intro; tauto | exact Hcm].
    - inversion He; subst; auto. }
  set (f := fun s : state =>
              if is_init then {| st_sym := st_sym s; st_init := Some e; st_next := st_next s |}
              else {| st_sym := st_sym s; st_init := st_init s; st_next := Some e |}).
  assert (Hf : forall a, st_sym (f a) = st_sym a) by (intros a; unfold f; destruct is_init; reflexivity).
  assert (Hd : decl (set_states st (update_nth idx f (p_states st))) = decl st).
  { unfold decl. cbn [set_states p_inputs p_states]. rewrite (update_nth_map st_sym f Hf). reflexivity. }
  apply (inv_update st); auto.
  - rewrite Hd. apply incl_refl.
  - apply (inv_types _ Hinv).
  - cbn [set_states p_states]. intros s Hs. apply (update_nth_In f dummy_state) in Hs.
    destruct Hs as [Hs|[-> _]]; auto. right. rewrite Hd. fold s0.
    unfold f. destruct is_init; unfold state_good; cbn [st_sym st_init st_next];
      (split; [exact Hsym|split; [exact Hwt|split]]).
    + intros e' He'. inversion He'; subst e'. split; [exact Hge|congruence].
    + exact Hn0.
    + exact Hi0.
    + intros e' He'. inversion He'; subst e'. split; [exact Hge|congruence].
  - cbn [set_states p_statemap p_states]. rewrite update_nth_length. apply (inv_statemap _ Hinv).
Qed.

(** ** output / bad / constraint *)
Lemma parse_prop_inv st toks op st' : inv st -> parse_prop st toks op = POk st' -> inv st'.
Proof.
  intros Hinv H. unfold parse_prop in H. binv H e He. pose proof (get_expr_good _ _ _ Hinv He) as Hg.
  destruct (seq op "output").
  { destruct (label_name st toks "_output") as [st1 name] eqn:E.
    pose proof (core_label_name st toks "_output") as Hc. rewrite E in Hc. cbn [fst] in Hc.
    inversion H; subst st'. eapply inv_core; [apply core_note_name|].
    pose proof (inv_core _ _ Hc Hinv) as Hinv1. rewrite (core_eq_decl _ _ Hc) in Hg.
    apply (inv_update st1); auto.
    - apply incl_refl.
    - apply (inv_types _ Hinv1).
    - apply (inv_statemap _ Hinv1).
    - cbn [add_output p_outputs]. intros o Ho. apply in_app_iff in Ho. destruct Ho as [Ho|[<-|[]]]; auto. }
  destruct (seq op "bad").
  { assert (Hinv1 : inv (add_bad st e)).
    { apply (inv_update st); auto.
      - apply incl_refl.
      - apply (inv_types _ Hinv).
      - apply (inv_statemap _ Hinv).
      - cbn [add_bad p_bads]. intros x Hx. apply in_app_iff in Hx. destruct Hx as [Hx|[<-|[]]]; auto. }
    destruct (label_name (add_bad st e) toks "_bad") as [st1 name] eqn:E.
    pose proof (core_label_name (add_bad st e) toks "_bad") as Hc. rewrite E in Hc. cbn [fst] in Hc.
    inversion H; subst st'. eapply inv_core; [apply core_note_name|]. eapply inv_core; eauto. }
  destruct (seq op "constraint"); [|discriminate].
  assert (Hinv1 : inv (add_constraint st e)).
  { apply (inv_update st); auto.
    - apply incl_refl.
    - apply (inv_types _ Hinv).
    - apply (inv_statemap _ Hinv).
    - cbn [add_constraint p_constraints]. intros x Hx. apply in_app_iff in Hx. destruct Hx as [Hx|[<-|[]]]; auto. }
  destruct (label_name (add_constraint st e) toks "_constraint") as [st1 name] eqn:E.
  pose proof (core_label_name (add_constraint st e) toks "_constraint") as Hc. rewrite E in Hc. cbn [fst] in Hc.
  inversion H; subst st'. eapply inv_core; [apply core_note_name|]. eapply inv_core; eauto.
Qed.

(** ** one line *)
Lemma parse_line_inv st toks st' :
  inv st -> zero_sort_line toks = false -> parse_line true st toks = POk st' -> inv st'.
Proof.
  intros Hinv Hz H. unfold parse_line in H.
  destruct toks as [|t0 rest]; [inversion H; subst; auto|].
  destruct (parse_line_id t0) as [[id neg]|]; [|discriminate].
  destruct neg; [discriminate|]. destruct rest as [|op rest']; [discriminate|].
  destruct (un_table op) as [u|].
  { binv H r Hr. inversion H; subst. destruct r as [e n]. apply finish_node_inv; auto.
    eapply parse_unary_good; eauto. }
  destruct (bin_table op) as [bo|] eqn:Eb.
  { binv H r Hr. inversion H; subst. destruct r as [e n]. apply finish_node_inv; auto.
    eapply parse_binary_good; eauto. eapply bin_table_ok; eauto. }
  binv H u0 Hu0.
  destruct (seq op "ite").
  { binv H r Hr. inversion H; subst. destruct r as [e n]. apply finish_node_inv; auto.
    eapply parse_ternary_good; eauto. }
  destruct (seq op "write").
  { binv H r Hr. inversion H; subst. destruct r as [e n]. apply finish_node_inv; auto.
    eapply parse_ternary_good; eauto. }
  destruct (seq op "sort") eqn:Es.
  { eapply parse_sort_inv; eauto. }
  destruct (seq op "const" || seq op "constd" || seq op "consth" || seq op "zero" || seq op "one" || seq op "ones").
  { binv H r Hr. inversion H; subst. destruct r as [e n]. apply finish_node_inv; auto.
    eapply parse_format_good; eauto. }
  destruct (seq op "state"). { eapply parse_state_inv; eauto. }
  destruct (seq op "input"). { eapply parse_input_inv; eauto. }
  destruct (seq op "init"). { eapply parse_init_next_inv; eauto. }
  destruct (seq op "next"). { eapply parse_init_next_inv; eauto. }
  destruct (seq op "output" || seq op "bad" || seq op "constraint" || seq op "fair"); [|discriminate].
  eapply parse_prop_inv; eauto.
Qed.

Lemma inv_empty : inv p_empty.
Proof.
  constructor; cbn [p_empty p_types p_signals p_inputs p_states p_statemap p_outputs p_bads p_constraints];
    try (intros k x H; rewrite PM.gempty in H; discriminate); intros x []; contradiction.
Qed.

Lemma parse_fold_inv ls : forall st err st' err',
  inv st -> existsb zero_sort_line ls = false ->
  parse_fold true ls st err = POk (st', err') -> inv st'.
Proof.
  induction ls as [|l ls IH]; intros st err st' err' Hinv Hz H; cbn [parse_fold] in H.
  - inversion H; subst; auto.
  - cbn [existsb] in Hz. apply orb_false_iff in Hz. destruct Hz as [Hz1 Hz2].
    destruct (parse_line true st l) as [st1| |k] eqn:E; [| |discriminate].
    + apply (IH st1 err st' err'); auto. eapply parse_line_inv; eauto.
    + apply (IH st true st' err'); auto.
Qed.

(** ** from the final parser state to the returned system *)
Definition sys_good (sy : sys) : Prop :=
  (forall e, In e (s_inputs sy) -> is_symbol e = true /\ wt e = true) /\
  (forall s, In s (s_states sy) -> state_good (declared sy) s) /\
  (forall o, In o (s_outputs sy) -> good (declared sy) (snd o)) /\
  (forall e, In e (s_bads sy) -> good (declared sy) e) /\
  (forall e, In e (s_constraints sy) -> good (declared sy) e).

Lemma inv_sys_good st : inv st -> sys_good (sys_of_pstate st).
Proof.
  intros H. destruct H. unfold sys_good, sys_of_pstate, declared. cbn [s_inputs s_states s_outputs s_bads s_constraints].
  fold (decl st). split; [exact inv_inputs0|]. split; [exact inv_states0|]. split; [exact inv_outputs0|].
  split; [exact inv_bads0|exact inv_constraints0].
Qed.

Lemma good_rename ren d e : good d e -> good (map (rename ren) d) (rename ren e).
Proof.
  intros [Hw Hc]. split; [rewrite wt_rename; exact Hw|]. rewrite syms_rename. apply incl_map. exact Hc.
Qed.

Lemma declared_rename ren sy : ren <> [] ->
  declared (rename_sys ren sy) = map (rename ren) (declared sy).
Proof.
  intros Hne. unfold rename_sys. destruct ren as [|p ren']; [contradiction|].
  unfold declared. cbn [s_inputs s_states]. rewrite map_app, !map_map. reflexivity.
Qed.

Lemma sys_good_rename ren sy : sys_good sy -> sys_good (rename_sys ren sy).
Proof.
  intros Hg. destruct ren as [|p ren'] eqn:Er; [exact Hg|]. rewrite <- Er.
  assert (Hne : ren <> []) by (rewrite Er; discriminate).
  destruct Hg as (Hi & Hs & Ho & Hb & Hc). unfold sys_good. rewrite (declared_rename ren sy Hne).
  unfold rename_sys. rewrite Er. rewrite <- Er. cbn [s_inputs s_states s_outputs s_bads s_constraints].
  split; [|split; [|split; [|split]]].
  - intros e H. apply in_map_iff in H. destruct H as (x & <- & Hx). rewrite is_symbol_rename, wt_rename. apply Hi; auto.
  - intros s H. apply in_map_iff in H. destruct H as (x & <- & Hx). destruct (Hs x Hx) as (H1 & H2 & H3 & H4).
    unfold state_good, rename_state. cbn [st_sym st_init st_next]. rewrite is_symbol_rename, wt_rename.
    split; [exact H1|split; [exact H2|split]].
    + intros e He. destruct (st_init x) as [e0|]; [|discriminate]. inversion He; subst e.
      destruct (H3 e0 eq_refl) as [Hg0 Ht0]. split; [apply good_rename; exact Hg0|].
      rewrite !type_of_rename. exact Ht0.
    + intros e He. destruct (st_next x) as [e0|]; [|discriminate]. inversion He; subst e.
      destruct (H4 e0 eq_refl) as [Hg0 Ht0]. split; [apply good_rename; exact Hg0|].
      rewrite !type_of_rename. exact Ht0.
  - intros o H. apply in_map_iff in H. destruct H as (x & <- & Hx). cbn [snd]. apply good_rename. apply Ho; auto.
  - intros e H. apply in_map_iff in H. destruct H as (x & <- & Hx). apply good_rename. apply Hb; auto.
  - intros e H. apply in_map_iff in H. destruct H as (x & <- & Hx). apply good_rename. apply Hc; auto.
Qed.

Lemma declared_demote sy : incl (declared sy) (declared (demote sy)).
Proof.
  unfold declared, demote. cbn [s_inputs s_states]. intros x Hx. apply in_app_iff in Hx.
  apply in_app_iff. destruct Hx as [Hx|Hx].
  - left. apply in_app_iff. auto.
  - apply in_map_iff in Hx. destruct Hx as (s & <- & Hs). destruct (is_plain s) eqn:Ep.
    + left. apply in_app_iff. right. apply in_map. apply filter_In. auto.
    + right. apply in_map. apply filter_In. rewrite Ep. auto.
Qed.

Lemma sys_good_demote sy : sys_good sy -> sys_good (demote sy).
Proof.
  intros (Hi & Hs & Ho & Hb & Hc). pose proof (declared_demote sy) as Hd. unfold sys_good.
  split; [|split; [|split; [|split]]].
  - intros e H. unfold demote in H. cbn [s_inputs] in H. apply in_app_iff in H. destruct H as [H|H]; [apply Hi; auto|].
    apply in_map_iff in H. destruct H as (s & <- & H). apply filter_In in H. destruct H as [H _].
    destruct (Hs s H) as (H1 & H2 & _). auto.
  - intros s H. unfold demote in H. cbn [s_states] in H. apply filter_In in H. destruct H as [H _].
    eapply state_good_mono; eauto.
  - intros o H. eapply good_mono; [exact Hd|]. apply Ho. exact H.
  - intros e H. eapply good_mono; [exact Hd|]. apply Hb. exact H.
  - intros e H. eapply good_mono; [exact Hd|]. apply Hc. exact H.
Qed.

Lemma syms_symbol e : is_symbol e = true -> syms e = [e].
Proof. destruct e; cbn [is_symbol]; intros H; try discriminate; reflexivity. Qed.

Lemma sys_good_ok sy : sys_good sy -> sys_ok_weak sy = true /\ sys_closed sy.
Proof.
  intros (Hi & Hs & Ho & Hb & Hc). split.
  - unfold sys_ok_weak. rewrite !andb_true_iff. repeat split; apply forallb_forall.
    + intros e He. destruct (Hi e He) as [-> ->]. reflexivity.
    + intros s Hin. destruct (Hs s Hin) as (H1 & H2 & H3 & H4). unfold state_ok. rewrite H1, H2. cbn [andb].
      apply andb_true_iff. split.
      * destruct (st_init s) as [e|]; [|reflexivity]. destruct (H3 e eq_refl) as [[Hw _] Ht].
        rewrite Hw, Ht. apply ty_eqb_refl.
      * destruct (st_next s) as [e|]; [|reflexivity]. destruct (H4 e eq_refl) as [[Hw _] Ht].
        rewrite Hw, Ht. apply ty_eqb_refl.
    + intros o Hin. apply (Ho o Hin).
    + intros e Hin. apply (Hb e Hin).
    + intros e Hin. apply (Hc e Hin).
  - unfold sys_closed, all_exprs. intros e He. repeat (apply in_app_iff in He; destruct He as [He|He]).
    + destruct (Hi e He) as [Hsym _]. rewrite (syms_symbol e Hsym). intros x [<-|[]].
      unfold declared. apply in_app_iff. auto.
    + apply in_map_iff in He. destruct He as (o & <- & Hin). apply (Ho o Hin).
    + apply (Hb e He).
    + apply (Hc e He).
    + apply in_flat_map in He. destruct He as (s & Hin & He). destruct (Hs s Hin) as (H1 & H2 & H3 & H4).
      destruct He as [<-|He].
      * rewrite (syms_symbol _ H1). intros x [<-|[]]. unfold declared. apply in_app_iff. right. apply in_map. exact Hin.
      * apply in_app_iff in He. destruct He as [He|He].
        -- destruct (st_init s) as [e0|]; [|contradiction]. destruct He as [<-|[]]. apply (H3 e0 eq_refl).
        -- destruct (st_next s) as [e0|]; [|contradiction]. destruct He as [<-|[]]. apply (H4 e0 eq_refl).
Qed.

(** ** the acceptance theorem, debug build *)
Theorem accepted_weak ls sy :
  existsb zero_sort_line ls = false -> parse_lines true ls = POk sy ->
  sys_ok_weak sy = true /\ sys_closed sy.
Proof.
  intros Hz H. unfold parse_lines in H. binv H r Hr. destruct r as [sy0 ren]. inversion H; subst sy. clear H.
  unfold parse_raw in Hr. binv Hr r Hf. destruct r as [st err]. destruct err; [discriminate|].
  inversion Hr; subst. apply sys_good_ok, sys_good_demote, sys_good_rename, inv_sys_good.
  eapply parse_fold_inv; eauto. apply inv_empty.
Qed.

Lemma sys_ok_split sy : sys_ok sy = sys_ok_weak sy && props_1bit sy.
Proof.
  unfold sys_ok, sys_ok_weak, props_1bit, bool_expr_ok. rewrite forallb_app.
  set (A := forallb (fun i => is_symbol i && wt i) (s_inputs sy) && forallb state_ok (s_states sy) &&
            forallb (fun o => wt (snd o)) (s_outputs sy)).
  assert (Hsplit : forall l, forallb (fun e => wt e && ty_eqb (type_of e) (TBV 1)) l =
                             forallb wt l && forallb (fun e => ty_eqb (type_of e) (TBV 1)) l).
  { induction l as [|x l IH]; cbn [forallb]; [reflexivity|]. rewrite IH.
    destruct (wt x), (ty_eqb (type_of x) (TBV 1)), (forallb wt l); reflexivity. }
  rewrite !Hsplit.
  destruct A, (forallb wt (s_bads sy)), (forallb wt (s_constraints sy)),
    (forallb (fun e => ty_eqb (type_of e) (TBV 1)) (s_bads sy)),
    (forallb (fun e => ty_eqb (type_of e) (TBV 1)) (s_constraints sy)); reflexivity.
Qed.

Theorem accepted_ok ls sy :
  existsb zero_sort_line ls = false -> parse_lines true ls = POk sy -> props_1bit sy = true ->
  sys_ok sy = true /\ sys_closed sy.
Proof.
  intros Hz H Hp. destruct (accepted_weak ls sy Hz H) as [Hw Hc]. split; auto.
  rewrite sys_ok_split, Hw, Hp. reflexivity.
Qed.
