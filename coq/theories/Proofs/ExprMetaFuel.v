(** * Proofs/ExprMetaFuel.v — the fuel "stored keys + 2" is enough for [get_fixed_point] whenever its loops
    terminate at all (i.e. the chain from the key does not run into a cycle of length >= 2). *)
From Coq Require Import Arith NArith List Bool Lia.
From Patronus Require Import ExprMeta ExprMetaSpec ExprMetaProofs.
Import ListNotations.
Open Scope N_scope.

Section Fuel.
  Variable M : Type.
  Variable o : map_ops M.
  Hypothesis L : ops_lawful o.

  Lemma chase_step : forall f m v v', mo_get o m v = Some v' -> v <> v' -> gfp_chase o (S f) m v = gfp_chase o f m v'.
  Proof.
    intros f m v v' G Hne. cbn [gfp_chase]. rewrite G. destruct (N.eqb_spec v v'); [contradiction|reflexivity].
  Qed.

  Lemma chase_O_not : forall m v r, gfp_chase o 0 m v <> Some r.
  Proof. intros. cbn. discriminate. Qed.

  (** the keys the chasing loop steps over are pairwise different *)
  Lemma chase_path : forall f m v r, gfp_chase o f m v = Some r ->
    exists p : list N,
      NoDup p /\ (forall k, In k p -> exists v', mo_get o m k = Some v') /\
      gfp_chase o (S (length p)) m v = Some r /\ gfp_chase o (length p) m v = None /\
      (forall k, In k p -> exists n, (n <= S (length p))%nat /\ gfp_chase o n m k = Some r).
  Proof.
    intro f. induction f as [|f IH]; intros m v r H; [cbn in H; discriminate|].
    destruct (mo_get o m v) as [v'|] eqn:G.
    - destruct (N.eq_dec v v') as [E|E].
      + exists []. cbn [length]. split; [constructor|]. split; [intros k []|]. split; [|split; [reflexivity|intros k []]].
        cbn [gfp_chase] in *. rewrite G in *. subst v'. rewrite N.eqb_refl in *. exact H.
      + rewrite (chase_step f m v v' G E) in H. destruct (IH m v' r H) as (p & ND & Hs & Hc & Hd & He).
        assert (~ In v p) as Hni.
        { intro Hin. destruct (He v Hin) as (n & Hn & Hcn). destruct n as [|n]; [cbn in Hcn; discriminate|].
          rewrite (chase_step n m v v' G E) in Hcn.
          assert (gfp_chase o (length p) m v' = Some r) as Q by (eapply gfp_chase_mono; [exact Hcn|lia]).
          rewrite Hd in Q. discriminate. }
        exists (v :: p). cbn [length]. split; [constructor; assumption|].
        split; [intros k [Hk|Hk]; [subst; eexists; exact G|apply Hs; exact Hk]|].
        split; [rewrite (chase_step _ m v v' G E); exact Hc|].
        split; [rewrite (chase_step _ m v v' G E); exact Hd|].
        intros k [Hk|Hk].
        * subst k. exists (S (S (length p))). split; [lia|]. rewrite (chase_step _ m v v' G E). exact Hc.
        * destruct (He k Hk) as (n & Hn & Hcn). exists n. split; [lia|exact Hcn].
    - exists []. cbn [length]. split; [constructor|]. split; [intros k []|]. split; [|split; [reflexivity|intros k []]].
      cbn [gfp_chase] in *. rewrite G in *. exact H.
  Qed.

  Lemma chase_result_self : forall f m v fin, gfp_chase o f m v = Some (Some fin) -> mo_get o m fin = Some fin.
  Proof.
    intro f. induction f as [|f IH]; intros m v fin H; [cbn in H; discriminate|].
    cbn [gfp_chase] in H. destruct (mo_get o m v) as [v'|] eqn:G; [|discriminate].
    destruct (N.eqb_spec v v') as [E|E].
    - inversion H; subst. exact G.
    - eapply IH. exact H.
  Qed.

  Lemma chase_after_set : forall f m x v fin, gfp_chase o f m x = Some (Some fin) -> v <> fin ->
    gfp_chase o f (mo_set o m v (Some fin)) x = Some (Some fin).
  Proof.
    intro f. induction f as [|f IH]; intros m x v fin H Hne; [cbn in H; discriminate|].
    pose proof (chase_result_self _ _ _ _ H) as Hfin.
    cbn [gfp_chase] in H. destruct (mo_get o m x) as [x'|] eqn:G; [|discriminate].
    destruct (N.eqb_spec x x') as [E|E].
    - inversion H; subst. cbn [gfp_chase]. rewrite L. destruct (N.eqb_spec v fin); [contradiction|].
      rewrite G. rewrite N.eqb_refl. reflexivity.
    - destruct (N.eq_dec v x) as [Ev|Ev].
      + subst x. assert (mo_get o (mo_set o m v (Some fin)) v = Some fin) as G' by (rewrite L, N.eqb_refl; reflexivity).
        rewrite (chase_step f _ v fin G' Hne).
        destruct f as [|f]; [cbn in H; discriminate|].
        cbn [gfp_chase]. rewrite L. destruct (N.eqb_spec v fin); [contradiction|]. rewrite Hfin, N.eqb_refl. reflexivity.
      + assert (mo_get o (mo_set o m v (Some fin)) x = Some x') as G'.
        { rewrite L. destruct (N.eqb_spec v x); [contradiction|exact G]. }
        rewrite (chase_step f _ x x' G' E). apply IH; assumption.
  Qed.

  (** the update loop needs one step more than the chasing loop *)
  Lemma update_terminates : forall n m v fin, gfp_chase o n m v = Some (Some fin) -> gfp_update o (S n) m v fin <> GfpFuel.
  Proof.
    intro n. induction n as [|n IH]; intros m v fin H; [cbn in H; discriminate|].
    cbn [gfp_update]. destruct (N.eqb_spec v fin) as [E|E]; [discriminate|].
    cbn [gfp_chase] in H. destruct (mo_get o m v) as [v'|] eqn:G; [|discriminate].
    destruct (N.eqb_spec v v') as [E'|E']; [inversion H; subst; contradiction|].
    apply IH. apply chase_after_set; assumption.
  Qed.

  Theorem gfp_fuel_suffices : forall (m : M) (keys : list N),
    (forall k v, mo_get o m k = Some v -> In k keys) ->
    forall f key, ExprMeta.get_fixed_point o f m key <> GfpFuel ->
    ExprMeta.get_fixed_point o (S (S (length keys))) m key = ExprMeta.get_fixed_point o f m key.
  Proof.
    intros m keys Hkeys f key H. unfold ExprMeta.get_fixed_point in *.
    destruct (mo_get o m key) as [v0|]; [|reflexivity]. destruct (key =? v0); [reflexivity|].
    destruct (gfp_chase o f m key) as [r|] eqn:C; [|contradiction].
    destruct (chase_path f m key r C) as (p & ND & Hs & Hc & _ & _).
    assert (length p <= length keys)%nat as Hlen.
    { apply NoDup_incl_length; [exact ND|]. intros k Hk. destruct (Hs k Hk) as [v' Hv']. eapply Hkeys. exact Hv'. }
    rewrite (gfp_chase_mono M o _ m key r Hc (S (S (length keys))) ltac:(lia)).
    destruct r as [fin|]; [|reflexivity].
    pose proof (update_terminates _ m key fin Hc) as U.
    rewrite <- (gfp_update_mono M o f m key fin H (Nat.max f (S (S (length keys)))) ltac:(lia)).
    assert (gfp_update o (S (S (length keys))) m key fin <> GfpFuel) as U'.
    { rewrite (gfp_update_mono M o _ m key fin U (S (S (length keys))) ltac:(lia)). exact U. }
    symmetry. apply gfp_update_mono; [exact U'|lia].
  Qed.
End Fuel.

Lemma dense_keys_bound : forall (d : dense (option N)) k v, dense_index None d k = Some v -> In k (map N.of_nat (seq 0 (length d))).
Proof.
  intros d k v H. destruct (N.lt_ge_cases k (len_N d)) as [Hlt|Hge].
  - apply in_map_iff. exists (N.to_nat k). split; [lia|]. apply in_seq. unfold len_N in Hlt. lia.
  - unfold dense_index in H. rewrite nth_N_beyond in H by exact Hge. discriminate.
Qed.

Lemma sparse_keys_bound : forall (s : sparse (option N)) k v, sparse_index None s k = Some v -> In k (map fst s).
Proof.
  intros s k v H. destruct (In_dec N.eq_dec k (map fst s)) as [Hin|Hni]; [exact Hin|].
  apply sparse_find_None in Hni. unfold sparse_index in H. rewrite Hni in H. discriminate.
Qed.

(** the fuel the tie uses *)
Theorem get_fixed_point_fuel_suffices :
  (forall (d : dense (option N)) f key, ExprMeta.get_fixed_point dense_ops f d key <> GfpFuel ->
      dense_get_fixed_point d key = ExprMeta.get_fixed_point dense_ops f d key) /\
  (forall (s : sparse (option N)) f key, ExprMeta.get_fixed_point sparse_ops f s key <> GfpFuel ->
      sparse_get_fixed_point s key = ExprMeta.get_fixed_point sparse_ops f s key).
Proof.
  split.
  - intros d f key H. unfold dense_get_fixed_point, dense_gfp_fuel.
    pose proof (gfp_fuel_suffices _ dense_ops dense_ops_lawful d (map N.of_nat (seq 0 (length d))) (dense_keys_bound d) f key H) as Q.
    rewrite map_length, seq_length in Q. exact Q.
  - intros s f key H. unfold sparse_get_fixed_point, sparse_gfp_fuel.
    pose proof (gfp_fuel_suffices _ sparse_ops sparse_ops_lawful s (map fst s) (sparse_keys_bound s) f key H) as Q.
    rewrite map_length in Q. exact Q.
Qed.
