(** * Proofs/ReachEnum.v — the enumeration of Spec/ReachBmc.v is complete: every
    in-range value / assignment is listed; assignments round-trip through
    [env_of] / [get_val]. *)
From Coq Require Import List Bool Lia.
From Patronus Require Import EvalImpl SysExec ReachSpec ExprLemmas BVLemmas EvalProofs McBasics EncodingBasics ReachBasics.
Import ListNotations.
Open Scope N_scope.

Lemma in_range v n : In v (range n) <-> v < n.
Proof.
  unfold range. rewrite in_map_iff. split.
  - intros (i & <- & Hi). apply in_seq in Hi. lia.
  - intros H. exists (N.to_nat v). split; [lia|]. apply in_seq. lia.
Qed.

Lemma range_length n : length (range n) = N.to_nat n.
Proof. unfold range. now rewrite map_length, seq_length. Qed.

Lemma nth_range i n d : i < n -> nth (N.to_nat i) (range n) d = i.
Proof.
  intros H. unfold range. rewrite (nth_indep _ d (N.of_nat 0)) by (rewrite map_length, seq_length; lia).
  rewrite map_nth, seq_nth by lia. lia.
Qed.

Lemma nth_map_range (f : N -> N) i n : i < n -> nth (N.to_nat i) (map f (range n)) 0 = f i.
Proof.
  intros H. rewrite (nth_indep _ 0 (f 0)) by (rewrite map_length, range_length; lia).
  rewrite map_nth. f_equal. now apply nth_range.
Qed.

Lemma in_all_lists vals : forall n l, length l = n -> (forall x, In x l -> In x vals) -> In l (all_lists n vals).
Proof.
  induction n as [|n IH]; intros l Hl Hin.
  - destruct l; [now left|discriminate].
  - destruct l as [|x r]; [discriminate|]. cbn [all_lists]. apply in_flat_map. exists r. split.
    + apply IH; [now inversion Hl|intros y Hy; apply Hin; now right].
    + apply (in_map (fun v => v :: r)). apply Hin. now left.
Qed.

Lemma all_lists_spec vals : forall n l, In l (all_lists n vals) -> length l = n /\ forall x, In x l -> In x vals.
Proof.
  induction n as [|n IH]; intros l H; cbn [all_lists] in H.
  - destruct H as [<-|[]]. split; [reflexivity|intros x []].
  - apply in_flat_map in H. destruct H as (r & Hr & Hl). apply in_map_iff in Hl. destruct Hl as (x & <- & Hx).
    destruct (IH r Hr) as [Hlen Hall]. split; [cbn; now rewrite Hlen|]. intros y [<-|Hy]; auto.
Qed.

(** ** values *)
Lemma get_val_in_all_vals rho s : env_wf rho -> is_symbol s = true -> In (get_val rho s) (all_vals (type_of s)).
Proof.
  intros [Hbv Harr] Hs. destruct s; try discriminate; cbn [get_val type_of all_vals].
  - apply in_map. apply in_range. apply Hbv.
  - apply in_map. apply in_all_lists.
    + rewrite map_length, range_length. reflexivity.
    + intros x Hx. apply in_map_iff in Hx. destruct Hx as (i & <- & _). apply in_range. apply Harr.
Qed.

Definition asg_of (rho : env) (syms : list expr) : asg := map (fun s => (s, get_val rho s)) syms.

Lemma asg_of_in_all rho : forall syms, env_wf rho -> (forall s, In s syms -> is_symbol s = true) ->
  In (asg_of rho syms) (all_asgs syms).
Proof.
  induction syms as [|s r IH]; intros Hwf Hsym; [now left|].
  cbn [asg_of map all_asgs]. apply in_flat_map. exists (asg_of rho r). split.
  - apply IH; [assumption|intros; apply Hsym; now right].
  - apply (in_map (fun v => (s, v) :: asg_of rho r)). apply get_val_in_all_vals; [assumption|apply Hsym; now left].
Qed.

Lemma all_asgs_shape : forall syms a, In a (all_asgs syms) ->
  map fst a = syms /\ forall s v, In (s, v) a -> In v (all_vals (type_of s)).
Proof.
  induction syms as [|s r IH]; intros a H; cbn [all_asgs] in H.
  - destruct H as [<-|[]]. split; [reflexivity|intros s v []].
  - apply in_flat_map in H. destruct H as (a' & Ha' & Ha). apply in_map_iff in Ha. destruct Ha as (v & <- & Hv).
    destruct (IH a' Ha') as [Hf Hall]. split; [cbn; now rewrite Hf|].
    intros s' v' [H|H]; [inversion H; now subst|now apply Hall].
Qed.

(** ** [set_val] / [env_of] *)
Lemma set_val_other rho s v x : is_symbol x = true -> x <> s -> agree_on x (set_val rho s v) rho.
Proof.
  intros Hx Hne. destruct s, v; cbn [set_val]; try apply agree_on_refl.
  - change (upd_bv rho name w v) with (assign rho (BVSymbol name w) {| rho_bv := fun _ _ => v; rho_arr := rho_arr rho |} (BVSymbol name w)).
    now apply assign_other.
  - destruct x; try discriminate; cbn [agree_on upd_arr rho_bv rho_arr]; auto.
    intros i. destruct (String.eqb_spec name0 name); cbn [andb]; [|reflexivity].
    destruct (N.eqb_spec iw0 iw); cbn [andb]; [|reflexivity].
    destruct (N.eqb_spec dw0 dw); [|reflexivity]. subst. congruence.
Qed.

Lemma env_of_other base x : forall a, is_symbol x = true -> ~ In x (map fst a) -> agree_on x (env_of base a) base.
Proof.
  induction a as [|[s v] r IH]; intros Hx Hn; [apply agree_on_refl|].
  cbn [env_of fold_right fst snd]. eapply agree_on_trans.
  - apply set_val_other; [assumption|]. intros ->. apply Hn. now left.
  - apply IH; [assumption|]. intros H. apply Hn. now right.
Qed.

(** the value an assignment gives to one of its symbols *)
Lemma env_of_sym base : forall a s v, NoDup (map fst a) -> In (s, v) a ->
  match s, v with
  | BVSymbol n w, VB x => rho_bv (env_of base a) n w = x
  | ArraySymbol n iw dw, VA l => forall i, rho_arr (env_of base a) n iw dw i = nth (N.to_nat i) l 0
  | _, _ => True
  end.
Proof.
  induction a as [|[s0 v0] r IH]; intros s v Hnd Hin; [destruct Hin|].
  cbn [map fst] in Hnd. inversion Hnd as [|? ? Hna Hr]; subst.
  cbn [env_of fold_right fst snd]. fold (env_of base r).
  destruct Hin as [Heq|Hin].
  - inversion Heq; subst. destruct s, v; try exact I; cbn [set_val upd_bv upd_arr rho_bv rho_arr].
    + now rewrite String.eqb_refl, N.eqb_refl.
    + intros i. now rewrite String.eqb_refl, !N.eqb_refl.
  - assert (Hne : s <> s0) by (intros ->; apply Hna; change s0 with (fst (s0, v)); now apply in_map).
    specialize (IH s v Hr Hin).
    destruct s, v; try exact I.
    + pose proof (set_val_other (env_of base r) s0 v0 (BVSymbol name w) eq_refl Hne) as H. cbn [agree_on] in H. now rewrite H.
    + intros i. pose proof (set_val_other (env_of base r) s0 v0 (ArraySymbol name iw dw) eq_refl Hne) as H.
      cbn [agree_on] in H. rewrite H. apply IH.
Qed.

(** round trip: the assignment read off a valuation gives back its in-range values *)
Lemma env_of_asg_of base rho syms s :
  NoDup syms -> In s syms -> agree_r s (env_of base (asg_of rho syms)) rho.
Proof.
  intros Hnd Hin.
  assert (Hf : map fst (asg_of rho syms) = syms) by (unfold asg_of; rewrite map_map; apply map_id).
  pose proof (env_of_sym base (asg_of rho syms) s (get_val rho s)) as H.
  rewrite Hf in H. specialize (H Hnd). 
  assert (Hi : In (s, get_val rho s) (asg_of rho syms)) by (unfold asg_of; now apply (in_map (fun s => (s, get_val rho s)))).
  specialize (H Hi). destruct s; cbn [get_val agree_r] in *; try exact I.
  - exact H.
  - intros i Hi'. rewrite H. now apply nth_map_range.
Qed.

Lemma env0_wf : env_wf env0.
Proof. split; intros; cbn; apply pow2_pos. Qed.

Lemma set_val_wf rho s v : env_wf rho -> In v (all_vals (type_of s)) -> env_wf (set_val rho s v).
Proof.
  intros [Hbv Harr] Hv. destruct s, v; cbn [set_val]; try (split; assumption); cbn [type_of all_vals] in Hv.
  - apply in_map_iff in Hv. destruct Hv as (x & Hx & Hr). inversion Hx; subst. apply in_range in Hr.
    split; [|exact Harr]. intros n' w'. cbn [upd_bv rho_bv].
    destruct (String.eqb n' name && (w' =? w))%bool eqn:E; [|apply Hbv].
    apply andb_true_iff in E. destruct E as [_ E]. apply N.eqb_eq in E. now subst.
  - apply in_map_iff in Hv. destruct Hv as (x & Hx & Hr). inversion Hx; subst.
    apply all_lists_spec in Hr. destruct Hr as [Hlen Hall].
    split; [exact Hbv|]. intros n' iw' dw' i. cbn [upd_arr rho_arr].
    destruct (String.eqb n' name && (iw' =? iw) && (dw' =? dw))%bool eqn:E; [|apply Harr].
    repeat (apply andb_true_iff in E; destruct E as [E ?]). apply N.eqb_eq in H. subst dw'.
    destruct (nth_in_or_default (N.to_nat i) l 0) as [Hin|Hd]; [|rewrite Hd; apply pow2_pos].
    apply Hall in Hin. now apply in_range in Hin.
Qed.

Lemma env_of_wf base : forall syms a, env_wf base -> In a (all_asgs syms) -> env_wf (env_of base a).
Proof.
  intros syms a Hb Ha. apply all_asgs_shape in Ha. destruct Ha as [_ Hall].
  induction a as [|[s v] r IH]; [assumption|].
  cbn [env_of fold_right fst snd]. apply set_val_wf.
  - apply IH. intros s' v' H. apply Hall. now right.
  - apply Hall. now left.
Qed.

(** ** decidable equality of value lists *)
Lemma list_N_eqb_eq : forall a b, list_N_eqb a b = true <-> a = b.
Proof.
  induction a as [|x a IH]; destruct b as [|y b]; cbn [list_N_eqb]; try (split; [discriminate|congruence]); [tauto|].
  rewrite andb_true_iff, N.eqb_eq, IH. split; [intros [-> ->]; reflexivity|intros H; inversion H; auto].
Qed.

Lemma val_eq_eq a b : val_eq a b = true <-> a = b.
Proof.
  destruct a, b; cbn [val_eq]; try (split; [discriminate|congruence]).
  - rewrite N.eqb_eq. split; congruence.
  - rewrite list_N_eqb_eq. split; congruence.
Qed.

Lemma vals_eqb_eq : forall a b, vals_eqb a b = true <-> a = b.
Proof.
  induction a as [|x a IH]; destruct b as [|y b]; cbn [vals_eqb]; try (split; [discriminate|congruence]); [tauto|].
  rewrite andb_true_iff, val_eq_eq, IH. split; [intros [-> ->]; reflexivity|intros H; inversion H; auto].
Qed.

Lemma in_dedup_vals x l : In x (dedup_vals l) <-> In x l.
Proof.
  induction l as [|y r IH]; [tauto|]. cbn [dedup_vals fold_right]. fold (dedup_vals r).
  destruct (existsb (vals_eqb y) (dedup_vals r)) eqn:E.
  - rewrite IH. split; [now right|]. intros [<-|H]; [|assumption].
    apply existsb_exists in E. destruct E as (z & Hz & Hyz). apply vals_eqb_eq in Hyz. subst z. now apply IH.
  - cbn [In]. rewrite IH. tauto.
Qed.
