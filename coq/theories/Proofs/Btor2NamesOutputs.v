(** * Proofs/Btor2NamesOutputs.v — the names of OUTPUTS through one write/read cycle (property C09).

    Writer side ([LB]): every name base ([Btor2NamesInUse.name_base]) of a line the named writer has
    emitted is a default or one of the tokens the writer prints ([printed]: the names on input and state
    declarations, the cleaned debug names, the output labels so far).  Reader side
    ([Btor2NamesInUse.run_used]): the names in use are defaults, bases, or [b_k] for a base [b].  Hence
    an output label that is explicit, is none of the printed tokens and is not [b_k] for one of them is
    not in use when its line is read, and the output gets exactly that name ([outputs_n_sim]); output
    names are never changed afterwards.  With pairwise distinct, non-reserved output names the labels are
    the output names ([uniq_all_id]): [names_survive_outputs]. *)
From Coq Require Import List Lia Bool String Ascii NArith FMapPositive.
From Patronus Require Import Expr ExprLemmas ExprEqb Eval SysClosed Btor2Parse Btor2Ser Btor2SerNames Btor2ExprFacts Btor2ParseProofs
     Btor2Sound Btor2SerProofs Btor2RoundTripSpec Btor2RtExpr Btor2RtLines Btor2RtSim Btor2RtSys Btor2RtTail Btor2Names Btor2RoundTrip
     Btor2RtNamed Btor2NamesSurvive Btor2NamesOutside Btor2NamesInUse.
Import ListNotations.
Open Scope string_scope.
Open Scope list_scope.
Open Scope N_scope.

Local Opaque num.

(** ** the bases of the writer's lines *)
Definition LB (A : list string) (st : wstate) : Prop :=
  forall l b, In l (w_lines st) -> name_base l = Some b -> In b reserved_names \/ In b A.

Lemma lb_mono A A' st : incl A A' -> LB A st -> LB A' st.
Proof. intros Hi H l b Hl Hb. destruct (H l b Hl Hb) as [H1|H1]; [left; exact H1|right; apply Hi; exact H1]. Qed.

Lemma lb_cons A st st' l : LB A st -> w_lines st' = l :: w_lines st ->
  (forall b, name_base l = Some b -> In b reserved_names \/ In b A) -> LB A st'.
Proof. intros H Hw Hl l0 b Hin Hb. rewrite Hw in Hin. destruct Hin as [<-|Hin]; [apply Hl; exact Hb|apply (H l0 b Hin Hb)]. Qed.

Lemma lb_same A st st' : LB A st -> w_lines st' = w_lines st -> LB A st'.
Proof. intros H Hw l0 b Hin Hb. rewrite Hw in Hin. apply (H l0 b Hin Hb). Qed.

Lemma name_base_sort a r : name_base (a :: "sort" :: r) = None.
Proof. reflexivity. Qed.
Lemma name_base_init a r : name_base (a :: "init" :: r) = None.
Proof. reflexivity. Qed.
Lemma name_base_next a r : name_base (a :: "next" :: r) = None.
Proof. reflexivity. Qed.
Lemma name_base_input a c tl : name_base (a :: "input" :: c :: tl) = Some (nth 0 tl "_input").
Proof. reflexivity. Qed.
Lemma name_base_state a c tl : name_base (a :: "state" :: c :: tl) = Some (nth 0 tl "_state").
Proof. reflexivity. Qed.
Lemma name_base_output a c tl : name_base (a :: "output" :: c :: tl) = Some (nth 0 tl "_output").
Proof. reflexivity. Qed.

Lemma lb_bv_sort A st w st' id : bv_sort_id st w = (st', id) -> LB A st -> LB A st'.
Proof.
  unfold bv_sort_id. destruct (find_sort (TBV w) (w_sorts st)); intros H HL; inversion H; subst; [exact HL|].
  eapply lb_cons; [exact HL|reflexivity|]. intros b Hb. rewrite name_base_sort in Hb. discriminate.
Qed.

Lemma lb_sort_id A st t st' id : sort_id st t = (st', id) -> LB A st -> LB A st'.
Proof.
  unfold sort_id. destruct (find_sort t (w_sorts st)); [intros H HL; inversion H; subst; exact HL|].
  destruct t as [w|iw dw]; [apply lb_bv_sort|].
  destruct (bv_sort_id st iw) as [s1 ix] eqn:E1. destruct (bv_sort_id s1 dw) as [s2 dx] eqn:E2.
  intros H HL. apply (lb_bv_sort _ _ _ _ _ E1) in HL. apply (lb_bv_sort _ _ _ _ _ E2) in HL. inversion H; subst.
  eapply lb_cons; [exact HL|reflexivity|]. intros b Hb. rewrite name_base_sort in Hb. discriminate.
Qed.

(** the base of a node line is the cleaned name token after it *)
Lemma node_line_base id sort e cs l tl :
  node_line id sort e cs = POk l -> List.length cs = List.length (children e) ->
  name_base (l ++ tl) = match tl with [] => None | n :: _ => if include_name n then Some (clean_up_name n) else None end.
Proof.
  intros H Hlen. destruct e; cbn [children List.length] in Hlen;
    repeat (destruct cs as [|? cs]; try discriminate Hlen); cbn [node_line op_name] in H; try discriminate H;
    try (inversion H; subst l; destruct tl; reflexivity).
  destruct (v =? 0); [inversion H; subst l; destruct tl; reflexivity|].
  destruct (v =? 1); [inversion H; subst l; destruct tl; reflexivity|].
  destruct (v =? 2 ^ w - 1); inversion H; subst l; destruct tl; reflexivity.
Qed.

Definition names_in (A : list string) (cx : nctx) : Prop :=
  forall e n, lookup_nm e (n_names cx) = Some n -> In (clean_up_name n) A.

Lemma node_tail_cases cx e : node_tail cx e = [] \/ exists n, lookup_nm e (n_names cx) = Some n /\ node_tail cx e = [n].
Proof.
  unfold node_tail. destruct (is_alias cx e); [left; reflexivity|].
  destruct (lookup_nm e (n_names cx)) as [n|] eqn:E; [|left; reflexivity].
  destruct (str_mem n (n_labels cx)); [left; reflexivity|]. destruct n as [|c n]; [left; reflexivity|].
  right. eexists. split; reflexivity.
Qed.

Lemma lb_finish_n A cx e st cs st' id :
  finish_emit_n cx e st cs = POk (st', id) -> List.length cs = List.length (children e) ->
  names_in A cx -> LB A st -> LB A st'.
Proof.
  unfold finish_emit_n. destruct (sort_id st (type_of e)) as [s2 sort] eqn:Es. cbn [new_id].
  destruct (node_line (w_next s2) sort e cs) as [l| |] eqn:El; cbn [pbind]; intros H Hlen Hn HL; try discriminate.
  inversion H; subst. apply (lb_sort_id _ _ _ _ _ Es) in HL.
  eapply lb_cons; [exact HL|reflexivity|]. intros b Hb. rewrite (node_line_base _ _ _ _ _ (node_tail cx e) El Hlen) in Hb.
  destruct (node_tail_cases cx e) as [Ht|(n & Hl & Ht)]; rewrite Ht in Hb; [discriminate|].
  destruct (include_name n); [|discriminate]. inversion Hb; subst. right. eapply Hn; eauto.
Qed.

Lemma emit_list_n_len cx l : forall st st1 cs, emit_list_n cx l st = POk (st1, cs) -> List.length cs = List.length l.
Proof.
  induction l as [|c l IH]; intros st st1 cs H; cbn [emit_list_n] in H.
  - inversion H; reflexivity.
  - destruct (emit_expr_n cx c st) as [[sa a]| |] eqn:Ec; cbn [pbind] in H; try discriminate.
    destruct (emit_list_n cx l sa) as [[sb cs']| |] eqn:El'; cbn [pbind] in H; try discriminate.
    inversion H; subst. cbn [List.length]. f_equal. eapply IH; eauto.
Qed.

Lemma lb_emit_expr_n A cx : names_in A cx -> forall e st st' id, emit_expr_n cx e st = POk (st', id) -> LB A st -> LB A st'.
Proof.
  intros Hn. apply (expr_ind_children (fun e => forall st st' id, emit_expr_n cx e st = POk (st', id) -> LB A st -> LB A st')).
  intros e IH st st' id H HL. rewrite emit_expr_n_unfold in H. destruct (find_expr e (w_exprs st)); [inversion H; subst; exact HL|].
  destruct (is_symbol e); [discriminate|].
  destruct (emit_list_n cx (children e) st) as [[s1 cs]| |] eqn:El; cbn [pbind] in H; try discriminate.
  apply (lb_finish_n A cx e s1 cs st' id H (emit_list_n_len _ _ _ _ _ El) Hn). clear H. revert st s1 cs El HL.
  induction IH as [|c l Hcc _ IHl]; intros st s1 cs El HL; cbn [emit_list_n] in El.
  - inversion El; subst; exact HL.
  - destruct (emit_expr_n cx c st) as [[sa a]| |] eqn:Ec; cbn [pbind] in El; try discriminate.
    destruct (emit_list_n cx l sa) as [[sb cs']| |] eqn:El'; cbn [pbind] in El; try discriminate.
    inversion El; subst. eapply IHl; eauto.
Qed.

Lemma tok_base tl d A : In d reserved_names -> incl tl A -> In (nth 0 tl d) reserved_names \/ In (nth 0 tl d) A.
Proof. intros Hd Hi. destruct tl as [|x tl]; cbn [nth]; [left; exact Hd|right; apply Hi; left; reflexivity]. Qed.

Lemma lb_emit_input_n A cx st i : incl (input_tok cx i) A -> LB A st -> LB A (emit_input_n cx st i).
Proof.
  intros Hi HL. unfold emit_input_n. destruct (sort_id st (type_of i)) as [st1 sort] eqn:Es. cbn [new_id].
  apply (lb_sort_id _ _ _ _ _ Es) in HL. eapply lb_cons; [exact HL|reflexivity|].
  change (name_tok (decl_name (match symbol_name i with Some n => n | None => EmptyString end) (n_labels cx))) with (input_tok cx i).
  intros b Hb. cbn [app] in Hb. rewrite name_base_input in Hb. inversion Hb; subst. apply tok_base; [cbn; auto 10|exact Hi].
Qed.

Lemma lb_inputs_n A cx : forall l st, (forall i, In i l -> incl (input_tok cx i) A) -> LB A st -> LB A (fold_left (emit_input_n cx) l st).
Proof.
  induction l as [|i l IH]; intros st Hi HL; cbn [fold_left]; [exact HL|].
  apply IH; [intros j Hj; apply Hi; right; exact Hj|]. apply lb_emit_input_n; [apply Hi; left; reflexivity|exact HL].
Qed.

Definition state_tok (cx : nctx) (s : state) : list string := name_tok (state_name cx s).

Lemma lb_emit_state_n A cx st s st' sid : names_in A cx -> incl (state_tok cx s) A ->
  emit_state_n cx st s = POk (st', sid) -> LB A st -> LB A st'.
Proof.
  intros Hn Hi. rewrite emit_state_n_eq. destruct (sort_id st (type_of (st_sym s))) as [st1 sort] eqn:Es. intros H HL.
  apply (lb_sort_id _ _ _ _ _ Es) in HL.
  assert (Hst : forall st2, LB A st2 ->
            LB A (reg_expr (emit (fst (new_id st2)) ([num (w_next st2); "state"; num sort] ++ name_tok (state_name cx s))) (st_sym s) (w_next st2))).
  { intros st2 HL2. eapply lb_cons; [exact HL2|reflexivity|]. intros b Hb. cbn [app] in Hb. rewrite name_base_state in Hb.
    inversion Hb; subst. apply tok_base; [cbn; auto 10|exact Hi]. }
  destruct (st_init s) as [init|].
  - destruct (emit_state_init_n cx st1 s init) as [[st2 iid]| |] eqn:Ei; cbn [pbind] in H; try discriminate.
    assert (HL2 : LB A st2).
    { unfold emit_state_init_n in Ei. destruct (type_of (st_sym s)); [|destruct init]; apply (lb_emit_expr_n A cx Hn _ _ _ _ Ei); exact HL. }
    cbn [new_id] in H. inversion H; subst. eapply lb_cons; [apply (Hst st2 HL2)|reflexivity|].
    intros b Hb. rewrite name_base_init in Hb. discriminate.
  - cbn [pbind new_id] in H. inversion H; subst. apply (Hst st1 HL).
Qed.

Lemma lb_emit_states_n A cx : names_in A cx -> forall l st st' ids, (forall s, In s l -> incl (state_tok cx s) A) ->
  emit_states_n cx st l = POk (st', ids) -> LB A st -> LB A st'.
Proof.
  intros Hn. induction l as [|s l IH]; intros st st' ids Hi H HL; cbn [emit_states_n] in H.
  - inversion H; subst; exact HL.
  - destruct (emit_state_n cx st s) as [[st1 sid]| |] eqn:E1; cbn [pbind] in H; try discriminate.
    destruct (emit_states_n cx st1 l) as [[st2 ids']| |] eqn:E2; cbn [pbind] in H; try discriminate.
    inversion H; subst. eapply IH; [intros s0 Hs0; apply Hi; right; exact Hs0|exact E2|].
    eapply lb_emit_state_n; eauto. apply Hi. left. reflexivity.
Qed.

Lemma lb_bases A st b : LB A st -> In b (bases_of (rev (w_lines st))) -> In b reserved_names \/ In b A.
Proof.
  intros HL Hb. unfold bases_of in Hb. apply in_flat_map in Hb. destruct Hb as (l & Hl & Hb). apply in_rev in Hl.
  destruct (name_base l) as [b0|] eqn:E; cbn [base_list] in Hb; [|contradiction]. destruct Hb as [<-|[]]. eapply HL; eauto.
Qed.

(** ** an output line: the name the reader gives *)
Lemma output_line_u v ps id body x tl : id <= U32MAX -> body <= U32MAX ->
  PM.find (key body) (p_signals ps) = Some x ->
  exists ps', parse_line_v v true ps ([num id; "output"; num body] ++ tl) = POk ps' /\
              p_types ps' = p_types ps /\ p_signals ps' = p_signals ps /\ decl_eq ps ps' /\
              p_outputs ps' = p_outputs ps ++ [(unique_name (nth 0 tl "_output") (p_used ps), x)] /\
              p_bads ps' = p_bads ps /\ p_constraints ps' = p_constraints ps.
Proof.
  intros Hi Hb Fv.
  assert (Hpre : is_fix v = true -> all_pre ps ([num id; "output"; num body] ++ tl) = true).
  { intros _. apply (prop_pre_n ps id body x); auto. }
  unfold parse_line_v. rewrite (vp v ps _ Hpre). clear Hpre.
  cbn [app]. unfold parse_line. rewrite (line_id_num id Hi). cbn.
  unfold parse_prop. cbn [tokn nth]. rewrite (get_expr_num ps body _ Hb Fv). cbn.
  eexists. split; [reflexivity|]. unfold note_name. destruct (is_symbol x);
    cbn [p_types p_signals p_outputs p_bads p_constraints add_output set_used]; repeat split.
Qed.

(** [r] is an explicit name, none of the tokens [A], and not [b_k] for a token or another label [b] *)
Definition apart_from (A all : list string) (r : string) : Prop :=
  explicit r = true /\ ~ In r A /\ forall b, In b (A ++ all) -> b <> r -> suffix_form b r = false.

Lemma fresh_label A0 done rest n used :
  NoDup (done ++ n :: rest) -> apart_from A0 (done ++ n :: rest) n ->
  (forall x, In x used -> gen_ok (A0 ++ done ++ reserved_names) x) -> unique_name n used = n.
Proof.
  intros Hnd (He & Hni & Hsf) Hinv. apply unique_name_id. intros Hin.
  pose proof He as He'. unfold explicit in He'. apply andb_true_iff in He'. destruct He' as [_ Ha]. apply negb_true_iff in Ha.
  destruct (Hinv _ Hin) as [H|(b & Hb & Hx)]; [congruence|].
  apply in_app_or in Hb. destruct Hb as [Hb|Hb]; [|apply in_app_or in Hb; destruct Hb as [Hb|Hb]].
  - destruct Hx as [->|(k & Hk)]; [exact (Hni Hb)|].
    assert (Hne : b <> n) by (intros ->; exact (Hni Hb)).
    rewrite Hk in Hsf. specialize (Hsf b ltac:(apply in_or_app; left; exact Hb)). rewrite <- Hk in Hsf.
    specialize (Hsf Hne). rewrite Hk, cand_suffix in Hsf. discriminate.
  - assert (Hne : b <> n).
    { intros ->. apply NoDup_remove_2 in Hnd. apply Hnd. apply in_or_app. left. exact Hb. }
    destruct Hx as [->|(k & Hk)]; [apply Hne; reflexivity|].
    specialize (Hsf b ltac:(apply in_or_app; right; apply in_or_app; left; exact Hb) Hne). rewrite Hk, cand_suffix in Hsf. discriminate.
  - exact (default_base_not n b Hb He Hx).
Qed.

Lemma outputs_n_sim v m cx A0 all : forall l lbls done st ps st',
  all = done ++ lbls -> NoDup all -> names_in (A0 ++ done) cx ->
  Inv v m st ps -> LB (A0 ++ done) st -> Forall expr_ok l -> List.length lbls = List.length l ->
  emit_props_n cx "output" st l lbls = POk st' -> w_next st' <= BOUND ->
  exists ps' outs, Inv v m st' ps' /\ LB (A0 ++ all) st' /\ decl_eq ps ps' /\
    p_outputs ps' = p_outputs ps ++ outs /\ p_bads ps' = p_bads ps /\ p_constraints ps' = p_constraints ps /\
    map snd outs = map (tr m) l /\
    Forall2 (fun lbl o => apart_from A0 all lbl -> fst o = lbl) lbls outs.
Proof.
  induction l as [|e l IH]; intros lbls done st ps st' Hall Hnd Hnin Hinv HL Hok Hlen H Hb; cbn [emit_props_n] in H.
  - destruct lbls; [|discriminate Hlen]. inversion H; subst. exists ps, []. rewrite !app_nil_r.
    split; [exact Hinv|]. split; [exact HL|]. split; [repeat split|]. repeat (split; [reflexivity|]). constructor.
  - destruct lbls as [|n ns]; [discriminate Hlen|]. cbn [List.length] in Hlen. apply Nat.succ_inj in Hlen.
    apply Forall_cons_iff in Hok. destruct Hok as [[Hw Hf] Hok].
    destruct (emit_expr_n cx e st) as [[st1 body]| |] eqn:E; cbn [pbind new_id] in H; try discriminate.
    pose proof (emit_props_n_next _ _ _ _ _ _ H) as Hmn. cbn [emit w_next] in Hmn.
    destruct (emit_expr_n_sim v m cx e st st1 body ps Hinv Hw Hf E ltac:(lia)) as (ps1 & Hinv1 & Hr1 & Hfe & Hmo1 & _).
    pose proof (lb_emit_expr_n _ cx Hnin _ _ _ _ E HL) as HL1.
    destruct (i_exprs _ _ _ _ Hinv1 _ _ Hfe) as (Hlt & Hsg & _). unfold BOUND in *.
    destruct (output_line_u v ps1 (w_next st1) body (tr m e) (name_tok n) ltac:(lia) ltac:(lia) Hsg)
      as (ps2 & Hl & C1 & C2 & C3 & C4 & C5 & C6).
    pose proof (inv_plain_line v m st1 ps1 _ ps2 Hinv1 Hl C1 C2) as Hinv2.
    set (st2 := emit (fst (new_id st1)) ([num (w_next st1); "output"; num body] ++ name_tok n)) in *.
    assert (HL2 : LB (A0 ++ done ++ [n]) st2).
    { eapply lb_cons; [eapply lb_mono; [|exact HL1]|reflexivity|].
      - rewrite app_assoc. apply incl_appl. apply incl_refl.
      - intros b Hbb. cbn [app] in Hbb. rewrite name_base_output in Hbb. inversion Hbb; subst.
        destruct n as [|c0 n0]; cbn [name_tok nth]; [left; cbn; auto 10|right]. apply in_or_app. right. apply in_or_app. right. left. reflexivity. }
    assert (Hall' : all = (done ++ [n]) ++ ns) by (rewrite <- app_assoc; exact Hall).
    assert (Hnin' : names_in (A0 ++ done ++ [n]) cx).
    { intros e0 n0 H0. specialize (Hnin e0 n0 H0). rewrite app_assoc. apply in_or_app. left. exact Hnin. }
    destruct (IH ns (done ++ [n]) st2 ps2 st' Hall' Hnd Hnin' Hinv2
                 HL2 Hok Hlen H Hb)
      as (ps' & outs & A & B & C & D & Eb & Ec & F & G).
    exists ps', ((unique_name (nth 0 (name_tok n) "_output") (p_used ps1), tr m e) :: outs).
    split; [exact A|]. split; [exact B|].
    split; [eapply decl_eq_trans; [apply rest_eq_decl; exact Hr1|]; eapply decl_eq_trans; eauto|].
    destruct Hr1 as (R1 & R2 & R3 & R4 & R5 & R6).
    split; [rewrite D, C4, <- R4, <- app_assoc; reflexivity|]. split; [congruence|]. split; [congruence|].
    split; [cbn [map snd]; rewrite F; reflexivity|]. constructor; [|exact G].
    cbn [fst]. intros Hap. pose proof Hap as (He & _ & _).
    assert (Hn0 : name_tok n = [n]).
    { unfold explicit in He. apply andb_true_iff in He. destruct He as [He _]. destruct n; [discriminate He|reflexivity]. }
    rewrite Hn0. cbn [nth]. subst all.
    apply (fresh_label A0 done ns n (p_used ps1) Hnd Hap).
    intros x Hx. pose proof (run_used v st1 ps1 (i_run _ _ _ _ Hinv1) x Hx) as [Hg|(b & Hbb & Hxx)]; [left; exact Hg|].
    right. exists b. split; [|exact Hxx]. destruct (lb_bases _ _ _ HL1 Hbb) as [Hr|Hr].
    + apply in_or_app. right. apply in_or_app. right. exact Hr.
    + apply in_app_or in Hr. destruct Hr as [Hr|Hr]; [apply in_or_app; left; exact Hr|].
      apply in_or_app. right. apply in_or_app. left. exact Hr.
Qed.

(** ** the labels of the outputs *)
Lemma uniq_all_id : forall bs u, NoDup bs -> (forall b, In b bs -> ~ In b u) -> fst (uniq_all bs u) = bs.
Proof.
  induction bs as [|b bs IH]; intros u Hnd Hu; cbn [uniq_all]; [reflexivity|].
  inversion Hnd as [|? ? Hnb Hnd']; subst.
  assert (E : unique_name b u = b) by (apply unique_name_id; apply Hu; left; reflexivity). rewrite E.
  specialize (IH (b :: u) Hnd'). destruct (uniq_all bs (b :: u)) as [ns u']. cbn [fst] in *. f_equal. apply IH.
  intros b0 Hb0 [<-|Hin]; [exact (Hnb Hb0)|]. apply (Hu b0); [right; exact Hb0|exact Hin].
Qed.

Lemma uniq_all_nodup : forall bs u, NoDup (fst (uniq_all bs u)) /\ forall x, In x (fst (uniq_all bs u)) -> ~ In x u.
Proof.
  induction bs as [|b bs IH]; intros u; cbn [uniq_all]; [split; [constructor|intros x []]|].
  specialize (IH (unique_name b u :: u)). destruct (uniq_all bs (unique_name b u :: u)) as [ns u']. cbn [fst] in *.
  destruct IH as [Hnd Hfr]. split.
  - constructor; [|exact Hnd]. intros Hin. apply (Hfr _ Hin). left. reflexivity.
  - intros x [<-|Hx]; [apply unique_name_fresh|]. intros Hin. apply (Hfr _ Hx). right. exact Hin.
Qed.

Lemma l_outputs_eq wv nm sy : l_outputs (compute_labels wv nm sy) = fst (uniq_all (map fst (s_outputs sy)) reserved_names).
Proof.
  unfold compute_labels. destruct (uniq_all (map fst (s_outputs sy)) reserved_names) as [o u1].
  destruct (uniq_all (label_bases wv sy nm "_constraint" (s_constraints sy) (s_bads sy)) u1) as [c u2].
  destruct (uniq_all (label_bases wv sy nm "_bad" (s_bads sy) []) u2) as [b u3]. reflexivity.
Qed.

(** the tokens the writer prints before the outputs *)
Definition printed (cx : nctx) (sy : sys) : list string :=
  flat_map (input_tok cx) (s_inputs sy) ++ flat_map (state_tok cx) (s_states sy) ++ map (fun p => clean_up_name (snd p)) (n_names cx).

Lemma lookup_nm_pair e nm n : lookup_nm e nm = Some n -> exists e', In (e', n) nm.
Proof.
  induction nm as [|[e' n'] nm IH]; cbn [lookup_nm]; [discriminate|].
  destruct (expr_eqb e e'); [intros H; inversion H; subst; exists e'; left; reflexivity|].
  intros H. destruct (IH H) as (e0 & He0). exists e0. right. exact He0.
Qed.

Lemma names_in_printed cx sy : names_in (printed cx sy) cx.
Proof.
  intros e n H. apply lookup_nm_pair in H. destruct H as (e' & He'). unfold printed. apply in_or_app. right. apply in_or_app. right.
  apply in_map_iff. exists (e', n). split; [reflexivity|exact He'].
Qed.

(** ** property lines that are not output lines leave the outputs alone *)
Lemma prop_line_n' v k ps id body x tl : id <= U32MAX -> body <= U32MAX ->
  PM.find (key body) (p_signals ps) = Some x ->
  (is_fix v = true -> k = KOut \/ type_of x = TBV 1) ->
  exists ps', parse_line_v v true ps ([num id; kstr k; num body] ++ tl) = POk ps' /\
              p_types ps' = p_types ps /\ p_signals ps' = p_signals ps /\ decl_eq ps ps' /\
              klist k ps' = klist k ps ++ [x] /\ (forall k', k' <> k -> klist k' ps' = klist k' ps) /\
              (k <> KOut -> p_outputs ps' = p_outputs ps).
Proof.
  intros Hi Hb Fv Hbool.
  assert (Hpre : is_fix v = true -> all_pre ps ([num id; kstr k; num body] ++ tl) = true).
  { intros Hv. apply (prop_pre_n ps id body x); auto. destruct (Hbool Hv) as [->|Ht]; [left; reflexivity|].
    destruct k; [left; reflexivity|right; split; [right; reflexivity|exact Ht]|right; split; [left; reflexivity|exact Ht]]. }
  unfold parse_line_v. rewrite (vp v ps _ Hpre). clear Hpre Hbool.
  destruct k; cbn [kstr app]; unfold parse_line; rewrite (line_id_num id Hi); cbn;
    unfold parse_prop; cbn [tokn nth]; rewrite (get_expr_num ps body _ Hb Fv); cbn;
    (eexists; split; [reflexivity|]); unfold note_name; destruct (is_symbol x);
    cbn [p_types p_signals klist p_outputs p_bads p_constraints add_output add_bad add_constraint set_used];
    (split; [reflexivity|]); (split; [reflexivity|]); (split; [repeat split|]);
    (split; [rewrite ?map_app; reflexivity|]); (split; [intros k' Hk'; destruct k'; try reflexivity; congruence|]);
    intros Hk0; try reflexivity; congruence.
Qed.

Lemma props_n_sim' v k m cx : forall l lbls st ps st',
  Inv v m st ps -> Forall expr_ok l -> List.length lbls = List.length l ->
  (is_fix v = true -> k = KOut \/ Forall (fun e => type_of e = TBV 1) l) ->
  emit_props_n cx (kstr k) st l lbls = POk st' -> w_next st' <= BOUND ->
  exists ps', Inv v m st' ps' /\ decl_eq ps ps' /\ klist k ps' = klist k ps ++ map (tr m) l /\
              (forall k', k' <> k -> klist k' ps' = klist k' ps) /\ (k <> KOut -> p_outputs ps' = p_outputs ps).
Proof.
  induction l as [|e l IH]; intros lbls st ps st' Hinv Hok Hlen Hbool H Hb; cbn [emit_props_n] in H.
  - inversion H; subst. exists ps. split; [exact Hinv|]. split; [repeat split|]. split; [cbn [map]; rewrite app_nil_r; reflexivity|]. split; [auto|reflexivity].
  - destruct lbls as [|n ns]; [discriminate Hlen|]. cbn [List.length] in Hlen. apply Nat.succ_inj in Hlen.
    apply Forall_cons_iff in Hok. destruct Hok as [[Hw Hf] Hok].
    destruct (emit_expr_n cx e st) as [[st1 body]| |] eqn:E; cbn [pbind new_id] in H; try discriminate.
    pose proof (emit_props_n_next _ _ _ _ _ _ H) as Hmn. cbn [emit w_next] in Hmn.
    destruct (emit_expr_n_sim v m cx e st st1 body ps Hinv Hw Hf E ltac:(lia)) as (ps1 & Hinv1 & Hr1 & Hfe & Hmo1 & _).
    destruct (i_exprs _ _ _ _ Hinv1 _ _ Hfe) as (Hlt & Hsg & _). unfold BOUND in *.
    assert (Hb1 : is_fix v = true -> k = KOut \/ type_of (tr m e) = TBV 1).
    { intros Hv. destruct (Hbool Hv) as [->|Hall]; [left; reflexivity|right]. apply Forall_cons_iff in Hall. destruct Hall as [Ht _].
      rewrite (tr_type m e (i_map _ _ _ _ Hinv) Hw). exact Ht. }
    assert (Hb2 : is_fix v = true -> k = KOut \/ Forall (fun e => type_of e = TBV 1) l).
    { intros Hv. destruct (Hbool Hv) as [->|Hall]; [left; reflexivity|right]. apply Forall_cons_iff in Hall. tauto. }
    destruct (prop_line_n' v k ps1 (w_next st1) body (tr m e) (name_tok n) ltac:(lia) ltac:(lia) Hsg Hb1) as (ps2 & Hl & C1 & C2 & C3 & C4 & C5 & C6').
    pose proof (inv_plain_line v m st1 ps1 _ ps2 Hinv1 Hl C1 C2) as Hinv2.
    destruct (IH ns _ ps2 st' Hinv2 Hok Hlen Hb2 H Hb) as (ps' & A & B & C & D & E').
    exists ps'. split; [exact A|]. split; [eapply decl_eq_trans; [apply rest_eq_decl; exact Hr1|]; eapply decl_eq_trans; eauto|].
    split; [rewrite C, C4, <- (rest_eq_klist _ _ k Hr1), <- app_assoc; reflexivity|]. split.
    + intros k' Hk. rewrite (D k' Hk), (C5 k' Hk). symmetry. apply rest_eq_klist. exact Hr1.
    + intros Hk. rewrite (E' Hk), (C6' Hk). destruct Hr1 as (_ & _ & _ & R4 & _). symmetry. exact R4.
Qed.

(** ** the whole text, with the outputs' names *)
Theorem serialize_named_parse_raw_o v wv sy nm lines :
  sys_ok_weak sy = true -> (is_fix v = true -> props_1bit sy = true) -> alias_ok v wv ->
  NoDup (declared sy) -> sys_fits sy = true ->
  serialize_named_v wv sy nm = POk lines -> N.of_nat (List.length lines) <= U32MAX ->
  exists m ps, map_ok m /\ parse_fold_v v true lines p_empty false = POk (ps, false) /\
    p_inputs ps = map (sm_app m) (s_inputs sy) /\
    p_states ps = map (trs m true) (s_states sy) /\
    map snd (p_outputs ps) = map (tr m) (map snd (s_outputs sy)) /\
    p_bads ps = map (tr m) (s_bads sy) /\ p_constraints ps = map (tr m) (s_constraints sy) /\
    Forall2 (fun lbl o => apart_from (printed (label_ctx wv sy nm) sy) (l_outputs (compute_labels wv nm sy)) lbl -> fst o = lbl)
            (l_outputs (compute_labels wv nm sy)) (p_outputs ps).
Proof.
  intros Hok H1bit Hal Hnd Hfit H Hlen. unfold serialize_named_v in H. cbv zeta in H. unfold label_ctx.
  set (lb := compute_labels wv nm sy) in *.
  set (cx := {| n_names := nm; n_labels := all_labels lb; n_alias := alias_needed wv nm sy lb |}) in *.
  set (st1 := fold_left (emit_input_n cx) (s_inputs sy) w_empty) in *.
  destruct (emit_states_n cx st1 (s_states sy)) as [[st2 ids]| |] eqn:E2; cbn [pbind] in H; try discriminate.
  destruct (emit_props_n cx "output" st2 (map snd (s_outputs sy)) (l_outputs lb)) as [st3| |] eqn:E3; cbn [pbind] in H; try discriminate.
  destruct (emit_props_n cx "constraint" st3 (s_constraints sy) (l_constraints lb)) as [st4| |] eqn:E4; cbn [pbind] in H; try discriminate.
  destruct (emit_props_n cx "bad" st4 (s_bads sy) (l_bads lb)) as [st5| |] eqn:E5; cbn [pbind] in H; try discriminate.
  rewrite emit_aliases_eq in H. set (st6 := fold_left (alias_step cx) (alias_targets cx st5) st5) in *.
  destruct (emit_nexts_n cx st6 (s_states sy) ids) as [st7| |] eqn:E7; cbn [pbind] in H; try discriminate.
  inversion H; subst lines. clear H. rewrite rev_length in Hlen.
  destruct (compute_labels_len wv nm sy) as (Lo & Lc & Lb). fold lb in Lo, Lc, Lb.
  (* counters *)
  assert (Hc0 : cnt w_empty) by (unfold cnt; cbn; lia).
  pose proof (cnt_inputs_n cx (s_inputs sy) _ Hc0) as Hc1. fold st1 in Hc1.
  pose proof (cnt_emit_states_n _ _ _ _ _ E2 Hc1) as Hc2. pose proof (cnt_props_n _ _ _ _ _ _ E3 Hc2) as Hc3.
  pose proof (cnt_props_n _ _ _ _ _ _ E4 Hc3) as Hc4. pose proof (cnt_props_n _ _ _ _ _ _ E5 Hc4) as Hc5.
  pose proof (cnt_aliases cx (alias_targets cx st5) _ Hc5) as Hc6. fold st6 in Hc6.
  pose proof (cnt_nexts_n _ _ _ _ _ E7 Hc6) as Hc7.
  assert (Hb7 : w_next st7 <= BOUND) by (unfold cnt in Hc7; unfold BOUND; lia).
  pose proof (emit_nexts_n_next _ _ _ _ _ E7) as N7. pose proof (aliases_next cx (alias_targets cx st5) st5) as N6. fold st6 in N6.
  pose proof (emit_props_n_next _ _ _ _ _ _ E5) as N5.
  pose proof (emit_props_n_next _ _ _ _ _ _ E4) as N4. pose proof (emit_props_n_next _ _ _ _ _ _ E3) as N3.
  pose proof (emit_states_n_next _ _ _ _ _ E2) as N2.
  (* well-formedness, piecewise *)
  unfold sys_ok_weak in Hok.
  apply andb_true_iff in Hok. destruct Hok as [Hok Hokc]. apply andb_true_iff in Hok. destruct Hok as [Hok Hokb].
  apply andb_true_iff in Hok. destruct Hok as [Hok Hoko]. apply andb_true_iff in Hok. destruct Hok as [Hoki Hoks].
  unfold sys_fits, all_exprs in Hfit. rewrite !forallb_app in Hfit.
  apply andb_true_iff in Hfit. destruct Hfit as [Hfi Hfit]. apply andb_true_iff in Hfit. destruct Hfit as [Hfo Hfit].
  apply andb_true_iff in Hfit. destruct Hfit as [Hfb Hfit]. apply andb_true_iff in Hfit. destruct Hfit as [Hfc Hfs].
  rewrite forallb_forall in Hoki, Hoks, Hoko, Hokb, Hokc, Hfi, Hfo, Hfb, Hfc, Hfs.
  assert (Hins : Forall sym_ok (s_inputs sy)).
  { apply Forall_forall. intros i Hi. specialize (Hoki _ Hi). apply andb_true_iff in Hoki. destruct Hoki. repeat split; auto. }
  assert (Hsts : Forall st_ok (s_states sy)).
  { apply Forall_forall. intros s Hs. split; [apply Hoks; exact Hs|].
    assert (Hall : forall e, In e (st_sym s :: (match st_init s with Some e => [e] | None => [] end)
                                  ++ (match st_next s with Some e => [e] | None => [] end)) -> efits e = true).
    { intros e He. apply Hfs. apply in_flat_map. exists s. split; assumption. }
    repeat split.
    - apply Hall. left. reflexivity.
    - intros e He. apply Hall. right. apply in_or_app. left. rewrite He. left. reflexivity.
    - intros e He. apply Hall. right. apply in_or_app. right. rewrite He. left. reflexivity. }
  assert (Houts : Forall expr_ok (map snd (s_outputs sy))).
  { apply Forall_forall. intros e He. apply in_map_iff in He. destruct He as (o & <- & Ho). split; [apply Hoko; exact Ho|].
    apply Hfo. apply in_map. exact Ho. }
  assert (Hcons : Forall expr_ok (s_constraints sy)) by (apply Forall_forall; intros e He; split; auto).
  assert (Hbads : Forall expr_ok (s_bads sy)) by (apply Forall_forall; intros e He; split; auto).
  (* inputs *)
  destruct (inputs_n_sim v cx (s_inputs sy) [] w_empty p_empty [] (inv_init v) sh_init' ltac:(repeat split) Hins) as (m1 & ps1 & Hinv1 & Hsh1 & Hnp1).
  { cbn [app]. unfold declared in Hnd. apply nodup_app_l in Hnd. exact Hnd. }
  { fold st1. lia. }
  fold st1 in Hinv1. cbn [app] in Hsh1.
  (* states *)
  destruct (states_n_sim v cx (s_states sy) m1 st1 ps1 (s_inputs sy) [] [] st2 ids Hinv1 Hsh1 Hnp1 Hsts) as (m & ps2 & Hinv2 & Hsh2 & Hnp2 & Hids2); auto.
  { lia. }
  cbn [app] in Hsh2, Hids2.
  assert (HLB2 : LB (printed cx sy) st2).
  { apply (lb_emit_states_n _ cx (names_in_printed cx sy) (s_states sy) st1 st2 ids).
    - intros s Hs x Hx. unfold printed. apply in_or_app. right. apply in_or_app. left. apply in_flat_map. exists s. auto.
    - exact E2.
    - apply lb_inputs_n.
      + intros i Hi x Hx. unfold printed. apply in_or_app. left. apply in_flat_map. exists i. auto.
      + intros l b []. }
  assert (HndL : NoDup (l_outputs lb)).
  { unfold lb. rewrite l_outputs_eq. apply uniq_all_nodup. }
  (* outputs, constraints, bads *)
  assert (H1c : is_fix v = true -> KCon = KOut \/ Forall (fun e => type_of e = TBV 1) (s_constraints sy)).
  { intros Hv. right. specialize (H1bit Hv). unfold props_1bit in H1bit. rewrite forallb_app in H1bit.
    apply andb_true_iff in H1bit. destruct H1bit as [_ Hc]. rewrite forallb_forall in Hc. apply Forall_forall.
    intros e He. apply ty_eqb_eq. apply Hc. exact He. }
  assert (H1b : is_fix v = true -> KBad = KOut \/ Forall (fun e => type_of e = TBV 1) (s_bads sy)).
  { intros Hv. right. specialize (H1bit Hv). unfold props_1bit in H1bit. rewrite forallb_app in H1bit.
    apply andb_true_iff in H1bit. destruct H1bit as [Hc _]. rewrite forallb_forall in Hc. apply Forall_forall.
    intros e He. apply ty_eqb_eq. apply Hc. exact He. }
  destruct (outputs_n_sim v m cx (printed cx sy) (l_outputs lb) _ (l_outputs lb) [] st2 ps2 st3 eq_refl HndL
              ltac:(rewrite app_nil_r; apply names_in_printed) Hinv2 ltac:(rewrite app_nil_r; exact HLB2) Houts Lo E3 ltac:(lia))
    as (ps3 & outs & Hinv3 & _ & Hd3 & Hop3 & Hbp3 & Hcp3 & Hsnd3 & HF3).
  assert (Hk3 : klist KOut ps3 = klist KOut ps2 ++ map (tr m) (map snd (s_outputs sy))).
  { cbn [klist]. rewrite Hop3, map_app, Hsnd3. reflexivity. }
  assert (Ho3 : forall k', k' <> KOut -> klist k' ps3 = klist k' ps2).
  { intros k' Hk'. destruct k'; cbn [klist]; congruence. }
  destruct (props_n_sim' v KCon m cx _ _ st3 ps3 st4 Hinv3 Hcons Lc H1c E4 ltac:(lia)) as (ps4 & Hinv4 & Hd4 & Hk4 & Ho4 & Hpo4).
  destruct (props_n_sim' v KBad m cx _ _ st4 ps4 st5 Hinv4 Hbads Lb H1b E5 ltac:(lia)) as (ps5 & Hinv5 & Hd5 & Hk5 & Ho5 & Hpo5).
  pose proof (decl_eq_trans _ _ _ Hd3 (decl_eq_trans _ _ _ Hd4 Hd5)) as (D1 & D2 & D3).
  (* alias lines *)
  assert (Htg : Forall (target_ok v st5) (alias_targets cx st5)).
  { apply Forall_forall. intros [e id] Hin. apply alias_targets_spec in Hin. destruct Hin as [Hin Hfe].
    cbn [n_alias cx] in Hin. apply alias_needed_spec in Hin. destruct Hin as [Hin Hbv].
    assert (Hex : expr_ok e).
    { apply in_app_or in Hin. destruct Hin as [Hin|Hin]; [rewrite Forall_forall in Houts; auto|].
      apply in_app_or in Hin. destruct Hin as [Hin|Hin]; [rewrite Forall_forall in Hcons; auto|rewrite Forall_forall in Hbads; auto]. }
    destruct Hex as [Hw Hf]. unfold target_ok. cbn [fst snd]. split; [exact Hfe|]. split; [exact Hw|]. split; [exact Hf|].
    intros Hv. apply Hbv. apply Hal. exact Hv. }
  destruct (aliases_sim v m cx (alias_targets cx st5) st5 ps5 Hinv5 Htg) as (ps6 & Hinv6 & Hr6 & He6).
  { fold st6. lia. }
  fold st6 in Hinv6, He6. destruct Hr6 as (R1 & R2 & R3 & R4 & R5 & R6).
  (* nexts *)
  destruct (nexts_n_sim v m cx (s_states sy) ids [] [] st6 ps6 st7 Hinv6) as (ps7 & Hinv7 & Hst7 & P1 & P2 & P3 & P4 & P5); auto.
  { cbn [map app]. rewrite <- R3, <- D3. apply (sh_states _ _ _ _ _ Hsh2). }
  { cbn [app]. intros j sid Hj. rewrite <- R1, <- D1. apply (sh_ids _ _ _ _ _ Hsh2 _ _ Hj). }
  { apply (emit_states_n_len _ _ _ _ _ E2). }
  { cbn [app]. eapply Forall_impl; [|exact Hids2]. intros a Ha. cbn beta in *. lia. }
  cbn [app] in Hst7.
  exists m, ps7. split; [apply (i_map _ _ _ _ Hinv7)|]. split; [exact (i_run _ _ _ _ Hinv7)|].
  destruct Hnp2 as (Q1 & Q2 & Q3).
  split; [rewrite <- P1, <- R2, <- D2; apply (sh_inputs _ _ _ _ _ Hsh2)|]. split; [exact Hst7|]. split; [|split].
  - rewrite <- P3, <- R4. change (map snd (p_outputs ps5)) with (klist KOut ps5).
    rewrite (Ho5 KOut ltac:(discriminate)), (Ho4 KOut ltac:(discriminate)), Hk3. cbn [klist]. rewrite Q1. reflexivity.
  - rewrite <- P4, <- R5. change (p_bads ps5) with (klist KBad ps5). rewrite Hk5, (Ho4 KBad ltac:(discriminate)), (Ho3 KBad ltac:(discriminate)).
    cbn [klist]. rewrite Q2. reflexivity.
  - split.
    + rewrite <- P5, <- R6. change (p_constraints ps5) with (klist KCon ps5). rewrite (Ho5 KCon ltac:(discriminate)), Hk4, (Ho3 KCon ltac:(discriminate)).
      cbn [klist]. rewrite Q3. reflexivity.
    + rewrite <- P3, <- R4, (Hpo5 ltac:(discriminate)), (Hpo4 ltac:(discriminate)), Hop3, Q1. cbn [app]. exact HF3.
Qed.
(** ** the theorem for outputs *)
Lemma Forall2_map_l {A B C} (f : A -> B) (R : B -> C -> Prop) : forall l l',
  Forall2 R (map f l) l' -> Forall2 (fun a c => R (f a) c) l l'.
Proof.
  induction l as [|a l IH]; intros l' H; cbn [map] in H; inversion H; subst; constructor; auto.
Qed.

Lemma Forall2_map_r {A B C} (g : C -> B) (R : A -> B -> Prop) l l' :
  Forall2 (fun a c => R a (g c)) l l' -> Forall2 R l (map g l').
Proof. induction 1; cbn [map]; constructor; auto. Qed.

Theorem names_survive_outputs v wv sy nm lines :
  sys_ok_weak sy = true -> (is_fix v = true -> props_1bit sy = true) -> alias_ok v wv ->
  NoDup (declared sy) -> sys_fits sy = true ->
  NoDup (map fst (s_outputs sy)) -> (forall o, In o (s_outputs sy) -> ~ In (fst o) reserved_names) ->
  serialize_named_v wv sy nm = POk lines -> N.of_nat (List.length lines) <= U32MAX ->
  exists sy', (forall dbg, parse_lines_v v dbg lines = POk sy') /\
    Forall2 (fun o o' => apart_from (printed (label_ctx wv sy nm) sy) (map fst (s_outputs sy)) (fst o) -> fst o' = fst o)
            (s_outputs sy) (s_outputs sy').
Proof.
  intros Hok H1bit Hal Hnd Hfit Hndo Hres Hser Hlen.
  destruct (serialize_named_parse_raw_o v wv sy nm lines Hok H1bit Hal Hnd Hfit Hser Hlen)
    as (m & ps & Hm & Hrun & _ & _ & _ & _ & _ & HF).
  assert (Hlo : l_outputs (compute_labels wv nm sy) = map fst (s_outputs sy)).
  { rewrite l_outputs_eq. apply uniq_all_id; [exact Hndo|]. intros b Hb. apply in_map_iff in Hb. destruct Hb as (o & <- & Ho).
    apply Hres. exact Ho. }
  rewrite Hlo in HF.
  set (ren := renames_of ps).
  exists (demote (rename_sys ren (sys_of_pstate ps))).
  assert (Hp : parse_lines_v v true lines = POk (demote (rename_sys ren (sys_of_pstate ps)))).
  { unfold parse_lines_v, parse_raw_v. rewrite Hrun. reflexivity. }
  split.
  { intros [|]; [exact Hp|]. rewrite (parse_lines_v_ref v lines); [exact Hp|]. rewrite Hp. intros k. discriminate. }
  rewrite rename_sys_all. cbn [demote sys_of_pstate s_outputs].
  apply Forall2_map_r. apply Forall2_map_l in HF.
  eapply Forall2_impl_in; [exact HF|]. intros o c _ H Hap. cbn [fst]. apply H. exact Hap.
Qed.
