(** * Proofs/RepairProofs.v — the repaired variant ([repairs], patches/C20-1..3) has no
    panic left on legitimate input: [expr_to_guard] is total (and still equivalent to the
    expression), [to_guard] / [apply_ite] / [import_into_guard] return for boolean condition
    values, and the adjusted assertion of [apply_bin_op] holds for all reachable summaries. *)
From Coq Require Import Lia Arith.
From Patronus Require Import GuardSem BddProofs GuardProofs SummaryProofs CoalesceProofs IteImportProofs
  HistoryProofs BddCanonProofs.
Open Scope nat_scope.

(** unconditional totality + equivalence of the repaired [expr_to_guard] *)
Lemma guard_total_repaired_lemma rp debug t e :
  r_traversal rp = true -> r_closures rp = true ->
  wt e = true -> expr_is_bool e = true ->
  exists t' g, expr_to_guard rp debug t e = Ok (t', g) /\
    extends t t' /\
    (forall v : nat -> bool, bdd_eval v g = bsem t' v e) /\
    (forall rho, env_wf rho -> bdd_eval (tval rho t') g = N.eqb (ebv rho e) 1).
Proof.
  intros H1 H2 Hwt Hb.
  destruct (expr_to_guard_repaired_total rp debug t e H1 H2 Hb) as (t' & g & E).
  exists t', g. split; [exact E |].
  pose proof (expr_to_guard_sound rp debug t e t' g E) as (Hx & Hc & Hv).
  split; [exact Hx |]. split; [exact Hv |].
  intros rho Hrho. eapply guard_equiv_lemma; eassumption.
Qed.

Lemma to_guard_total rp debug s :
  r_traversal rp = true -> r_closures rp = true ->
  (forall e, In e s -> expr_is_bool (snd e) = true) ->
  forall t acc, exists t' g, to_guard rp debug t s acc = Ok (t', g).
Proof.
  intros H1 H2. induction s as [| [g0 x] s IH]; intros Hs t acc; cbn [to_guard]; [eauto |].
  assert (Hx : expr_is_bool x = true) by (apply (Hs (g0, x)); now left).
  rewrite Hx. cbn [negb].
  destruct (expr_to_guard_repaired_total rp debug t x H1 H2 Hx) as (t1 & g1 & E).
  rewrite E. cbn [rbind fst snd]. apply IH. intros e He. apply Hs. now right.
Qed.

Lemma ite_total rp debug t c tr fl :
  r_traversal rp = true -> r_closures rp = true ->
  (forall e, In e c -> expr_is_bool (snd e) = true) ->
  exists r, apply_ite rp debug t c tr fl = Ok r.
Proof.
  intros H1 H2 Hc. unfold apply_ite.
  destruct (vs_is_true c); [eauto |]. destruct (vs_is_false c); [eauto |].
  destruct (to_guard_total rp debug c H1 H2 Hc t (BLeaf false)) as (t' & g & E). rewrite E.
  cbn [rbind fst snd]. destruct (is_true g); [eauto |]. destruct (is_true (bdd_not g)); eauto.
Qed.

Lemma import_total rp debug t s :
  r_traversal rp = true -> r_closures rp = true ->
  (forall e, In e s -> expr_is_bool (snd e) = true) ->
  exists r, import_into_guard rp debug t s = Ok r.
Proof.
  intros H1 H2 Hs. unfold import_into_guard.
  destruct (to_guard_total rp debug s H1 H2 Hs t (BLeaf false)) as (t' & g & E). rewrite E.
  cbn [rbind fst snd]. destruct (is_true g); [eauto |]. destruct (is_false g); eauto.
Qed.

Lemma count1_nonempty v (s : summary) : count_true v s = 1 -> is_nil s = false.
Proof. destruct s; [discriminate | reflexivity]. Qed.

(** a good guard that is false under every valuation is the constant false *)
Lemma good_unsat_is_false g : good g -> (forall v, bdd_eval v g = false) -> is_false g = true.
Proof.
  intros Hg Hv. assert (g = BLeaf false) as ->; [| reflexivity].
  apply good_canonical; [assumption | apply good_leaf | exact Hv].
Qed.

(** with the adjusted assertion, [apply_bin_op] does not panic on partitions with canonical
    guards - in either build *)
Lemma bin_total_repaired rp debug rank op a b :
  r_assert rp = true ->
  (forall v, count_true v a = 1) -> (forall v, count_true v b = 1) -> gsum a -> gsum b ->
  exists r, apply_bin_op rp debug rank op a b = Ok r.
Proof.
  intros H3 Ha Hb Hga Hgb. unfold apply_bin_op.
  rewrite (count1_nonempty _ a (Ha (fun _ => false))), (count1_nonempty _ b (Hb (fun _ => false))).
  cbn [orb]. rewrite andb_false_r.
  destruct (merge_common_total op a b (sort_by rank (common_guards a b))) as [o ->].
  { intros g Hg. apply sort_by_In in Hg. now apply common_guards_In. }
  cbn [rbind].
  destruct (is_nil (filter (fun e => negb (bmem (fst e) (common_guards a b))) a)) eqn:Na; [eauto |].
  match goal with |- exists r, (if ?c then _ else _) = _ => destruct c eqn:C end; [| eauto].
  exfalso. rewrite H3 in C. cbn [andb] in C.
  apply andb_prop in C. destruct C as [C Cn]. apply andb_prop in C. destruct C as [_ Nb].
  apply negb_true_iff in Cn.
  (* every left-over entry of a is unsatisfiable *)
  assert (Hall : forallb (fun e => is_false (fst e))
                   (filter (fun e => negb (bmem (fst e) (common_guards a b))) a) = true); [| congruence].
  apply forallb_forall. intros ea Hea. apply filter_In in Hea. destruct Hea as [Hea Hca].
  apply negb_true_iff in Hca.
  apply good_unsat_is_false; [now apply Hga |].
  intros v. destruct (bdd_eval v (fst ea)) eqn:Ta; [| reflexivity]. exfalso.
  destruct (count1_unique v a (Ha v)) as (ea0 & _ & _ & _ & Hua).
  destruct (count1_unique v b (Hb v)) as (eb & _ & Heb & Htb & _).
  (* the true entry of b is not left over, so its guard is common ... *)
  destruct (bmem (fst eb) (common_guards a b)) eqn:Cb.
  - apply bmem_In in Cb. pose proof Cb as Cb'. apply common_guards_In in Cb. destruct Cb as [Cba _].
    apply in_map_iff in Cba. destruct Cba as (e' & He'g & He').
    (* ... and is the guard of the true entry of a, which is [ea] *)
    assert (e' = ea0) by (apply Hua; [assumption | now rewrite He'g]).
    assert (ea = ea0) by (now apply Hua). subst e' ea.
    rewrite He'g in Hca. apply bmem_false in Hca. contradiction.
  - assert (Hin : In eb (filter (fun e => negb (bmem (fst e) (common_guards a b))) b)).
    { apply filter_In. split; [assumption | now rewrite Cb]. }
    destruct (filter (fun e => negb (bmem (fst e) (common_guards a b))) b); [destruct Hin | discriminate].
Qed.

(** ... hence on all summaries reachable with the coalesce repair *)
Lemma bin_total_reachable rp debug prog st :
  r_assert rp = true ->
  vrun rp debug true vinit prog = Ok st ->
  forall a b, In a (vs_sums st) -> In b (vs_sums st) ->
  forall rank op, exists r, apply_bin_op rp debug rank op a b = Ok r.
Proof.
  intros H3 H a b Ia Ib rank op.
  assert (Hg : gstate st).
  { eapply vrun_good; [| eassumption]. split; [apply all_sums_init | intros g []]. }
  destruct Hg as [Hs _].
  apply bin_total_repaired; auto.
  - intros v. eapply partition_inv_lemma; eassumption.
  - intros v. eapply partition_inv_lemma; eassumption.
Qed.

(** the history that trips the assertion before the repair runs through after it *)
Lemma binfalse_repaired : exists st, vrun all_repairs true true vinit binfalse_prog = Ok st.
Proof. eexists. vm_compute. reflexivity. Qed.
