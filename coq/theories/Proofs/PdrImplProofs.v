(** * Proofs/PdrImplProofs.v — the concrete model of pdr.rs (Model/PdrImpl.v) is sound for every
    solver oracle that answers truthfully.

    Semantics (Section variables, nothing assumed about them beyond what is stated):
    [St] valuations of the state symbols, [lit_holds] the meaning of a bit-level literal,
    [bad0 s]   : s is the state part of an initial valuation (init equations and constraints hold) that
                 is bad WITH THE SAME INPUTS,
    [step0 s s']: s is the state part of an initial valuation whose inputs drive a transition to s'
                 (constraints at both ends),
    [trans s s'], [bad s] : transition / bad state with existentially quantified inputs under the
                 constraints (later steps).
    An execution of length d reaches [s_d]: d = 0: [bad0 s_0]; d >= 1: [step0 s_0 s_1], then [trans].

    The oracle hypothesis [solver_ok]: a [ASat m] answer comes with a model of the query, an
    [AUnsat core] answer is right for the query restricted to the selectable literals that are in
    the core (or for the whole query when no core was requested).  Nothing else is assumed:
    models and cores are arbitrary.

    Refinement: every state change of the concrete model is an [add_blocked_cube] / [add_frame]
    whose abstract side conditions (the ones of Proofs/Ic3Proofs.v: the blocked cube excludes the
    successors of the initial states = [excludes_init] for the shifted reading, and is inductive
    relative to the previous frame = [rel_inductive] / [inf_rel_inductive]; [add_frame] after a
    truthful "no bad state in the frontier") are established from the oracle's answers; the frame
    invariants [pinv] are the invariants [frames_ok] of [ic3_safe_sem] for [Fr i := F_{i+1}]. *)
From Coq Require Import List Bool Arith Lia.
From Patronus Require Import Ic3 PdrImpl.
Import ListNotations.

Arguments Ok {lit St EM A}. Arguments Err {lit St EM A}. Arguments Panic {lit St EM A}. Arguments Fuel {lit St EM A}.

Section PdrImplProofs.
  Variable lit : Type.
  Variable lit_eqb : lit -> lit -> bool.
  Variable St : Type.
  Variable cube_of_state : St -> list lit.
  Variable W : Type.
  Variable EM : Type.
  Variable solve : nat -> query lit -> answer lit St EM.
  Variable cmd_fail : nat -> option EM.
  Variable n_init : nat.
  Variable gen_on has_bads : bool.
  Variable bmc_result : bmc_answer W EM.

  Variable lit_holds : lit -> St -> bool.
  Variable bad0 : St -> bool.
  Variable step0 : St -> St -> bool.
  Variable trans : St -> St -> bool.
  Variable bad : St -> bool.

  Notation ccube := (ccube lit).
  Notation pst := (pst lit St EM).
  Notation query := (query lit).
  Notation answer := (answer lit St EM).

  Definition ch (c : ccube) (s : St) : bool := forallb (fun l => lit_holds l s) c.
  Definition blocked (cs : list ccube) (s : St) : bool := existsb (fun c => ch c s) cs.

  (** [get_bit_level_cube] describes exactly one state *)
  Hypothesis cube_state_holds : forall s, ch (cube_of_state s) s = true.
  Hypothesis cube_state_unique : forall s s', ch (cube_of_state s) s' = true -> s' = s.

  (** ** the meaning of a query and the oracle hypothesis *)
  Definition from_ok (f : from_spec lit) (s : St) : Prop :=
    match f with FromInit _ => True | FromClauses _ cs => blocked cs s = false end.
  Definition neg_ok (n : option ccube) (s : St) : Prop :=
    match n with None => True | Some c => ch c s = false end.

  Definition q_model (q : query) (m : St) : Prop :=
    from_ok (q_from _ q) m /\ neg_ok (q_neg _ q) m /\
    match q_from _ q, q_bad _ q with
    | FromInit _, true => bad0 m = true
    | FromInit _, false => exists s', step0 m s' = true /\ ch (q_fixed _ q ++ q_sel _ q) s' = true
    | FromClauses _ _, true => bad m = true
    | FromClauses _ _, false => exists s', trans m s' = true /\ ch (q_fixed _ q ++ q_sel _ q) s' = true
    end.

  Definition restrict (q : query) (core : list lit) : query :=
    {| q_kind := q_kind _ q; q_frame := q_frame _ q; q_from := q_from _ q; q_bad := q_bad _ q;
       q_neg := q_neg _ q; q_fixed := q_fixed _ q;
       q_sel := filter (fun l => lit_mem lit lit_eqb l core) (q_sel _ q); q_core := q_core _ q |}.

  Definition truthful (q : query) (a : answer) : Prop :=
    match a with
    | ASat _ _ _ m => q_model q m
    | AUnsat _ _ _ core => forall m, ~ q_model (if q_core _ q then restrict q core else q) m
    | AUnknown _ _ _ => True
    | AErr _ _ _ _ => True
    end.

  Hypothesis solver_ok : forall n q, truthful q (solve n q).

  (** ** real reachability *)
  Inductive reach1 : nat -> St -> Prop :=
  | r1_first s0 s : step0 s0 s = true -> reach1 1 s
  | r1_step d s s' : reach1 d s -> trans s s' = true -> reach1 (S d) s'.

  Definition unsafe_at (d : nat) : Prop :=
    match d with
    | O => exists s, bad0 s = true
    | S _ => exists s, reach1 d s /\ bad s = true
    end.
  Definition safe : Prop := forall d, ~ unsafe_at d.

  Inductive leads_to_bad : St -> nat -> Prop :=
  | lb_now s : bad s = true -> leads_to_bad s 0
  | lb_step s s' m : trans s s' = true -> leads_to_bad s' m -> leads_to_bad s (S m).

  Lemma reach_leads d s m : reach1 d s -> leads_to_bad s m -> unsafe_at (d + m).
  Proof.
    intros Hr Hl. revert d Hr. induction Hl as [s Hb | s s' m Ht Hl IH]; intros d Hr.
    - rewrite Nat.add_0_r. destruct d; [inversion Hr |]. exists s. now split.
    - replace (d + S m) with (S d + m) by lia. apply IH. now apply (r1_step d s s').
  Qed.

  (** ** the frames of a state *)
  Notation asserted st := (p_asserted lit St EM st).

  Definition Fc (st : pst) (k : nat) (s : St) : Prop :=
    forall l c, In (l, c) (asserted st) -> lvl_ge l k = true -> ch c s = false.
  Definition Finf (st : pst) (s : St) : Prop :=
    forall c, In (FInf, c) (asserted st) -> ch c s = false.

  Lemma blocked_false cs s : blocked cs s = false <-> forall c, In c cs -> ch c s = false.
  Proof.
    unfold blocked. split.
    - intros H c Hc. destruct (ch c s) eqn:E; [| reflexivity].
      assert (existsb (fun c => ch c s) cs = true) by (apply existsb_exists; now exists c). congruence.
    - intros H. destruct (existsb (fun c => ch c s) cs) eqn:E; [| reflexivity].
      apply existsb_exists in E. destruct E as (c & Hc & Hs). rewrite (H c Hc) in Hs. discriminate.
  Qed.

  Lemma clauses_at_Fc st k s : blocked (clauses_at lit St EM st k) s = false <-> Fc st k s.
  Proof.
    rewrite blocked_false. unfold clauses_at, Fc. split.
    - intros H l c Hin Hl. apply H. apply in_map_iff. exists (l, c). split; [reflexivity |].
      apply filter_In. now split.
    - intros H c Hc. apply in_map_iff in Hc. destruct Hc as ([l c'] & <- & Hf).
      apply filter_In in Hf. destruct Hf as [Hin Hl]. now apply (H l c').
  Qed.

  Lemma clauses_inf_Finf st s : blocked (clauses_inf lit St EM st) s = false <-> Finf st s.
  Proof.
    rewrite blocked_false. unfold clauses_inf, Finf. split.
    - intros H c Hin. apply H. apply in_map_iff. exists (FInf, c). split; [reflexivity |].
      apply filter_In. now split.
    - intros H c Hc. apply in_map_iff in Hc. destruct Hc as ([l c'] & <- & Hf).
      apply filter_In in Hf. destruct Hf as [Hin Hl]. destruct l; try discriminate Hl. now apply H.
  Qed.

  Lemma lvl_ge_mono l k k' : k' <= k -> lvl_ge l k = true -> lvl_ge l k' = true.
  Proof.
    destruct l; cbn; intros Hk H; try assumption. apply Nat.leb_le in H. apply Nat.leb_le. lia.
  Qed.

  Lemma Fc_mono st k k' s : k <= k' -> Fc st k s -> Fc st k' s.
  Proof. intros Hk H l c Hin Hl. apply (H l c Hin). now apply (lvl_ge_mono l k' k). Qed.

  Lemma Fc_Finf st k s : Fc st k s -> Finf st s.
  Proof. intros H c Hin. now apply (H FInf c Hin). Qed.

  Lemma ch_app a b s : ch (a ++ b) s = ch a s && ch b s.
  Proof. unfold ch. apply forallb_app. Qed.

  Lemma ch_filter (f : lit -> bool) c s : ch c s = true -> ch (filter f c) s = true.
  Proof.
    unfold ch. rewrite !forallb_forall. intros H l Hl. apply filter_In in Hl. apply H, Hl.
  Qed.

  (** a cube whose literals all occur in [c] holds wherever [c] holds *)
  Definition sub_cube (g c : ccube) : Prop := forall l, In l g -> In l c.
  Lemma sub_cube_ch g c s : sub_cube g c -> ch c s = true -> ch g s = true.
  Proof. unfold ch. rewrite !forallb_forall. intros Hs H l Hl. apply H, Hs, Hl. Qed.

  (** ** the invariants of a state *)
  Definition excl_post (c : ccube) : Prop := forall s0 s', step0 s0 s' = true -> ch c s' = false.

  Definition frontier' (st : pst) : nat := length (p_frames lit St EM st).
  Notation fcubes st k := (frame_cubes lit St EM st k).

  Record pinv (st : pst) : Prop := {
    iv_post : forall l c, In (l, c) (asserted st) -> excl_post c;
    iv_step : forall j c, In (FFinite j, c) (asserted st) -> 2 <= j ->
                          forall s s', Fc st (pred j) s -> trans s s' = true -> ch c s' = false;
    iv_inf : forall c, In (FInf, c) (asserted st) ->
                       forall s s', Finf st s -> trans s s' = true -> ch c s' = false;
    iv_safe : forall i s, 1 <= i < frontier' st -> Fc st i s -> bad s = false;
    iv_safe0 : 1 <= frontier' st -> forall s, bad0 s = false;
    iv_lvl : forall l c, In (l, c) (asserted st) ->
                         match l with FInit => False | FFinite j => 1 <= j <= frontier' st | FInf => True end
  }.

  (** bookkeeping lists vs asserted clauses *)
  Definition higher (st : pst) (j : nat) (c : ccube) : Prop :=
    exists l, In (l, c) (asserted st) /\ lvl_ge l (S j) = true.
  Record book (st : pst) : Prop := {
    bk_in : forall k c, 1 <= k -> In c (fcubes st k) -> In (FFinite k, c) (asserted st);
    bk_cover : forall j c, In (FFinite j, c) (asserted st) -> In c (fcubes st j) \/ higher st j c
  }.

  Lemma step_frame st : pinv st -> forall i s s', 1 <= i -> Fc st i s -> trans s s' = true -> Fc st (S i) s'.
  Proof.
    intros Hinv i s s' Hi Hf Ht l c Hin Hl. destruct l as [| j |]; [discriminate Hl | |].
    - unfold lvl_ge in Hl. apply Nat.leb_le in Hl. apply (iv_step st Hinv j c Hin ltac:(lia) s s'); [| exact Ht].
      apply (Fc_mono st i); [lia | exact Hf].
    - apply (iv_inf st Hinv c Hin s s'); [now apply (Fc_Finf st i) | exact Ht].
  Qed.

  Lemma post_frame st : pinv st -> forall k s0 s', step0 s0 s' = true -> Fc st k s'.
  Proof. intros Hinv k s0 s' Hs l c Hin _. now apply (iv_post st Hinv l c Hin s0 s'). Qed.

  Lemma reach_in_frames st : pinv st -> forall d s, reach1 d s -> Fc st d s.
  Proof.
    intros Hinv d s Hr. induction Hr as [s0 s Hs | d s s' Hr IH Ht].
    - now apply (post_frame st Hinv 1 s0).
    - apply (step_frame st Hinv d s s'); [inversion Hr; lia | exact IH | exact Ht].
  Qed.

  (** no bad state at depths below the frontier *)
  Lemma safe_below st : pinv st -> forall d, d < frontier' st -> ~ unsafe_at d.
  Proof.
    intros Hinv d Hd Hu. destruct d as [| d].
    - destruct Hu as (s & Hb). rewrite (iv_safe0 st Hinv) in Hb; [discriminate | lia].
    - destruct Hu as (s & Hr & Hb).
      rewrite (iv_safe st Hinv (S d) s) in Hb; [discriminate | lia | now apply reach_in_frames].
  Qed.

  (** the fixpoint argument ([ic3_safe_sem] for the frames F_{i+1} and "initial" = successor of an
      initial valuation) *)
  Lemma fixpoint_safe st i :
    pinv st -> 1 <= i < frontier' st -> (forall s, Fc st (S i) s -> Fc st i s) -> safe.
  Proof.
    intros Hinv Hi Hfix d Hu. destruct d as [| d].
    - apply (safe_below st Hinv 0); [lia | exact Hu].
    - destruct Hu as (s & Hr & Hb).
      assert (Hin : Fc st i s).
      { clear Hb. induction Hr as [s0 s Hs | d' s s' Hr IH Ht].
        - now apply (post_frame st Hinv i s0).
        - apply Hfix. apply (step_frame st Hinv i s s'); [lia | exact IH | exact Ht]. }
      rewrite (iv_safe st Hinv i s Hi Hin) in Hb. discriminate.
  Qed.

  (** ** state changes that do not touch frames or clauses *)
  Definition sem_eq (st st' : pst) : Prop :=
    p_frames lit St EM st' = p_frames lit St EM st /\ p_inf lit St EM st' = p_inf lit St EM st /\ asserted st' = asserted st.

  Lemma sem_eq_refl st : sem_eq st st.
  Proof. now repeat split. Qed.
  Lemma sem_eq_trans a b c : sem_eq a b -> sem_eq b c -> sem_eq a c.
  Proof. intros (H1 & H2 & H3) (H4 & H5 & H6). repeat split; congruence. Qed.

  Lemma sem_eq_Fc st st' k s : sem_eq st st' -> (Fc st' k s <-> Fc st k s).
  Proof. intros (_ & _ & H). unfold Fc. now rewrite H. Qed.
  Lemma sem_eq_Finf st st' s : sem_eq st st' -> (Finf st' s <-> Finf st s).
  Proof. intros (_ & _ & H). unfold Finf. now rewrite H. Qed.
  Lemma sem_eq_frontier st st' : sem_eq st st' -> frontier' st' = frontier' st.
  Proof. intros (H & _ & _). unfold frontier'. now rewrite H. Qed.
  Lemma sem_eq_fcubes st st' k : sem_eq st st' -> fcubes st' k = fcubes st k.
  Proof. intros (H & _ & _). unfold frame_cubes. now rewrite H. Qed.

  Lemma sem_eq_pinv st st' : sem_eq st st' -> pinv st -> pinv st'.
  Proof.
    intros He Hinv. pose proof He as (Hf & Hi' & Ha). constructor.
    - intros l c Hin. rewrite Ha in Hin. now apply (iv_post st Hinv l c).
    - intros j c Hin Hj s s' Hfc Ht. rewrite Ha in Hin. apply (iv_step st Hinv j c Hin Hj s s'); [| exact Ht].
      now apply (sem_eq_Fc st st').
    - intros c Hin s s' Hfi Ht. rewrite Ha in Hin. apply (iv_inf st Hinv c Hin s s'); [| exact Ht].
      now apply (sem_eq_Finf st st').
    - intros i s Hi Hfc. rewrite (sem_eq_frontier st st' He) in Hi. apply (iv_safe st Hinv i s Hi).
      now apply (sem_eq_Fc st st').
    - intros Hn. rewrite (sem_eq_frontier st st' He) in Hn. now apply (iv_safe0 st Hinv).
    - intros l c Hin. rewrite Ha in Hin. rewrite (sem_eq_frontier st st' He). now apply (iv_lvl st Hinv l c).
  Qed.

  Lemma sem_eq_book st st' : sem_eq st st' -> book st -> book st'.
  Proof.
    intros He Hb. pose proof He as (Hf & Hi' & Ha). constructor.
    - intros k c Hk Hin. rewrite (sem_eq_fcubes st st' k He) in Hin. rewrite Ha. now apply (bk_in st Hb).
    - intros j c Hin. rewrite Ha in Hin. destruct (bk_cover st Hb j c Hin) as [H | (l & Hl & Hg)].
      + left. now rewrite (sem_eq_fcubes st st' j He).
      + right. exists l. rewrite Ha. now split.
  Qed.

  Definition asked (st : pst) (q : query) : pst := snd (ask lit St EM solve st q).

  Lemma ask_spec st q : ask lit St EM solve st q = (solve (p_q lit St EM st) q, asked st q).
  Proof. reflexivity. Qed.
  Lemma asked_sem st q : sem_eq st (asked st q).
  Proof. now repeat split. Qed.
  Lemma new_acts_sem st n : sem_eq st (new_acts lit St EM st n).
  Proof. now repeat split. Qed.

  Opaque ask.

  Lemma tick_sem st : sem_eq st (tick lit St EM st).
  Proof. now repeat split. Qed.

  Lemma cmds_spec n : forall st st', cmds lit St EM cmd_fail n st = Ok st' -> sem_eq st st'.
  Proof.
    induction n as [| n IH]; intros st st' H; cbn [cmds] in H.
    - inversion H; subst. apply sem_eq_refl.
    - destruct (cmd_fail (p_c lit St EM st)); [discriminate H |].
      apply (sem_eq_trans _ (tick lit St EM st)); [apply tick_sem | now apply IH].
  Qed.

  (** ** fix_gen_cube *)
  Lemma init_query_unsat k gen lm core :
    (forall m, ~ q_model (restrict (init_query lit k gen lm true) core) m) ->
    excl_post (gen ++ filter (fun l => lit_mem lit lit_eqb l core) lm).
  Proof.
    intros H s0 s' Hs. destruct (ch (gen ++ filter (fun l => lit_mem lit lit_eqb l core) lm) s') eqn:E; [| reflexivity].
    exfalso. apply (H s0). unfold q_model, restrict, init_query. cbn.
    split; [exact I |]. split; [exact I |]. now exists s'.
  Qed.

  Lemma sub_cube_app_l (a b : ccube) : sub_cube a (a ++ b).
  Proof. intros l Hl. apply in_or_app. now left. Qed.
  Lemma sub_cube_filter (f : lit -> bool) (a b : ccube) : sub_cube (a ++ filter f b) (a ++ b).
  Proof.
    intros l Hl. apply in_app_or in Hl. apply in_or_app. destruct Hl as [Hl | Hl]; [now left | right].
    apply filter_In in Hl. apply Hl.
  Qed.
  Lemma sub_cube_trans (a b c : ccube) : sub_cube a b -> sub_cube b c -> sub_cube a c.
  Proof. intros H1 H2 l Hl. apply H2, H1, Hl. Qed.

  Lemma fix_loop_spec fuel : forall st gen lm first fx st',
      fix_loop lit lit_eqb St EM solve cmd_fail fuel st gen lm first = Ok (fx, st') ->
      sem_eq st st' /\ excl_post fx /\ sub_cube fx (gen ++ lm) /\ sub_cube gen fx.
  Proof.
    induction fuel as [| fuel IH]; intros st gen lm first fx st' H; [discriminate H |].
    cbn [fix_loop] in H. rewrite ask_spec in H.
    pose proof (solver_ok (p_q lit St EM st) (init_query lit KGenFix gen lm true)) as Htr.
    pose proof (asked_sem st (init_query lit KGenFix gen lm true)) as Hs1.
    set (st1 := asked st (init_query lit KGenFix gen lm true)) in *.
    destruct (solve (p_q lit St EM st) (init_query lit KGenFix gen lm true)) as [m | core | | e]; cbn [truthful] in Htr.
    - destruct first; [| discriminate H].
      destruct (cmds lit St EM cmd_fail (length lm) st1); discriminate H.
    - cbn [init_query q_core] in Htr.
      pose proof (init_query_unsat KGenFix gen lm core Htr) as Hex.
      set (lm' := filter (fun l => lit_mem lit lit_eqb l core) lm) in *.
      destruct (cmds lit St EM cmd_fail (length lm - length lm') st1) as [st2 | e l | n |] eqn:Ec; try discriminate H.
      pose proof (cmds_spec _ _ _ Ec) as Hs2.
      destruct (length lm' =? length lm).
      + destruct (cmds lit St EM cmd_fail (length lm') st2) as [st3 | e l | n |] eqn:Ec3; try discriminate H.
        inversion H; subst. pose proof (cmds_spec _ _ _ Ec3) as Hs3.
        split; [apply (sem_eq_trans _ st1); [exact Hs1 | apply (sem_eq_trans _ st2); assumption] |].
        split; [exact Hex |]. split; [apply sub_cube_filter | apply sub_cube_app_l].
      + destruct (IH _ _ _ _ _ _ H) as (He & Hp & Hs & Hg).
        split; [apply (sem_eq_trans _ st1); [exact Hs1 | apply (sem_eq_trans _ st2); assumption] |].
        split; [exact Hp |]. split; [| exact Hg].
        apply (sub_cube_trans _ _ _ Hs). apply sub_cube_filter.
    - discriminate H.
    - discriminate H.
  Qed.

  Lemma fix_gen_cube_spec st gen rm fx st' :
    fix_gen_cube lit lit_eqb St EM solve cmd_fail st gen rm = Ok (fx, st') ->
    sem_eq st st' /\ excl_post fx /\ sub_cube fx (gen ++ rm) /\ sub_cube gen fx.
  Proof.
    unfold fix_gen_cube. rewrite ask_spec. intros H.
    pose proof (solver_ok (p_q lit St EM st) (init_query lit KGenCheck gen [] false)) as Htr.
    pose proof (asked_sem st (init_query lit KGenCheck gen [] false)) as Hs1.
    set (st1 := asked st (init_query lit KGenCheck gen [] false)) in *.
    destruct (solve (p_q lit St EM st) (init_query lit KGenCheck gen [] false)) as [m | core | | e]; cbn [truthful] in Htr.
    - destruct (cmds lit St EM cmd_fail (2 * length rm) (new_acts lit St EM st1 (length rm))) as [st2 | e l | n |] eqn:Ec; try discriminate H.
      pose proof (cmds_spec _ _ _ Ec) as Hs2.
      destruct (fix_loop_spec _ _ _ _ _ _ _ H) as (He & Hp & Hs & Hg).
      split; [| now repeat split].
      apply (sem_eq_trans _ st1); [exact Hs1 |].
      apply (sem_eq_trans _ (new_acts lit St EM st1 (length rm))); [apply new_acts_sem |].
      apply (sem_eq_trans _ st2); assumption.
    - inversion H; subst. split; [exact Hs1 |]. split.
      + intros s0 s' Hs. destruct (ch fx s') eqn:E; [| reflexivity]. exfalso. apply (Htr s0).
        cbn. split; [exact I |]. split; [exact I |]. exists s'. split; [exact Hs |]. now rewrite app_nil_r.
      + split; [apply sub_cube_app_l | intros l Hl; exact Hl].
    - discriminate H.
    - discriminate H.
  Qed.

  (** ** rel_ind *)
  (** the frame that a relative-induction query at frame [f] assumes, as a predicate *)
  Definition prev_ok (st : pst) (prev : frame_id) (s s' : St) : Prop :=
    match prev with
    | FInit => step0 s s' = true
    | FFinite k => Fc st k s /\ trans s s' = true
    | FInf => Finf st s /\ trans s s' = true
    end.

  (** what [rel_ind] returns *)
  Definition rel_post (st : pst) (c : ccube) (prev : frame_id) (neg : bool) (r : rel_result lit) : Prop :=
    match r with
    | RSat _ p => exists m s', p = cube_of_state m /\ prev_ok st prev m s' /\ ch c s' = true /\
                               (neg = true -> ch c m = false)
    | RUnsat _ og =>
        let g := match og with Some g => g | None => c end in
        sub_cube g c /\ (og <> None -> excl_post g) /\
        forall s s', prev_ok st prev s s' -> (neg = true -> ch c s = false) -> ch g s' = false
    | RUnknown _ => True
    end.

  Lemma from_of_ok st prev from s :
    from_of lit St EM st prev = Some from -> prev <> FInit ->
    (from_ok from s <-> match prev with FInit => True | FFinite k => Fc st k s | FInf => Finf st s end).
  Proof.
    destruct prev as [| k |]; cbn [from_of]; intros H Hne; [contradiction | |].
    - destruct (k <=? frontier lit St EM st); [| discriminate H]. inversion H; subst. cbn [from_ok]. apply clauses_at_Fc.
    - inversion H; subst. cbn [from_ok]. apply clauses_inf_Finf.
  Qed.

  (** the meaning of the relative-induction query in terms of the frames *)
  Definition relq (prev : frame_id) (from : from_spec lit) (c : ccube) (ext : bool) (g : ccube) : query :=
    {| q_kind := KRelInd; q_frame := prev; q_from := from; q_bad := false;
       q_neg := if ext && negb (is_init prev) then Some c else None;
       q_fixed := []; q_sel := g; q_core := gen_on |}.

  Lemma relq_model st prev from c ext g m :
    from_of lit St EM st prev = Some from ->
    (q_model (relq prev from c ext g) m <->
     (exists s', prev_ok st prev m s' /\ ch g s' = true) /\
     (ext && negb (is_init prev) = true -> ch c m = false)).
  Proof.
    intros Ef. unfold q_model, relq. cbn [q_from q_neg q_bad q_fixed q_sel app].
    destruct prev as [| k |].
    - cbn [from_of] in Ef. inversion Ef; subst from. cbn [from_ok is_init negb andb prev_ok].
      rewrite andb_false_r. cbn [neg_ok]. split.
      + intros (_ & _ & s' & Hs & Hc). split; [now exists s' | discriminate].
      + intros ((s' & Hs & Hc) & _). repeat split; try exact I. now exists s'.
    - pose proof (from_of_ok st (FFinite k) from m Ef ltac:(discriminate)) as Hfo.
      cbn [is_init negb prev_ok]. rewrite andb_true_r.
      assert (Hfrom : exists cs, from = FromClauses lit cs).
      { cbn [from_of] in Ef. destruct (k <=? frontier lit St EM st); [| discriminate Ef]. inversion Ef. now eexists. }
      destruct Hfrom as (cs & ->). split.
      + intros (Hf & Hn & s' & Ht & Hc). split; [exists s'; repeat split; [now apply Hfo | exact Ht | exact Hc] |].
        intros He. rewrite He in Hn. exact Hn.
      + intros ((s' & (Hf & Ht) & Hc) & Hn). split; [now apply Hfo |]. split.
        * destruct ext; cbn [neg_ok]; [now apply Hn | exact I].
        * now exists s'.
    - pose proof (from_of_ok st FInf from m Ef ltac:(discriminate)) as Hfo.
      cbn [is_init negb prev_ok]. rewrite andb_true_r.
      assert (Hfrom : exists cs, from = FromClauses lit cs) by (cbn [from_of] in Ef; inversion Ef; now eexists).
      destruct Hfrom as (cs & ->). split.
      + intros (Hf & Hn & s' & Ht & Hc). split; [exists s'; repeat split; [now apply Hfo | exact Ht | exact Hc] |].
        intros He. rewrite He in Hn. exact Hn.
      + intros ((s' & (Hf & Ht) & Hc) & Hn). split; [now apply Hfo |]. split.
        * destruct ext; cbn [neg_ok]; [now apply Hn | exact I].
        * now exists s'.
  Qed.

  Lemma rel_ind_spec st c f ext r st' :
    rel_ind lit lit_eqb St cube_of_state EM solve cmd_fail gen_on st c f ext = Ok (r, st') ->
    exists prev, decrement f = Some prev /\ sem_eq st st' /\
                 rel_post st c prev (ext && negb (is_init prev)) r.
  Proof.
    unfold rel_ind. destruct (decrement f) as [prev |] eqn:Ed; [| discriminate].
    destruct (from_of lit St EM st prev) as [from |] eqn:Ef; [| discriminate].
    destruct (cmds lit St EM cmd_fail (2 * length c) (new_acts lit St EM st (length c))) as [st0 | e0 l0 | n0 |] eqn:Ec0; try discriminate.
    pose proof (cmds_spec _ _ _ Ec0) as Hs0.
    rewrite ask_spec. fold (relq prev from c ext c).
    pose proof (solver_ok (p_q lit St EM st0) (relq prev from c ext c)) as Htr.
    assert (Hsem1 : sem_eq st (asked st0 (relq prev from c ext c))).
    { apply (sem_eq_trans _ (new_acts lit St EM st (length c))); [apply new_acts_sem |].
      apply (sem_eq_trans _ st0); [exact Hs0 | apply asked_sem]. }
    set (st1 := asked st0 (relq prev from c ext c)) in *.
    cbv zeta.
    destruct (solve (p_q lit St EM st0) (relq prev from c ext c)) as [m | core | | e] eqn:Ea; cbn [truthful] in Htr.
    - destruct (cmds lit St EM cmd_fail (length c) st1) as [st3 | e3 l3 | n3 |] eqn:Ec3; try discriminate.
      intros H. inversion H; subst. exists prev. split; [reflexivity |].
      split; [apply (sem_eq_trans _ st1); [exact Hsem1 | now apply (cmds_spec _ _ _ Ec3)] |].
      cbn [rel_post]. apply (relq_model st prev from c ext c m Ef) in Htr. destruct Htr as ((s' & Hp & Hc) & Hn).
      exists m, s'. repeat split; assumption.
    - destruct gen_on eqn:Eg.
      + set (g := filter (fun l => lit_mem lit lit_eqb l core) c) in *.
        set (rm := filter (fun l => negb (lit_mem lit lit_eqb l core)) c) in *.
        destruct (fix_gen_cube lit lit_eqb St EM solve cmd_fail st1 g rm) as [[fx st2] | e2 l2 | n2 |] eqn:Efix; try discriminate.
        destruct (cmds lit St EM cmd_fail (length c) st2) as [st3 | e3 l3 | n3 |] eqn:Ec3; try discriminate.
        intros H. inversion H; subst. exists prev. split; [reflexivity |].
        destruct (fix_gen_cube_spec _ _ _ _ _ Efix) as (He & Hpost & Hsub & Hg).
        split; [apply (sem_eq_trans _ st1); [exact Hsem1 | apply (sem_eq_trans _ st2); [exact He | now apply (cmds_spec _ _ _ Ec3)]] |].
        cbn [rel_post]. split; [| split; [intros _; exact Hpost |]].
        * apply (sub_cube_trans _ _ _ Hsub). intros l Hl. apply in_app_or in Hl.
          destruct Hl as [Hl | Hl]; apply filter_In in Hl; apply Hl.
        * intros s s' Hp Hn. destruct (ch fx s') eqn:E; [| reflexivity]. exfalso.
          unfold relq in Htr at 1. cbn [q_core] in Htr. rewrite Eg in Htr. apply (Htr s).
          change (restrict (relq prev from c ext c) core) with (relq prev from c ext g).
          apply (relq_model st prev from c ext g s Ef). split; [| exact Hn]. exists s'. split; [exact Hp |].
          now apply (sub_cube_ch g fx s' Hg).
      + destruct (cmds lit St EM cmd_fail (length c) st1) as [st3 | e3 l3 | n3 |] eqn:Ec3; try discriminate.
        intros H. inversion H; subst. exists prev. split; [reflexivity |].
        split; [apply (sem_eq_trans _ st1); [exact Hsem1 | now apply (cmds_spec _ _ _ Ec3)] |].
        cbn [rel_post]. split; [intros l Hl; exact Hl |]. split; [intros Hc; now contradiction Hc |].
        intros s s' Hp Hn. destruct (ch c s') eqn:E; [| reflexivity]. exfalso.
        unfold relq in Htr at 1. cbn [q_core] in Htr. rewrite Eg in Htr. apply (Htr s).
        apply (relq_model st prev from c ext c s Ef). split; [| exact Hn]. now exists s'.
    - destruct (cmds lit St EM cmd_fail (length c) st1) as [st3 | e3 l3 | n3 |] eqn:Ec3; try discriminate.
      intros H. inversion H; subst. exists prev. split; [reflexivity |].
      split; [apply (sem_eq_trans _ st1); [exact Hsem1 | now apply (cmds_spec _ _ _ Ec3)] | exact I].
    - discriminate.
  Qed.

  (** ** add_blocked_cube / add_frame keep the invariants under the abstract side conditions *)
  Lemma push_at_spec c k : forall fs fs',
      push_at lit k c fs = Some fs' ->
      1 <= k <= length fs /\ length fs' = length fs /\
      forall j, nth j fs' [] = if j =? pred k then nth j fs [] ++ [c] else nth j fs [].
  Proof.
    induction k as [| k IH]; intros fs fs' H; [destruct fs; discriminate H |].
    destruct fs as [| f r]; [destruct k; discriminate H |]. destruct k as [| k'].
    - cbn in H. inversion H; subst. cbn [length pred]. split; [lia |]. split; [reflexivity |].
      intros j. destruct j; reflexivity.
    - change (push_at lit (S (S k')) c (f :: r)) with
        (match push_at lit (S k') c r with Some r' => Some (f :: r') | None => None end) in H.
      destruct (push_at lit (S k') c r) as [r' |] eqn:E; [| discriminate H]. inversion H; subst.
      destruct (IH r r' E) as (Hk & Hlen & Hn). cbn [length]. split; [lia |]. split; [now rewrite Hlen |].
      intros j. destruct j as [| j]; [reflexivity |]. cbn [nth pred]. rewrite Hn. reflexivity.
  Qed.

  Definition rel_cond (st : pst) (k : nat) (g : ccube) : Prop :=
    2 <= k -> forall s s', Fc st (pred k) s -> ch g s = false -> trans s s' = true -> ch g s' = false.

  Lemma record_finite_spec st g k st' :
    record_cube lit St EM st g (FFinite k) = Some st' ->
    asserted st' = (FFinite k, g) :: asserted st /\ frontier' st' = frontier' st /\ 1 <= k <= frontier' st /\
    p_inf lit St EM st' = p_inf lit St EM st /\
    forall j, fcubes st' j = if pred j =? pred k then fcubes st j ++ [g] else fcubes st j.
  Proof.
    cbn [record_cube]. destruct (push_at lit k g (p_frames lit St EM st)) as [fs |] eqn:E; [| discriminate].
    intros H. inversion H; subst. destruct (push_at_spec g k _ _ E) as (Hk & Hlen & Hn).
    unfold frontier', frame_cubes. cbn [p_asserted p_frames p_inf]. repeat split; try assumption; try lia.
    intros j. apply Hn.
  Qed.

  Lemma add_blocked_inv st g f st' :
    add_blocked_cube lit St EM cmd_fail st g f = Ok st' ->
    exists st1, sem_eq st st1 /\ record_cube lit St EM st1 g f = Some st'.
  Proof.
    unfold add_blocked_cube. destruct (record_cube lit St EM st g f); [| discriminate].
    destruct (cmds lit St EM cmd_fail 1 st) as [st1 | e l | n |] eqn:Ec; try discriminate.
    destruct (record_cube lit St EM st1 g f) as [st2 |] eqn:Er; [| discriminate].
    intros H. inversion H; subst. exists st1. split; [now apply (cmds_spec _ _ _ Ec) | exact Er].
  Qed.

  Lemma add_finite_spec st g k st' :
    add_blocked_cube lit St EM cmd_fail st g (FFinite k) = Ok st' ->
    asserted st' = (FFinite k, g) :: asserted st /\ frontier' st' = frontier' st /\ 1 <= k <= frontier' st /\
    p_inf lit St EM st' = p_inf lit St EM st /\
    forall j, fcubes st' j = if pred j =? pred k then fcubes st j ++ [g] else fcubes st j.
  Proof.
    intros H. destruct (add_blocked_inv _ _ _ _ H) as (st1 & Hsem & Hr).
    destruct (record_finite_spec _ _ _ _ Hr) as (Ha & HN & Hk & Hi & Hf).
    pose proof Hsem as (Hsf & Hsi & Hsa).
    rewrite Hsa in Ha. rewrite (sem_eq_frontier st st1 Hsem) in HN, Hk. rewrite Hsi in Hi.
    repeat split; try assumption; try lia.
    intros j. rewrite Hf. now rewrite (sem_eq_fcubes st st1 j Hsem).
  Qed.

  Lemma Fc_cons st st' l g k s :
    asserted st' = (l, g) :: asserted st ->
    (Fc st' k s <-> Fc st k s /\ (lvl_ge l k = true -> ch g s = false)).
  Proof.
    intros Ha. unfold Fc. rewrite Ha. split.
    - intros H. split; [intros l0 c Hin; apply H; now right | intros Hl; apply (H l g); [now left | exact Hl]].
    - intros [H1 H2] l0 c [Heq | Hin] Hl; [inversion Heq; subst; now apply H2 | now apply (H1 l0 c)].
  Qed.

  Lemma add_finite_preserves st g k st' :
    pinv st -> add_blocked_cube lit St EM cmd_fail st g (FFinite k) = Ok st' ->
    excl_post g -> rel_cond st k g -> pinv st'.
  Proof.
    intros Hinv Hadd Hex Hrel. destruct (add_finite_spec _ _ _ _ Hadd) as (Ha & HN & Hk & _ & _).
    constructor.
    - intros l c Hin. rewrite Ha in Hin. destruct Hin as [Heq | Hin]; [inversion Heq; subst; exact Hex |].
      now apply (iv_post st Hinv l c).
    - intros j c Hin Hj s s' Hf Ht. apply (Fc_cons st st' (FFinite k) g (pred j) s Ha) in Hf. destruct Hf as [Hf Hg].
      rewrite Ha in Hin. destruct Hin as [Heq | Hin].
      + inversion Heq; subst. apply (Hrel Hj s s' Hf); [| exact Ht]. apply Hg. cbn. apply Nat.leb_le. lia.
      + now apply (iv_step st Hinv j c Hin Hj s s').
    - intros c Hin s s' Hf Ht. rewrite Ha in Hin. destruct Hin as [Heq | Hin]; [discriminate Heq |].
      apply (iv_inf st Hinv c Hin s s'); [| exact Ht]. intros c' Hc'. apply Hf. rewrite Ha. now right.
    - intros i s Hi Hf. rewrite HN in Hi. apply (iv_safe st Hinv i s Hi).
      now apply (Fc_cons st st' (FFinite k) g i s Ha).
    - intros Hn. rewrite HN in Hn. now apply (iv_safe0 st Hinv).
    - intros l c Hin. rewrite Ha in Hin. rewrite HN. destruct Hin as [Heq | Hin]; [inversion Heq; subst; exact Hk |].
      now apply (iv_lvl st Hinv l c).
  Qed.

  Lemma add_inf_spec st g st' :
    add_blocked_cube lit St EM cmd_fail st g FInf = Ok st' ->
    asserted st' = (FInf, g) :: asserted st /\ p_frames lit St EM st' = p_frames lit St EM st.
  Proof.
    intros H. destruct (add_blocked_inv _ _ _ _ H) as (st1 & (Hsf & Hsi & Hsa) & Hr).
    cbn [record_cube] in Hr. inversion Hr; subst. cbn [p_asserted p_frames]. now rewrite Hsa, Hsf.
  Qed.

  Lemma add_inf_preserves st g st' :
    pinv st -> add_blocked_cube lit St EM cmd_fail st g FInf = Ok st' -> excl_post g ->
    (forall s s', Finf st s -> ch g s = false -> trans s s' = true -> ch g s' = false) -> pinv st'.
  Proof.
    intros Hinv Hadd Hex Hrel. destruct (add_inf_spec _ _ _ Hadd) as (Ha & Hfr).
    assert (HN : frontier' st' = frontier' st) by (unfold frontier'; now rewrite Hfr).
    assert (Hfinf : forall s, Finf st' s <-> Finf st s /\ ch g s = false).
    { intros s. unfold Finf. rewrite Ha. split.
      - intros H. split; [intros c Hc; apply H; now right | apply H; now left].
      - intros [H1 H2] c [Heq | Hc]; [inversion Heq; subst; exact H2 | now apply H1]. }
    constructor.
    - intros l c Hin. rewrite Ha in Hin. destruct Hin as [Heq | Hin]; [inversion Heq; subst; exact Hex |].
      now apply (iv_post st Hinv l c).
    - intros j c Hin Hj s s' Hf Ht. apply (Fc_cons st st' FInf g (pred j) s Ha) in Hf. destruct Hf as [Hf _].
      rewrite Ha in Hin. destruct Hin as [Heq | Hin]; [discriminate Heq |].
      now apply (iv_step st Hinv j c Hin Hj s s').
    - intros c Hin s s' Hf Ht. apply Hfinf in Hf. destruct Hf as [Hf Hg]. rewrite Ha in Hin.
      destruct Hin as [Heq | Hin]; [inversion Heq; subst; now apply (Hrel s s') |].
      now apply (iv_inf st Hinv c Hin s s').
    - intros i s Hi Hf. rewrite HN in Hi. apply (iv_safe st Hinv i s Hi).
      now apply (Fc_cons st st' FInf g i s Ha).
    - intros Hn. rewrite HN in Hn. now apply (iv_safe0 st Hinv).
    - intros l c Hin. rewrite Ha in Hin. rewrite HN. destruct Hin as [Heq | Hin]; [inversion Heq; subst; exact I |].
      now apply (iv_lvl st Hinv l c).
  Qed.

  Lemma add_frame_spec st sta :
    add_frame lit St EM cmd_fail st = Ok sta ->
    asserted sta = asserted st /\ p_frames lit St EM sta = p_frames lit St EM st ++ [[]] /\
    p_inf lit St EM sta = p_inf lit St EM st.
  Proof.
    unfold add_frame. destruct (cmds lit St EM cmd_fail 1 st) as [st1 | e l | n |] eqn:Ec; try discriminate.
    intros H. inversion H; subst. cbn [p_asserted p_frames p_inf].
    destruct (cmds_spec _ _ _ Ec) as (Hf & Hi & Ha). now rewrite Hf, Hi, Ha.
  Qed.

  Lemma add_frame_preserves st sta :
    pinv st -> add_frame lit St EM cmd_fail st = Ok sta ->
    (frontier' st = 0 -> forall s, bad0 s = false) ->
    (1 <= frontier' st -> forall s, Fc st (frontier' st) s -> bad s = false) ->
    pinv sta.
  Proof.
    intros Hinv Hadd H0 H1. destruct (add_frame_spec _ _ Hadd) as (Ha & Hfr & _).
    assert (HN : frontier' sta = S (frontier' st)).
    { unfold frontier'. rewrite Hfr, app_length. cbn. lia. }
    assert (Hsame : forall k s, Fc sta k s <-> Fc st k s) by (intros; unfold Fc; now rewrite Ha).
    assert (Hsinf : forall s, Finf sta s <-> Finf st s) by (intros; unfold Finf; now rewrite Ha).
    constructor.
    - intros l c Hin. rewrite Ha in Hin. now apply (iv_post st Hinv l c).
    - intros j c Hin Hj s s' Hf Ht. rewrite Ha in Hin. apply (iv_step st Hinv j c Hin Hj s s'); [now apply Hsame | exact Ht].
    - intros c Hin s s' Hf Ht. rewrite Ha in Hin. apply (iv_inf st Hinv c Hin s s'); [now apply Hsinf | exact Ht].
    - intros i s Hi Hf. rewrite HN in Hi. apply Hsame in Hf. destruct (Nat.eq_dec i (frontier' st)) as [-> | Hne].
      + apply H1; [lia | exact Hf].
      + apply (iv_safe st Hinv i s); [lia | exact Hf].
    - intros _. destruct (frontier' st) eqn:E; [now apply H0 | apply (iv_safe0 st Hinv); lia].
    - intros l c Hin. rewrite Ha in Hin. rewrite HN. pose proof (iv_lvl st Hinv l c Hin) as Hl. destruct l; [exact Hl | lia | exact I].
  Qed.

  (** ** bookkeeping *)
  Lemma higher_mono st st' j c :
    (forall l c', In (l, c') (asserted st) -> In (l, c') (asserted st')) -> higher st j c -> higher st' j c.
  Proof. intros Hsub (l & Hin & Hl). exists l. split; [now apply Hsub | exact Hl]. Qed.

  (** [pending]: cubes taken out of frame [id] that are still waiting for their query *)
  Record bookx (st : pst) (id : nat) (pending : list ccube) : Prop := {
    bx_in : forall k c, 1 <= k -> In c (fcubes st k) -> In (FFinite k, c) (asserted st);
    bx_cover : forall j c, In (FFinite j, c) (asserted st) ->
                           In c (fcubes st j) \/ higher st j c \/ (j = id /\ In c pending)
  }.

  Lemma book_bookx st id : book st <-> bookx st id [].
  Proof.
    split; intros H; constructor.
    - apply (bk_in st H).
    - intros j c Hin. destruct (bk_cover st H j c Hin) as [Hc | Hc]; [now left | right; now left].
    - apply (bx_in st id [] H).
    - intros j c Hin. destruct (bx_cover st id [] H j c Hin) as [Hc | [Hc | (_ & [])]]; [now left | now right].
  Qed.

  Lemma add_finite_bookx st g k st' id pending :
    bookx st id pending -> add_blocked_cube lit St EM cmd_fail st g (FFinite k) = Ok st' -> bookx st' id pending.
  Proof.
    intros Hb Hadd. destruct (add_finite_spec _ _ _ _ Hadd) as (Ha & HN & Hk & _ & Hfc).
    assert (Hsub : forall l c', In (l, c') (asserted st) -> In (l, c') (asserted st')) by (intros; rewrite Ha; now right).
    assert (Hfsub : forall j c, In c (fcubes st j) -> In c (fcubes st' j)).
    { intros j c Hc. rewrite Hfc. destruct (pred j =? pred k); [apply in_or_app; now left | exact Hc]. }
    constructor.
    - intros j c Hj Hc. rewrite Hfc in Hc. destruct (pred j =? pred k) eqn:E.
      + apply Nat.eqb_eq in E. assert (j = k) by lia. subst j. apply in_app_or in Hc.
        destruct Hc as [Hc | [<- | []]]; [apply Hsub; now apply (bx_in st id pending Hb) | rewrite Ha; now left].
      + apply Hsub. now apply (bx_in st id pending Hb).
    - intros j c Hin. rewrite Ha in Hin. destruct Hin as [Heq | Hin].
      + inversion Heq; subst. left. rewrite Hfc, Nat.eqb_refl. apply in_or_app. right. now left.
      + destruct (bx_cover st id pending Hb j c Hin) as [Hc | [Hc | Hc]];
          [left; now apply Hfsub | right; left; now apply (higher_mono st st') | right; now right].
  Qed.

  Lemma add_inf_bookx st g st' id pending :
    bookx st id pending -> add_blocked_cube lit St EM cmd_fail st g FInf = Ok st' -> bookx st' id pending.
  Proof.
    intros Hb Hadd. destruct (add_inf_spec _ _ _ Hadd) as (Ha & Hfr).
    assert (Hsub : forall l c', In (l, c') (asserted st) -> In (l, c') (asserted st')) by (intros; rewrite Ha; now right).
    assert (Hfc : forall j, fcubes st' j = fcubes st j) by (intros; unfold frame_cubes; now rewrite Hfr).
    constructor.
    - intros j c Hj Hc. rewrite Hfc in Hc. apply Hsub. now apply (bx_in st id pending Hb).
    - intros j c Hin. rewrite Ha in Hin. destruct Hin as [Heq | Hin]; [discriminate Heq |].
      destruct (bx_cover st id pending Hb j c Hin) as [Hc | [Hc | Hc]];
        [left; now rewrite Hfc | right; left; now apply (higher_mono st st') | right; now right].
  Qed.

  Lemma sem_eq_bookx st st' id pending : sem_eq st st' -> bookx st id pending -> bookx st' id pending.
  Proof.
    intros He Hb. pose proof He as (Hf & Hi' & Ha). constructor.
    - intros k c Hk Hin. rewrite (sem_eq_fcubes st st' k He) in Hin. rewrite Ha. now apply (bx_in st id pending Hb).
    - intros j c Hin. rewrite Ha in Hin. destruct (bx_cover st id pending Hb j c Hin) as [H | [(l & Hl & Hg) | H]].
      + left. now rewrite (sem_eq_fcubes st st' j He).
      + right. left. exists l. rewrite Ha. now split.
      + right. now right.
  Qed.

  Lemma add_frame_book st sta : pinv st -> book st -> add_frame lit St EM cmd_fail st = Ok sta -> book sta.
  Proof.
    intros Hinv Hb Hadd. destruct (add_frame_spec _ _ Hadd) as (Ha & Hfr & _).
    assert (Hfc : forall j, 1 <= j <= frontier' st -> fcubes sta j = fcubes st j).
    { intros j Hj. unfold frame_cubes. rewrite Hfr. apply app_nth1. unfold frontier' in Hj. lia. }
    constructor.
    - intros k c Hk Hc. rewrite Ha.
      destruct (le_lt_dec k (frontier' st)) as [Hle | Hgt].
      + rewrite Hfc in Hc by lia. now apply (bk_in st Hb).
      + unfold frame_cubes in Hc. rewrite Hfr in Hc. exfalso.
        destruct (Nat.eq_dec (pred k) (frontier' st)) as [E | E].
        * rewrite app_nth2 in Hc by (unfold frontier' in *; lia). unfold frontier' in E. rewrite E, Nat.sub_diag in Hc. exact Hc.
        * rewrite nth_overflow in Hc; [exact Hc |]. rewrite app_length. cbn. unfold frontier' in *. lia.
    - intros j c Hin. rewrite Ha in Hin.
      destruct (bk_cover st Hb j c Hin) as [Hc | (l & Hl & Hg)].
      + left. pose proof (iv_lvl st Hinv (FFinite j) c Hin) as Hl. cbn in Hl. now rewrite Hfc.
      + right. exists l. rewrite Ha. now split.
  Qed.

  (** ** get_bad_cube *)
  Lemma frontier_eq st : frontier lit St EM st = frontier' st.
  Proof. reflexivity. Qed.

  Lemma get_bad_cube_spec st ob st' :
    get_bad_cube lit St cube_of_state EM solve st = Ok (ob, st') ->
    sem_eq st st' /\
    match ob with
    | None => (frontier' st = 0 -> forall s, bad0 s = false) /\
              (1 <= frontier' st -> forall s, Fc st (frontier' st) s -> bad s = false)
    | Some b => exists m, b = cube_of_state m /\
                          (frontier' st = 0 -> bad0 m = true) /\
                          (1 <= frontier' st -> Fc st (frontier' st) m /\ bad m = true)
    end.
  Proof.
    unfold get_bad_cube, frontier_id, fail. rewrite frontier_eq.
    destruct (frontier' st) as [| n] eqn:EN.
    - cbn [from_of]. rewrite ask_spec.
      match goal with |- context [solve ?n ?q] => pose proof (solver_ok n q) as Htr; destruct (solve n q) as [m | core | | e] end;
        cbn [truthful] in Htr; intros H; inversion H; subst; (split; [apply asked_sem |]).
      + exists m. split; [reflexivity |]. split; [intros _; apply Htr | intros Hc; lia].
      + split; [| intros Hc; lia]. intros _ s. destruct (bad0 s) eqn:E; [| reflexivity]. exfalso.
        apply (Htr s). cbn. repeat split; try exact I. exact E.
    - cbn [from_of]. rewrite frontier_eq, EN, Nat.leb_refl. rewrite ask_spec.
      match goal with |- context [solve ?n ?q] => pose proof (solver_ok n q) as Htr; destruct (solve n q) as [m | core | | e] end;
        cbn [truthful] in Htr; intros H; inversion H; subst; (split; [apply asked_sem |]).
      + exists m. split; [reflexivity |]. split; [discriminate |]. intros _.
        destruct Htr as (Hf & _ & Hb). cbn in Hf, Hb. split; [now apply clauses_at_Fc | exact Hb].
      + split; [discriminate |]. intros _ s Hf. destruct (bad s) eqn:E; [| reflexivity]. exfalso.
        apply (Htr s). cbn. split; [now apply clauses_at_Fc |]. split; [exact I | exact E].
  Qed.

  (** ** the pushing loop *)
  Lemma decrement_spec f p : decrement f = Some p ->
    (f = FFinite 1 /\ p = FInit) \/ (exists k, f = FFinite (S (S k)) /\ p = FFinite (S k)).
  Proof.
    destruct f as [| [| [| k]] |]; cbn; intros H; try discriminate H; inversion H; subst.
    - now left.
    - right. now exists k.
  Qed.

  (** [rel_cond] from the answer of an [Extended] query at frame k >= 2 *)
  Lemma rel_post_rel_cond st c k og :
    rel_post st c (FFinite (S k)) true (RUnsat lit og) ->
    rel_cond st (S (S k)) (match og with Some g => g | None => c end).
  Proof.
    cbn [rel_post]. intros (Hsub & _ & Hun) _ s s' Hf Hg Ht. cbn [pred] in Hf.
    apply (Hun s s'); [split; assumption |]. intros _.
    destruct (ch c s) eqn:E; [| reflexivity]. rewrite (sub_cube_ch _ c s Hsub E) in Hg. discriminate.
  Qed.

  Lemma fid_le_frontier st t : 1 <= t ->
    (fid_le (FFinite t) (frontier_id lit St EM st) = true <-> t <= frontier' st).
  Proof.
    intros Ht. unfold frontier_id. rewrite frontier_eq. destruct (frontier' st) as [| n]; cbn [fid_le].
    - split; [discriminate | lia].
    - apply Nat.leb_le.
  Qed.

  Lemma push_loop_spec fuel : forall st cand t tf' st',
      push_loop lit lit_eqb St cube_of_state EM solve cmd_fail gen_on fuel st cand (FFinite t) = Ok (tf', st') ->
      2 <= t -> t <= S (frontier' st) ->
      sem_eq st st' /\ exists t', tf' = FFinite t' /\ t <= t' /\ (t' <= S (frontier' st)) /\
                                   (t < t' -> rel_cond st (pred t') cand).
  Proof.
    induction fuel as [| fuel IH]; intros st cand t tf' st' H Ht HtS; [discriminate H |].
    cbn [push_loop] in H.
    destruct (fid_le (FFinite t) (frontier_id lit St EM st)) eqn:Ele.
    - assert (HtN : t <= frontier' st) by (apply (fid_le_frontier st t); [lia | exact Ele]).
      destruct (rel_ind lit lit_eqb St cube_of_state EM solve cmd_fail gen_on st cand (FFinite t) true) as [[r st1] | e | n |] eqn:Er; try discriminate H.
      destruct (rel_ind_spec _ _ _ _ _ _ Er) as (prev & Hd & Hsem & Hpost).
      destruct (decrement_spec _ _ Hd) as [(Hf & Hp) | (k & Hf & Hp)]; [inversion Hf; lia |].
      inversion Hf; subst t prev. cbn [is_init negb andb] in Hpost.
      destruct r as [p | og |].
      + inversion H; subst. split; [exact Hsem |]. exists (S (S k)). repeat split; try lia.
      + cbn [increment] in H.
        destruct (IH _ _ _ _ _ H ltac:(lia) ltac:(rewrite (sem_eq_frontier st st1 Hsem); lia)) as (Hsem2 & t' & -> & Hle & HleN & Hrc).
        split; [now apply (sem_eq_trans _ st1) |]. exists t'. split; [reflexivity |]. split; [lia |].
        split; [now rewrite <- (sem_eq_frontier st st1 Hsem) |].
        intros Hlt. destruct (Nat.eq_dec t' (S (S (S k)))) as [-> | Hne].
        * (* the last successful query is this one; its generalisation is ignored, the cube itself is pushed *)
          cbn [pred]. cbn [rel_post] in Hpost. destruct Hpost as (Hsub & _ & Hun).
          intros _ s s' Hfc Hg Htr. cbn [pred] in Hfc.
          set (g := match og with Some g => g | None => cand end) in *.
          destruct (ch cand s') eqn:E; [| reflexivity].
          assert (Hgs : ch g s' = false) by (apply (Hun s s'); [split; assumption | intros _; exact Hg]).
          pose proof (sub_cube_ch g cand s' Hsub E). congruence.
        * intros H2 s s' Hfc Hg Htr. apply (Hrc ltac:(lia) H2 s s'); [| exact Hg | exact Htr].
          now apply (sem_eq_Fc st st1).
      + inversion H; subst. split; [exact Hsem |]. exists (S (S k)). repeat split; try lia.
    - assert (Hgt : frontier' st < t).
      { destruct (le_lt_dec t (frontier' st)) as [Hle | Hgt]; [| exact Hgt].
        apply (fid_le_frontier st t ltac:(lia)) in Hle. congruence. }
      inversion H; subst. split; [apply sem_eq_refl |]. exists t. repeat split; lia.
  Qed.

  (** ** block_cube: the proof-obligation loop *)
  Definition obl_ok (N : nat) (o : tcube lit) : Prop :=
    exists s, fst o = cube_of_state s /\
      match snd o with
      | FInit => (N = 0 /\ bad0 s = true) \/
                 (1 <= N /\ exists s', step0 s s' = true /\ leads_to_bad s' (pred N))
      | FFinite j => 1 <= j <= N /\ leads_to_bad s (N - j)
      | FInf => False
      end.

  Lemma pop_min_spec q : forall m r, pop_min lit q = Some (m, r) -> In m q /\ forall o, In o r -> In o q.
  Proof.
    induction q as [| o q IH]; intros m r H; [discriminate H |]. cbn [pop_min] in H.
    destruct (pop_min lit q) as [[m' r'] |] eqn:E.
    - destruct (IH m' r' eq_refl) as [Hm Hr]. destruct (fid_key (snd o) <=? fid_key (snd m')).
      + inversion H; subst. split; [now left | intros o' Ho'; now right].
      + inversion H; subst. split; [now right |]. intros o' [<- | Ho']; [now left | right; now apply Hr].
    - inversion H; subst. split; [now left | intros o' []].
  Qed.

  (** an obligation that reaches the initial frame is a real counterexample of depth = frontier *)
  Lemma obl_init_unsafe N c : obl_ok N (c, FInit) -> unsafe_at N.
  Proof.
    intros (s & _ & [(-> & Hb) | (HN & s' & Hs & Hl)]); cbn [snd] in *.
    - now exists s.
    - replace N with (1 + pred N) by lia. apply (reach_leads 1 s'); [now apply (r1_first s) | exact Hl].
  Qed.

  (** under the invariants an obligation at a frame >= 2 is not a successor of an initial state
      (cf. [obligation_never_initial] of the abstract logic) *)
  Lemma obl_not_post st c j :
    pinv st -> obl_ok (frontier' st) (c, FFinite j) -> 2 <= j -> excl_post c.
  Proof.
    intros Hinv (s & Hc & Hj & Hl) Hj2 s0 s' Hs. cbn [fst snd] in *.
    destruct (ch c s') eqn:E; [| reflexivity]. exfalso. subst c.
    apply cube_state_unique in E. subst s'.
    apply (safe_below st Hinv (1 + (frontier' st - j))); [lia |].
    apply (reach_leads 1 s); [now apply (r1_first s0) | exact Hl].
  Qed.

  Lemma sem_eq_rel_cond st st' k g : sem_eq st st' -> rel_cond st k g -> rel_cond st' k g.
  Proof. intros He H Hk s s' Hf. apply (H Hk s s'). now apply (sem_eq_Fc st st'). Qed.

  Lemma block_loop_spec fuel : forall st work b st',
      pinv st -> book st -> Forall (obl_ok (frontier' st)) work ->
      block_loop lit lit_eqb St cube_of_state EM solve cmd_fail gen_on fuel st work = Ok (b, st') ->
      pinv st' /\ book st' /\ frontier' st' = frontier' st /\ (b = false -> unsafe_at (frontier' st)).
  Proof.
    induction fuel as [| fuel IH]; intros st work b st' Hinv Hbook Hwork H; [discriminate H |].
    cbn [block_loop] in H.
    destruct (pop_min lit work) as [[[c f] rest] |] eqn:Epop.
    2:{ inversion H; subst. split; [assumption | split; [assumption | split; [reflexivity | intros Hc; discriminate Hc]]]. }
    destruct (pop_min_spec work _ _ Epop) as [Hm Hrest].
    rewrite Forall_forall in Hwork.
    assert (Hrest_ok : Forall (obl_ok (frontier' st)) rest) by (apply Forall_forall; intros o Ho; apply Hwork; now apply Hrest).
    pose proof (Hwork _ Hm) as Hobl.
    destruct (is_init f) eqn:Ei.
    { destruct f; try discriminate Ei. inversion H; subst.
      split; [assumption | split; [assumption | split; [reflexivity |]]].
      intros _. now apply (obl_init_unsafe _ c). }
    destruct (rel_ind lit lit_eqb St cube_of_state EM solve cmd_fail gen_on st c f true) as [[r st1] | e | n |] eqn:Er; try discriminate H.
    destruct (rel_ind_spec _ _ _ _ _ _ Er) as (prev & Hd & Hsem & Hpost).
    assert (HN1 : frontier' st1 = frontier' st) by (apply (sem_eq_frontier st st1 Hsem)).
    destruct r as [p | og |]; [| | discriminate H].
    - (* a predecessor: new obligation *)
      rewrite Hd in H. apply (IH _ _ _ _ (sem_eq_pinv _ _ Hsem Hinv) (sem_eq_book _ _ Hsem Hbook)) in H.
      + rewrite HN1 in H. exact H.
      + rewrite HN1. constructor; [| constructor; [exact Hobl | exact Hrest_ok]].
        cbn [rel_post] in Hpost. destruct Hpost as (m & s' & -> & Hprev & Hcs & _).
        destruct Hobl as (s & Hc & Hobl). cbn [fst snd] in Hc, Hobl. subst c.
        apply cube_state_unique in Hcs. subst s'.
        exists m. split; [reflexivity |]. cbn [snd].
        destruct (decrement_spec _ _ Hd) as [(-> & ->) | (k & -> & ->)]; cbn [prev_ok] in Hprev.
        * destruct Hobl as (Hj & Hl). right. split; [lia |]. exists s. split; [exact Hprev |].
          replace (pred (frontier' st)) with (frontier' st - 1) by lia. exact Hl.
        * destruct Hobl as (Hj & Hl). destruct Hprev as [_ Ht]. split; [lia |].
          replace (frontier' st - S k) with (S (frontier' st - S (S k))) by lia. now apply (lb_step m s).
    - (* blocked: generalise, push, add *)
      set (cand := match og with Some g => g | None => c end) in *.
      assert (Hbase : exists j, f = FFinite j /\ 1 <= j <= frontier' st /\ excl_post cand /\ rel_cond st j cand).
      { destruct (decrement_spec _ _ Hd) as [(-> & ->) | (k & -> & ->)].
        - exists 1. cbn [is_init negb andb] in Hpost. cbn [rel_post] in Hpost. destruct Hpost as (_ & _ & Hun).
          destruct Hobl as (s & _ & Hj & _). cbn [snd] in Hj.
          repeat split; try lia.
          + intros s0 s' Hs. apply (Hun s0 s'); [exact Hs | discriminate].
          + intros Hc. lia.
        - exists (S (S k)). cbn [is_init negb andb] in Hpost.
          pose proof Hobl as (s & _ & Hj & _). cbn [snd] in Hj.
          repeat split; try lia.
          + cbn [rel_post] in Hpost. destruct Hpost as (_ & Hex & _). unfold cand. destruct og as [g |].
            * apply Hex. discriminate.
            * apply (obl_not_post st c (S (S k)) Hinv Hobl). lia.
          + now apply rel_post_rel_cond. }
      destruct Hbase as (j & -> & Hj & Hex & Hrc).
      cbn [increment] in H.
      destruct (push_loop lit lit_eqb St cube_of_state EM solve cmd_fail gen_on (S (S (frontier lit St EM st1))) st1 cand (FFinite (S j)))
        as [[tf' st2] | e | n |] eqn:Epush; try discriminate H.
      destruct (push_loop_spec _ _ _ _ _ _ Epush ltac:(lia) ltac:(rewrite HN1; lia)) as (Hsem2 & t' & -> & Hle & HleN & Hrc2).
      destruct t' as [| [| t'']]; try lia. cbn [decrement] in H.
      destruct (add_blocked_cube lit St EM cmd_fail st2 cand (FFinite (S t''))) as [st3 | ea la | na |] eqn:Eadd; try discriminate H.
      assert (Hsem02 : sem_eq st st2) by (now apply (sem_eq_trans _ st1)).
      assert (Hinv3 : pinv st3).
      { apply (add_finite_preserves st2 cand (S t'') st3); [now apply (sem_eq_pinv st) | exact Eadd | exact Hex |].
        destruct (Nat.eq_dec t'' (pred j)) as [-> | Hne].
        - replace (S (pred j)) with j by lia. now apply (sem_eq_rel_cond st).
        - apply (sem_eq_rel_cond st1); [exact Hsem2 |]. apply (Hrc2 ltac:(lia)). }
      assert (Hbook3 : book st3).
      { apply (book_bookx st3 0). apply (add_finite_bookx st2 cand (S t'') st3 0 []); [| exact Eadd].
        apply (book_bookx st2 0). now apply (sem_eq_book st). }
      destruct (add_finite_spec _ _ _ _ Eadd) as (_ & HN3 & _).
      assert (HN : frontier' st3 = frontier' st) by (rewrite HN3; apply (sem_eq_frontier st st2 Hsem02)).
      apply (IH _ _ _ _ Hinv3 Hbook3) in H; [rewrite HN in H; exact H | now rewrite HN].
  Qed.

  (** ** propagate_blocked_cubes *)
  Lemma pinv_same st st' :
    asserted st' = asserted st -> frontier' st' = frontier' st -> pinv st -> pinv st'.
  Proof.
    intros Ha HN Hinv.
    assert (HF : forall k s, Fc st' k s <-> Fc st k s) by (intros; unfold Fc; now rewrite Ha).
    assert (HI : forall s, Finf st' s <-> Finf st s) by (intros; unfold Finf; now rewrite Ha).
    constructor.
    - intros l c Hin. rewrite Ha in Hin. now apply (iv_post st Hinv l c).
    - intros j c Hin Hj s s' Hf Ht. rewrite Ha in Hin. apply (iv_step st Hinv j c Hin Hj s s'); [now apply HF | exact Ht].
    - intros c Hin s s' Hf Ht. rewrite Ha in Hin. apply (iv_inf st Hinv c Hin s s'); [now apply HI | exact Ht].
    - intros i s Hi Hf. rewrite HN in Hi. apply (iv_safe st Hinv i s Hi). now apply HF.
    - intros Hn. rewrite HN in Hn. now apply (iv_safe0 st Hinv).
    - intros l c Hin. rewrite Ha in Hin. rewrite HN. now apply (iv_lvl st Hinv l c).
  Qed.

  Lemma set_nth_spec {A} (x : A) k : forall l, 1 <= k <= length l ->
    length (set_nth k x l) = length l /\ forall j d, nth j (set_nth k x l) d = if j =? pred k then x else nth j l d.
  Proof.
    induction k as [| k IH]; intros l Hk; [lia |].
    destruct l as [| a r]; [cbn in Hk; lia |]. destruct k as [| k'].
    - cbn. split; [reflexivity |]. intros j d. destruct j; reflexivity.
    - change (set_nth (S (S k')) x (a :: r)) with (a :: set_nth (S k') x r).
      cbn [length] in Hk. destruct (IH r ltac:(lia)) as (Hlen & Hn). cbn [length]. split; [now rewrite Hlen |].
      intros j d. destruct j as [| j]; [reflexivity |]. cbn [nth pred]. now rewrite Hn.
  Qed.

  Lemma set_frame_spec st k cs : 1 <= k <= frontier' st ->
    asserted (set_frame lit St EM st k cs) = asserted st /\ frontier' (set_frame lit St EM st k cs) = frontier' st /\
    forall j, fcubes (set_frame lit St EM st k cs) j = if pred j =? pred k then cs else fcubes st j.
  Proof.
    intros Hk. unfold set_frame, frontier', frame_cubes. cbn [p_asserted p_frames].
    destruct (set_nth_spec cs k (p_frames lit St EM st) Hk) as (Hlen & Hn).
    split; [reflexivity |]. split; [exact Hlen |]. intros j. apply Hn.
  Qed.

  Lemma pred_eqb j k : 1 <= j -> 1 <= k -> (pred j =? pred k) = (j =? k).
  Proof.
    intros Hj Hk. destruct (Nat.eqb_spec (pred j) (pred k)) as [E | E], (Nat.eqb_spec j k) as [E' | E']; try reflexivity; lia.
  Qed.

  Lemma bookx_take st id : pinv st -> book st -> 1 <= id <= frontier' st ->
    bookx (set_frame lit St EM st id []) id (fcubes st id).
  Proof.
    intros Hinv Hb Hid. destruct (set_frame_spec st id [] Hid) as (Ha & _ & Hfc). constructor.
    - intros k c Hk Hc. rewrite Ha. rewrite Hfc in Hc. destruct (pred k =? pred id); [destruct Hc |]. now apply (bk_in st Hb).
    - intros j c Hin. rewrite Ha in Hin. pose proof (iv_lvl st Hinv _ _ Hin) as Hj. cbn in Hj.
      pose proof (bk_cover st Hb j c Hin) as [Hc | (l & Hl & Hg)].
      + rewrite Hfc, (pred_eqb j id) by lia. destruct (Nat.eqb_spec j id) as [-> | Hne]; [right; right; now split | now left].
      + right. left. exists l. rewrite Ha. now split.
  Qed.

  Lemma bookx_keep st id c r : pinv st -> bookx st id (c :: r) -> 1 <= id <= frontier' st ->
    In (FFinite id, c) (asserted st) -> bookx (keep_cube lit St EM st id c) id r.
  Proof.
    intros Hinv Hb Hid Hc. unfold keep_cube.
    destruct (set_frame_spec st id (fcubes st id ++ [c]) Hid) as (Ha & _ & Hfc). constructor.
    - intros k c' Hk Hc'. rewrite Ha. rewrite Hfc, (pred_eqb k id) in Hc' by lia.
      destruct (Nat.eqb_spec k id) as [-> | Hne]; [| now apply (bx_in st id _ Hb)].
      apply in_app_or in Hc'. destruct Hc' as [Hc' | [<- | []]]; [now apply (bx_in st id _ Hb) | exact Hc].
    - intros j c' Hin. rewrite Ha in Hin. pose proof (iv_lvl st Hinv _ _ Hin) as Hj. cbn in Hj.
      rewrite Hfc, (pred_eqb j id) by lia.
      destruct (bx_cover st id _ Hb j c' Hin) as [H | [(l & Hl & Hg) | (-> & [<- | H])]].
      + left. destruct (Nat.eqb_spec j id) as [-> | Hne]; [apply in_or_app; now left | exact H].
      + right. left. exists l. rewrite Ha. now split.
      + left. rewrite Nat.eqb_refl. apply in_or_app. right. now left.
      + right. right. now split.
  Qed.

  Lemma bookx_drop st id c r : bookx st id (c :: r) -> higher st id c -> bookx st id r.
  Proof.
    intros Hb Hh. constructor; [apply (bx_in st id _ Hb) |].
    intros j c' Hin. destruct (bx_cover st id _ Hb j c' Hin) as [H | [H | (-> & [<- | H])]];
      [now left | right; now left | right; now left | right; right; now split].
  Qed.

  Lemma prop_cubes_spec id : forall cs st st',
      pinv st -> bookx st id cs -> (forall c, In c cs -> In (FFinite id, c) (asserted st)) ->
      1 <= id -> S id <= frontier' st ->
      prop_cubes lit lit_eqb St cube_of_state EM solve cmd_fail gen_on st id cs = Ok st' ->
      pinv st' /\ bookx st' id [] /\ frontier' st' = frontier' st.
  Proof.
    induction cs as [| c r IH]; intros st st' Hinv Hb Has Hid HidN H.
    - inversion H; subst. split; [assumption | split; [assumption | reflexivity]].
    - cbn [prop_cubes] in H.
      destruct (rel_ind lit lit_eqb St cube_of_state EM solve cmd_fail gen_on st c (FFinite (S id)) false) as [[rr st1] | e | n |] eqn:Er; try discriminate H.
      destruct (rel_ind_spec _ _ _ _ _ _ Er) as (prev & Hd & Hsem & Hpost).
      assert (Hprev : prev = FFinite id).
      { destruct id as [| id']; [lia |]. cbn in Hd. now inversion Hd. }
      subst prev. cbn [andb] in Hpost.
      assert (HN1 : frontier' st1 = frontier' st) by apply (sem_eq_frontier st st1 Hsem).
      assert (Hinv1 : pinv st1) by now apply (sem_eq_pinv st).
      assert (Hb1 : bookx st1 id (c :: r)) by now apply (sem_eq_bookx st).
      assert (Has1 : forall c', In c' (c :: r) -> In (FFinite id, c') (asserted st1)).
      { intros c' Hc'. destruct Hsem as (_ & _ & Ha). rewrite Ha. now apply Has. }
      assert (Hkeep : forall st2, prop_cubes lit lit_eqb St cube_of_state EM solve cmd_fail gen_on (keep_cube lit St EM st1 id c) id r = Ok st2 ->
                                  pinv st2 /\ bookx st2 id [] /\ frontier' st2 = frontier' st).
      { intros st2 H2. destruct (set_frame_spec st1 id (fcubes st1 id ++ [c]) ltac:(lia)) as (Ha & HNk & _).
        fold (keep_cube lit St EM st1 id c) in Ha, HNk.
        apply IH in H2.
        - rewrite HNk, HN1 in H2. exact H2.
        - now apply (pinv_same st1).
        - apply bookx_keep; [exact Hinv1 | exact Hb1 | lia | apply Has1; now left].
        - intros c' Hc'. rewrite Ha. apply Has1. now right.
        - exact Hid.
        - rewrite HNk. lia. }
      destruct rr as [p | og |]; [now apply Hkeep | | now apply Hkeep].
      destruct (add_blocked_cube lit St EM cmd_fail st1 c (FFinite (S id))) as [st2 | ea la | na |] eqn:Eadd; try discriminate H.
      destruct (add_finite_spec _ _ _ _ Eadd) as (Ha2 & HN2 & _).
      assert (Hinv2 : pinv st2).
      { apply (add_finite_preserves st1 c (S id) st2 Hinv1 Eadd).
        - apply (iv_post st1 Hinv1 (FFinite id) c). apply Has1. now left.
        - apply (sem_eq_rel_cond st st1 _ _ Hsem). intros _ s s' Hf _ Ht. cbn [pred] in Hf.
          cbn [rel_post] in Hpost. destruct Hpost as (Hsub & _ & Hun).
          destruct (ch c s') eqn:E; [| reflexivity].
          assert (Hg : ch (match og with Some g => g | None => c end) s' = false).
          { apply (Hun s s'); [split; assumption | discriminate]. }
          rewrite (sub_cube_ch _ c s' Hsub E) in Hg. discriminate. }
      apply IH in H.
      + rewrite HN2, HN1 in H. exact H.
      + exact Hinv2.
      + apply (bookx_drop st2 id c r).
        * now apply (add_finite_bookx st1 c (S id) st2).
        * exists (FFinite (S id)). split; [rewrite Ha2; now left | cbn; apply Nat.leb_refl].
      + intros c' Hc'. rewrite Ha2. right. apply Has1. now right.
      + exact Hid.
      + rewrite HN2, HN1. exact HidN.
  Qed.

  Lemma fixpoint_from_book st id :
    pinv st -> book st -> 1 <= id < frontier' st -> fcubes st id = [] -> safe.
  Proof.
    intros Hinv Hb Hid Hempty. apply (fixpoint_safe st id Hinv Hid).
    intros s Hf l c Hin Hl. destruct (lvl_ge l (S id)) eqn:E; [now apply (Hf l c) |].
    destruct l as [| j |]; [discriminate Hl | | discriminate E].
    unfold lvl_ge in Hl, E. apply Nat.leb_le in Hl. apply Nat.leb_gt in E. assert (j = id) by lia. subst j.
    destruct (bk_cover st Hb id c Hin) as [Hc | (l' & Hl' & Hg)]; [rewrite Hempty in Hc; destruct Hc |].
    now apply (Hf l' c).
  Qed.

  Lemma prop_frames_spec n : forall st id b st',
      pinv st -> book st -> 1 <= id -> id + n = frontier' st ->
      prop_frames lit lit_eqb St cube_of_state EM solve cmd_fail gen_on n st id = Ok (b, st') ->
      (b = true -> safe) /\ (b = false -> pinv st' /\ book st' /\ frontier' st' = frontier' st).
  Proof.
    induction n as [| n IH]; intros st id b st' Hinv Hb Hid HidN H.
    - inversion H; subst. split; [discriminate | intros _; split; [assumption | split; [assumption | reflexivity]]].
    - cbn [prop_frames] in H.
      destruct (prop_cubes lit lit_eqb St cube_of_state EM solve cmd_fail gen_on (set_frame lit St EM st id []) id (fcubes st id)) as [st1 | e | m |] eqn:Ep; try discriminate H.
      destruct (set_frame_spec st id [] ltac:(lia)) as (Ha0 & HN0 & _).
      apply prop_cubes_spec in Ep.
      + destruct Ep as (Hinv1 & Hb1 & HN1). rewrite HN0 in HN1. apply book_bookx in Hb1.
        destruct (fcubes st1 id) as [| c0 r0] eqn:Efc.
        * destruct (cleanup lit St EM cmd_fail (frontier lit St EM st1 - id) st1 (S id)); try discriminate H. inversion H; subst.
          split; [| discriminate]. intros _. apply (fixpoint_from_book st1 id Hinv1 Hb1); [lia | exact Efc].
        * apply IH in H; try assumption; try lia.
          destruct H as [Ht Hf]. split; [exact Ht |]. intros Hb'. destruct (Hf Hb') as (H1 & H2 & H3).
          split; [exact H1 |]. split; [exact H2 | lia].
      + now apply (pinv_same st).
      + apply bookx_take; [exact Hinv | exact Hb | lia].
      + intros c Hc. rewrite Ha0. apply (bk_in st Hb); [lia | exact Hc].
      + exact Hid.
      + rewrite HN0. lia.
  Qed.

  Lemma prop_last_spec N : forall cs st st',
      pinv st -> bookx st N cs -> (forall c, In c cs -> In (FFinite N, c) (asserted st)) ->
      1 <= N -> N = frontier' st ->
      prop_last lit St EM solve cmd_fail st N cs = Ok st' ->
      pinv st' /\ bookx st' N [] /\ frontier' st' = frontier' st.
  Proof.
    induction cs as [| c r IH]; intros st st' Hinv Hb Has HN1 HN H.
    - inversion H; subst. split; [assumption | split; [assumption | reflexivity]].
    - cbn [prop_last] in H. rewrite ask_spec in H.
      set (q := {| q_kind := KInf; q_frame := FInf; q_from := FromClauses lit (clauses_inf lit St EM st); q_bad := false;
                   q_neg := Some c; q_fixed := c; q_sel := []; q_core := false |}) in *.
      pose proof (solver_ok (p_q lit St EM st) q) as Htr.
      pose proof (asked_sem st q) as Hsem. set (st1 := asked st q) in *.
      assert (HNa : frontier' st1 = frontier' st) by apply (sem_eq_frontier st st1 Hsem).
      assert (Hinv1 : pinv st1) by now apply (sem_eq_pinv st).
      assert (Hb1 : bookx st1 N (c :: r)) by now apply (sem_eq_bookx st).
      assert (Has1 : forall c', In c' (c :: r) -> In (FFinite N, c') (asserted st1)).
      { intros c' Hc'. destruct Hsem as (_ & _ & Ha). rewrite Ha. now apply Has. }
      assert (Hkeep : forall st2, prop_last lit St EM solve cmd_fail (keep_cube lit St EM st1 N c) N r = Ok st2 ->
                                  pinv st2 /\ bookx st2 N [] /\ frontier' st2 = frontier' st).
      { intros st2 H2. destruct (set_frame_spec st1 N (fcubes st1 N ++ [c]) ltac:(lia)) as (Ha & HNk & _).
        fold (keep_cube lit St EM st1 N c) in Ha, HNk.
        apply IH in H2.
        - rewrite HNk, HNa in H2. exact H2.
        - now apply (pinv_same st1).
        - apply bookx_keep; [exact Hinv1 | exact Hb1 | lia | apply Has1; now left].
        - intros c' Hc'. rewrite Ha. apply Has1. now right.
        - exact HN1.
        - rewrite HNk. lia. }
      destruct (solve (p_q lit St EM st) q) as [m | core | | e] eqn:Ea; cbn [truthful] in Htr; [now apply Hkeep | | now apply Hkeep | discriminate H].
      destruct (add_blocked_cube lit St EM cmd_fail st1 c FInf) as [st2 | ea la | na |] eqn:Eadd; try discriminate H.
      destruct (add_inf_spec _ _ _ Eadd) as (Ha2 & Hfr2).
      assert (HN2 : frontier' st2 = frontier' st1) by (unfold frontier'; now rewrite Hfr2).
      assert (Hinv2 : pinv st2).
      { apply (add_inf_preserves st1 c st2 Hinv1 Eadd).
        - apply (iv_post st1 Hinv1 (FFinite N) c). apply Has1. now left.
        - intros s s' Hf Hc Ht. destruct (ch c s') eqn:E; [| reflexivity]. exfalso.
          cbn [q_core q] in Htr. apply (Htr s). unfold q_model. cbn [q_from q_neg q_bad q_fixed q_sel q from_ok neg_ok].
          split; [apply clauses_inf_Finf; now apply (sem_eq_Finf st st1) |]. split; [exact Hc |].
          exists s'. split; [exact Ht | now rewrite app_nil_r]. }
      apply IH in H.
      + rewrite HN2, HNa in H. exact H.
      + exact Hinv2.
      + apply (bookx_drop st2 N c r).
        * now apply (add_inf_bookx st1 c st2).
        * exists FInf. split; [rewrite Ha2; now left | reflexivity].
      + intros c' Hc'. rewrite Ha2. right. apply Has1. now right.
      + exact HN1.
      + rewrite HN2. lia.
  Qed.

  Lemma propagate_spec st b st' :
    pinv st -> book st -> 1 <= frontier' st ->
    propagate_blocked_cubes lit lit_eqb St cube_of_state EM solve cmd_fail gen_on st = Ok (b, st') ->
    (b = true -> safe) /\ (b = false -> pinv st' /\ book st' /\ frontier' st' = frontier' st).
  Proof.
    intros Hinv Hb HN. unfold propagate_blocked_cubes. rewrite frontier_eq.
    destruct (prop_frames lit lit_eqb St cube_of_state EM solve cmd_fail gen_on (pred (frontier' st)) st 1) as [[b1 st1] | e | n |] eqn:Ep; try discriminate.
    apply prop_frames_spec in Ep; [| exact Hinv | exact Hb | lia | lia].
    destruct Ep as [Ht Hf]. destruct b1.
    - intros H. inversion H; subst. split; [intros _; now apply Ht | discriminate].
    - destruct (Hf eq_refl) as (Hinv1 & Hb1 & HN1).
      rewrite <- HN1. rewrite <- HN1 in HN.
      destruct (prop_last lit St EM solve cmd_fail (set_frame lit St EM st1 (frontier' st1) []) (frontier' st1) (fcubes st1 (frontier' st1))) as [st2 | e | n |] eqn:El; try discriminate.
      intros H. inversion H; subst. split; [discriminate |]. intros _.
      destruct (set_frame_spec st1 (frontier' st1) [] ltac:(lia)) as (Ha0 & HN0 & _).
      apply prop_last_spec in El.
      + destruct El as (H1 & H2 & H3). split; [exact H1 |]. split; [now apply (book_bookx st' (frontier' st1)) | lia].
      + now apply (pinv_same st1).
      + apply bookx_take; [exact Hinv1 | exact Hb1 | lia].
      + intros c Hc. rewrite Ha0. apply (bk_in st1 Hb1); [lia | exact Hc].
      + exact HN.
      + now rewrite HN0.
  Qed.

  (** ** the main loop *)
  Lemma init_state_pinv : pinv (init_state lit St EM).
  Proof.
    constructor; cbn; try (intros; contradiction); try (intros; lia).
  Qed.

  Lemma init_state_book : book (init_state lit St EM).
  Proof.
    constructor.
    - intros k c _ Hc. unfold frame_cubes in Hc. cbn in Hc. destruct (pred k); destruct Hc.
    - intros j c [].
  Qed.

  (** what a verdict of the model means *)
  Definition verdict_ok (v : verdict W) (st' : pst) : Prop :=
    match v with
    | VSuccess _ => safe
    | VFail _ w => bmc_result = BmcFail W EM w /\ exists d, d <= MAX_FRAMES /\ unsafe_at d
    | VUnknown _ => MAX_FRAMES < frontier' st' \/
                    (bmc_result = BmcOther W EM /\ exists d, d <= MAX_FRAMES /\ unsafe_at d)
    end.

  Lemma pdr_loop_spec fuel bf : forall st v st',
      pinv st -> book st ->
      pdr_loop lit lit_eqb St cube_of_state W EM solve cmd_fail gen_on bmc_result fuel bf st = Ok (v, st') ->
      verdict_ok v st'.
  Proof.
    induction fuel as [| fuel IH]; intros st v st' Hinv Hb H; [discriminate H |].
    cbn [pdr_loop] in H. rewrite frontier_eq in H.
    destruct (frontier' st <=? MAX_FRAMES) eqn:Emax.
    2:{ inversion H; subst. left. now apply Nat.leb_gt. }
    apply Nat.leb_le in Emax.
    destruct (get_bad_cube lit St cube_of_state EM solve st) as [[ob st1] | e | n |] eqn:Eg; try discriminate H.
    destruct (get_bad_cube_spec _ _ _ Eg) as (Hsem & Hob).
    assert (HN1 : frontier' st1 = frontier' st) by apply (sem_eq_frontier st st1 Hsem).
    assert (Hinv1 : pinv st1) by now apply (sem_eq_pinv st).
    assert (Hb1 : book st1) by now apply (sem_eq_book st).
    destruct ob as [b |].
    - destruct Hob as (m & -> & H0 & H1).
      unfold block_cube in H.
      match type of H with (match ?X with _ => _ end) = _ => destruct X as [[ok st2] | e | n |] eqn:Eb end; try discriminate H.
      apply block_loop_spec in Eb; [| exact Hinv1 | exact Hb1 |].
      + destruct Eb as (Hinv2 & Hb2 & HN2 & Hcex). destruct ok.
        * exact (IH st2 v st' Hinv2 Hb2 H).
        * assert (Hu : exists d, d <= MAX_FRAMES /\ unsafe_at d).
          { exists (frontier' st1). split; [lia | now apply Hcex]. }
          destruct bmc_result as [w | | eb] eqn:Ebmc; inversion H; subst; cbn [verdict_ok].
          -- now split.
          -- right. now split.
      + constructor; [| constructor]. exists m. split; [reflexivity |]. cbn [snd].
        unfold frontier_id. rewrite frontier_eq, HN1. destruct (frontier' st) as [| n] eqn:EN.
        * left. split; [reflexivity | now apply H0].
        * split; [lia |]. rewrite Nat.sub_diag. constructor. apply H1. lia.
    - destruct Hob as (H0 & H1).
      destruct (add_frame lit St EM cmd_fail st1) as [sta | ea la | na |] eqn:Eaf; try discriminate H.
      assert (Hinva : pinv sta).
      { apply (add_frame_preserves st1 sta Hinv1 Eaf).
        - rewrite HN1. exact H0.
        - rewrite HN1. intros HN s Hf. apply (H1 HN s). now apply (sem_eq_Fc st st1). }
      assert (Hba : book sta) by now apply (add_frame_book st1).
      assert (HNa : 1 <= frontier' sta).
      { destruct (add_frame_spec _ _ Eaf) as (_ & Hfr & _). unfold frontier'. rewrite Hfr, app_length. cbn. lia. }
      match type of H with (match ?X with _ => _ end) = _ => destruct X as [[fx st2] | e | n |] eqn:Ep end; try discriminate H.
      apply propagate_spec in Ep; [| exact Hinva | exact Hba | exact HNa].
      destruct Ep as [Ht Hf]. destruct fx.
      + inversion H; subst. cbn [verdict_ok]. now apply Ht.
      + destruct (Hf eq_refl) as (Hinv2 & Hb2 & _). exact (IH st2 v st' Hinv2 Hb2 H).
  Qed.

  (** a system without bad-state expressions *)
  Definition no_bads : Prop := forall s, bad0 s = false /\ bad s = false.

  Theorem pdr_model_sound fuel bf v st' :
    (has_bads = false -> no_bads) ->
    pdr lit lit_eqb St cube_of_state W EM solve cmd_fail n_init gen_on has_bads bmc_result fuel bf = Ok (v, st') ->
    verdict_ok v st'.
  Proof.
    intros Hnb. unfold pdr. destruct has_bads.
    - destruct (cmds lit St EM cmd_fail n_init (init_state lit St EM)) as [st0 | e0 l0 | n0 |] eqn:Ec; try discriminate.
      pose proof (cmds_spec _ _ _ Ec) as Hs0.
      apply pdr_loop_spec; [apply (sem_eq_pinv _ _ Hs0), init_state_pinv | apply (sem_eq_book _ _ Hs0), init_state_book].
    - intros H. inversion H; subst. cbn [verdict_ok]. intros d Hu.
      destruct d as [| d]; cbn [unsafe_at] in Hu.
      + destruct Hu as (s & Hs). destruct (Hnb eq_refl s) as [E _]. congruence.
      + destruct Hu as (s & _ & Hs). destruct (Hnb eq_refl s) as [_ E]. congruence.
  Qed.

  (** ** definiteness: under a truthful solver that never answers "unknown" the model neither
      returns an error nor panics (every [Rust] panic / [Err] path of pdr.rs is unreachable) *)
  Definition total_solver : Prop :=
    (forall n q, solve n q <> AUnknown lit St EM) /\
    (forall n q e, solve n q <> AErr lit St EM e) /\
    (forall n, cmd_fail n = None).

  Definition good {A} (r : res lit St EM A) : Prop :=
    match r with Ok _ => True | Fuel => True | Err _ _ => False | Panic _ => False end.

  Lemma cmds_ok n : forall st, total_solver -> exists st', cmds lit St EM cmd_fail n st = Ok st'.
  Proof.
    induction n as [| n IH]; intros st Htot; [now eexists |]. cbn [cmds].
    destruct Htot as (H1 & H2 & H3). rewrite H3. apply IH. now repeat split.
  Qed.

  Lemma filter_len {A} (f : A -> bool) l : length (filter f l) <= length l.
  Proof. induction l as [| a l IH]; cbn; [lia |]. destruct (f a); cbn; lia. Qed.

  Lemma ch_partition (f : lit -> bool) c s :
    ch (filter f c ++ filter (fun l => negb (f l)) c) s = ch c s.
  Proof.
    rewrite ch_app. unfold ch. induction c as [| a c IH]; [reflexivity |]. cbn [filter forallb].
    destruct (f a); cbn [negb filter forallb]; rewrite <- IH;
      destruct (lit_holds a s), (forallb (fun l => lit_holds l s) (filter f c)),
        (forallb (fun l => lit_holds l s) (filter (fun l => negb (f l)) c)); reflexivity.
  Qed.

  Lemma init_sat_post k gen lm core m :
    q_model (init_query lit k gen lm core) m -> ~ excl_post (gen ++ lm).
  Proof.
    intros Hm Hex. unfold q_model, init_query in Hm. cbn [q_from q_bad q_fixed q_sel q_neg] in Hm.
    destruct Hm as (_ & _ & s' & Hs & Hc). rewrite (Hex m s' Hs) in Hc. discriminate.
  Qed.

  Lemma fix_loop_ok fuel : forall st gen lm first,
      total_solver -> excl_post (gen ++ lm) -> length lm < fuel ->
      exists r, fix_loop lit lit_eqb St EM solve cmd_fail fuel st gen lm first = Ok r.
  Proof.
    induction fuel as [| fuel IH]; intros st gen lm first Htot Hex Hlen; [lia |].
    cbn [fix_loop]. rewrite ask_spec.
    pose proof (solver_ok (p_q lit St EM st) (init_query lit KGenFix gen lm true)) as Htr.
    pose proof (proj1 Htot (p_q lit St EM st) (init_query lit KGenFix gen lm true)) as Hnu.
    pose proof (proj1 (proj2 Htot) (p_q lit St EM st) (init_query lit KGenFix gen lm true)) as Hne.
    set (st1 := asked st (init_query lit KGenFix gen lm true)).
    destruct (solve (p_q lit St EM st) (init_query lit KGenFix gen lm true)) as [m | core | | e]; cbn [truthful] in Htr.
    - exfalso. now apply (init_sat_post _ _ _ _ _ Htr).
    - set (lm' := filter (fun l => lit_mem lit lit_eqb l core) lm).
      destruct (cmds_ok (length lm - length lm') st1 Htot) as (st2 & ->).
      destruct (Nat.eqb_spec (length lm') (length lm)) as [E | E].
      + destruct (cmds_ok (length lm') st2 Htot) as (st3 & ->). now eexists.
      + apply IH; [exact Htot | | pose proof (filter_len (fun l => lit_mem lit lit_eqb l core) lm); fold lm' in H; lia].
        apply (init_query_unsat KGenFix gen lm core). exact Htr.
    - now contradiction Hnu.
    - now contradiction (Hne e).
  Qed.

  Lemma fix_gen_cube_ok st gen rm :
    total_solver -> excl_post gen \/ excl_post (gen ++ rm) ->
    exists r, fix_gen_cube lit lit_eqb St EM solve cmd_fail st gen rm = Ok r.
  Proof.
    intros Htot Hex. unfold fix_gen_cube. rewrite ask_spec.
    pose proof (solver_ok (p_q lit St EM st) (init_query lit KGenCheck gen [] false)) as Htr.
    pose proof (proj1 Htot (p_q lit St EM st) (init_query lit KGenCheck gen [] false)) as Hnu.
    pose proof (proj1 (proj2 Htot) (p_q lit St EM st) (init_query lit KGenCheck gen [] false)) as Hne.
    destruct (solve (p_q lit St EM st) (init_query lit KGenCheck gen [] false)) as [m | core | | e]; cbn [truthful] in Htr.
    - destruct Hex as [Hex | Hex].
      + exfalso. apply (init_sat_post _ _ _ _ _ Htr). now rewrite app_nil_r.
      + destruct (cmds_ok (2 * length rm) (new_acts lit St EM (asked st (init_query lit KGenCheck gen [] false)) (length rm)) Htot) as (st2 & ->).
        apply fix_loop_ok; [exact Htot | exact Hex | lia].
    - now eexists.
    - now contradiction Hnu.
    - now contradiction (Hne e).
  Qed.

  Lemma push_at_ok c k : forall fs, 1 <= k <= length fs -> exists fs', push_at lit k c fs = Some fs'.
  Proof.
    induction k as [| k IH]; intros fs Hk; [lia |].
    destruct fs as [| f r]; [cbn in Hk; lia |]. destruct k as [| k'].
    - now eexists.
    - change (push_at lit (S (S k')) c (f :: r)) with
        (match push_at lit (S k') c r with Some r' => Some (f :: r') | None => None end).
      cbn [length] in Hk. destruct (IH r ltac:(lia)) as (r' & ->). now eexists.
  Qed.

  Lemma add_finite_ok st c k : total_solver -> 1 <= k <= frontier' st ->
    exists st', add_blocked_cube lit St EM cmd_fail st c (FFinite k) = Ok st'.
  Proof.
    intros Htot Hk. unfold add_blocked_cube. cbn [record_cube].
    destruct (push_at_ok c k (p_frames lit St EM st) Hk) as (fs & ->).
    destruct (cmds_ok 1 st Htot) as (st1 & Ec). rewrite Ec.
    destruct (cmds_spec _ _ _ Ec) as (Hf & _ & _). rewrite Hf.
    destruct (push_at_ok c k (p_frames lit St EM st) Hk) as (fs' & ->). now eexists.
  Qed.

  Lemma add_inf_ok st c : total_solver -> exists st', add_blocked_cube lit St EM cmd_fail st c FInf = Ok st'.
  Proof.
    intros Htot. unfold add_blocked_cube. cbn [record_cube].
    destruct (cmds_ok 1 st Htot) as (st1 & ->). now eexists.
  Qed.

  Lemma rel_ind_ok st c k ext :
    total_solver -> 1 <= k <= frontier' st -> (gen_on = true -> k = 1 \/ excl_post c) ->
    exists r st', rel_ind lit lit_eqb St cube_of_state EM solve cmd_fail gen_on st c (FFinite k) ext = Ok (r, st') /\
                  r <> RUnknown lit.
  Proof.
    intros Htot Hk Hgen. unfold rel_ind.
    assert (Hd : exists prev, decrement (FFinite k) = Some prev /\ (k = 1 -> prev = FInit) /\
                              exists from, from_of lit St EM st prev = Some from).
    { destruct k as [| [| k']]; [lia | |].
      - exists FInit. split; [reflexivity |]. split; [reflexivity | now eexists].
      - exists (FFinite (S k')). split; [reflexivity |]. split; [lia |]. cbn [from_of]. rewrite frontier_eq.
        destruct (Nat.leb_spec (S k') (frontier' st)); [now eexists | lia]. }
    destruct Hd as (prev & -> & Hk1 & from & Ef). rewrite Ef.
    destruct (cmds_ok (2 * length c) (new_acts lit St EM st (length c)) Htot) as (st0 & ->).
    rewrite ask_spec. fold (relq prev from c ext c).
    pose proof (solver_ok (p_q lit St EM st0) (relq prev from c ext c)) as Htr.
    pose proof (proj1 Htot (p_q lit St EM st0) (relq prev from c ext c)) as Hnu.
    pose proof (proj1 (proj2 Htot) (p_q lit St EM st0) (relq prev from c ext c)) as Hne.
    set (st1 := asked st0 (relq prev from c ext c)). cbv zeta.
    destruct (solve (p_q lit St EM st0) (relq prev from c ext c)) as [m | core | | e] eqn:Ea; cbn [truthful] in Htr.
    - destruct (cmds_ok (length c) st1 Htot) as (st3 & ->). eexists _, _. split; [reflexivity | discriminate].
    - destruct gen_on eqn:Eg.
      + set (g := filter (fun l => lit_mem lit lit_eqb l core) c) in *.
        set (rm := filter (fun l => negb (lit_mem lit lit_eqb l core)) c) in *.
        destruct (fix_gen_cube_ok st1 g rm Htot) as ([fx st2] & ->).
        * destruct (Hgen eq_refl) as [-> | Hex].
          -- left. rewrite (Hk1 eq_refl) in *. cbn [from_of] in Ef. inversion Ef; subst from.
             intros s0 s' Hs. destruct (ch g s') eqn:E; [| reflexivity]. exfalso.
             unfold relq in Htr at 1. cbn [q_core] in Htr. rewrite Eg in Htr. apply (Htr s0).
             change (restrict (relq FInit (FromInit lit) c ext c) core) with (relq FInit (FromInit lit) c ext g).
             unfold q_model, relq. cbn. split; [exact I |]. split; [destruct ext; exact I |]. exists s'. now split.
          -- right. intros s0 s' Hs. unfold g, rm. rewrite ch_partition. now apply (Hex s0 s').
        * destruct (cmds_ok (length c) st2 Htot) as (st3 & ->). eexists _, _. split; [reflexivity | discriminate].
      + destruct (cmds_ok (length c) st1 Htot) as (st3 & ->). eexists _, _. split; [reflexivity | discriminate].
    - now contradiction Hnu.
    - now contradiction (Hne e).
  Qed.

  Lemma push_loop_ok fuel : forall st cand t,
      total_solver -> 2 <= t -> t <= S (frontier' st) -> (gen_on = true -> excl_post cand) ->
      S (frontier' st) - t < fuel ->
      exists r, push_loop lit lit_eqb St cube_of_state EM solve cmd_fail gen_on fuel st cand (FFinite t) = Ok r.
  Proof.
    induction fuel as [| fuel IH]; intros st cand t Htot Ht HtS Hgen Hfuel; [lia |].
    cbn [push_loop]. destruct (fid_le (FFinite t) (frontier_id lit St EM st)) eqn:Ele; [| now eexists].
    apply (fid_le_frontier st t ltac:(lia)) in Ele.
    destruct (rel_ind_ok st cand t true Htot ltac:(lia) ltac:(intros Hg; right; now apply Hgen)) as (r & st1 & Hr & Hnu).
    rewrite Hr. destruct (rel_ind_spec _ _ _ _ _ _ Hr) as (_ & _ & Hsem & _).
    destruct r as [p | og |]; [now eexists | | now contradiction Hnu].
    cbn [increment]. apply IH; try assumption; try lia; rewrite (sem_eq_frontier st st1 Hsem); lia.
  Qed.

  Lemma block_loop_good fuel : forall st work,
      total_solver -> pinv st -> book st -> Forall (obl_ok (frontier' st)) work ->
      good (block_loop lit lit_eqb St cube_of_state EM solve cmd_fail gen_on fuel st work).
  Proof.
    induction fuel as [| fuel IH]; intros st work Htot Hinv Hbook Hwork; [exact I |].
    cbn [block_loop].
    destruct (pop_min lit work) as [[[c f] rest] |] eqn:Epop; [| exact I].
    destruct (pop_min_spec work _ _ Epop) as [Hm Hrest].
    pose proof Hwork as Hwork'. rewrite Forall_forall in Hwork'.
    assert (Hrest_ok : Forall (obl_ok (frontier' st)) rest) by (apply Forall_forall; intros o Ho; apply Hwork'; now apply Hrest).
    pose proof (Hwork' _ Hm) as Hobl.
    destruct (is_init f) eqn:Ei; [exact I |].
    assert (Hf : exists j, f = FFinite j /\ 1 <= j <= frontier' st).
    { destruct Hobl as (s & _ & Hs). cbn [snd] in Hs. destruct f as [| j |]; [discriminate Ei | | destruct Hs].
      exists j. split; [reflexivity | apply Hs]. }
    destruct Hf as (j & -> & Hj).
    destruct (rel_ind_ok st c j true Htot Hj) as (r & st1 & Hr & Hnu).
    { intros _. destruct (Nat.eq_dec j 1) as [-> | Hne]; [now left | right].
      apply (obl_not_post st c j Hinv Hobl). lia. }
    (* replay one step of the soundness argument to obtain the invariants of the next state *)
    rewrite Hr. destruct (rel_ind_spec _ _ _ _ _ _ Hr) as (prev & Hd & Hsem & Hpost).
    assert (HN1 : frontier' st1 = frontier' st) by apply (sem_eq_frontier st st1 Hsem).
    destruct r as [p | og |]; [| | now contradiction Hnu].
    - rewrite Hd.
      (* the new obligation is fine: same reasoning as in [block_loop_spec]; obtained by running the
         specification on a one-more-step continuation is not possible, so it is re-derived *)
      apply IH; [exact Htot | now apply (sem_eq_pinv st) | now apply (sem_eq_book st) |].
      rewrite HN1. constructor; [| constructor; [exact Hobl | exact Hrest_ok]].
      cbn [rel_post] in Hpost. destruct Hpost as (m & s' & -> & Hprev & Hcs & _).
      destruct Hobl as (s & Hc & Hobl). cbn [fst snd] in Hc, Hobl. subst c.
      apply cube_state_unique in Hcs. subst s'.
      exists m. split; [reflexivity |]. cbn [snd].
      destruct (decrement_spec _ _ Hd) as [(He & ->) | (k & He & ->)]; inversion He; subst j; cbn [prev_ok] in Hprev.
      + destruct Hobl as (Hj' & Hl). right. split; [lia |]. exists s. split; [exact Hprev |].
        replace (pred (frontier' st)) with (frontier' st - 1) by lia. exact Hl.
      + destruct Hobl as (Hj' & Hl). destruct Hprev as [_ Ht]. split; [lia |].
        replace (frontier' st - S k) with (S (frontier' st - S (S k))) by lia. now apply (lb_step m s).
    - set (cand := match og with Some g => g | None => c end) in *.
      assert (Hex : excl_post cand).
      { destruct (decrement_spec _ _ Hd) as [(He & ->) | (k & He & ->)]; inversion He; subst j.
        - cbn [is_init negb andb rel_post] in Hpost. destruct Hpost as (_ & _ & Hun).
          intros s0 s' Hs. apply (Hun s0 s'); [exact Hs | discriminate].
        - cbn [rel_post] in Hpost. destruct Hpost as (_ & Hex & _). unfold cand. destruct og as [g |].
          + apply Hex. discriminate.
          + apply (obl_not_post st c (S (S k)) Hinv Hobl). lia. }
      cbn [increment].
      destruct (push_loop_ok (S (S (frontier lit St EM st1))) st1 cand (S j) Htot ltac:(lia) ltac:(rewrite HN1; lia)
                             ltac:(intros _; exact Hex) ltac:(unfold frontier, frontier' in *; lia)) as ([tf' st2] & Hpush).
      rewrite Hpush.
      destruct (push_loop_spec _ _ _ _ _ _ Hpush ltac:(lia) ltac:(rewrite HN1; lia)) as (Hsem2 & t' & -> & Hle & HleN & _).
      destruct t' as [| [| t'']]; try lia. cbn [decrement].
      assert (HN2 : frontier' st2 = frontier' st) by (rewrite (sem_eq_frontier st1 st2 Hsem2); exact HN1).
      destruct (add_finite_ok st2 cand (S t'') Htot ltac:(rewrite HN2, <- HN1; lia)) as (st3 & Hadd).
      rewrite Hadd.
      (* invariants of st3: from the specification applied to a run that stops right after this step *)
      assert (H3 : pinv st3 /\ book st3 /\ frontier' st3 = frontier' st).
      { (* re-run the soundness step with the empty rest: use block_loop_spec on fuel 1 more is awkward;
           derive directly as in block_loop_spec *)
        assert (Hrc : rel_cond st j cand).
        { destruct (decrement_spec _ _ Hd) as [(He & ->) | (k & He & ->)]; inversion He; subst j.
          - intros Hc. lia.
          - now apply rel_post_rel_cond. }
        destruct (push_loop_spec _ _ _ _ _ _ Hpush ltac:(lia) ltac:(rewrite HN1; lia)) as (_ & t3 & Ht3 & _ & _ & Hrc2).
        inversion Ht3; subst t3.
        assert (Hsem02 : sem_eq st st2) by now apply (sem_eq_trans _ st1).
        split; [| split].
        - apply (add_finite_preserves st2 cand (S t'') st3); [now apply (sem_eq_pinv st) | exact Hadd | exact Hex |].
          destruct (Nat.eq_dec t'' (pred j)) as [-> | Hne].
          + replace (S (pred j)) with j by lia. now apply (sem_eq_rel_cond st).
          + apply (sem_eq_rel_cond st1); [exact Hsem2 |]. apply (Hrc2 ltac:(lia)).
        - apply (book_bookx st3 0). apply (add_finite_bookx st2 cand (S t'') st3 0 []); [| exact Hadd].
          apply (book_bookx st2 0). now apply (sem_eq_book st).
        - destruct (add_finite_spec _ _ _ _ Hadd) as (_ & HN3 & _). now rewrite HN3. }
      destruct H3 as (Hinv3 & Hbook3 & HN3).
      apply IH; [exact Htot | exact Hinv3 | exact Hbook3 | now rewrite HN3].
  Qed.

  (** one cube of [prop_cubes]: the invariants of the state that the rest of the loop starts from *)
  Lemma prop_cubes_step id c r st rr st1 :
    pinv st -> bookx st id (c :: r) -> (forall c', In c' (c :: r) -> In (FFinite id, c') (asserted st)) ->
    1 <= id -> S id <= frontier' st ->
    rel_ind lit lit_eqb St cube_of_state EM solve cmd_fail gen_on st c (FFinite (S id)) false = Ok (rr, st1) ->
    let next_ok st2 := pinv st2 /\ bookx st2 id r /\ (forall c', In c' r -> In (FFinite id, c') (asserted st2)) /\
                       frontier' st2 = frontier' st in
    (forall og st2, rr = RUnsat lit og -> add_blocked_cube lit St EM cmd_fail st1 c (FFinite (S id)) = Ok st2 -> next_ok st2) /\
    ((forall og, rr <> RUnsat lit og) -> next_ok (keep_cube lit St EM st1 id c)) /\
    1 <= S id <= frontier' st1.
  Proof.
    intros Hinv Hb Has Hid HidN Er next_ok.
    destruct (rel_ind_spec _ _ _ _ _ _ Er) as (prev & Hd & Hsem & Hpost).
    assert (Hprev : prev = FFinite id).
    { destruct id as [| id']; [lia |]. cbn in Hd. now inversion Hd. }
    subst prev. cbn [andb] in Hpost.
    assert (HN1 : frontier' st1 = frontier' st) by apply (sem_eq_frontier st st1 Hsem).
    assert (Hinv1 : pinv st1) by now apply (sem_eq_pinv st).
    assert (Hb1 : bookx st1 id (c :: r)) by now apply (sem_eq_bookx st).
    assert (Has1 : forall c', In c' (c :: r) -> In (FFinite id, c') (asserted st1)).
    { intros c' Hc'. destruct Hsem as (_ & _ & Ha). rewrite Ha. now apply Has. }
    split; [| split; [| lia]].
    - intros og st2 -> Eadd. destruct (add_finite_spec _ _ _ _ Eadd) as (Ha2 & HN2 & _).
      unfold next_ok. split; [| split; [| split]].
      + apply (add_finite_preserves st1 c (S id) st2 Hinv1 Eadd).
        * apply (iv_post st1 Hinv1 (FFinite id) c). apply Has1. now left.
        * apply (sem_eq_rel_cond st st1 _ _ Hsem). intros _ s s' Hf _ Ht. cbn [pred] in Hf.
          cbn [rel_post] in Hpost. destruct Hpost as (Hsub & _ & Hun).
          destruct (ch c s') eqn:E; [| reflexivity].
          assert (Hg : ch (match og with Some g => g | None => c end) s' = false).
          { apply (Hun s s'); [split; assumption | discriminate]. }
          rewrite (sub_cube_ch _ c s' Hsub E) in Hg. discriminate.
      + apply (bookx_drop st2 id c r).
        * now apply (add_finite_bookx st1 c (S id) st2).
        * exists (FFinite (S id)). split; [rewrite Ha2; now left | cbn; apply Nat.leb_refl].
      + intros c' Hc'. rewrite Ha2. right. apply Has1. now right.
      + now rewrite HN2.
    - intros _. destruct (set_frame_spec st1 id (fcubes st1 id ++ [c]) ltac:(lia)) as (Ha & HNk & _).
      fold (keep_cube lit St EM st1 id c) in Ha, HNk. unfold next_ok. split; [| split; [| split]].
      + now apply (pinv_same st1).
      + apply bookx_keep; [exact Hinv1 | exact Hb1 | lia | apply Has1; now left].
      + intros c' Hc'. rewrite Ha. apply Has1. now right.
      + now rewrite HNk.
  Qed.

  Lemma prop_cubes_good id : forall cs st,
      total_solver -> pinv st -> bookx st id cs -> (forall c, In c cs -> In (FFinite id, c) (asserted st)) ->
      1 <= id -> S id <= frontier' st ->
      good (prop_cubes lit lit_eqb St cube_of_state EM solve cmd_fail gen_on st id cs).
  Proof.
    induction cs as [| c r IH]; intros st Htot Hinv Hb Has Hid HidN; [exact I |].
    cbn [prop_cubes].
    destruct (rel_ind_ok st c (S id) false Htot ltac:(lia)) as (rr & st1 & Hr & Hnu).
    { intros _. right. apply (iv_post st Hinv (FFinite id) c). apply Has. now left. }
    rewrite Hr. destruct (prop_cubes_step id c r st rr st1 Hinv Hb Has Hid HidN Hr) as (Hun & Hkeep & Hlvl).
    destruct rr as [p | og |]; [| | now contradiction Hnu].
    - destruct Hkeep as (H1 & H2 & H3 & H4); [discriminate |]. apply IH; try assumption. now rewrite H4.
    - destruct (add_finite_ok st1 c (S id) Htot Hlvl) as (st2 & Hadd). rewrite Hadd.
      destruct (Hun og st2 eq_refl Hadd) as (H1 & H2 & H3 & H4). apply IH; try assumption. now rewrite H4.
  Qed.

  Lemma to_inf_ok cs : forall st, total_solver -> exists st', to_inf lit St EM cmd_fail st cs = Ok st'.
  Proof.
    induction cs as [| c r IH]; intros st Htot; [now eexists |]. cbn [to_inf].
    destruct (add_inf_ok st c Htot) as (st1 & ->). now apply IH.
  Qed.

  Lemma cleanup_ok n : forall st iid, total_solver -> exists st', cleanup lit St EM cmd_fail n st iid = Ok st'.
  Proof.
    induction n as [| n IH]; intros st iid Htot; [now eexists |]. cbn [cleanup].
    destruct (to_inf_ok (fcubes st iid) (set_frame lit St EM st iid []) Htot) as (st1 & ->). now apply IH.
  Qed.

  Lemma prop_frames_good n : forall st id,
      total_solver -> pinv st -> book st -> 1 <= id -> id + n = frontier' st ->
      good (prop_frames lit lit_eqb St cube_of_state EM solve cmd_fail gen_on n st id).
  Proof.
    induction n as [| n IH]; intros st id Htot Hinv Hb Hid HidN; [exact I |].
    cbn [prop_frames].
    destruct (set_frame_spec st id [] ltac:(lia)) as (Ha0 & HN0 & _).
    assert (Hpre : pinv (set_frame lit St EM st id []) /\ bookx (set_frame lit St EM st id []) id (fcubes st id) /\
                   (forall c, In c (fcubes st id) -> In (FFinite id, c) (asserted (set_frame lit St EM st id []))) /\
                   S id <= frontier' (set_frame lit St EM st id [])).
    { split; [now apply (pinv_same st) |]. split; [apply bookx_take; [exact Hinv | exact Hb | lia] |].
      split; [intros c Hc; rewrite Ha0; apply (bk_in st Hb); [lia | exact Hc] | rewrite HN0; lia]. }
    destruct Hpre as (P1 & P2 & P3 & P4).
    pose proof (prop_cubes_good id (fcubes st id) _ Htot P1 P2 P3 Hid P4) as Hg.
    destruct (prop_cubes lit lit_eqb St cube_of_state EM solve cmd_fail gen_on (set_frame lit St EM st id []) id (fcubes st id)) as [st1 | e | m |] eqn:Ep;
      try exact Hg; try exact I.
    destruct (prop_cubes_spec id _ _ _ P1 P2 P3 Hid P4 Ep) as (Hinv1 & Hb1 & HN1). apply book_bookx in Hb1.
    destruct (fcubes st1 id) as [| c0 r0].
    - destruct (cleanup_ok (frontier lit St EM st1 - id) st1 (S id) Htot) as (st2 & ->). exact I.
    - apply IH; try assumption; lia.
  Qed.

  Lemma prop_last_good N : forall cs st,
      total_solver -> pinv st -> bookx st N cs -> (forall c, In c cs -> In (FFinite N, c) (asserted st)) ->
      1 <= N -> N = frontier' st ->
      good (prop_last lit St EM solve cmd_fail st N cs).
  Proof.
    induction cs as [| c r IH]; intros st Htot Hinv Hb Has HN1 HN; [exact I |].
    (* run the specification on the two possible one-step continuations *)
    cbn [prop_last]. rewrite ask_spec.
    set (q := {| q_kind := KInf; q_frame := FInf; q_from := FromClauses lit (clauses_inf lit St EM st); q_bad := false;
                 q_neg := Some c; q_fixed := c; q_sel := []; q_core := false |}).
    pose proof (solver_ok (p_q lit St EM st) q) as Htr.
    pose proof (asked_sem st q) as Hsem. set (st1 := asked st q) in *.
    assert (HNa : frontier' st1 = frontier' st) by apply (sem_eq_frontier st st1 Hsem).
    assert (Hinv1 : pinv st1) by now apply (sem_eq_pinv st).
    assert (Hb1 : bookx st1 N (c :: r)) by now apply (sem_eq_bookx st).
    assert (Has1 : forall c', In c' (c :: r) -> In (FFinite N, c') (asserted st1)).
    { intros c' Hc'. destruct Hsem as (_ & _ & Ha). rewrite Ha. now apply Has. }
    assert (Hkeep : good (prop_last lit St EM solve cmd_fail (keep_cube lit St EM st1 N c) N r)).
    { destruct (set_frame_spec st1 N (fcubes st1 N ++ [c]) ltac:(lia)) as (Ha & HNk & _).
      fold (keep_cube lit St EM st1 N c) in Ha, HNk. apply IH; try assumption.
      - now apply (pinv_same st1).
      - apply bookx_keep; [exact Hinv1 | exact Hb1 | lia | apply Has1; now left].
      - intros c' Hc'. rewrite Ha. apply Has1. now right.
      - rewrite HNk. lia. }
    pose proof (proj1 (proj2 Htot) (p_q lit St EM st) q) as Hne.
    destruct (solve (p_q lit St EM st) q) as [m | core | | e] eqn:Ea; cbn [truthful] in Htr; [exact Hkeep | | exact Hkeep | now contradiction (Hne e)].
    destruct (add_inf_ok st1 c Htot) as (st2 & Eadd). rewrite Eadd.
    destruct (add_inf_spec _ _ _ Eadd) as (Ha2 & Hfr2).
    assert (HN2 : frontier' st2 = frontier' st1) by (unfold frontier'; now rewrite Hfr2).
    apply IH; try assumption.
    - apply (add_inf_preserves st1 c st2 Hinv1 Eadd).
      + apply (iv_post st1 Hinv1 (FFinite N) c). apply Has1. now left.
      + intros s s' Hf Hc Ht. destruct (ch c s') eqn:E; [| reflexivity]. exfalso.
        cbn [q_core q] in Htr. apply (Htr s). unfold q_model. cbn [q_from q_neg q_bad q_fixed q_sel q from_ok neg_ok].
        split; [apply clauses_inf_Finf; now apply (sem_eq_Finf st st1) |]. split; [exact Hc |].
        exists s'. split; [exact Ht | now rewrite app_nil_r].
    - apply (bookx_drop st2 N c r).
      + now apply (add_inf_bookx st1 c st2).
      + exists FInf. split; [rewrite Ha2; now left | reflexivity].
    - intros c' Hc'. rewrite Ha2. right. apply Has1. now right.
    - rewrite HN2. lia.
  Qed.

  Lemma propagate_good st :
    total_solver -> pinv st -> book st -> 1 <= frontier' st ->
    good (propagate_blocked_cubes lit lit_eqb St cube_of_state EM solve cmd_fail gen_on st).
  Proof.
    intros Htot Hinv Hb HN. unfold propagate_blocked_cubes. rewrite frontier_eq.
    pose proof (prop_frames_good (pred (frontier' st)) st 1 Htot Hinv Hb ltac:(lia) ltac:(lia)) as Hg.
    destruct (prop_frames lit lit_eqb St cube_of_state EM solve cmd_fail gen_on (pred (frontier' st)) st 1) as [[b1 st1] | e | n |] eqn:Ep;
      try exact Hg; try exact I.
    apply prop_frames_spec in Ep; [| exact Hinv | exact Hb | lia | lia].
    destruct Ep as [_ Hf]. destruct b1; [exact I |].
    destruct (Hf eq_refl) as (Hinv1 & Hb1 & HN1). rewrite <- HN1. rewrite <- HN1 in HN.
    destruct (set_frame_spec st1 (frontier' st1) [] ltac:(lia)) as (Ha0 & HN0 & _).
    assert (Hg2 : good (prop_last lit St EM solve cmd_fail (set_frame lit St EM st1 (frontier' st1) []) (frontier' st1) (fcubes st1 (frontier' st1)))).
    { apply prop_last_good; try assumption.
      - now apply (pinv_same st1).
      - apply bookx_take; [exact Hinv1 | exact Hb1 | lia].
      - intros c Hc. rewrite Ha0. apply (bk_in st1 Hb1); [lia | exact Hc].
      - now rewrite HN0. }
    destruct (prop_last lit St EM solve cmd_fail (set_frame lit St EM st1 (frontier' st1) []) (frontier' st1) (fcubes st1 (frontier' st1))); try exact Hg2; exact I.
  Qed.

  Lemma get_bad_cube_good st : total_solver -> good (get_bad_cube lit St cube_of_state EM solve st).
  Proof.
    intros Htot. unfold get_bad_cube.
    assert (Hf : exists from, from_of lit St EM st (frontier_id lit St EM st) = Some from).
    { unfold frontier_id. destruct (frontier lit St EM st) eqn:E; cbn [from_of]; [now eexists |].
      rewrite E, Nat.leb_refl. now eexists. }
    destruct Hf as (from & ->). rewrite ask_spec.
    unfold fail.
    match goal with |- context [solve ?n ?q] => pose proof (proj1 Htot n q) as Hnu; pose proof (proj1 (proj2 Htot) n q) as Hne; destruct (solve n q) as [m | core | | e] end; try exact I.
    - now contradiction Hnu.
    - now contradiction (Hne e).
  Qed.

  Definition bmc_ok : Prop := forall e, bmc_result <> BmcErr W EM e.

  Lemma pdr_loop_good fuel bf : forall st,
      total_solver -> bmc_ok -> pinv st -> book st ->
      good (pdr_loop lit lit_eqb St cube_of_state W EM solve cmd_fail gen_on bmc_result fuel bf st).
  Proof.
    induction fuel as [| fuel IH]; intros st Htot Hbmc Hinv Hb; [exact I |].
    cbn [pdr_loop]. destruct (frontier lit St EM st <=? MAX_FRAMES); [| exact I].
    pose proof (get_bad_cube_good st Htot) as Hg.
    destruct (get_bad_cube lit St cube_of_state EM solve st) as [[ob st1] | e | n |] eqn:Eg; try exact Hg; try exact I.
    destruct (get_bad_cube_spec _ _ _ Eg) as (Hsem & Hob).
    assert (HN1 : frontier' st1 = frontier' st) by apply (sem_eq_frontier st st1 Hsem).
    assert (Hinv1 : pinv st1) by now apply (sem_eq_pinv st).
    assert (Hb1 : book st1) by now apply (sem_eq_book st).
    destruct ob as [b |].
    - destruct Hob as (m & -> & H0 & H1). unfold block_cube.
      assert (Hwork : Forall (obl_ok (frontier' st1)) [(cube_of_state m, frontier_id lit St EM st1)]).
      { constructor; [| constructor]. exists m. split; [reflexivity |]. cbn [snd].
        unfold frontier_id. rewrite frontier_eq, HN1. destruct (frontier' st) as [| n] eqn:EN.
        - left. split; [reflexivity | now apply H0].
        - split; [lia |]. rewrite Nat.sub_diag. constructor. apply H1. lia. }
      match goal with |- good (match ?X with _ => _ end) =>
        pose proof (block_loop_good bf st1 _ Htot Hinv1 Hb1 Hwork : good X) as Hgb;
        destruct X as [[ok st2] | e | n |] eqn:Eb end; try exact Hgb; try exact I.
      apply block_loop_spec in Eb; [| exact Hinv1 | exact Hb1 | exact Hwork].
      destruct Eb as (Hinv2 & Hb2 & _ & _). destruct ok; [now apply IH |].
      destruct bmc_result as [w | | eb] eqn:Ebmc; try exact I. exfalso. now apply (Hbmc eb).
    - destruct Hob as (H0 & H1).
      destruct (cmds_ok 1 st1 Htot) as (stc & Ec).
      assert (Haf : exists sta, add_frame lit St EM cmd_fail st1 = Ok sta) by (unfold add_frame; rewrite Ec; now eexists).
      destruct Haf as (sta & Eaf). rewrite Eaf.
      assert (Hinva : pinv sta).
      { apply (add_frame_preserves st1 sta Hinv1 Eaf).
        - rewrite HN1. exact H0.
        - rewrite HN1. intros HN s Hf. apply (H1 HN s). now apply (sem_eq_Fc st st1). }
      assert (Hba : book sta) by now apply (add_frame_book st1).
      assert (HNa : 1 <= frontier' sta).
      { destruct (add_frame_spec _ _ Eaf) as (_ & Hfr & _). unfold frontier'. rewrite Hfr, app_length. cbn. lia. }
      pose proof (propagate_good _ Htot Hinva Hba HNa) as Hgp.
      destruct (propagate_blocked_cubes lit lit_eqb St cube_of_state EM solve cmd_fail gen_on sta) as [[fx st2] | e | n |] eqn:Ep;
        try exact Hgp; try exact I.
      apply propagate_spec in Ep; [| exact Hinva | exact Hba | exact HNa].
      destruct Ep as [_ Hf]. destruct fx; [exact I |].
      destruct (Hf eq_refl) as (Hinv2 & Hb2 & _). now apply IH.
  Qed.

  (** never an error, never a panic: the result is a verdict (or the model's own fuel ran out) *)
  Theorem pdr_model_definite fuel bf :
    total_solver -> bmc_ok ->
    good (pdr lit lit_eqb St cube_of_state W EM solve cmd_fail n_init gen_on has_bads bmc_result fuel bf).
  Proof.
    intros Htot Hbmc. unfold pdr. destruct has_bads; [| exact I].
    destruct (cmds_ok n_init (init_state lit St EM) Htot) as (st0 & Ec). rewrite Ec.
    pose proof (cmds_spec _ _ _ Ec) as Hs0.
    apply pdr_loop_good; [exact Htot | exact Hbmc | apply (sem_eq_pinv _ _ Hs0), init_state_pinv | apply (sem_eq_book _ _ Hs0), init_state_book].
  Qed.
End PdrImplProofs.

(** ** the statements quoted by Props/C10.v *)
Section PdrModelTheorems.
  Variable lit : Type.
  Variable lit_eqb : lit -> lit -> bool.
  Variable St : Type.
  Variable cube_of_state : St -> list lit.
  Variable W : Type.
  Variable EM : Type.
  Variable solve : nat -> query lit -> answer lit St EM.
  Variable cmd_fail : nat -> option EM.
  Variable n_init : nat.
  Variable gen_on has_bads : bool.
  Variable bmc_result : bmc_answer W EM.
  Variable lit_holds : lit -> St -> bool.
  Variable bad0 : St -> bool.
  Variable step0 trans : St -> St -> bool.
  Variable bad : St -> bool.

  (** the hypotheses on the oracle and on the literals *)
  Definition oracle_ok : Prop :=
    (forall s s', ch lit St lit_holds (cube_of_state s) s' = true -> s' = s) /\
    (forall n q, truthful lit lit_eqb St EM lit_holds bad0 step0 trans bad q (solve n q)) /\
    (has_bads = false -> no_bads St bad0 bad).

  (** no fault: no "unknown", no error answer, no failing command, no failing BMC fallback *)
  Definition no_faults : Prop :=
    total_solver lit St EM solve cmd_fail /\ bmc_ok W EM bmc_result.

  Notation run fuel bf := (pdr lit lit_eqb St cube_of_state W EM solve cmd_fail n_init gen_on has_bads bmc_result fuel bf).

  Theorem pdr_model_success_sound fuel bf st' :
    oracle_ok -> run fuel bf = Ok (VSuccess W, st') -> safe St bad0 step0 trans bad.
  Proof.
    intros (H1 & H2 & H3) H.
    exact (pdr_model_sound lit lit_eqb St cube_of_state W EM solve cmd_fail n_init gen_on has_bads bmc_result lit_holds bad0 step0 trans bad
                           H1 H2 fuel bf _ _ H3 H).
  Qed.

  Theorem pdr_model_fail_real fuel bf w st' :
    oracle_ok -> run fuel bf = Ok (VFail W w, st') ->
    bmc_result = BmcFail W EM w /\ exists d, d <= MAX_FRAMES /\ unsafe_at St bad0 step0 trans bad d.
  Proof.
    intros (H1 & H2 & H3) H.
    exact (pdr_model_sound lit lit_eqb St cube_of_state W EM solve cmd_fail n_init gen_on has_bads bmc_result lit_holds bad0 step0 trans bad
                           H1 H2 fuel bf _ _ H3 H).
  Qed.

  Theorem pdr_model_unknown_only fuel bf st' :
    oracle_ok -> run fuel bf = Ok (VUnknown W, st') ->
    MAX_FRAMES < length (p_frames lit St EM st') \/
    (bmc_result = BmcOther W EM /\ exists d, d <= MAX_FRAMES /\ unsafe_at St bad0 step0 trans bad d).
  Proof.
    intros (H1 & H2 & H3) H.
    exact (pdr_model_sound lit lit_eqb St cube_of_state W EM solve cmd_fail n_init gen_on has_bads bmc_result lit_holds bad0 step0 trans bad
                           H1 H2 fuel bf _ _ H3 H).
  Qed.

  Theorem pdr_model_no_error fuel bf :
    oracle_ok -> no_faults ->
    match run fuel bf with Err _ _ | Panic _ => False | Ok _ | Fuel => True end.
  Proof.
    intros (H1 & H2 & _) (Htot & Hbmc).
    exact (pdr_model_definite lit lit_eqb St cube_of_state W EM solve cmd_fail n_init gen_on has_bads bmc_result lit_holds bad0 step0 trans bad
                              H1 H2 fuel bf Htot Hbmc).
  Qed.
End PdrModelTheorems.

(** ** the exhaustive-search oracle satisfies the oracle hypothesis *)
Section EnumOracleProofs.
  Variable lit : Type.
  Variable lit_eqb : lit -> lit -> bool.
  Variable St : Type.
  Variable EM : Type.
  Variable lit_holds : lit -> St -> bool.
  Variable bad0 : St -> bool.
  Variable step0 trans : St -> St -> bool.
  Variable bad : St -> bool.
  Variable states : list St.
  Hypothesis states_all : forall s, In s states.
  Hypothesis lit_eqb_refl : forall l, lit_eqb l l = true.

  Lemma enum_ok_model q m :
    enum_ok lit St lit_holds bad0 step0 trans bad states q m = true <->
    q_model lit St lit_holds bad0 step0 trans bad q m.
  Proof.
    unfold enum_ok, q_model, from_ok, neg_ok. fold (ech lit St lit_holds).
    change (ech lit St lit_holds) with (ch lit St lit_holds).
    rewrite !andb_true_iff. split.
    - intros ((Hf & Hn) & Hr). split; [| split].
      + destruct (q_from lit q); [exact I |]. now apply negb_true_iff.
      + destruct (q_neg lit q); [now apply negb_true_iff | exact I].
      + destruct (q_from lit q), (q_bad lit q); try exact Hr;
          apply existsb_exists in Hr; destruct Hr as (s' & _ & Hs); apply andb_true_iff in Hs; now exists s'.
    - intros (Hf & Hn & Hr). split; [split |].
      + destruct (q_from lit q); [reflexivity |]. now apply negb_true_iff.
      + destruct (q_neg lit q); [now apply negb_true_iff | reflexivity].
      + destruct (q_from lit q), (q_bad lit q); try exact Hr;
          destruct Hr as (s' & H1 & H2); apply existsb_exists; exists s'; (split; [apply states_all | now rewrite H1, H2]).
  Qed.

  Lemma filter_mem_self (c : list lit) : filter (fun l => lit_mem lit lit_eqb l c) c = c.
  Proof.
    assert (H : forall c0 l, In l c0 -> lit_mem lit lit_eqb l c0 = true).
    { intros c0 l Hl. unfold lit_mem. apply existsb_exists. exists l. split; [exact Hl | apply lit_eqb_refl]. }
    assert (G : forall d, (forall l, In l d -> In l c) -> filter (fun l => lit_mem lit lit_eqb l c) d = d).
    { induction d as [| a d IH]; intros Hd; [reflexivity |]. cbn [filter].
      rewrite (H c a (Hd a (or_introl eq_refl))). f_equal. apply IH. intros l Hl. apply Hd. now right. }
    apply G. auto.
  Qed.

  Theorem enum_solve_truthful n q :
    truthful lit lit_eqb St EM lit_holds bad0 step0 trans bad q
             (enum_solve lit St EM lit_holds bad0 step0 trans bad states n q).
  Proof.
    unfold enum_solve. destruct (find (enum_ok lit St lit_holds bad0 step0 trans bad states q) states) as [m |] eqn:Ef; cbn [truthful].
    - apply find_some in Ef. now apply enum_ok_model.
    - intros m Hm.
      assert (Hq : q_model lit St lit_holds bad0 step0 trans bad q m).
      { destruct (q_core lit q); [| exact Hm]. unfold restrict in Hm. rewrite filter_mem_self in Hm.
        destruct q; exact Hm. }
      apply enum_ok_model in Hq. pose proof (find_none _ _ Ef m (states_all m)) as Hn. congruence.
  Qed.

  (** the executable test of one answer decides the oracle hypothesis *)
  Theorem answer_ok_truthful q a :
    answer_ok lit St EM lit_holds bad0 step0 trans bad states lit_eqb q a = true <->
    truthful lit lit_eqb St EM lit_holds bad0 step0 trans bad q a.
  Proof.
    destruct a as [m | core | | e]; cbn [answer_ok truthful]; [apply enum_ok_model | | tauto | tauto].
    change (restrict_q lit lit_eqb q core) with (restrict lit lit_eqb q core).
    rewrite negb_true_iff. split.
    - intros H m Hm. apply enum_ok_model in Hm.
      assert (Hx : existsb (enum_ok lit St lit_holds bad0 step0 trans bad states (if q_core lit q then restrict lit lit_eqb q core else q)) states = true).
      { apply existsb_exists. exists m. split; [apply states_all | exact Hm]. }
      congruence.
    - intros H. destruct (existsb _ states) eqn:Ex; [| reflexivity].
      apply existsb_exists in Ex. destruct Ex as (m & _ & Hm). apply enum_ok_model in Hm. now elim (H m).
  Qed.

  Theorem enum_solve_total n q :
    enum_solve lit St EM lit_holds bad0 step0 trans bad states n q <> AUnknown lit St EM /\
    forall e, enum_solve lit St EM lit_holds bad0 step0 trans bad states n q <> AErr lit St EM e.
  Proof. unfold enum_solve. destruct (find _ states); split; try discriminate; intros; discriminate. Qed.
End EnumOracleProofs.
