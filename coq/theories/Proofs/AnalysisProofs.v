(** * Proofs/AnalysisProofs.v — what the encoding needs to know about the analysis
    (Model/Analysis.v): use counts are positive exactly on the sub-expressions of
    the roots; the signal order is a post-order. *)
From Coq Require Import List Bool Lia.
From Patronus Require Import EvalImpl Analysis SysExec ExprLemmas McBasics EncodingBasics.
Import ListNotations.
Open Scope N_scope.

(** ** [dedup] *)
Lemma In_dedup_from x : forall l seen, In x (dedup_from seen l) <-> In x l /\ ~ In x seen.
Proof.
  induction l as [|y r IH]; intros seen; cbn [dedup_from]; [cbn; tauto|].
  destruct (mem y seen) eqn:E.
  - apply mem_In in E. rewrite IH. cbn [In]. split; [tauto|]. intros [[<-|H] Hn]; [contradiction|auto].
  - apply mem_false in E. cbn [In]. rewrite IH. cbn [In]. split.
    + intros [<-|[H Hn]]; [auto|]. split; [auto|]. intros Hs. apply Hn. now right.
    + intros [[<-|H] Hn]; [now left|]. destruct (expr_eq_dec y x) as [<-|Hne]; [now left|].
      right. split; [assumption|]. intros [Hy|Hs]; auto.
Qed.

Lemma In_dedup x l : In x (dedup l) <-> In x l.
Proof. unfold dedup. rewrite In_dedup_from. cbn; tauto. Qed.

Lemma NoDup_dedup_from : forall l seen, NoDup (dedup_from seen l).
Proof.
  induction l as [|y r IH]; intros seen; cbn [dedup_from]; [constructor|].
  destruct (mem y seen); [apply IH|]. constructor; [|apply IH].
  rewrite In_dedup_from. intros [_ Hn]. apply Hn. now left.
Qed.

Lemma NoDup_dedup l : NoDup (dedup l).
Proof. apply NoDup_dedup_from. Qed.

(** the part before the first occurrence of [e] *)
Lemma dedup_from_split e : forall l1 l2 seen, ~ In e l1 -> ~ In e seen ->
  exists t, dedup_from seen (l1 ++ e :: l2) = dedup_from seen l1 ++ e :: t.
Proof.
  induction l1 as [|y r IH]; intros l2 seen Hn1 Hns; cbn [app dedup_from].
  - apply mem_false in Hns. rewrite Hns. eauto.
  - destruct (mem y seen) eqn:E.
    + apply IH; [intros H; apply Hn1; now right|assumption].
    + destruct (IH l2 (y :: seen)) as [t Ht].
      * intros H; apply Hn1; now right.
      * intros [<-|H]; [apply Hn1; now left|contradiction].
      * exists t. cbn [app]. now rewrite Ht.
Qed.

(** ** sub-expressions *)
Lemma proper_subterm_parent : forall r x, In x (subterms r) -> x <> r ->
  exists p, In p (subterms r) /\ In x (children p).
Proof.
  induction r; intros x Hx Hne; cbn [subterms] in Hx; (destruct Hx as [<-|Hx]; [contradiction|]);
    repeat (rewrite in_app_iff in Hx);
    repeat match goal with H : _ \/ _ |- _ => destruct H end;
    try (now destruct Hx).
  all: match goal with
    | H : In ?y (subterms ?a) |- _ =>
        destruct (expr_eq_dec y a) as [->|Hd];
        [ eexists; split; [apply subterms_self|cbn [children In]; auto]
        | match goal with IH : _ |- _ => destruct (IH y H Hd) as (p & Hp & Hc) end; exists p; split; [|assumption];
          cbn [subterms]; right; rewrite ?in_app_iff; auto ]
    end.
Qed.

Lemma children_subterms p x : In x (children p) -> In x (subterms p).
Proof. intros H. apply (child_subterms_in x p x H). apply subterms_self. Qed.

Lemma proper_subterms_spec x e : In x (proper_subterms e) <-> In x (subterms e) /\ x <> e.
Proof.
  unfold proper_subterms. rewrite in_flat_map. split.
  - intros (a & Ha & Hx). apply (child_subterms a e x Ha Hx).
  - intros [Hx Hne]. destruct (proper_subterm_parent e x Hx Hne) as (p & Hp & Hc).
    (* p is e or below a child of e *)
    destruct (expr_eq_dec p e) as [->|Hpe].
    + exists x. split; [assumption|apply subterms_self].
    + clear Hx. revert p Hp Hpe Hc.
      assert (forall p, In p (subterms e) -> p <> e -> exists a, In a (children e) /\ In p (subterms a)) as Hdown.
      { intros p Hp Hpe. destruct e; cbn [subterms] in Hp; (destruct Hp as [<-|Hp]; [contradiction|]);
          repeat (rewrite in_app_iff in Hp); cbn [children];
          repeat match goal with H : _ \/ _ |- _ => destruct H end;
          try (now destruct Hp); (eexists; split; [|eassumption]; cbn [In]; auto). }
      intros p Hp Hpe Hc. destruct (Hdown p Hp Hpe) as (a & Ha & Hpa). exists a. split; [assumption|].
      eapply subterms_trans; [exact Hpa|now apply children_subterms].
Qed.

(** ** use counts *)
Lemma count_in_pos e l : In e l -> 0 < count_in e l.
Proof.
  induction l as [|y r IH]; intros H; [destruct H|]. cbn [count_in fold_right].
  destruct H as [->|H].
  - rewrite expr_eqb_refl. fold (count_in e r). lia.
  - specialize (IH H). fold (count_in e r). destruct (expr_eqb e y); lia.
Qed.

Lemma count_in_pos_inv e l : 0 < count_in e l -> In e l.
Proof.
  induction l as [|y r IH]; cbn [count_in fold_right]; [lia|]. fold (count_in e r).
  destruct (expr_eqb_spec e y) as [->|Hne]; [now left|]. intros H. right. now apply IH.
Qed.

Lemma sum_ge e : forall ps p, In p ps ->
  count_in e (children p) <= fold_right (fun p acc => count_in e (children p) + acc) 0 ps.
Proof.
  induction ps as [|q r IH]; intros p H; [destruct H|]. cbn [fold_right].
  destruct H as [->|H]; [lia|]. specialize (IH p H). lia.
Qed.

Lemma sum_pos_inv e : forall ps,
  0 < fold_right (fun p acc => count_in e (children p) + acc) 0 ps ->
  exists p, In p ps /\ In e (children p).
Proof.
  induction ps as [|q r IH]; cbn [fold_right]; [lia|]. intros H.
  destruct (N.eq_dec (count_in e (children q)) 0) as [E|E].
  - rewrite E in H. destruct (IH H) as (p & Hp & Hc). exists p. split; [now right|assumption].
  - exists q. split; [now left|]. apply count_in_pos_inv. lia.
Qed.

Lemma popped_spec roots p :
  In p (popped roots) <-> exists r, In r roots /\ In p (subterms r).
Proof.
  unfold popped. rewrite in_app_iff, filter_In, In_dedup, in_flat_map. split.
  - intros [H|[(r & Hr & Hp) _]].
    + exists p. split; [assumption|apply subterms_self].
    + exists r. split; [assumption|]. now apply proper_subterms_spec in Hp.
  - intros (r & Hr & Hp). destruct (mem p roots) eqn:E.
    + left. now apply mem_In.
    + right. split; [|reflexivity]. exists r. split; [assumption|]. apply proper_subterms_spec.
      split; [assumption|]. intros ->. apply mem_false in E. contradiction.
Qed.

(** the count is positive exactly on the sub-expressions of the roots *)
Lemma count_uses_pos roots e :
  0 < count_uses roots e <-> exists r, In r roots /\ In e (subterms r).
Proof.
  unfold count_uses. split.
  - intros H. destruct (mem e roots) eqn:E.
    + apply mem_In in E. exists e. split; [assumption|apply subterms_self].
    + assert (Hs : 0 < fold_right (fun p acc => count_in e (children p) + acc) 0 (popped roots)) by lia.
      apply sum_pos_inv in Hs. destruct Hs as (p & Hp & Hc). apply popped_spec in Hp.
      destruct Hp as (r & Hr & Hp). exists r. split; [assumption|].
      eapply subterms_trans; [exact Hp|now apply children_subterms].
  - intros (r & Hr & He). destruct (mem e roots) eqn:E; [lia|].
    assert (Hne : e <> r) by (intros ->; apply mem_false in E; contradiction).
    destruct (proper_subterm_parent r e He Hne) as (p & Hp & Hc).
    assert (Hpop : In p (popped roots)) by (apply popped_spec; eauto).
    pose proof (sum_ge e _ p Hpop) as Hge. pose proof (count_in_pos e _ Hc). lia.
Qed.

(** ** "[x] occurs before the first occurrence of [e]" *)
Definition precedes (l : list expr) (x e : expr) : Prop :=
  exists l1 l2, l = l1 ++ e :: l2 /\ In x l1 /\ ~ In e l1.

Lemma first_split (e : expr) : forall l : list expr, In e l -> exists l1 l2, l = l1 ++ e :: l2 /\ ~ In e l1.
Proof.
  induction l as [|y r IH]; intros H; [destruct H|].
  destruct (expr_eq_dec y e) as [->|Hne].
  - exists (@nil expr), r. split; [reflexivity|intros []].
  - destruct H as [H|H]; [contradiction|]. destruct (IH H) as (l1 & l2 & -> & Hn).
    exists (y :: l1), l2. split; [reflexivity|]. intros [H'|H']; auto.
Qed.

Lemma precedes_app_l l l' x e : precedes l x e -> precedes (l ++ l') x e.
Proof. intros (l1 & l2 & -> & Hx & He). exists l1, (l2 ++ l'). split; [now rewrite <- app_assoc|auto]. Qed.

Lemma precedes_app_r l l' x e : In x l -> ~ In e l -> In e l' -> precedes (l ++ l') x e.
Proof.
  intros Hx Hne He. destruct (first_split e l' He) as (l1 & l2 & -> & Hn).
  exists (l ++ l1), l2. split; [now rewrite app_assoc|]. split; [apply in_or_app; now left|].
  intros H. apply in_app_or in H. tauto.
Qed.

Lemma precedes_filter f l x e : precedes l x e -> f x = true -> f e = true -> precedes (filter f l) x e.
Proof.
  intros (l1 & l2 & -> & Hx & He) Hfx Hfe. exists (filter f l1), (filter f l2).
  split; [rewrite filter_app; cbn [filter]; now rewrite Hfe|]. split.
  - apply filter_In. auto.
  - intros H. apply filter_In in H. tauto.
Qed.

Lemma precedes_dedup l x e : precedes l x e -> precedes (dedup l) x e.
Proof.
  intros (l1 & l2 & -> & Hx & He). unfold dedup.
  destruct (dedup_from_split e l1 l2 [] He) as [t Ht]; [intros []|].
  exists (dedup_from [] l1), t. split; [assumption|]. split.
  - apply In_dedup_from. split; [assumption|intros []].
  - intros H. apply In_dedup_from in H. tauto.
Qed.

Lemma precedes_nodup A e B x : NoDup (A ++ e :: B) -> precedes (A ++ e :: B) x e -> In x A.
Proof.
  intros Hnd (l1 & l2 & Heq & Hx & He).
  assert (HA : ~ In e A) by (apply NoDup_remove_2 in Hnd; intros H; apply Hnd; apply in_or_app; now left).
  revert l1 Heq Hx He. induction A as [|a A IH]; intros l1 Heq Hx He.
  - destruct l1 as [|b l1]; [destruct Hx|]. cbn [app] in Heq. inversion Heq; subst. exfalso. apply He. now left.
  - destruct l1 as [|b l1]; [destruct Hx|]. cbn [app] in Heq. inversion Heq; subst.
    destruct Hx as [->|Hx]; [now left|]. right.
    apply (IH ltac:(now inversion Hnd) ltac:(intros H; apply HA; now right) l1); auto.
    intros H. apply He. now right.
Qed.

(** ** the traversal *)
Lemma visit_unfold us out e st :
  visit us out e st =
  if mem e (fst st) then st else
  let st1 := fold_right (fun c acc => visit us false c acc) st (children e) in
  let has_children := match children e with [] => false | _ => true end in
  let incl := (has_children || out) && (out || (1 <? u_total (us e))) in
  (e :: fst st1, if incl then snd st1 ++ [e] else snd st1).
Proof. destruct e; reflexivity. Qed.

Definition post_ordered (ord : list expr) : Prop :=
  forall e x, In e ord -> In x ord -> In x (subterms e) -> x <> e -> precedes ord x e.

Record vinv (st : list expr * list expr) : Prop := {
  vi_closed : forall e x, In e (fst st) -> In x (subterms e) -> In x (fst st);
  vi_sub : forall x, In x (snd st) -> In x (fst st);
  vi_post : post_ordered (snd st)
}.

(** what a traversal step does, relative to the set [X] of expressions it may add *)
Record vstep (X : expr -> Prop) (st st' : list expr * list expr) : Prop := {
  vs_inv : vinv st';
  vs_mono : forall x, In x (fst st) -> In x (fst st');
  vs_new : forall x, In x (fst st') -> In x (fst st) \/ X x;
  vs_ord_mono : exists t, snd st' = snd st ++ t
}.

Lemma vstep_refl (X : expr -> Prop) st : vinv st -> vstep X st st.
Proof. intros H. split; auto. exists []. now rewrite app_nil_r. Qed.

Lemma vstep_trans (X Y Z : expr -> Prop) a b c :
  vstep X a b -> vstep Y b c -> (forall x, X x -> Z x) -> (forall x, Y x -> Z x) -> vstep Z a c.
Proof.
  intros [Hi1 Hm1 Hn1 [t1 Ho1]] [Hi2 Hm2 Hn2 [t2 Ho2]] HX HY. split; auto.
  - intros x Hx. destruct (Hn2 x Hx) as [H|H]; [|auto]. destruct (Hn1 x H); auto.
  - exists (t1 ++ t2). now rewrite Ho2, Ho1, app_assoc.
Qed.

Lemma visit_step us : forall n e out st, (size e < n)%nat -> vinv st ->
  vstep (fun x => In x (subterms e)) st (visit us out e st) /\ In e (fst (visit us out e st)).
Proof.
  induction n as [|n IH]; intros e out st Hsz Hinv; [lia|].
  rewrite visit_unfold. destruct (mem e (fst st)) eqn:Em.
  - split; [now apply vstep_refl|now apply mem_In].
  - apply mem_false in Em. cbn zeta.
    (* the children *)
    assert (Hch : forall cs, (forall c, In c cs -> In c (children e)) ->
              let st1 := fold_right (fun c acc => visit us false c acc) st cs in
              vstep (fun x => exists c, In c cs /\ In x (subterms c)) st st1 /\
              (forall c, In c cs -> In c (fst st1))).
    { induction cs as [|c r IHr]; intros Hsub; cbn [fold_right].
      - split; [now apply vstep_refl|intros c []].
      - destruct IHr as [Hs Hc]; [intros; apply Hsub; now right|].
        assert (Hcsz : (size c < n)%nat).
        { assert (Hcc : In c (children e)) by (apply Hsub; now left).
          assert (Hss : In c (subterms e)) by (now apply children_subterms).
          pose proof (child_subterms_neq c e c Hcc (subterms_self c)) as Hne.
          clear -Hsz Hcc. destruct e; cbn [children] in Hcc; cbn [size] in Hsz;
            repeat (destruct Hcc as [<-|Hcc]; [lia|]); destruct Hcc. }
        destruct (IH c false _ Hcsz (vs_inv _ _ _ Hs)) as [Hs' Hin'].
        split.
        + eapply vstep_trans; [exact Hs|exact Hs'| |].
          * intros x (c' & Hc' & Hx). exists c'. split; [now right|assumption].
          * intros x Hx. exists c. split; [now left|assumption].
        + intros c' [<-|Hc']; [assumption|]. apply (vs_mono _ _ _ Hs'). now apply Hc. }
    destruct (Hch (children e) (fun c H => H)) as [Hs Hc]. clear Hch.
    set (st1 := fold_right (fun c acc => visit us false c acc) st (children e)) in *.
    destruct Hs as [Hi1 Hm1 Hn1 [t1 Ho1]].
    assert (He1 : ~ In e (fst st1)).
    { intros H. destruct (Hn1 e H) as [H'|(c & Hcc & Hx)]; [contradiction|].
      apply (child_subterms_neq c e e Hcc Hx). reflexivity. }
    assert (Hsube : forall x, In x (subterms e) -> x = e \/ In x (fst st1)).
    { intros x Hx. destruct (expr_eq_dec x e) as [->|Hne]; [now left|]. right.
      assert (Hp : In x (proper_subterms e)) by (now apply proper_subterms_spec).
      unfold proper_subterms in Hp. apply in_flat_map in Hp. destruct Hp as (c & Hcc & Hxc).
      apply (vi_closed _ Hi1 c x); [now apply Hc|assumption]. }
    split; [|now left]. split.
    + (* invariant *)
      split; cbn [fst snd].
      * intros e0 x [<-|H0] Hx.
        -- destruct (Hsube x Hx) as [->|H]; [now left|now right].
        -- right. now apply (vi_closed _ Hi1 e0).
      * intros x Hx. destruct ((_ || out) && _) in Hx.
        -- apply in_app_or in Hx. destruct Hx as [Hx|[<-|[]]]; [right; now apply (vi_sub _ Hi1)|now left].
        -- right. now apply (vi_sub _ Hi1).
      * destruct ((_ || out) && _); [|apply (vi_post _ Hi1)].
        intros e0 x He0 Hx Hsub Hne. apply in_app_or in He0. apply in_app_or in Hx.
        assert (Heo : ~ In e (snd st1)) by (intros H; apply He1; now apply (vi_sub _ Hi1)).
        destruct He0 as [He0|[<-|[]]].
        -- destruct Hx as [Hx|[<-|[]]].
           ++ apply precedes_app_l. now apply (vi_post _ Hi1).
           ++ exfalso. apply He1. apply (vi_closed _ Hi1 e0 e); [now apply (vi_sub _ Hi1)|assumption].
        -- destruct Hx as [Hx|[<-|[]]]; [|contradiction].
           apply precedes_app_r; [assumption|assumption|now left].
    + intros x Hx. right. now apply Hm1.
    + intros x [<-|Hx]; [right; apply subterms_self|].
      destruct (Hn1 x Hx) as [H|(c & Hcc & Hxc)]; [now left|right].
      now apply (child_subterms_in c e x).
    + cbn [snd]. destruct ((_ || out) && _).
      * exists (t1 ++ [e]). now rewrite Ho1, app_assoc.
      * exists t1. exact Ho1.
Qed.
