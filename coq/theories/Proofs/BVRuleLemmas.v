(** * Proofs/BVRuleLemmas.v — the bit-vector identities behind the rewrite rules of
    patronus/src/expr/simplify.rs, stated on raw [N] values with explicit range
    hypotheses.  Pure arithmetic: no expressions here. *)
From Coq Require Import Lia.
From Patronus Require Import BV BVLemmas BVBits.
Open Scope N_scope.

(** ** one-bit values *)
Lemma bit01 v : v < 2 ^ 1 -> v = 0 \/ v = 1.
Proof. change (2 ^ 1) with 2. lia. Qed.

(** case analysis on all one-bit values in the context *)
Ltac bits01 :=
  repeat match goal with
  | H : ?c < 2 ^ 1 |- _ => destruct (bit01 c H) as [-> | ->]; clear H
  end; try reflexivity.

(** ** ite on booleans (c, t, f are 1-bit values) *)
Lemma ite_true_false c : c < 2 ^ 1 -> (if c =? 1 then 1 else 0) = c.
Proof. intros Hc. bits01. Qed.
Lemma ite_false_true c : c < 2 ^ 1 -> (if c =? 1 then 0 else 1) = bv_not 1 c.
Proof. intros Hc. bits01. Qed.
Lemma ite_true_b c f : c < 2 ^ 1 -> f < 2 ^ 1 -> (if c =? 1 then 1 else f) = bv_or c f.
Proof. intros Hc Hf. bits01. Qed.
Lemma ite_false_b c f : c < 2 ^ 1 -> f < 2 ^ 1 -> (if c =? 1 then 0 else f) = bv_and (bv_not 1 c) f.
Proof. intros Hc Hf. bits01. Qed.
Lemma ite_a_true c t : c < 2 ^ 1 -> t < 2 ^ 1 -> (if c =? 1 then t else 1) = bv_or (bv_not 1 c) t.
Proof. intros Hc Ht. bits01. Qed.
Lemma ite_a_false c t : c < 2 ^ 1 -> t < 2 ^ 1 -> (if c =? 1 then t else 0) = bv_and c t.
Proof. intros Hc Ht. bits01. Qed.

(** ** equality *)
Lemma eq_same a : bv_eq a a = 1.
Proof. unfold bv_eq. now rewrite N.eqb_refl. Qed.
Lemma eq_true_r a : a < 2 ^ 1 -> bv_eq a 1 = a.
Proof. intros Ha. bits01. Qed.
Lemma eq_true_l a : a < 2 ^ 1 -> bv_eq 1 a = a.
Proof. intros Ha. bits01. Qed.
Lemma eq_false_r a : a < 2 ^ 1 -> bv_eq a 0 = bv_not 1 a.
Proof. intros Ha. bits01. Qed.
Lemma eq_false_l a : a < 2 ^ 1 -> bv_eq 0 a = bv_not 1 a.
Proof. intros Ha. bits01. Qed.
Lemma eq_lits_differ a b : a <> b -> bv_eq a b = 0.
Proof. intros H. unfold bv_eq. now destruct (N.eqb_spec a b). Qed.
(** comparing a concatenation with [o] = comparing both halves with slices of [o] *)
Lemma eq_concat_l aw bw ca cb o :
  0 < aw -> 0 < bw -> ca < 2 ^ aw -> cb < 2 ^ bw -> o < 2 ^ (aw + bw) ->
  bv_eq (bv_concat bw ca cb) o =
  bv_and (bv_eq ca (bv_slice (aw + bw - 1) (aw + bw - aw) o)) (bv_eq cb (bv_slice (bw - 1) 0 o)).
Proof.
  intros Haw Hbw Hca Hcb Ho.
  replace (aw + bw - aw) with bw by lia.
  rewrite (slice_top (aw + bw) bw o) by (assumption || lia).
  rewrite slice_0. replace (bw - 1 + 1) with bw by lia.
  unfold bv_eq, bv_concat, bv_and.
  pose proof (N.div_mod o (2 ^ bw) (pow2_nz bw)) as E.
  pose proof (mod_bound o bw) as Hm.
  destruct (N.eqb_spec ca (o / 2 ^ bw)) as [E1|E1], (N.eqb_spec cb (o mod 2 ^ bw)) as [E2|E2];
    destruct (N.eqb_spec (ca * 2 ^ bw + cb) o) as [E3|E3]; try reflexivity; exfalso.
  - apply E3. rewrite E1, E2. lia.
  - apply E2. subst o. rewrite N.add_comm, N.mod_add by apply pow2_nz. now rewrite N.mod_small.
  - apply E1. subst o. rewrite N.add_comm, N.div_add by apply pow2_nz. rewrite N.div_small by assumption. reflexivity.
  - apply E1. subst o. rewrite N.add_comm, N.div_add by apply pow2_nz. rewrite N.div_small by assumption. reflexivity.
Qed.
Lemma eq_concat_r aw bw ca cb o :
  0 < aw -> 0 < bw -> ca < 2 ^ aw -> cb < 2 ^ bw -> o < 2 ^ (aw + bw) ->
  bv_eq o (bv_concat bw ca cb) =
  bv_and (bv_eq ca (bv_slice (aw + bw - 1) (aw + bw - aw) o)) (bv_eq cb (bv_slice (bw - 1) 0 o)).
Proof.
  intros. rewrite <- eq_concat_l by assumption. unfold bv_eq. now rewrite N.eqb_sym.
Qed.

(** ** and / or / xor *)
Lemma and_ones_r w a : a < 2 ^ w -> bv_and a (N.ones w) = a.
Proof. intros Ha. unfold bv_and. bitwise i. tb_finish. Qed.
Lemma and_ones_l w a : a < 2 ^ w -> bv_and (N.ones w) a = a.
Proof. intros Ha. unfold bv_and. bitwise i. tb_finish. Qed.
Lemma or_ones_r w a : a < 2 ^ w -> bv_or a (N.ones w) = N.ones w.
Proof. intros Ha. unfold bv_or. bitwise i. tb_finish. Qed.
Lemma or_ones_l w a : a < 2 ^ w -> bv_or (N.ones w) a = N.ones w.
Proof. intros Ha. unfold bv_or. bitwise i. tb_finish. Qed.
Lemma xor_ones_r w a : bv_xor a (N.ones w) = bv_not w a.
Proof. reflexivity. Qed.
Lemma xor_ones_l w a : bv_xor (N.ones w) a = bv_not w a.
Proof. unfold bv_xor, bv_not, N.lnot. apply N.lxor_comm. Qed.
Lemma and_not_self_l w a : a < 2 ^ w -> bv_and (bv_not w a) a = 0.
Proof. intros Ha. unfold bv_and, bv_not. bitwise i. tb_finish. Qed.
Lemma and_not_self_r w a : a < 2 ^ w -> bv_and a (bv_not w a) = 0.
Proof. intros Ha. unfold bv_and, bv_not. bitwise i. tb_finish. Qed.
Lemma or_not_self_l w a : a < 2 ^ w -> bv_or (bv_not w a) a = N.ones w.
Proof. intros Ha. unfold bv_or, bv_not. bitwise i. tb_finish. Qed.
Lemma or_not_self_r w a : a < 2 ^ w -> bv_or a (bv_not w a) = N.ones w.
Proof. intros Ha. unfold bv_or, bv_not. bitwise i. tb_finish. Qed.
Lemma xor_not_self_l w a : a < 2 ^ w -> bv_xor (bv_not w a) a = N.ones w.
Proof. intros Ha. unfold bv_xor, bv_not. bitwise i. tb_finish. Qed.
Lemma xor_not_self_r w a : a < 2 ^ w -> bv_xor a (bv_not w a) = N.ones w.
Proof. intros Ha. unfold bv_xor, bv_not. bitwise i. tb_finish. Qed.
Lemma demorgan_and w a b : a < 2 ^ w -> b < 2 ^ w ->
  bv_and (bv_not w a) (bv_not w b) = bv_not w (bv_or a b).
Proof. intros Ha Hb. unfold bv_and, bv_or, bv_not. bitwise i. tb_finish. Qed.
Lemma demorgan_or w a b : a < 2 ^ w -> b < 2 ^ w ->
  bv_or (bv_not w a) (bv_not w b) = bv_not w (bv_and a b).
Proof. intros Ha Hb. unfold bv_and, bv_or, bv_not. bitwise i. tb_finish. Qed.
Lemma not_not w a : a < 2 ^ w -> bv_not w (bv_not w a) = a.
Proof. intros Ha. unfold bv_not. bitwise i. tb_finish. Qed.
(** (ca # cb) & m  =  (ca & m[hi..bw]) # (cb & m[bw-1..0]) *)
Lemma and_concat_mask aw bw ca cb m :
  0 < aw -> 0 < bw -> ca < 2 ^ aw -> cb < 2 ^ bw -> m < 2 ^ (aw + bw) ->
  bv_and (bv_concat bw ca cb) m =
  bv_concat bw (bv_and ca (bv_slice (aw + bw - 1) bw m)) (bv_and cb (bv_slice (bw - 1) 0 m)).
Proof.
  intros Haw Hbw Hca Hcb Hm. unfold bv_and.
  apply N.bits_inj; intros i.
  rewrite N.land_spec, !testbit_concat by (assumption || now apply land_bound).
  tb_rewrite. tb_finish.
Qed.
Lemma and_mask_concat aw bw ca cb m :
  0 < aw -> 0 < bw -> ca < 2 ^ aw -> cb < 2 ^ bw -> m < 2 ^ (aw + bw) ->
  bv_and m (bv_concat bw ca cb) =
  bv_concat bw (bv_and ca (bv_slice (aw + bw - 1) bw m)) (bv_and cb (bv_slice (bw - 1) 0 m)).
Proof.
  intros. rewrite <- (and_concat_mask aw) by assumption. apply N.land_comm.
Qed.

(** ** unsigned >= *)
Lemma uge_ones_l w b : b < 2 ^ w -> bv_uge (N.ones w) b = 1.
Proof.
  intros Hb. unfold bv_uge. rewrite N.ones_equiv.
  destruct (N.leb_spec b (N.pred (2 ^ w))); [reflexivity | lia].
Qed.
Lemma uge_zero_r a : bv_uge a 0 = 1.
Proof. unfold bv_uge. destruct (N.leb_spec 0 a); [reflexivity | lia]. Qed.
Lemma uge_ones_r w a : a < 2 ^ w -> bv_uge a (N.ones w) = bv_eq a (N.ones w).
Proof.
  intros Ha. unfold bv_uge, bv_eq. rewrite N.ones_equiv.
  destruct (N.leb_spec (N.pred (2 ^ w)) a), (N.eqb_spec a (N.pred (2 ^ w))); trivial; lia.
Qed.

(** ** extensions *)
Lemma zext_as_concat we a : bv_zext a = bv_concat we 0 a.
Proof. reflexivity. Qed.
Lemma sext_sext w by1 by2 a : 0 < w -> a < 2 ^ w ->
  bv_sext (w + by1) by2 (bv_sext w by1 a) = bv_sext w (by2 + by1) a.
Proof.
  intros Hw Ha. apply N.bits_inj; intros i.
  rewrite testbit_sext by (now apply bv_sext_bound).
  rewrite !testbit_sext by assumption.
  tb_finish.
Qed.

(** ** concat *)
Lemma concat_assoc wb wc a b c :
  bv_concat wc (bv_concat wb a b) c = bv_concat (wb + wc) a (bv_concat wc b c).
Proof. unfold bv_concat. rewrite N.pow_add_r. lia. Qed.
(** x[hi_a .. hi_b+1] # x[hi_b .. lo_b] = x[hi_a .. lo_b] *)
Lemma concat_adjacent_slices x hi_a hi_b lo_b :
  lo_b <= hi_b -> hi_b + 1 <= hi_a ->
  bv_concat (hi_b - lo_b + 1) (bv_slice hi_a (hi_b + 1) x) (bv_slice hi_b lo_b x) = bv_slice hi_a lo_b x.
Proof.
  intros H1 H2. apply N.bits_inj; intros i.
  rewrite testbit_concat by apply bv_slice_bound.
  tb_rewrite. tb_finish.
Qed.

(** ** slices *)
Lemma slice_full w a : 0 < w -> a < 2 ^ w -> bv_slice (w - 1) 0 a = a.
Proof.
  intros Hw Ha. rewrite slice_0. replace (w - 1 + 1) with w by lia. now apply N.mod_small.
Qed.
Lemma slice_slice hi lo ihi ilo x :
  lo <= hi -> ilo <= ihi -> hi <= ihi - ilo ->
  bv_slice hi lo (bv_slice ihi ilo x) = bv_slice (hi + ilo) (lo + ilo) x.
Proof. intros H1 H2 H3. bitwise i. tb_finish. Qed.
Lemma slice_concat_low bw a b hi lo : lo <= hi -> hi < bw -> b < 2 ^ bw ->
  bv_slice hi lo (bv_concat bw a b) = bv_slice hi lo b.
Proof.
  intros H1 H2 Hb. bitwise i. rewrite testbit_concat by assumption. tb_finish.
Qed.
Lemma slice_concat_high bw a b hi lo : lo <= hi -> bw <= lo -> b < 2 ^ bw ->
  bv_slice hi lo (bv_concat bw a b) = bv_slice (hi - bw) (lo - bw) a.
Proof.
  intros H1 H2 Hb. bitwise i. rewrite testbit_concat by assumption. tb_finish.
Qed.
Lemma slice_concat_both bw a b hi lo : lo < bw -> bw <= hi -> b < 2 ^ bw ->
  bv_slice hi lo (bv_concat bw a b) =
  bv_concat (bw - 1 - lo + 1) (bv_slice (hi - bw) 0 a) (bv_slice (bw - 1) lo b).
Proof.
  intros H1 H2 Hb. apply N.bits_inj; intros i.
  rewrite (testbit_concat (bw - 1 - lo + 1)) by apply bv_slice_bound.
  tb_rewrite. rewrite testbit_concat by assumption. tb_finish.
Qed.
Lemma slice_sext_low ew by_ x hi lo : lo <= hi -> hi < ew ->
  bv_slice hi lo (bv_sext ew by_ x) = bv_slice hi lo x.
Proof.
  intros H1 H2. bitwise i. unfold bv_sext. destruct (msb ew x); [|reflexivity].
  destruct (N.leb_spec i (hi - lo)); [|reflexivity]. cbn [andb].
  apply testbit_add_mul_pow2_low. lia.
Qed.
Lemma slice_sext_high ew by_ x hi lo : 0 < ew -> x < 2 ^ ew -> ew <= lo -> lo <= hi -> hi < ew + by_ ->
  bv_slice hi lo (bv_sext ew by_ x) = bv_sext 1 (hi - lo) (bv_slice (ew - 1) (ew - 1) x).
Proof.
  intros Hew Hx H1 H2 H3. apply N.bits_inj; intros i.
  assert (Hs : bv_slice (ew - 1) (ew - 1) x < 2 ^ 1).
  { pose proof (bv_slice_bound (ew - 1) (ew - 1) x) as Hs.
    now replace (ew - 1 - (ew - 1) + 1) with 1 in Hs by lia. }
  rewrite (testbit_sext 1) by assumption.
  tb_rewrite. rewrite testbit_sext by assumption. tb_finish.
Qed.
Lemma slice_sext_both ew by_ x hi lo : 0 < ew -> x < 2 ^ ew -> lo < ew -> ew <= hi -> hi < ew + by_ ->
  bv_slice hi lo (bv_sext ew by_ x) = bv_sext (ew - 1 - lo + 1) (hi - ew + 1) (bv_slice (ew - 1) lo x).
Proof.
  intros Hew Hx H1 H2 H3. apply N.bits_inj; intros i.
  rewrite (testbit_sext (ew - 1 - lo + 1)) by apply bv_slice_bound.
  tb_rewrite. rewrite testbit_sext by assumption. tb_finish.
Qed.
Lemma slice_not w x hi lo : x < 2 ^ w -> lo <= hi -> hi < w ->
  bv_slice hi lo (bv_not w x) = bv_not (hi - lo + 1) (bv_slice hi lo x).
Proof. intros Hx H1 H2. unfold bv_not. bitwise i. tb_finish. Qed.
Lemma slice_neg w x hi : hi < w ->
  bv_slice hi 0 (bv_neg w x) = bv_neg (hi - 0 + 1) (bv_slice hi 0 x).
Proof.
  intros H. rewrite !slice_0, N.sub_0_r, bv_neg_mod. apply neg_mod_pow2. lia.
Qed.
Lemma slice_and a b hi lo : bv_slice hi lo (bv_and a b) = bv_and (bv_slice hi lo a) (bv_slice hi lo b).
Proof. unfold bv_and. bitwise i. tb_finish. Qed.
Lemma slice_or a b hi lo : bv_slice hi lo (bv_or a b) = bv_or (bv_slice hi lo a) (bv_slice hi lo b).
Proof. unfold bv_or. bitwise i. tb_finish. Qed.
Lemma slice_xor a b hi lo : bv_slice hi lo (bv_xor a b) = bv_xor (bv_slice hi lo a) (bv_slice hi lo b).
Proof. unfold bv_xor. bitwise i. tb_finish. Qed.
Lemma slice_add w a b hi : hi < w ->
  bv_slice hi 0 (bv_add w a b) = bv_add (hi - 0 + 1) (bv_slice hi 0 a) (bv_slice hi 0 b).
Proof.
  intros H. rewrite !slice_0, N.sub_0_r. unfold bv_add.
  rewrite mod_mod_pow2 by lia. apply N.add_mod, pow2_nz.
Qed.
Lemma slice_sub w a b hi : hi < w ->
  bv_slice hi 0 (bv_sub w a b) = bv_sub (hi - 0 + 1) (bv_slice hi 0 a) (bv_slice hi 0 b).
Proof.
  intros H. rewrite !slice_0, N.sub_0_r. unfold bv_sub.
  rewrite mod_mod_pow2 by lia. rewrite bv_neg_mod.
  rewrite N.add_mod by apply pow2_nz. rewrite neg_mod_pow2 by lia.
  reflexivity.
Qed.
Lemma slice_mul w a b hi : hi < w ->
  bv_slice hi 0 (bv_mul w a b) = bv_mul (hi - 0 + 1) (bv_slice hi 0 a) (bv_slice hi 0 b).
Proof.
  intros H. rewrite !slice_0, N.sub_0_r. unfold bv_mul.
  rewrite mod_mod_pow2 by lia. apply N.mul_mod, pow2_nz.
Qed.

(** ** shifts by a constant amount [k] *)
Lemma shl_zero w a : a < 2 ^ w -> bv_shl w a 0 = a.
Proof.
  intros Ha. unfold bv_shl. destruct (N.ltb_spec 0 w) as [H|H].
  - rewrite N.pow_0_r, N.mul_1_r. now apply N.mod_small.
  - assert (w = 0) by lia. subst w. rewrite N.pow_0_r in Ha. lia.
Qed.
Lemma lshr_zero w a : 0 < w -> bv_lshr w a 0 = a.
Proof.
  intros Hw. unfold bv_lshr. destruct (N.ltb_spec 0 w); [|lia].
  now rewrite N.pow_0_r, N.div_1_r.
Qed.
Lemma ashr_zero w a : 0 < w -> a < 2 ^ w -> bv_ashr w a 0 = a.
Proof.
  intros Hw Ha. unfold bv_ashr. rewrite !lshr_zero by assumption.
  destruct (msb w a); [now apply not_not | reflexivity].
Qed.
Lemma shl_big w a k : w <= k -> bv_shl w a k = 0.
Proof. intros H. unfold bv_shl. destruct (N.ltb_spec k w); [lia | reflexivity]. Qed.
Lemma lshr_big w a k : w <= k -> bv_lshr w a k = 0.
Proof. intros H. unfold bv_lshr. destruct (N.ltb_spec k w); [lia | reflexivity]. Qed.
Lemma slice_bit_bound n x : bv_slice n n x < 2 ^ 1.
Proof.
  pose proof (bv_slice_bound n n x) as Hs.
  now replace (n - n + 1) with 1 in Hs by lia.
Qed.
Lemma ashr_big w a k : 0 < w -> a < 2 ^ w -> w <= k ->
  bv_ashr w a k = bv_sext 1 (w - 1) (bv_slice (w - 1) (w - 1) a).
Proof.
  intros Hw Ha Hk. unfold bv_ashr. rewrite !lshr_big by assumption.
  apply N.bits_inj; intros i.
  rewrite (testbit_sext 1) by apply slice_bit_bound.
  unfold msb, bv_not. destruct (N.testbit a (w - 1)) eqn:E; tb_rewrite; tb_finish.
Qed.
Lemma shl_const w a k : a < 2 ^ w -> 0 < k -> k < w ->
  bv_shl w a k = bv_concat k (bv_slice (w - 1 - k) 0 a) 0.
Proof.
  intros Ha Hk Hkw. unfold bv_shl, bv_concat. destruct (N.ltb_spec k w); [|lia].
  rewrite slice_0, N.add_0_r. replace (w - 1 - k + 1) with (w - k) by lia.
  rewrite (pow2_split k w) by lia. rewrite (N.mul_comm (2 ^ k)).
  apply N.mul_mod_distr_r; apply pow2_nz.
Qed.
Lemma lshr_const w a k : a < 2 ^ w -> 0 < k -> k < w ->
  bv_lshr w a k = bv_zext (bv_slice (w - 1) k a).
Proof.
  intros Ha Hk Hkw. unfold bv_lshr, bv_zext. destruct (N.ltb_spec k w); [|lia].
  now rewrite slice_top.
Qed.
Lemma ashr_const w a k : a < 2 ^ w -> 0 < k -> k < w ->
  bv_ashr w a k = bv_sext (w - 1 - k + 1) k (bv_slice (w - 1) k a).
Proof.
  intros Ha Hk Hkw. apply N.bits_inj; intros i.
  rewrite testbit_sext by apply bv_slice_bound.
  unfold bv_ashr, bv_lshr, msb, bv_not. destruct (N.ltb_spec k w); [|lia].
  destruct (N.testbit a (w - 1)) eqn:E; tb_rewrite; tb_finish.
Qed.

(** ** add / mul *)
Lemma add_1bit a b : a < 2 ^ 1 -> b < 2 ^ 1 -> bv_add 1 a b = bv_xor a b.
Proof. intros Ha Hb. bits01. Qed.
Lemma add_zero_l w a : a < 2 ^ w -> bv_add w 0 a = a.
Proof. intros Ha. unfold bv_add. rewrite N.add_0_l. now apply N.mod_small. Qed.
Lemma add_zero_r w a : a < 2 ^ w -> bv_add w a 0 = a.
Proof. intros Ha. unfold bv_add. rewrite N.add_0_r. now apply N.mod_small. Qed.
Lemma mul_1bit a b : a < 2 ^ 1 -> b < 2 ^ 1 -> bv_mul 1 a b = bv_and a b.
Proof. intros Ha Hb. bits01. Qed.
Lemma mul_zero_l w a : bv_mul w 0 a = 0.
Proof. unfold bv_mul. rewrite N.mul_0_l. apply N.mod_0_l, pow2_nz. Qed.
Lemma mul_zero_r w a : bv_mul w a 0 = 0.
Proof. unfold bv_mul. rewrite N.mul_0_r. apply N.mod_0_l, pow2_nz. Qed.
Lemma mul_one_l w a : a < 2 ^ w -> bv_mul w 1 a = a.
Proof. intros Ha. unfold bv_mul. rewrite N.mul_1_l. now apply N.mod_small. Qed.
Lemma mul_one_r w a : a < 2 ^ w -> bv_mul w a 1 = a.
Proof. intros Ha. unfold bv_mul. rewrite N.mul_1_r. now apply N.mod_small. Qed.
Lemma mul_pow2_r w a k : 2 ^ k < 2 ^ w -> bv_mul w a (2 ^ k) = bv_shl w a k.
Proof.
  intros H. apply pow2_lt_inv in H. unfold bv_mul, bv_shl.
  destruct (N.ltb_spec k w); [reflexivity | lia].
Qed.
Lemma mul_pow2_l w a k : 2 ^ k < 2 ^ w -> bv_mul w (2 ^ k) a = bv_shl w a k.
Proof.
  intros H. rewrite <- mul_pow2_r by assumption. unfold bv_mul. now rewrite N.mul_comm.
Qed.

(** ** the mask rule:  x & m  =  concatenation of zero gaps and slices of x, one slice per
    maximal run of one-bits of m.

    [intervals_aux]/[bit_set_intervals] are copied here from Model/Simplify.v (same text) so
    that this file does not depend on the model; [mask_pieces_sem] is the value-level mirror of
    [Simplify.mask_pieces]: a low-first list of (width, value) pieces. *)
Fixpoint intervals_aux (n : nat) (pos : N) (v : N) (cur : option N) : list (N * N) :=
  match n with
  | O => match cur with Some s => [(s, pos)] | None => [] end
  | S n' =>
      if N.testbit v pos
      then intervals_aux n' (pos + 1) v (Some (match cur with Some s => s | None => pos end))
      else match cur with
           | Some s => (s, pos) :: intervals_aux n' (pos + 1) v None
           | None => intervals_aux n' (pos + 1) v None
           end
  end.
Definition bit_set_intervals (w v : N) : list (N * N) := intervals_aux (N.to_nat w) 0 v None.

Fixpoint mask_pieces_sem (x : N) (ivs : list (N * N)) (bit : N) : list (N * N) * N :=
  match ivs with
  | [] => ([], bit)
  | (s, e) :: rest =>
      let gap := if bit <? s then [(s - bit, 0)] else [] in
      let '(more, last) := mask_pieces_sem x rest e in
      (gap ++ (e - 1 - s + 1, bv_slice (e - 1) s x) :: more, last)
  end.

(** value and total width of a low-first list of pieces *)
Fixpoint pieces_val (ps : list (N * N)) : N :=
  match ps with [] => 0 | (w, v) :: rest => v + 2 ^ w * pieces_val rest end.
Fixpoint pieces_width (ps : list (N * N)) : N :=
  match ps with [] => 0 | (w, _) :: rest => w + pieces_width rest end.

Definition mask_all_pieces (w x m : N) : list (N * N) :=
  let '(ps, bit) := mask_pieces_sem x (bit_set_intervals w m) 0 in
  if bit <? w then ps ++ [(w - bit, 0)] else ps.

(** *** the interval lists produced by [intervals_aux] *)

(** [zeros v lo hi] / [all_set v lo hi]: every bit of [v] in [lo, hi) is clear / set *)
Definition zeros (v lo hi : N) : Prop := forall j, lo <= j -> j < hi -> N.testbit v j = false.
Definition all_set (v lo hi : N) : Prop := forall j, lo <= j -> j < hi -> N.testbit v j = true.

(** [good v hi bit ivs]: [ivs] lists, in ascending order, exactly the maximal-or-not runs of
    one-bits of [v] inside [bit, hi): non-empty intervals, clear bits in between and after *)
Fixpoint good (v hi bit : N) (ivs : list (N * N)) : Prop :=
  match ivs with
  | [] => bit <= hi /\ zeros v bit hi
  | (s, e) :: rest =>
      bit <= s /\ s < e /\ e <= hi /\ zeros v bit s /\ all_set v s e /\ good v hi e rest
  end.

Lemma zeros_snoc v lo pos : lo <= pos -> zeros v lo pos -> N.testbit v pos = false ->
  zeros v lo (pos + 1).
Proof.
  intros Hle Hz Hb j H1 H2. destruct (N.eq_dec j pos) as [->|Hne]; [assumption|].
  apply Hz; lia.
Qed.

Lemma all_set_snoc v lo pos : all_set v lo pos -> N.testbit v pos = true ->
  all_set v lo (pos + 1).
Proof.
  intros Hz Hb j H1 H2. destruct (N.eq_dec j pos) as [->|Hne]; [assumption|].
  apply Hz; lia.
Qed.

Lemma intervals_aux_good v n : forall pos cur bit,
  match cur with
  | None => bit <= pos /\ zeros v bit pos
  | Some s => bit <= s /\ s < pos /\ zeros v bit s /\ all_set v s pos
  end ->
  good v (pos + N.of_nat n) bit (intervals_aux n pos v cur).
Proof.
  induction n as [|n IH]; intros pos cur bit Hpre.
  - cbn [intervals_aux N.of_nat]. rewrite N.add_0_r. destruct cur as [s|].
    + destruct Hpre as (H1 & H2 & H3 & H4). cbn [good].
      repeat split; try assumption; try lia. intros j Hj1 Hj2. lia.
    + destruct Hpre as (H1 & H2). cbn [good]. split; assumption.
  - replace (pos + N.of_nat (S n)) with (pos + 1 + N.of_nat n) by lia.
    cbn [intervals_aux]. destruct (N.testbit v pos) eqn:Eb.
    + apply IH. destruct cur as [s|].
      * destruct Hpre as (H1 & H2 & H3 & H4).
        repeat split; try assumption; try lia. now apply all_set_snoc.
      * destruct Hpre as (H1 & H2).
        repeat split; try assumption; try lia.
        intros j Hj1 Hj2. replace j with pos by lia. assumption.
    + destruct cur as [s|].
      * destruct Hpre as (H1 & H2 & H3 & H4). cbn [good].
        repeat split; try assumption; try lia.
        apply IH. split; [lia|].
        intros j Hj1 Hj2. replace j with pos by lia. assumption.
      * destruct Hpre as (H1 & H2). apply IH. split; [lia|].
        now apply zeros_snoc.
Qed.

Lemma bit_set_intervals_good w m : good m w 0 (bit_set_intervals w m).
Proof.
  unfold bit_set_intervals.
  pose proof (intervals_aux_good m (N.to_nat w) 0 None 0) as H.
  rewrite N2Nat.id, N.add_0_l in H. apply H.
  split; [lia|]. intros j Hj1 Hj2. lia.
Qed.

Lemma good_wf v hi : forall ivs bit, good v hi bit ivs ->
  Forall (fun iv => fst iv < snd iv /\ snd iv <= hi) ivs.
Proof.
  induction ivs as [|[s e] rest IH]; intros bit Hg; constructor.
  - cbn [good] in Hg. cbn [fst snd]. lia.
  - cbn [good] in Hg. apply (IH e). tauto.
Qed.

(** *** pieces *)
Definition piece_ok (p : N * N) : Prop := 0 < fst p /\ snd p < 2 ^ fst p.

Lemma pieces_val_app ps qs :
  pieces_val (ps ++ qs) = pieces_val ps + 2 ^ pieces_width ps * pieces_val qs.
Proof.
  induction ps as [|[w v] ps IH]; cbn [app pieces_val pieces_width].
  - rewrite N.pow_0_r. lia.
  - rewrite IH, N.pow_add_r. lia.
Qed.

Lemma pieces_width_app ps qs : pieces_width (ps ++ qs) = pieces_width ps + pieces_width qs.
Proof.
  induction ps as [|[w v] ps IH]; cbn [app pieces_width]; [reflexivity|]. rewrite IH. lia.
Qed.

(** the pieces built from a good interval list spell out [x & v] between [bit] and [last] *)
Lemma mask_pieces_sem_good x v hi : forall ivs bit, good v hi bit ivs ->
  forall ps last, mask_pieces_sem x ivs bit = (ps, last) ->
  bit <= last /\ last <= hi /\ zeros v last hi /\
  pieces_width ps = last - bit /\ Forall piece_ok ps /\
  pieces_val ps = (N.land x v / 2 ^ bit) mod 2 ^ (last - bit).
Proof.
  induction ivs as [|[s e] rest IH]; intros bit Hg ps last E.
  - cbn [mask_pieces_sem] in E. injection E as <- <-. cbn [good] in Hg. destruct Hg as [Hle Hg].
    repeat split; try assumption; try lia.
    + cbn [pieces_width]. lia.
    + constructor.
    + cbn [pieces_val]. rewrite N.sub_diag, N.pow_0_r, N.mod_1_r. reflexivity.
  - cbn [good] in Hg. destruct Hg as (H1 & H2 & H3 & Hz & Ho & Hg).
    cbn [mask_pieces_sem] in E.
    destruct (mask_pieces_sem x rest e) as [more last'] eqn:E'.
    injection E as <- <-.
    destruct (IH e Hg more last' E') as (I1 & I2 & I3 & I4 & I5 & I6).
    set (R := bv_slice (e - 1) s x + 2 ^ (e - 1 - s + 1) * pieces_val more).
    assert (HR : R = (N.land x v / 2 ^ s) mod 2 ^ (last' - s)).
    { unfold R. rewrite I6. apply N.bits_inj; intros i.
      rewrite testbit_piece by apply bv_slice_bound.
      tb_rewrite. tb_cases; try lia.
      - rewrite (Ho (i + s)) by lia. tb_finish.
      - cbn [andb]. tb_unify. reflexivity. }
    repeat split; try assumption; try lia.
    + rewrite pieces_width_app. cbn [pieces_width]. rewrite I4.
      destruct (N.ltb_spec bit s); cbn [pieces_width]; lia.
    + apply Forall_app. split.
      * destruct (N.ltb_spec bit s); constructor; [|constructor].
        unfold piece_ok; cbn [fst snd]. split; [lia|apply pow2_pos].
      * constructor; [|assumption].
        unfold piece_ok; cbn [fst snd]. split; [lia|apply bv_slice_bound].
    + rewrite pieces_val_app. cbn [pieces_val]. fold R. rewrite HR.
      destruct (N.ltb_spec bit s) as [Hlt|Hge]; cbn [pieces_val pieces_width].
      * rewrite N.add_0_r. apply N.bits_inj; intros i.
        rewrite N.mul_0_r, N.add_0_l.
        rewrite <- (N.add_0_l (2 ^ (s - bit) * _)).
        rewrite testbit_piece by apply pow2_pos.
        tb_rewrite. tb_cases; try lia; cbn [andb].
        -- rewrite (Hz (i + bit)) by lia. now rewrite Bool.andb_false_r.
        -- tb_unify. reflexivity.
      * assert (s = bit) by lia. subst s. rewrite N.pow_0_r. lia.
Qed.

(** every interval is non-empty, they are ascending, disjoint, separated, and within [0, w) *)
Lemma mask_expand w x m : x < 2 ^ w -> m < 2 ^ w ->
  pieces_val (mask_all_pieces w x m) = bv_and x m /\
  pieces_width (mask_all_pieces w x m) = w /\
  Forall (fun p => 0 < fst p /\ snd p < 2 ^ fst p) (mask_all_pieces w x m).
Proof.
  intros Hx Hm. unfold mask_all_pieces.
  destruct (mask_pieces_sem x (bit_set_intervals w m) 0) as [ps last] eqn:E.
  destruct (mask_pieces_sem_good x m w _ 0 (bit_set_intervals_good w m) ps last E)
    as (I1 & I2 & I3 & I4 & I5 & I6).
  rewrite N.pow_0_r, N.div_1_r, N.sub_0_r in I6. rewrite N.sub_0_r in I4.
  assert (Hland : N.land x m mod 2 ^ last = N.land x m).
  { apply N.mod_small. apply bound_bits. intros i Hi.
    rewrite N.land_spec. destruct (N.lt_ge_cases i w) as [Hlt|Hge].
    - rewrite (I3 i) by lia. apply Bool.andb_false_r.
    - rewrite (bits_bound m w i) by assumption. apply Bool.andb_false_r. }
  unfold bv_and. destruct (N.ltb_spec last w) as [Hlt|Hge].
  - repeat split.
    + rewrite pieces_val_app. cbn [pieces_val]. rewrite I6, Hland. lia.
    + rewrite pieces_width_app. cbn [pieces_width]. lia.
    + apply Forall_app. split; [exact I5|]. constructor; [|constructor].
      cbn [fst snd]. split; [lia|apply pow2_pos].
  - repeat split.
    + now rewrite I6.
    + lia.
    + exact I5.
Qed.
(** and each slice piece is a slice of x that lies inside x: used for well-typedness *)
Lemma intervals_wf w m : m < 2 ^ w ->
  Forall (fun iv => fst iv < snd iv /\ snd iv <= w) (bit_set_intervals w m).
Proof. intros _. apply (good_wf m w _ 0), bit_set_intervals_good. Qed.

(** ** is_pow_2 *)
Definition lit_is_pow_2 (v : N) : option N :=
  if v =? 0 then None else if v =? 2 ^ N.log2 v then Some (N.log2 v) else None.
Lemma lit_is_pow_2_spec v k : lit_is_pow_2 v = Some k -> v = 2 ^ k.
Proof.
  unfold lit_is_pow_2. destruct (v =? 0); [discriminate|].
  destruct (N.eqb_spec v (2 ^ N.log2 v)) as [E|E]; [|discriminate].
  intros [= <-]. exact E.
Qed.
