(** * Proofs/BddCanonProofs.v — the guards of the model are canonical.

    Every guard the model ever builds is a reduced ordered BDD tree ([good]), and two such
    trees that agree under every valuation are the same tree.  Hence the model's guard
    equality (used by the common-guard fast path of [apply_bin_op], [is_true], [is_false])
    is equality of Boolean functions - the contract of [boolean_expression::BDD] node
    numbers. *)
From Coq Require Import Lia Arith.
From Patronus Require Import GuardSem BddProofs GuardProofs SummaryProofs CoalesceProofs IteImportProofs HistoryProofs.
Open Scope nat_scope.

Fixpoint ord (lo : nat) (g : bdd) : Prop :=
  match g with
  | BLeaf _ => True
  | BNode x l h => lo <= x /\ ord (S x) l /\ ord (S x) h
  end.

Fixpoint red (g : bdd) : Prop :=
  match g with
  | BLeaf _ => True
  | BNode _ l h => l <> h /\ red l /\ red h
  end.

Definition good (g : bdd) : Prop := ord 0 g /\ red g.

Lemma ord_weaken lo lo' g : lo' <= lo -> ord lo g -> ord lo' g.
Proof. destruct g; cbn; [trivial |]. intros H (H1 & H2 & H3). repeat split; try assumption. lia. Qed.

Definition upd (v : nat -> bool) (x : nat) (c : bool) : nat -> bool :=
  fun y => if Nat.eqb y x then c else v y.

Lemma eval_indep g : forall lo v v', ord lo g -> (forall x, lo <= x -> v x = v' x) ->
  bdd_eval v g = bdd_eval v' g.
Proof.
  induction g as [b | x l IHl h IHh]; intros lo v v' Ho Hv; [reflexivity |].
  cbn in *. destruct Ho as (Hx & Hl & Hh). rewrite (Hv x Hx).
  rewrite (IHl (S x) v v' Hl), (IHh (S x) v v' Hh); try reflexivity; intros y Hy; apply Hv; lia.
Qed.

Lemma eval_upd_above x g v c : ord (S x) g -> bdd_eval (upd v x c) g = bdd_eval v g.
Proof.
  intros Ho. apply (eval_indep g (S x)); [assumption |]. intros y Hy. unfold upd.
  destruct (Nat.eqb y x) eqn:E; [apply Nat.eqb_eq in E; lia | reflexivity].
Qed.

Lemma eval_upd_node x l h v c :
  bdd_eval (upd v x c) (BNode x l h) = if c then bdd_eval (upd v x c) h else bdd_eval (upd v x c) l.
Proof. cbn. unfold upd at 1. now rewrite Nat.eqb_refl. Qed.

Fixpoint size (g : bdd) : nat :=
  match g with BLeaf _ => 0 | BNode _ l h => S (size l + size h) end.

(** a node whose both children are below it and that is constant has equal children *)
Lemma canon_aux n : forall a b lo,
  size a + size b <= n -> ord lo a -> red a -> ord lo b -> red b ->
  (forall v, bdd_eval v a = bdd_eval v b) -> a = b.
Proof.
  induction n as [| n IH]; intros a b lo Hs Hoa Hra Hob Hrb He.
  - destruct a, b; cbn in Hs; try lia. f_equal. exact (He (fun _ => false)).
  - destruct a as [x | xa al ah], b as [y | xb bl bh].
    + f_equal. exact (He (fun _ => false)).
    + (* constant = node: the children of the node would be equal *)
      exfalso. cbn in Hob, Hrb, Hs. destruct Hob as (_ & Hol & Hoh). destruct Hrb as (Hne & Hrl & Hrh).
      apply Hne. apply (IH bl bh (S xb)); try assumption; [lia |].
      intros v.
      rewrite <- (eval_upd_above xb bl v false Hol), <- (eval_upd_above xb bh v true Hoh).
      pose proof (He (upd v xb false)) as E1. pose proof (He (upd v xb true)) as E2.
      rewrite eval_upd_node in E1, E2. cbn [bdd_eval] in E1, E2. congruence.
    + exfalso. cbn in Hoa, Hra, Hs. destruct Hoa as (_ & Hol & Hoh). destruct Hra as (Hne & Hrl & Hrh).
      apply Hne. apply (IH al ah (S xa)); try assumption; [lia |].
      intros v.
      rewrite <- (eval_upd_above xa al v false Hol), <- (eval_upd_above xa ah v true Hoh).
      pose proof (He (upd v xa false)) as E1. pose proof (He (upd v xa true)) as E2.
      rewrite eval_upd_node in E1, E2. cbn [bdd_eval] in E1, E2. congruence.
    + cbn in Hoa, Hra, Hob, Hrb, Hs.
      destruct Hoa as (Hxa & Hoal & Hoah). destruct Hra as (Hnea & Hral & Hrah).
      destruct Hob as (Hxb & Hobl & Hobh). destruct Hrb as (Hneb & Hrbl & Hrbh).
      destruct (Nat.lt_trichotomy xa xb) as [Hlt | [Heq | Hgt]].
      * (* b does not depend on xa: both children of a equal b *)
        exfalso. apply Hnea.
        assert (Hob' : ord (S xa) (BNode xb bl bh)) by (cbn; repeat split; try assumption; lia).
        apply (IH al ah (S xa)); try assumption; [lia |].
        intros v.
        rewrite <- (eval_upd_above xa al v false Hoal), <- (eval_upd_above xa ah v true Hoah).
        pose proof (He (upd v xa false)) as E1. pose proof (He (upd v xa true)) as E2.
        rewrite eval_upd_node in E1, E2.
        rewrite (eval_upd_above xa _ v false Hob') in E1. rewrite (eval_upd_above xa _ v true Hob') in E2.
        congruence.
      * subst xb. f_equal.
        -- apply (IH al bl (S xa)); try assumption; [lia |]. intros v.
           rewrite <- (eval_upd_above xa al v false Hoal), <- (eval_upd_above xa bl v false Hobl).
           pose proof (He (upd v xa false)) as E1. now rewrite !eval_upd_node in E1.
        -- apply (IH ah bh (S xa)); try assumption; [lia |]. intros v.
           rewrite <- (eval_upd_above xa ah v true Hoah), <- (eval_upd_above xa bh v true Hobh).
           pose proof (He (upd v xa true)) as E1. now rewrite !eval_upd_node in E1.
      * exfalso. apply Hneb.
        assert (Hoa' : ord (S xb) (BNode xa al ah)) by (cbn; repeat split; try assumption; lia).
        apply (IH bl bh (S xb)); try assumption; [lia |].
        intros v.
        rewrite <- (eval_upd_above xb bl v false Hobl), <- (eval_upd_above xb bh v true Hobh).
        pose proof (He (upd v xb false)) as E1. pose proof (He (upd v xb true)) as E2.
        rewrite eval_upd_node in E1, E2.
        rewrite (eval_upd_above xb _ v false Hoa') in E1. rewrite (eval_upd_above xb _ v true Hoa') in E2.
        congruence.
Qed.

(** canonicity of reduced ordered trees *)
Lemma good_canonical a b : good a -> good b -> (forall v, bdd_eval v a = bdd_eval v b) -> a = b.
Proof.
  intros [Hoa Hra] [Hob Hrb] He. apply (canon_aux (size a + size b) a b 0); auto.
Qed.

(* ------------------------------------------------------------------ the operations keep trees good *)

Lemma mk_node_ord lo x l h : lo <= x -> ord (S x) l -> ord (S x) h -> ord lo (mk_node x l h).
Proof.
  intros Hx Hl Hh. unfold mk_node. destruct (bdd_eqb l h).
  - apply (ord_weaken (S x)); [lia | assumption].
  - cbn. auto.
Qed.

Lemma mk_node_red x l h : red l -> red h -> red (mk_node x l h).
Proof.
  intros Hl Hh. unfold mk_node. destruct (bdd_eqb l h) eqn:E; [assumption |].
  cbn. repeat split; try assumption. now apply bdd_eqb_neq.
Qed.

Lemma bdd_not_invol a : bdd_not (bdd_not a) = a.
Proof. induction a as [b | x l IHl h IHh]; cbn; [now rewrite negb_involutive | now rewrite IHl, IHh]. Qed.

Lemma not_ord a : forall lo, ord lo a -> ord lo (bdd_not a).
Proof. induction a as [b | x l IHl h IHh]; intros lo H; cbn in *; [trivial |]. intuition. Qed.

Lemma not_red a : red a -> red (bdd_not a).
Proof.
  induction a as [b | x l IHl h IHh]; intros H; cbn in *; [trivial |].
  destruct H as (Hne & Hl & Hh). repeat split; auto.
  intros E. apply Hne. rewrite <- (bdd_not_invol l), <- (bdd_not_invol h). now rewrite E.
Qed.

Lemma bdd_apply_eq op a b :
  bdd_apply op a b =
  match a, b with
  | BLeaf x, BLeaf y => BLeaf (op x y)
  | BLeaf _, BNode xb bl bh => mk_node xb (bdd_apply op a bl) (bdd_apply op a bh)
  | BNode xa al ah, BLeaf _ => mk_node xa (bdd_apply op al b) (bdd_apply op ah b)
  | BNode xa al ah, BNode xb bl bh =>
      match Nat.compare xa xb with
      | Eq => mk_node xa (bdd_apply op al bl) (bdd_apply op ah bh)
      | Lt => mk_node xa (bdd_apply op al b) (bdd_apply op ah b)
      | Gt => mk_node xb (bdd_apply op a bl) (bdd_apply op a bh)
      end
  end.
Proof. destruct a, b; reflexivity. Qed.

Lemma apply_ord op a : forall b lo, ord lo a -> ord lo b -> ord lo (bdd_apply op a b).
Proof.
  induction a as [x | xa al IHl ah IHh]; induction b as [y | xb bl IHbl bh IHbh]; intros lo Ha Hb;
    rewrite bdd_apply_eq.
  - exact I.
  - cbn in Hb. destruct Hb as (Hx & Hl & Hh). apply mk_node_ord; [assumption | |]; [apply IHbl | apply IHbh]; auto; exact I.
  - cbn in Ha. destruct Ha as (Hx & Hl & Hh). apply mk_node_ord; [assumption | |]; [apply IHl | apply IHh]; auto; exact I.
  - cbn in Ha, Hb. destruct Ha as (Hxa & Hal & Hah). destruct Hb as (Hxb & Hbl & Hbh).
    destruct (Nat.compare xa xb) eqn:C.
    + apply Nat.compare_eq in C. subst xb. apply mk_node_ord; [assumption | |]; [apply IHl | apply IHh]; assumption.
    + apply Nat.compare_lt_iff in C.
      assert (Hb' : ord (S xa) (BNode xb bl bh)) by (cbn; repeat split; try assumption; lia).
      apply mk_node_ord; [assumption | |]; [apply IHl | apply IHh]; assumption.
    + apply Nat.compare_gt_iff in C.
      assert (Ha' : ord (S xb) (BNode xa al ah)) by (cbn; repeat split; try assumption; lia).
      apply mk_node_ord; [assumption | |]; [apply IHbl | apply IHbh]; assumption.
Qed.

Lemma apply_red op a : forall b, red a -> red b -> red (bdd_apply op a b).
Proof.
  induction a as [x | xa al IHl ah IHh]; induction b as [y | xb bl IHbl bh IHbh]; intros Ha Hb;
    rewrite bdd_apply_eq.
  - exact I.
  - cbn in Hb. destruct Hb as (_ & Hl & Hh). apply mk_node_red; [apply IHbl | apply IHbh]; auto.
  - cbn in Ha. destruct Ha as (_ & Hl & Hh). apply mk_node_red; [apply IHl | apply IHh]; auto.
  - pose proof Ha as Ha0. pose proof Hb as Hb0.
    cbn in Ha, Hb. destruct Ha as (_ & Hal & Hah). destruct Hb as (_ & Hbl & Hbh).
    destruct (Nat.compare xa xb); apply mk_node_red; auto.
Qed.

Lemma good_leaf b : good (BLeaf b).
Proof. split; exact I. Qed.

Lemma good_var x : good (bdd_var x).
Proof. split; cbn; repeat split; try lia. discriminate. Qed.

Lemma good_not a : good a -> good (bdd_not a).
Proof. intros [Ho Hr]. split; [now apply not_ord | now apply not_red]. Qed.

Lemma good_apply op a b : good a -> good b -> good (bdd_apply op a b).
Proof. intros [Hoa Hra] [Hob Hrb]. split; [now apply apply_ord | now apply apply_red]. Qed.

Lemma good_and a b : good a -> good b -> good (bdd_and a b). Proof. apply good_apply. Qed.
Lemma good_or a b : good a -> good b -> good (bdd_or a b). Proof. apply good_apply. Qed.
Lemma good_xor a b : good a -> good b -> good (bdd_xor a b). Proof. apply good_apply. Qed.
Lemma good_implies a b : good a -> good b -> good (bdd_implies a b).
Proof. intros Ha Hb. unfold bdd_implies. apply good_or; [now apply good_not | assumption]. Qed.

(* ------------------------------------------------------------------ every guard of the model is good *)

Lemma terminal_good t e t' g : terminal t e = (t', g) -> good g.
Proof. intros H. apply terminal_spec in H. destruct H as [_ (i & _ & ->)]. apply good_var. Qed.

Lemma e2g_good rp debug e : forall t t' g, e2g rp debug t e = Ok (t', g) -> good g.
Proof.
  induction e; intros t t' g H; cbn [e2g] in H;
    try (match type of H with (if ?c then _ else _) = _ => destruct c end);
    try (match type of H with
         | cut_other _ _ _ = Ok _ => apply cut_other_ok in H; now apply terminal_good in H
         | cut_connective _ _ _ = Ok _ => apply cut_connective_ok in H; now apply terminal_good in H
         end);
    inv_ok;
    repeat match goal with
           | IH : forall t t' g, e2g ?r ?d t ?x = Ok (t', g) -> _, E : e2g ?r ?d _ ?x = Ok ?p |- _ =>
               rewrite (surj_pair_eq p) in E; apply IH in E; clear IH
           end;
    try (match goal with Ht : terminal _ _ = (_, _) |- _ => now apply terminal_good in Ht end);
    cbn [fst snd] in *;
    auto using good_leaf, good_not, good_and, good_or, good_xor, good_implies.
Qed.

Lemma expr_to_guard_good rp debug t e t' g : expr_to_guard rp debug t e = Ok (t', g) -> good g.
Proof.
  unfold expr_to_guard. destruct (debug && negb (expr_is_bool e)); [discriminate |]. apply e2g_good.
Qed.

Definition gsum (s : summary) : Prop := forall e, In e s -> good (fst e).

Lemma to_guard_good rp debug s : forall t acc t' g,
  gsum s -> good acc -> to_guard rp debug t s acc = Ok (t', g) -> good g.
Proof.
  induction s as [| [g0 x] s IH]; intros t acc t' g Hs Ha H; cbn [to_guard] in H.
  - inversion H; now subst.
  - destruct (negb (expr_is_bool x)); [discriminate |].
    apply rbind_ok in H. destruct H as (p & E & H).
    rewrite (surj_pair_eq p) in E. apply expr_to_guard_good in E.
    apply IH in H; [assumption | intros e He; apply Hs; now right |].
    apply good_or; [assumption |]. apply good_and; [| assumption]. apply (Hs (g0, x)). now left.
Qed.

Lemma gsum_new x : gsum (vs_new x).
Proof. intros e [<- | []]. apply good_leaf. Qed.

Lemma gsum_bin rp debug rank op a b r :
  apply_bin_op rp debug rank op a b = Ok r -> gsum a -> gsum b -> gsum r.
Proof.
  intros H Ha Hb. apply apply_bin_op_shape in H. destruct H as (out1 & Hm & ->).
  apply merge_common_spec in Hm. destruct Hm as [_ Hout].
  intros e He. apply in_app_or in He. destruct He as [He | He].
  - destruct (Hout e He) as (x & y & Hin & _). apply (Ha _ Hin).
  - apply cross_In in He. destruct He as (ea & eb & Hea & Heb & _ & ->).
    apply filter_In in Hea, Heb. cbn [fst]. apply good_and; [apply Ha | apply Hb]; tauto.
Qed.

Lemma co_loop_good rest : forall pre bv dl pre' dl',
  gsum pre -> gsum rest -> co_loop pre bv dl rest = Ok (pre', dl') -> gsum pre'.
Proof.
  induction rest as [| [g x] rest IH]; intros pre bv dl pre' dl' Hp Hr H; cbn [co_loop] in H.
  - inversion H; now subst.
  - assert (Hr' : gsum rest) by (intros e He; apply Hr; now right).
    assert (Hg : good g) by (apply (Hr (g, x)); now left).
    destruct (lookup_value x bv) as [p |].
    + destruct (nth_error pre p) as [[gp xp] |] eqn:Np; [| discriminate].
      apply IH in H; [assumption | | assumption].
      intros e He. apply in_app_or in He. destruct He as [He | [<- | []]]; [now apply Hp |].
      cbn [fst]. apply good_or; [| assumption]. apply (Hp (gp, xp)). eapply nth_error_In; eassumption.
    + apply IH in H; [assumption | | assumption].
      intros e He. apply in_app_or in He. destruct He as [He | [<- | []]]; [now apply Hp | assumption].
Qed.

Lemma gsum_coalesce fixed es r : coalesce_entries fixed es = Ok r -> gsum es -> gsum r.
Proof.
  unfold coalesce_entries. intros H Hs. apply rbind_ok in H. destruct H as ([pre dl] & Hc & H).
  inversion H; subst. clear H. cbn [fst snd].
  apply co_loop_good in Hc; [| intros e [] | assumption].
  intros e He. rewrite delete_entries_go in He. apply delete_go_In in He. now apply Hc.
Qed.

Lemma gsum_ite rp debug t c tr fl t' r :
  apply_ite rp debug t c tr fl = Ok (t', r) -> gsum c -> gsum tr -> gsum fl -> gsum r.
Proof.
  intros H Hc Ht Hf. apply apply_ite_cases in H.
  destruct H as [(_ & _ & ->) | [(_ & _ & ->) | (tc & Hg & [(_ & ->) | [(_ & ->) | ->]])]]; try assumption.
  apply to_guard_good in Hg; [| assumption | apply good_leaf].
  intros e He. apply in_app_or in He. destruct He as [He | He];
    apply in_map_iff in He; destruct He as (e0 & <- & He0); cbn [fst]; apply good_and; auto using good_not.
Qed.

Lemma gsum_import rp debug t s t' r :
  import_into_guard rp debug t s = Ok (t', r) -> gsum s -> gsum r.
Proof.
  intros H Hs. apply import_cases in H. destruct H as (g & Hg & H).
  apply to_guard_good in Hg; [| assumption | apply good_leaf].
  destruct H as [(_ & ->) | [(_ & ->) | ->]]; intros e He.
  - destruct He as [<- | []]. apply good_leaf.
  - destruct He as [<- | []]. apply good_leaf.
  - destruct He as [<- | [<- | []]]; cbn [fst]; auto using good_not.
Qed.

Definition gstate (st : vstate) : Prop :=
  all_sums gsum st /\ forall g, In g (vs_guards st) -> good g.

Lemma vstep_good rp debug fixed st o st' : gstate st -> vstep rp debug fixed st o = Ok st' -> gstate st'.
Proof.
  intros [Ha Hg] H. destruct o; cbn [vstep] in H; inv_step H.
  - split; [| assumption]. apply all_sums_push; [assumption | apply gsum_new].
  - split; [| assumption]. apply all_sums_push; [assumption |]. eapply gsum_bin; eauto.
  - split; [| assumption]. apply all_sums_push; [assumption |]. destruct a2. eapply gsum_ite; eauto.
  - split; [| assumption]. apply all_sums_push; [assumption |]. eapply gsum_coalesce; eauto.
  - split; [| assumption]. apply all_sums_push; [assumption |]. destruct a0. eapply gsum_import; eauto.
  - split; [exact Ha |]. cbn. intros g Hin. apply in_app_or in Hin. destruct Hin as [Hin | [<- | []]]; [auto |].
    destruct a. eapply expr_to_guard_good; eassumption.
Qed.

Lemma vrun_good rp debug fixed prog : forall st st', gstate st -> vrun rp debug fixed st prog = Ok st' -> gstate st'.
Proof.
  induction prog as [| o prog IH]; intros st st' Hg H; cbn [vrun] in H.
  - inversion H; now subst.
  - apply rbind_ok in H. destruct H as (st1 & E & H). eapply IH; [| eassumption]. eapply vstep_good; eassumption.
Qed.

(** In every reachable state, two guards (of entries or returned by [expr_to_guard]) that
    agree under every valuation are the same guard. *)
Lemma guards_canonical_lemma rp debug fixed prog st :
  vrun rp debug fixed vinit prog = Ok st ->
  forall g1 g2,
    (In g1 (vs_guards st) \/ exists s e, In s (vs_sums st) /\ In e s /\ fst e = g1) ->
    (In g2 (vs_guards st) \/ exists s e, In s (vs_sums st) /\ In e s /\ fst e = g2) ->
    (forall v, bdd_eval v g1 = bdd_eval v g2) -> g1 = g2.
Proof.
  intros H g1 g2 H1 H2 He.
  assert (Hst : gstate st).
  { eapply vrun_good; [| eassumption]. split; [apply all_sums_init | intros g []]. }
  destruct Hst as [Hs Hg].
  assert (G : forall g, (In g (vs_guards st) \/ exists s e, In s (vs_sums st) /\ In e s /\ fst e = g) -> good g).
  { intros g [Hin | (s & e & Hsin & Hein & <-)]; [auto | exact (Hs s Hsin e Hein)]. }
  apply good_canonical; auto.
Qed.
