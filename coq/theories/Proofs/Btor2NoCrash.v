(** * Proofs/Btor2NoCrash.v — outside the known class the reader does not panic.

    [pre_all ls p_empty = true] (every line satisfies the explicit precondition [line_pre] in
    the state in which it is processed) and only supported operators imply that
    [parse_lines dbg ls] is not a panic, for both values of [dbg]. *)
From Coq Require Import List Lia Bool String Ascii NArith FMapPositive.
From Patronus Require Import Expr ExprLemmas SysClosed Btor2Parse Btor2ExprFacts Btor2ParseProofs Btor2Refine.
Import ListNotations.
Open Scope N_scope.

Lemma no_panic_bind {A B} (m : pres A) (f : A -> pres B) :
  no_panic m -> (forall a, m = POk a -> no_panic (f a)) -> no_panic (pbind m f).
Proof.
  intros Hm Hf. destruct m as [a| |k]; cbn [pbind].
  - apply Hf. reflexivity.
  - apply no_panic_err.
  - exfalso. apply (Hm k). reflexivity.
Qed.

Lemma no_panic_of_opt {A} (o : option A) : no_panic (of_opt o).
Proof. destruct o; [apply no_panic_ok|apply no_panic_err]. Qed.

Lemma no_panic_require toks n : no_panic (require toks n).
Proof. unfold require. destruct (Nat.ltb _ _); [apply no_panic_err|apply no_panic_ok]. Qed.

Lemma no_panic_get_tpe st tok : no_panic (get_tpe st tok).
Proof.
  unfold get_tpe. destruct (parse_line_id tok) as [[id neg]|]; [|apply no_panic_err].
  destruct neg; [apply no_panic_err|apply no_panic_of_opt].
Qed.

Lemma no_panic_get_state st tok : no_panic (get_state st tok).
Proof.
  unfold get_state. destruct (parse_line_id tok) as [[id neg]|]; [|apply no_panic_err].
  destruct neg; [apply no_panic_err|apply no_panic_of_opt].
Qed.

Lemma no_panic_get_bv_width st tok : no_panic (get_bv_width st tok).
Proof.
  unfold get_bv_width. apply no_panic_bind; [apply no_panic_get_tpe|].
  intros t _. destruct t; [apply no_panic_ok|apply no_panic_err].
Qed.

Lemma get_tpe_sort_of st tok t : get_tpe st tok = POk t -> sort_of st tok = Some t.
Proof.
  unfold get_tpe, sort_of. destruct (parse_line_id tok) as [[id neg]|]; [|discriminate].
  destruct neg; [discriminate|]. apply of_opt_ok.
Qed.

(** ** operands *)
Lemma no_panic_get_expr st tok : neg_ok st tok = true -> no_panic (get_expr st tok).
Proof.
  unfold neg_ok, opnd, opnd_neg, get_expr. destruct (parse_line_id tok) as [[id neg]|]; [|intros; apply no_panic_err].
  destruct (PM.find (key id) (p_signals st)) as [s|]; [|intros; apply no_panic_err].
  destruct neg; cbn [negb orb]; [|intros; apply no_panic_ok].
  intros Hb. unfold b_not, unwrap_bv. destruct (type_of s); [apply no_panic_ok|discriminate].
Qed.

Lemma get_expr_opnd st tok e :
  get_expr st tok = POk e ->
  exists s, opnd st tok = Some s /\ type_of e = type_of s /\ (e = s \/ exists w, e = BVNot s w).
Proof.
  unfold get_expr, opnd. destruct (parse_line_id tok) as [[id neg]|]; [|discriminate].
  destruct (PM.find (key id) (p_signals st)) as [s|]; [|discriminate].
  destruct neg.
  - intros H. apply b_not_ok in H. destruct H as (w & Ht & ->). exists s. cbn [type_of]. eauto.
  - intros H; inversion H; subst. eauto.
Qed.

Lemma get_expr_ty st tok e : get_expr st tok = POk e -> opnd_ty st tok = Some (type_of e).
Proof.
  intros H. apply get_expr_opnd in H. destruct H as (s & Ho & Ht & _). unfold opnd_ty. rewrite Ho, Ht. reflexivity.
Qed.

(** ** the type checker cannot overflow on the nodes in the signal map *)
Definition plain (e : expr) : bool :=
  match e with BVZeroExt _ _ _ | BVSignExt _ _ _ | BVConcat _ _ _ => false | _ => true end.

Lemma tcheck_plain e : plain e = true -> no_panic (tcheck true e).
Proof. destruct e; cbn [plain tcheck]; intros H; try discriminate; apply no_panic_of_opt. Qed.

Definition J (st : pstate) : Prop :=
  forall k e, PM.find k (p_signals st) = Some e -> no_panic (tcheck true e).

Lemma get_expr_tsafe st tok e : J st -> get_expr st tok = POk e -> no_panic (tcheck true e).
Proof.
  intros HJ H. apply get_expr_opnd in H. destruct H as (s & Ho & _ & [->|(w & ->)]).
  - unfold opnd in Ho. destruct (parse_line_id tok) as [[id neg]|]; [|discriminate]. eapply HJ; eauto.
  - apply tcheck_plain. reflexivity.
Qed.

Lemma no_panic_check e t : no_panic (tcheck true e) -> no_panic (check_expr_type true e t).
Proof.
  intros H. unfold check_expr_type. apply no_panic_bind; auto.
  intros x _. destruct (ty_eqb _ _); [apply no_panic_ok|apply no_panic_err].
Qed.

Lemma check_tsafe r tpe c : check_expr_type true r tpe = POk c -> c = r /\ no_panic (tcheck true r).
Proof.
  unfold check_expr_type. intros H. binv H t Ht. destruct (ty_eqb _ _); [|discriminate].
  inversion H; subst. split; auto. rewrite Ht. apply no_panic_ok.
Qed.

(** ** tables *)
Definition binop_plain (bo : binop) : Prop :=
  match bo with
  | BSame mk _ _ => forall a b w, plain (mk a b w) = true
  | BCmp mk _ => forall a b, plain (mk a b) = true
  | _ => True
  end.

Lemma bin_table_plain op bo : bin_table op = Some bo -> binop_plain bo.
Proof.
  unfold bin_table.
  repeat match goal with
         | |- (if ?c then _ else _) = Some _ -> _ =>
             destruct c; [intros H; inversion H; subst; cbn [binop_plain]; try exact I; intros; reflexivity|]
         end.
  discriminate.
Qed.

Ltac unsup_branch :=
  cbn [str_mem unsupported_ops]; unfold seq in *;
  match goal with H : String.eqb _ _ = true |- _ => rewrite H end;
  rewrite ?orb_true_r; reflexivity.

Lemma un_unsup op : un_table op = Some UUnsup -> str_mem op unsupported_ops = true.
Proof.
  unfold un_table.
  repeat match goal with
         | |- (if seq op ?s then _ else _) = Some _ -> _ =>
             destruct (seq op s) eqn:?; [intros H; inversion H; try unsup_branch|]
         end.
  discriminate.
Qed.

Lemma bin_unsup op : bin_table op = Some BUnsup -> str_mem op unsupported_ops = true.
Proof.
  unfold bin_table.
  repeat match goal with
         | |- (if seq op ?s then _ else _) = Some _ -> _ =>
             destruct (seq op s) eqn:?; [intros H; inversion H; try unsup_branch|]
         end.
  discriminate.
Qed.

(** ** results of the operator lowering: no panic, and type-checkable without overflow *)
Definition rc_safe (rc : pres (expr * nat)) : Prop :=
  no_panic rc /\ forall r n, rc = POk (r, n) -> no_panic (tcheck true r).

Lemma rc_safe_ok r n : no_panic (tcheck true r) -> rc_safe (POk (r, n)).
Proof. intros H. split; [apply no_panic_ok|]. intros r' n' E. inversion E; subst; auto. Qed.

Lemma rc_safe_err : rc_safe PErr.
Proof. split; [apply no_panic_err|intros r n E; discriminate]. Qed.

Lemma rc_safe_bind {A} (m : pres A) (f : A -> pres (expr * nat)) :
  no_panic m -> (forall a, m = POk a -> rc_safe (f a)) -> rc_safe (pbind m f).
Proof.
  intros Hm Hf. destruct m as [a| |k]; cbn [pbind].
  - apply Hf. reflexivity.
  - apply rc_safe_err.
  - exfalso. apply (Hm k). reflexivity.
Qed.

Lemma rc_safe_finish rc tpe :
  rc_safe rc ->
  no_panic (pbind rc (fun rc0 : expr * nat => let '(r, count) := rc0 in
                        pbind (check_expr_type true r tpe) (fun c => POk (c, count)))).
Proof.
  intros [H1 H2]. apply no_panic_bind; auto. intros [r n] E.
  apply no_panic_bind; [apply no_panic_check; eapply H2; eauto|]. intros; apply no_panic_ok.
Qed.

Lemma unwrap_bv_eq e w : type_of e = TBV w -> unwrap_bv e = POk w.
Proof. unfold unwrap_bv. intros ->. reflexivity. Qed.

Lemma b_not_eq e w : type_of e = TBV w -> b_not e = POk (BVNot e w).
Proof. intros H. unfold b_not. rewrite (unwrap_bv_eq _ _ H). reflexivity. Qed.

Lemma b_neg_eq e w : type_of e = TBV w -> b_neg e = POk (BVNegate e w).
Proof. intros H. unfold b_neg. rewrite (unwrap_bv_eq _ _ H). reflexivity. Qed.

Lemma b_lit_eq w v : w <> 0 -> b_lit w v = POk (BVLiteral w v).
Proof. intros H. unfold b_lit. destruct (N.eqb_spec w 0); [contradiction|reflexivity]. Qed.

Lemma b_equal_bv_eq a b w : type_of a = TBV w -> type_of b = TBV w -> b_equal true a b = POk (BVEqual a b).
Proof. intros Ha Hb. unfold b_equal. rewrite Ha, Hb, ty_eqb_refl. reflexivity. Qed.

Lemma tsafe_ext mk e by_ w : (mk = BVZeroExt \/ mk = BVSignExt) -> no_panic (tcheck true (mk e by_ (w + by_))).
Proof.
  intros [->| ->]; cbn [tcheck]; unfold u32sub;
    (destruct (N.leb_spec by_ (w + by_)) as [?|?]; [|lia]); cbn [pbind];
    destruct (expect_bv_of _ _); [apply no_panic_ok|apply no_panic_err|apply no_panic_ok|apply no_panic_err].
Qed.

Lemma b_ext_safe mk e by_ w n :
  (mk = BVZeroExt \/ mk = BVSignExt) -> no_panic (tcheck true e) ->
  type_of e = TBV w -> w + by_ <= U32MAX ->
  rc_safe (pbind (b_ext true mk e by_) (fun r => POk (r, n))).
Proof.
  intros Hmk Hts Ht Hle. unfold b_ext. destruct (by_ =? 0); cbn [pbind]; [apply rc_safe_ok; auto|].
  rewrite (unwrap_bv_eq _ _ Ht). cbn [pbind]. unfold u32add.
  destruct (N.leb_spec (w + by_) U32MAX) as [?|?]; [|lia]. cbn [pbind]. apply rc_safe_ok. apply tsafe_ext; auto.
Qed.

Lemma b_slice_safe e hi lo w n :
  no_panic (tcheck true e) -> type_of e = TBV w -> lo <= hi -> hi < U32MAX ->
  rc_safe (pbind (b_slice true e hi lo) (fun r => POk (r, n))).
Proof.
  intros Hts Ht Hlo Hhi. unfold b_slice.
  destruct (N.ltb_spec hi lo) as [?|?]; [lia|].
  destruct (lo =? 0); cbn [pbind]; [|apply rc_safe_ok; apply tcheck_plain; reflexivity].
  unfold u32add. destruct (N.leb_spec (hi + 1) U32MAX) as [?|?]; [|lia]. cbn [pbind].
  rewrite (unwrap_bv_eq _ _ Ht). cbn [pbind].
  destruct (hi + 1 =? w); cbn [pbind]; apply rc_safe_ok; auto. apply tcheck_plain; reflexivity.
Qed.

Lemma xor_chain_plain n : forall e i acc, plain acc = true -> plain (xor_chain n e i acc) = true.
Proof. induction n as [|n IH]; intros e i acc H; cbn [xor_chain]; auto. Qed.

Lemma parse_unary_safe st toks u :
  J st -> u <> UUnsup -> neg_ok st (tokn toks 3) = true ->
  (forall t, opnd_ty st (tokn toks 3) = Some t -> unary_pre u t toks = true) ->
  no_panic (parse_unary true st toks u).
Proof.
  intros HJ Hu Hn Hpre. unfold parse_unary, lower_unary.
  apply no_panic_bind; [apply no_panic_require|intros u0 _].
  apply no_panic_bind; [apply no_panic_get_tpe|intros tpe _].
  apply no_panic_bind; [apply no_panic_get_expr; auto|intros e0 He0].
  pose proof (get_expr_tsafe _ _ _ HJ He0) as Hts.
  pose proof (Hpre _ (get_expr_ty _ _ _ He0)) as Hp. unfold unary_pre in Hp.
  destruct (type_of e0) as [w|iw0 dw0] eqn:Et.
  2: { (* an array operand: only an extension by zero bits, which returns the operand *)
    apply rc_safe_finish.
    assert (Hext : forall mk, rc_safe (_ <- require toks 5;; by_ <- of_opt (parse_width (tokn toks 4));;
                                       r <- b_ext true mk e0 by_;; POk (r, 5%nat))).
    { intros mk. apply rc_safe_bind; [apply no_panic_require|intros u1 _].
      apply rc_safe_bind; [apply no_panic_of_opt|intros by_ Hby]. apply of_opt_ok in Hby.
      destruct u; try discriminate; rewrite Hby in Hp; apply N.eqb_eq in Hp; subst by_;
        unfold b_ext; cbn [N.eqb pbind]; apply rc_safe_ok; auto. }
    destruct u; try discriminate; apply Hext. }
  apply rc_safe_finish.
  destruct u.
  - rewrite (b_not_eq _ _ Et). cbn [pbind]. apply rc_safe_ok, tcheck_plain. reflexivity.
  - rewrite (b_neg_eq _ _ Et). cbn [pbind]. apply rc_safe_ok, tcheck_plain. reflexivity.
  - (* redand *)
    rewrite (unwrap_bv_eq _ _ Et). cbn [pbind]. destruct (w =? 1); [apply rc_safe_ok; auto|].
    destruct (N.eqb_spec w 0) as [?|Hw0]; [discriminate|].
    rewrite (b_lit_eq _ _ Hw0). cbn [pbind]. rewrite (b_equal_bv_eq e0 (BVLiteral w (2 ^ w - 1)) w Et eq_refl). cbn [pbind].
    apply rc_safe_ok, tcheck_plain. reflexivity.
  - (* redor *)
    rewrite (unwrap_bv_eq _ _ Et). cbn [pbind]. destruct (w =? 1); [apply rc_safe_ok; auto|].
    destruct (N.eqb_spec w 0) as [?|Hw0]; [discriminate|].
    rewrite (b_lit_eq _ _ Hw0). cbn [pbind]. rewrite (b_equal_bv_eq e0 (BVLiteral w 0) w Et eq_refl). cbn [pbind].
    rewrite (b_not_eq (BVEqual e0 (BVLiteral w 0)) 1 eq_refl). cbn [pbind]. apply rc_safe_ok, tcheck_plain. reflexivity.
  - (* redxor *)
    rewrite (unwrap_bv_eq _ _ Et). cbn [pbind]. destruct (w =? 1); [apply rc_safe_ok; auto|].
    destruct (N.eqb_spec w 0) as [?|Hw0]; [discriminate|].
    apply rc_safe_ok, tcheck_plain, xor_chain_plain. reflexivity.
  - (* slice *)
    apply rc_safe_bind; [apply no_panic_require|intros u1 _].
    apply rc_safe_bind; [apply no_panic_of_opt|intros hi Hhi]. apply of_opt_ok in Hhi.
    apply rc_safe_bind; [apply no_panic_of_opt|intros lo Hlo]. apply of_opt_ok in Hlo.
    rewrite Hhi, Hlo in Hp. apply andb_true_iff in Hp. destruct Hp as [H1 H2].
    apply N.leb_le in H1. apply N.ltb_lt in H2. eapply b_slice_safe; eauto.
  - (* uext *)
    apply rc_safe_bind; [apply no_panic_require|intros u1 _].
    apply rc_safe_bind; [apply no_panic_of_opt|intros by_ Hby]. apply of_opt_ok in Hby.
    rewrite Hby in Hp. apply N.leb_le in Hp. eapply b_ext_safe; eauto.
  - (* sext *)
    apply rc_safe_bind; [apply no_panic_require|intros u1 _].
    apply rc_safe_bind; [apply no_panic_of_opt|intros by_ Hby]. apply of_opt_ok in Hby.
    rewrite Hby in Hp. apply N.leb_le in Hp. eapply b_ext_safe; eauto.
  - contradiction.
Qed.

(** ** binary and ternary operators *)
Definition e_safe (m : pres expr) : Prop :=
  no_panic m /\ forall r, m = POk r -> no_panic (tcheck true r).

Lemma e_safe_ok r : no_panic (tcheck true r) -> e_safe (POk r).
Proof. intros H. split; [apply no_panic_ok|]. intros r' E. inversion E; subst; auto. Qed.

Lemma e_safe_err : e_safe PErr.
Proof. split; [apply no_panic_err|intros r E; discriminate]. Qed.

Lemma e_safe_bind {A} (m : pres A) (f : A -> pres expr) :
  no_panic m -> (forall a, m = POk a -> e_safe (f a)) -> e_safe (pbind m f).
Proof.
  intros Hm Hf. destruct m as [a| |k]; cbn [pbind].
  - apply Hf. reflexivity.
  - apply e_safe_err.
  - exfalso. apply (Hm k). reflexivity.
Qed.

Lemma e_safe_finish m tpe (n : nat) :
  e_safe m -> no_panic (pbind m (fun e => pbind (check_expr_type true e tpe) (fun c => POk (c, n)))).
Proof.
  intros [H1 H2]. apply no_panic_bind; auto. intros r E.
  apply no_panic_bind; [apply no_panic_check; eapply H2; eauto|]. intros; apply no_panic_ok.
Qed.

Definition binop_shape (bo : binop) : Prop :=
  match bo with
  | BSame mk _ _ => forall a b w, plain (mk a b w) = true /\ is_bv_ty (type_of (mk a b w)) = true
  | BCmp mk _ => forall a b, plain (mk a b) = true
  | _ => True
  end.

Lemma bin_table_shape op bo : bin_table op = Some bo -> binop_shape bo.
Proof.
  unfold bin_table.
  repeat match goal with
         | |- (if ?c then _ else _) = Some _ -> _ =>
             destruct c; [intros H; inversion H; subst; cbn [binop_shape]; try exact I; intros; try split; reflexivity|]
         end.
  discriminate.
Qed.

Lemma b_same_eq mk a b w : type_of a = TBV w -> type_of b = TBV w -> b_same true mk a b = POk (mk a b w).
Proof.
  intros Ha Hb. unfold b_same. rewrite (unwrap_bv_eq _ _ Ha), (unwrap_bv_eq _ _ Hb). cbn [pbind].
  rewrite N.eqb_refl. reflexivity.
Qed.

Lemma b_cmp_eq mk a b w : type_of a = TBV w -> type_of b = TBV w -> b_cmp true mk a b = POk (mk a b).
Proof.
  intros Ha Hb. unfold b_cmp. rewrite (unwrap_bv_eq _ _ Ha), (unwrap_bv_eq _ _ Hb). cbn [pbind].
  rewrite N.eqb_refl. reflexivity.
Qed.

Lemma is_bv_not e : is_bv_ty (type_of e) = true -> no_panic (b_not e) /\ forall r, b_not e = POk r -> plain r = true.
Proof.
  intros H. destruct (type_of e) as [w|] eqn:Et; [|discriminate]. rewrite (b_not_eq _ _ Et).
  split; [apply no_panic_ok|]. intros r E; inversion E; reflexivity.
Qed.

Lemma neg_after_safe inner tpe (negafter : bool) :
  plain inner = true -> is_bv_ty (type_of inner) = true ->
  e_safe (if negafter then pbind (check_expr_type true inner tpe) (fun _ => b_not inner) else POk inner).
Proof.
  intros Hp Hb. destruct negafter; [|apply e_safe_ok, tcheck_plain; auto].
  apply e_safe_bind; [apply no_panic_check, tcheck_plain; auto|]. intros c _.
  destruct (is_bv_not inner Hb) as [H1 H2]. split; auto. intros r E. apply tcheck_plain. eauto.
Qed.

Lemma parse_binary_safe st toks bo :
  J st -> bo <> BUnsup -> binop_shape bo ->
  neg_ok st (tokn toks 3) = true -> neg_ok st (tokn toks 4) = true ->
  (forall ta tb, opnd_ty st (tokn toks 3) = Some ta -> opnd_ty st (tokn toks 4) = Some tb -> binary_pre bo ta tb = true) ->
  no_panic (parse_binary true st toks bo).
Proof.
  intros HJ Hbo Hsh Hn3 Hn4 Hpre. unfold parse_binary, lower_binary.
  apply no_panic_bind; [apply no_panic_require|intros u0 _].
  apply no_panic_bind; [apply no_panic_get_tpe|intros tpe _].
  apply no_panic_bind; [apply no_panic_get_expr; auto|intros a Ha].
  apply no_panic_bind; [apply no_panic_get_expr; auto|intros b Hb].
  pose proof (Hpre _ _ (get_expr_ty _ _ _ Ha) (get_expr_ty _ _ _ Hb)) as Hp.
  apply e_safe_finish.
  destruct bo; cbn [binary_pre binop_shape] in *.
  - (* same-width family *)
    destruct (type_of a) as [wa|] eqn:Eta; [|discriminate]. destruct (type_of b) as [wb|] eqn:Etb; [|discriminate].
    apply N.eqb_eq in Hp. subst wb.
    destruct swap.
    + rewrite (b_same_eq mk b a wa Etb Eta). cbn [pbind]. destruct (Hsh b a wa). apply neg_after_safe; auto.
    + rewrite (b_same_eq mk a b wa Eta Etb). cbn [pbind]. destruct (Hsh a b wa). apply neg_after_safe; auto.
  - (* unsigned comparisons *)
    destruct (type_of a) as [wa|] eqn:Eta; [|discriminate]. destruct (type_of b) as [wb|] eqn:Etb; [|discriminate].
    apply N.eqb_eq in Hp. subst wb.
    destruct swap.
    + rewrite (b_cmp_eq mk b a wa Etb Eta). apply e_safe_ok, tcheck_plain, Hsh.
    + rewrite (b_cmp_eq mk a b wa Eta Etb). apply e_safe_ok, tcheck_plain, Hsh.
  - (* eq / neq *)
    unfold b_equal. rewrite Hp. cbn [andb negb pbind].
    destruct (is_bv_ty (type_of a)); apply neg_after_safe; reflexivity.
  - (* iff *)
    destruct (negb (ty_eqb tpe (TBV 1))); [apply e_safe_err|].
    destruct (ty_eqb (type_of a) (TBV 1)) eqn:Ea; cbn [negb]; [|apply e_safe_err].
    destruct (ty_eqb (type_of b) (TBV 1)) eqn:Eb; cbn [negb]; [|apply e_safe_err].
    apply ty_eqb_eq in Ea, Eb. rewrite (b_equal_bv_eq a b 1 Ea Eb). apply e_safe_ok, tcheck_plain. reflexivity.
  - (* implies *)
    apply andb_true_iff in Hp. destruct Hp as [H1 H2]. apply ty_eqb_eq in H1, H2.
    unfold b_implies. rewrite (unwrap_bv_eq _ _ H1), (unwrap_bv_eq _ _ H2). cbn [pbind N.eqb Pos.eqb negb].
    apply e_safe_ok, tcheck_plain. reflexivity.
  - (* concat *)
    destruct (type_of a) as [wa|] eqn:Eta; [|discriminate]. destruct (type_of b) as [wb|] eqn:Etb; [|discriminate].
    unfold b_concat. rewrite (unwrap_bv_eq _ _ Eta), (unwrap_bv_eq _ _ Etb). cbn [pbind]. unfold u32add. rewrite Hp.
    cbn [pbind]. apply e_safe_ok. cbn [tcheck]. rewrite Eta, Etb. unfold u32add. rewrite Hp. cbn [pbind].
    destruct (wa + wb =? wa + wb); [apply no_panic_ok|apply no_panic_err].
  - (* read *)
    unfold b_read. destruct (type_of a); [discriminate|]. apply e_safe_ok, tcheck_plain. reflexivity.
  - contradiction.
Qed.

Lemma parse_ternary_safe st toks (is_ite : bool) :
  J st ->
  neg_ok st (tokn toks 3) = true -> neg_ok st (tokn toks 4) = true -> neg_ok st (tokn toks 5) = true ->
  (is_ite = true -> forall tc t1 t2, opnd_ty st (tokn toks 3) = Some tc -> opnd_ty st (tokn toks 4) = Some t1 ->
       opnd_ty st (tokn toks 5) = Some t2 -> ty_eqb tc (TBV 1) && ty_eqb t1 t2 = true) ->
  no_panic (parse_ternary true st toks is_ite).
Proof.
  intros HJ Hn3 Hn4 Hn5 Hpre. unfold parse_ternary, lower_ternary.
  apply no_panic_bind; [apply no_panic_require|intros u0 _].
  apply no_panic_bind; [apply no_panic_get_tpe|intros tpe _].
  apply no_panic_bind; [apply no_panic_get_expr; auto|intros a Ha].
  apply no_panic_bind; [apply no_panic_get_expr; auto|intros b Hb].
  apply no_panic_bind; [apply no_panic_get_expr; auto|intros c Hc].
  apply e_safe_finish. destruct is_ite.
  - pose proof (Hpre eq_refl _ _ _ (get_expr_ty _ _ _ Ha) (get_expr_ty _ _ _ Hb) (get_expr_ty _ _ _ Hc)) as Hp.
    apply andb_true_iff in Hp. destruct Hp as [H1 H2]. apply ty_eqb_eq in H1.
    unfold b_ite. rewrite (unwrap_bv_eq _ _ H1). cbn [pbind N.eqb Pos.eqb negb]. rewrite H2. cbn [negb].
    destruct (is_bv_ty (type_of b)); apply e_safe_ok, tcheck_plain; reflexivity.
  - apply e_safe_ok, tcheck_plain. reflexivity.
Qed.

(** ** constants *)
Lemma no_cont_first s : no_cont_bytes s = true -> first_is_cont s = false.
Proof. destruct s; cbn; [reflexivity|]. intros H. apply andb_true_iff in H. destruct H as [H _]. apply negb_true_iff in H. exact H. Qed.

Lemma no_cont_tail c s : no_cont_bytes (String c s) = true -> no_cont_bytes s = true.
Proof. cbn. intros H. apply andb_true_iff in H. tauto. Qed.

Lemma no_cont_split n : forall s, no_cont_bytes s = true -> no_cont_bytes (snd (split_at n s)) = true.
Proof.
  induction n as [|n IH]; intros s H; cbn [split_at]; [destruct s; exact H|].
  destruct s as [|c s]; [exact H|]. specialize (IH s (no_cont_tail _ _ H)).
  destruct (split_at n s) as [a b]. exact IH.
Qed.

Lemma no_cont_strip_plus s : no_cont_bytes s = true -> no_cont_bytes (strip_plus s) = true.
Proof. destruct s as [|c s]; cbn [strip_plus]; auto. destruct (Ascii.eqb c "+"); auto. apply no_cont_tail. Qed.

Lemma no_cont_lit_body s : no_cont_bytes s = true -> no_cont_bytes (lit_body s) = true.
Proof. destruct s as [|c s]; cbn [lit_body]; auto. destruct (Ascii.eqb c "-"); auto. apply no_cont_tail. Qed.

Lemma dec_chunks_safe fuel : forall s acc, no_cont_bytes s = true -> no_panic (dec_chunks fuel s acc).
Proof.
  induction fuel as [|fuel IH]; intros s acc H; cbn [dec_chunks]; destruct s as [|c s]; try apply no_panic_ok.
  pose proof (no_cont_split 19 _ H) as H2. destruct (split_at 19 (String c s)) as [chunk rest]. cbn [snd] in H2.
  rewrite (no_cont_first _ H2). destruct (parse_unsigned 10 chunk); [apply IH; auto|apply no_panic_err].
Qed.

Lemma lit_value_safe radix w tok : lit_safe radix w tok = true -> no_panic (lit_value radix w tok).
Proof.
  unfold lit_safe, lit_value. intros H. apply andb_true_iff in H. destruct H as [Hw H].
  apply negb_true_iff in Hw. rewrite Hw. destruct tok as [|c r]; [apply no_panic_ok|].
  assert (Hbody : forall body, body = lit_body (String c r) ->
            no_panic (if w <=? 128
                      then match parse_unsigned radix body with
                           | Some v => if v <? 2 ^ w then POk v else PErr
                           | None => PErr
                           end
                      else wide_value radix w body)).
  { intros body ->. destruct (w <=? 128).
    - destruct (parse_unsigned radix _) as [v|]; [destruct (v <? 2 ^ w); [apply no_panic_ok|apply no_panic_err]|apply no_panic_err].
    - cbn [orb] in H. unfold wide_value. destruct (String.eqb _ "+"); [apply no_panic_err|].
      destruct (radix =? 2).
      + destruct (w <? _); [apply no_panic_err|apply no_panic_of_opt].
      + cbn [orb] in H. destruct (radix =? 16).
        * rewrite H. destruct (digits_val 16 _ 0); [destruct (w <? _); [apply no_panic_err|apply no_panic_ok]|apply no_panic_err].
        * apply no_cont_lit_body, no_cont_strip_plus in H.
          pose proof (no_cont_split (N.to_nat (if slen (strip_plus (lit_body (String c r))) mod 19 =? 0 then 19
                                               else slen (strip_plus (lit_body (String c r))) mod 19)) _ H) as H2.
          destruct (split_at _ (strip_plus (lit_body (String c r)))) as [chunk rest]. cbn [snd] in H2.
          rewrite (no_cont_first _ H2). destruct (parse_unsigned 10 chunk); [|apply no_panic_err].
          apply no_panic_bind; [apply dec_chunks_safe; auto|]. intros v _.
          destruct (_ <? _); [apply no_panic_ok|apply no_panic_err]. }
  cbn [lit_body] in Hbody. destruct (Ascii.eqb c "-").
  - destruct r as [|c' r']; [apply no_panic_err|]. apply no_panic_bind; [apply Hbody; reflexivity|].
    intros; apply no_panic_ok.
  - apply no_panic_bind; [apply Hbody; reflexivity|]. intros; apply no_panic_ok.
Qed.

Lemma seq_eq a b : seq a b = true -> a = b.
Proof. unfold seq. apply String.eqb_eq. Qed.

Lemma parse_format_safe st toks op :
  seq op "const" || seq op "constd" || seq op "consth" || seq op "zero" || seq op "one" || seq op "ones" = true ->
  (seq op "const" || seq op "constd" || seq op "consth" = true ->
   forall w, sort_of st (tokn toks 2) = Some (TBV w) ->
   Nat.leb 4 (List.length toks) && lit_safe (if seq op "const" then 2 else if seq op "constd" then 10 else 16) w (tokn toks 3) = true) ->
  (seq op "zero" || seq op "one" || seq op "ones" = true ->
   forall w, sort_of st (tokn toks 2) = Some (TBV w) -> negb (w =? 0) = true) ->
  no_panic (parse_format st toks op).
Proof.
  intros Hop Hc Hz. unfold parse_format.
  apply no_panic_bind; [apply no_panic_get_bv_width|intros w Hw].
  apply get_bv_width_ok, get_tpe_sort_of in Hw.
  assert (Hlit : forall v n, negb (w =? 0) = true ->
            no_panic (pbind (b_lit w v) (fun r => POk (r, n : nat)))).
  { intros v n H0. apply negb_true_iff in H0. unfold b_lit. rewrite H0. apply no_panic_ok. }
  destruct (seq op "zero") eqn:E0.
  { apply Hlit. apply Hz; auto. }
  destruct (seq op "one") eqn:E1.
  { apply Hlit. apply Hz; auto. }
  destruct (seq op "ones") eqn:E2.
  { apply Hlit. apply Hz; auto. }
  rewrite !orb_false_r in Hop.
  specialize (Hc Hop w Hw). apply andb_true_iff in Hc. destruct Hc as [Hlen Hsafe].
  apply Nat.leb_le in Hlen. destruct (Nat.ltb_spec (List.length toks) 4) as [?|?]; [lia|].
  apply no_panic_bind; [apply lit_value_safe; exact Hsafe|]. intros; apply no_panic_ok.
Qed.

(** ** the remaining line kinds *)
Lemma parse_sort_safe st toks id :
  (seq (tokn toks 2) "array" = true ->
   forall it dt, sort_of st (tokn toks 3) = Some it -> sort_of st (tokn toks 4) = Some dt ->
                 is_bv_ty it && is_bv_ty dt = true) ->
  no_panic (parse_sort st toks id).
Proof.
  intros Hpre. unfold parse_sort. destruct (seq (tokn toks 2) "bitvec").
  - apply no_panic_bind; [apply no_panic_require|intros _ _].
    apply no_panic_bind; [apply no_panic_of_opt|intros; apply no_panic_ok].
  - destruct (seq (tokn toks 2) "array"); [|apply no_panic_err].
    apply no_panic_bind; [apply no_panic_require|intros _ _].
    apply no_panic_bind; [apply no_panic_get_tpe|intros it Hit].
    apply no_panic_bind; [apply no_panic_get_tpe|intros dt Hdt].
    specialize (Hpre eq_refl _ _ (get_tpe_sort_of _ _ _ Hit) (get_tpe_sort_of _ _ _ Hdt)).
    apply andb_true_iff in Hpre. destruct Hpre as [H1 H2].
    destruct it; [|discriminate]. destruct dt; [|discriminate]. apply no_panic_ok.
Qed.

Lemma b_symbol_safe name t : (forall w, t = TBV w -> negb (w =? 0) = true) -> no_panic (b_symbol name t).
Proof.
  intros H. unfold b_symbol. destruct t as [w|]; [|apply no_panic_ok].
  specialize (H w eq_refl). apply negb_true_iff in H. rewrite H. apply no_panic_ok.
Qed.

Lemma parse_state_safe st toks id :
  (forall w, sort_of st (tokn toks 2) = Some (TBV w) -> negb (w =? 0) = true) -> no_panic (parse_state st toks id).
Proof.
  intros Hpre. unfold parse_state. apply no_panic_bind; [apply no_panic_get_tpe|intros tpe Ht].
  apply get_tpe_sort_of in Ht. destruct (label_name st toks "_state") as [st1 name].
  apply no_panic_bind; [|intros; apply no_panic_ok]. apply b_symbol_safe. intros w ->. auto.
Qed.

Lemma parse_input_safe st toks id :
  (forall w, sort_of st (tokn toks 2) = Some (TBV w) -> negb (w =? 0) = true) -> no_panic (parse_input st toks id).
Proof.
  intros Hpre. unfold parse_input. apply no_panic_bind; [apply no_panic_get_tpe|intros tpe Ht].
  apply get_tpe_sort_of in Ht. destruct (label_name st toks "_input") as [st1 name].
  apply no_panic_bind; [|intros; apply no_panic_ok]. apply b_symbol_safe. intros w ->. auto.
Qed.

Lemma parse_init_next_safe st toks is_init :
  neg_ok st (tokn toks 4) = true -> no_panic (parse_init_next st toks is_init).
Proof.
  intros Hn. unfold parse_init_next.
  apply no_panic_bind; [apply no_panic_require|intros _ _].
  apply no_panic_bind; [apply no_panic_get_tpe|intros tpe _].
  apply no_panic_bind; [apply no_panic_get_state|intros idx _].
  destruct (negb (ty_eqb _ tpe)); [apply no_panic_err|].
  apply no_panic_bind; [apply no_panic_get_expr; auto|intros maybe _].
  apply no_panic_bind.
  - destruct (is_init && is_bv_ty (type_of maybe) && negb (is_bv_ty _)) eqn:E; [|apply no_panic_ok].
    apply andb_true_iff in E. destruct E as [E _]. apply andb_true_iff in E. destruct E as [_ E].
    unfold b_array_const, unwrap_bv. destruct (type_of maybe); [apply no_panic_ok|discriminate].
  - intros e _. destruct (negb (ty_eqb _ _)); [apply no_panic_err|apply no_panic_ok].
Qed.

Lemma parse_prop_safe st toks op :
  seq op "fair" = false -> neg_ok st (tokn toks 2) = true ->
  seq op "output" || seq op "bad" || seq op "constraint" || seq op "fair" = true ->
  no_panic (parse_prop st toks op).
Proof.
  intros Hf Hn Hop. unfold parse_prop. apply no_panic_bind; [apply no_panic_get_expr; auto|intros e _].
  destruct (seq op "output"). { destruct (label_name st toks "_output"). apply no_panic_ok. }
  destruct (seq op "bad"). { destruct (label_name _ toks "_bad"). apply no_panic_ok. }
  destruct (seq op "constraint"). { destruct (label_name _ toks "_constraint"). apply no_panic_ok. }
  cbn [orb] in Hop. rewrite Hf in Hop. discriminate.
Qed.

(** ** one line *)
Lemma supported_not_mem t0 op rest : supported_line (t0 :: op :: rest) = true -> str_mem op unsupported_ops = false.
Proof. cbn [supported_line]. apply negb_true_iff. Qed.

Lemma parse_line_safe st toks :
  J st -> supported_line toks = true -> line_pre st toks = true -> no_panic (parse_line true st toks).
Proof.
  intros HJ Hsup Hpre. unfold parse_line.
  destruct toks as [|t0 rest]; [apply no_panic_ok|].
  destruct (parse_line_id t0) as [[id neg]|]; [|apply no_panic_err].
  destruct neg; [apply no_panic_err|]. destruct rest as [|op rest']; [apply no_panic_err|].
  pose proof (supported_not_mem _ _ _ Hsup) as Hmem.
  unfold line_pre in Hpre. change (tokn (t0 :: op :: rest') 1) with op in Hpre.
  set (toks := t0 :: op :: rest') in *.
  destruct (un_table op) as [u|] eqn:Eu.
  { apply andb_true_iff in Hpre. destruct Hpre as [Hn Hp].
    apply no_panic_bind; [|intros; apply no_panic_ok]. apply parse_unary_safe; auto.
    - intros ->. apply un_unsup in Eu. congruence.
    - intros t Ht. rewrite Ht in Hp. exact Hp. }
  destruct (bin_table op) as [bo|] eqn:Eb.
  { apply andb_true_iff in Hpre. destruct Hpre as [Hn Hp]. apply andb_true_iff in Hn. destruct Hn as [Hn3 Hn4].
    apply no_panic_bind; [|intros; apply no_panic_ok]. apply parse_binary_safe; auto.
    - intros ->. apply bin_unsup in Eb. congruence.
    - eapply bin_table_shape; eauto.
    - intros ta tb Ha Hb. rewrite Ha, Hb in Hp. exact Hp. }
  apply no_panic_bind; [apply no_panic_require|intros _ _].
  destruct (seq op "ite").
  { apply andb_true_iff in Hpre. destruct Hpre as [Hn Hp]. apply andb_true_iff in Hn. destruct Hn as [Hn Hn5].
    apply andb_true_iff in Hn. destruct Hn as [Hn3 Hn4].
    apply no_panic_bind; [|intros; apply no_panic_ok]. apply parse_ternary_safe; auto.
    intros _ tc t1 t2 H3 H4 H5. rewrite H3, H4, H5 in Hp. exact Hp. }
  destruct (seq op "write").
  { apply andb_true_iff in Hpre. destruct Hpre as [Hn Hn5]. apply andb_true_iff in Hn. destruct Hn as [Hn3 Hn4].
    apply no_panic_bind; [|intros; apply no_panic_ok]. apply parse_ternary_safe; auto. discriminate. }
  destruct (seq op "sort") eqn:Es.
  { apply parse_sort_safe. intros Ha it dt Hi Hd. rewrite Ha, Hi, Hd in Hpre. exact Hpre. }
  destruct (seq op "const" || seq op "constd" || seq op "consth") eqn:Ec.
  { cbn [orb]. apply no_panic_bind; [|intros; apply no_panic_ok]. apply parse_format_safe.
    - rewrite Ec. reflexivity.
    - intros _ w Hw. rewrite Hw in Hpre. exact Hpre.
    - intros Hz. exfalso.
      apply orb_true_iff in Ec. destruct Ec as [Ec|Ec]; [apply orb_true_iff in Ec; destruct Ec as [Ec|Ec]|];
        apply seq_eq in Ec; subst op; discriminate. }
  cbn [orb].
  destruct (seq op "zero" || seq op "one" || seq op "ones") eqn:Ez.
  { apply no_panic_bind; [|intros; apply no_panic_ok]. apply parse_format_safe.
    - rewrite Ec. cbn [orb]. exact Ez.
    - intros Hc. rewrite Ec in Hc. discriminate.
    - intros _ w Hw. rewrite Hw in Hpre. exact Hpre. }
  destruct (seq op "state") eqn:Est.
  { cbn [orb] in Hpre. apply parse_state_safe. intros w Hw. rewrite Hw in Hpre. exact Hpre. }
  destruct (seq op "input") eqn:Ein.
  { cbn [orb] in Hpre. apply parse_input_safe. intros w Hw. rewrite Hw in Hpre. exact Hpre. }
  cbn [orb] in Hpre.
  destruct (seq op "init"). { cbn [orb] in Hpre. apply parse_init_next_safe. exact Hpre. }
  destruct (seq op "next"). { cbn [orb] in Hpre. apply parse_init_next_safe. exact Hpre. }
  cbn [orb] in Hpre.
  destruct (seq op "output" || seq op "bad" || seq op "constraint" || seq op "fair") eqn:Ep; [|apply no_panic_err].
  assert (Hfair : seq op "fair" = false).
  { destruct (seq op "fair") eqn:Ef; auto. apply seq_eq in Ef. subst op. discriminate. }
  apply parse_prop_safe; auto.
  rewrite Hfair, orb_false_r in Ep. rewrite Ep in Hpre. exact Hpre.
Qed.

(** ** preservation of [J] *)
Lemma J_signals st st' : p_signals st = p_signals st' -> J st -> J st'.
Proof. unfold J. intros <-. auto. Qed.

Lemma J_set_signal st id e : J st -> no_panic (tcheck true e) -> J (set_signal st id e).
Proof.
  intros HJ He k x H. cbn [set_signal p_signals] in H. apply find_add_cases in H. destruct H as [->|H]; auto.
  eapply HJ; eauto.
Qed.

Lemma core_signals st st' : core_eq st st' -> p_signals st = p_signals st'.
Proof. intros (_ & _ & H & _). exact H. Qed.

Lemma finish_node_J st toks id e n : J st -> no_panic (tcheck true e) -> J (finish_node st toks id (e, n)).
Proof.
  intros HJ He. pose proof (J_set_signal st id e HJ He) as H1. unfold finish_node.
  destruct (nth_error toks n) as [name|]; auto. destruct (include_name name); auto.
  destruct (add_unique (set_signal st id e) (clean_up_name name)) as [st2 nm] eqn:E.
  pose proof (core_add_unique (set_signal st id e) (clean_up_name name)) as Hc. rewrite E in Hc. cbn [fst] in Hc.
  eapply J_signals; [apply core_signals, core_note_name|]. eapply J_signals; [apply core_signals; exact Hc|]. exact H1.
Qed.

Lemma parse_unary_tsafe st toks u e n : parse_unary true st toks u = POk (e, n) -> no_panic (tcheck true e).
Proof.
  unfold parse_unary, lower_unary. intros H. binv H u0 Hr. binv H tpe Ht. binv H e0 He0. binv H rc Hrc. destruct rc as [r count].
  binv H c Hc. apply check_tsafe in Hc. destruct Hc as [-> Hs]. inversion H; subst. exact Hs.
Qed.

Lemma parse_binary_tsafe st toks bo e n : parse_binary true st toks bo = POk (e, n) -> no_panic (tcheck true e).
Proof.
  unfold parse_binary, lower_binary. intros H. binv H u0 Hr. binv H tpe Ht. binv H a Ha. binv H b Hb. binv H r Hrc.
  binv H c Hc. apply check_tsafe in Hc. destruct Hc as [-> Hs]. inversion H; subst. exact Hs.
Qed.

Lemma parse_ternary_tsafe st toks b e n : parse_ternary true st toks b = POk (e, n) -> no_panic (tcheck true e).
Proof.
  unfold parse_ternary, lower_ternary. intros H. binv H u0 Hr. binv H tpe Ht. binv H a Ha. binv H b0 Hb. binv H c0 Hc0. binv H r Hrc.
  binv H c Hc. apply check_tsafe in Hc. destruct Hc as [-> Hs]. inversion H; subst. exact Hs.
Qed.

Lemma parse_format_tsafe st toks op e n : parse_format st toks op = POk (e, n) -> no_panic (tcheck true e).
Proof.
  unfold parse_format. intros H. binv H w Hw.
  destruct (seq op "zero"). { binv H r Hr. inversion H; subst. apply b_lit_ok in Hr. destruct Hr as [_ ->]. apply tcheck_plain; reflexivity. }
  destruct (seq op "one"). { binv H r Hr. inversion H; subst. apply b_lit_ok in Hr. destruct Hr as [_ ->]. apply tcheck_plain; reflexivity. }
  destruct (seq op "ones"). { binv H r Hr. inversion H; subst. apply b_lit_ok in Hr. destruct Hr as [_ ->]. apply tcheck_plain; reflexivity. }
  destruct (Nat.ltb _ 4); [discriminate|]. binv H v Hv. inversion H; subst. apply tcheck_plain; reflexivity.
Qed.

Lemma b_symbol_plain name t sym : b_symbol name t = POk sym -> plain sym = true.
Proof. unfold b_symbol. destruct t; [destruct (_ =? 0)|]; intros H; inversion H; reflexivity. Qed.

Lemma parse_line_J st toks st' : J st -> parse_line true st toks = POk st' -> J st'.
Proof.
  intros HJ H. unfold parse_line in H.
  destruct toks as [|t0 rest]; [inversion H; subst; auto|].
  destruct (parse_line_id t0) as [[id neg]|]; [|discriminate].
  destruct neg; [discriminate|]. destruct rest as [|op rest']; [discriminate|].
  destruct (un_table op) as [u|].
  { binv H r Hr. inversion H; subst. destruct r as [e n]. apply finish_node_J; auto. eapply parse_unary_tsafe; eauto. }
  destruct (bin_table op) as [bo|].
  { binv H r Hr. inversion H; subst. destruct r as [e n]. apply finish_node_J; auto. eapply parse_binary_tsafe; eauto. }
  binv H u0 Hu0.
  destruct (seq op "ite").
  { binv H r Hr. inversion H; subst. destruct r as [e n]. apply finish_node_J; auto. eapply parse_ternary_tsafe; eauto. }
  destruct (seq op "write").
  { binv H r Hr. inversion H; subst. destruct r as [e n]. apply finish_node_J; auto. eapply parse_ternary_tsafe; eauto. }
  destruct (seq op "sort").
  { unfold parse_sort in H. destruct (seq _ "bitvec").
    - binv H u Hu. binv H w Hw. inversion H; subst. exact HJ.
    - destruct (seq _ "array"); [|discriminate]. binv H u Hu. binv H it Hit. binv H dt Hdt.
      destruct it; [|discriminate]. destruct dt; [|discriminate]. inversion H; subst. exact HJ. }
  destruct (seq op "const" || seq op "constd" || seq op "consth" || seq op "zero" || seq op "one" || seq op "ones").
  { binv H r Hr. inversion H; subst. destruct r as [e n]. apply finish_node_J; auto. eapply parse_format_tsafe; eauto. }
  destruct (seq op "state").
  { unfold parse_state in H. binv H tpe Ht. destruct (label_name st _ "_state") as [st1 name] eqn:E.
    pose proof (core_label_name st (t0 :: op :: rest') "_state") as Hc. rewrite E in Hc. cbn [fst] in Hc.
    binv H sym Hs. inversion H; subst. apply J_set_signal; [|apply tcheck_plain; eapply b_symbol_plain; eauto].
    eapply J_signals; [apply core_signals, core_note_name|]. eapply J_signals; [|exact HJ].
    cbn [add_state p_signals]. apply core_signals. exact Hc. }
  destruct (seq op "input").
  { unfold parse_input in H. binv H tpe Ht. destruct (label_name st _ "_input") as [st1 name] eqn:E.
    pose proof (core_label_name st (t0 :: op :: rest') "_input") as Hc. rewrite E in Hc. cbn [fst] in Hc.
    binv H sym Hs. inversion H; subst. apply J_set_signal; [|apply tcheck_plain; eapply b_symbol_plain; eauto].
    eapply J_signals; [apply core_signals, core_note_name|]. eapply J_signals; [|exact HJ].
    cbn [add_input p_signals]. apply core_signals. exact Hc. }
  assert (Hin : forall b, parse_init_next st (t0 :: op :: rest') b = POk st' -> J st').
  { intros b Hb. unfold parse_init_next in Hb. binv Hb u Hu. binv Hb tpe Ht. binv Hb idx Hi.
    destruct (negb (ty_eqb _ tpe)); [discriminate|]. binv Hb maybe Hm. binv Hb e He.
    destruct (negb (ty_eqb _ _)); [discriminate|]. inversion Hb; subst. exact HJ. }
  destruct (seq op "init"); [apply (Hin true H)|]. destruct (seq op "next"); [apply (Hin false H)|].
  destruct (seq op "output" || seq op "bad" || seq op "constraint" || seq op "fair"); [|discriminate].
  unfold parse_prop in H. binv H e He.
  destruct (seq op "output").
  { destruct (label_name st _ "_output") as [st1 name] eqn:E.
    pose proof (core_label_name st (t0 :: op :: rest') "_output") as Hc. rewrite E in Hc. cbn [fst] in Hc.
    inversion H; subst. eapply J_signals; [apply core_signals, core_note_name|].
    eapply J_signals; [|exact HJ]. cbn [add_output p_signals]. apply core_signals. exact Hc. }
  destruct (seq op "bad").
  { destruct (label_name (add_bad st e) _ "_bad") as [st1 name] eqn:E.
    pose proof (core_label_name (add_bad st e) (t0 :: op :: rest') "_bad") as Hc. rewrite E in Hc. cbn [fst] in Hc.
    inversion H; subst. eapply J_signals; [apply core_signals, core_note_name|].
    eapply J_signals; [apply core_signals; exact Hc|]. exact HJ. }
  destruct (seq op "constraint"); [|discriminate].
  destruct (label_name (add_constraint st e) _ "_constraint") as [st1 name] eqn:E.
  pose proof (core_label_name (add_constraint st e) (t0 :: op :: rest') "_constraint") as Hc. rewrite E in Hc. cbn [fst] in Hc.
  inversion H; subst. eapply J_signals; [apply core_signals, core_note_name|].
  eapply J_signals; [apply core_signals; exact Hc|]. exact HJ.
Qed.

Lemma J_empty : J p_empty.
Proof. intros k e H. cbn [p_empty p_signals] in H. rewrite PM.gempty in H. discriminate. Qed.

(** ** the fold, and the theorems *)
Lemma parse_fold_safe ls : forall st err,
  J st -> forallb supported_line ls = true -> pre_all ls st = true -> no_panic (parse_fold true ls st err).
Proof.
  induction ls as [|l ls IH]; intros st err HJ Hs Hp; cbn [parse_fold]; [apply no_panic_ok|].
  cbn [forallb] in Hs. apply andb_true_iff in Hs. destruct Hs as [Hs1 Hs2].
  cbn [pre_all] in Hp. apply andb_true_iff in Hp. destruct Hp as [Hp1 Hp2].
  pose proof (parse_line_safe st l HJ Hs1 Hp1) as Hl.
  destruct (parse_line true st l) as [st1| |k] eqn:E.
  - apply IH; auto. eapply parse_line_J; eauto.
  - apply IH; auto.
  - exfalso. apply (Hl k). reflexivity.
Qed.

Theorem no_crash_debug ls :
  forallb supported_line ls = true -> pre_all ls p_empty = true -> no_panic (parse_lines true ls).
Proof.
  intros Hs Hp. unfold parse_lines, parse_raw.
  apply no_panic_bind; [|intros [sy ren] _; apply no_panic_ok].
  apply no_panic_bind; [apply parse_fold_safe; auto; apply J_empty|].
  intros [st err] _. destruct err; [apply no_panic_err|apply no_panic_ok].
Qed.

Theorem no_crash_outside_known ls :
  forallb supported_line ls = true -> pre_all ls p_empty = true ->
  forall dbg k, parse_lines dbg ls <> PPanic k.
Proof.
  intros Hs Hp dbg. pose proof (no_crash_debug ls Hs Hp) as Hd. destruct dbg; [exact Hd|].
  rewrite (release_equals_debug ls Hd). exact Hd.
Qed.

(** accepted systems of a release build, outside the known class *)
Theorem accepted_weak_release ls sy :
  existsb zero_sort_line ls = false -> (forall k, parse_lines true ls <> PPanic k) ->
  parse_lines false ls = POk sy -> sys_ok_weak sy = true /\ sys_closed sy.
Proof.
  intros Hz Hd H. rewrite (release_equals_debug ls Hd) in H. eapply accepted_weak; eauto.
Qed.

(** ** statements on texts *)
Definition lines_of (text : string) : list (list string) := map tokenize (split_lines text).

(** the known class: some line violates [line_pre] in the state in which it is processed *)
Definition known_class (text : string) : bool := negb (pre_all (lines_of text) p_empty).
Definition supported (text : string) : bool := forallb supported_line (lines_of text).
Definition declares_zero_width (text : string) : bool := existsb zero_sort_line (lines_of text).

Lemma text_no_crash text :
  supported text = true -> known_class text = false -> forall dbg k, parse_text dbg text <> PPanic k.
Proof.
  unfold supported, known_class, parse_text. intros Hs Hk. apply negb_false_iff in Hk.
  apply no_crash_outside_known; auto.
Qed.

Lemma text_accepted_debug text sy :
  declares_zero_width text = false -> parse_text true text = POk sy -> sys_ok_weak sy = true /\ sys_closed sy.
Proof. unfold declares_zero_width, parse_text. apply accepted_weak. Qed.

Lemma text_accepted_ok_debug text sy :
  declares_zero_width text = false -> parse_text true text = POk sy -> props_1bit sy = true ->
  sys_ok sy = true /\ sys_closed sy.
Proof. unfold declares_zero_width, parse_text. apply accepted_ok. Qed.

Lemma text_release_equals_debug text :
  (forall k, parse_text true text <> PPanic k) -> parse_text false text = parse_text true text.
Proof. unfold parse_text. apply release_equals_debug. Qed.

Lemma text_accepted_outside_known text :
  supported text = true -> known_class text = false -> declares_zero_width text = false ->
  forall dbg sy, parse_text dbg text = POk sy ->
    sys_ok_weak sy = true /\ sys_closed sy /\ (props_1bit sy = true -> sys_ok sy = true).
Proof.
  intros Hs Hk Hz dbg sy H.
  assert (Hd : parse_text true text = POk sy).
  { destruct dbg; auto. rewrite <- (text_release_equals_debug text); auto.
    intros k. apply text_no_crash; auto. }
  destruct (text_accepted_debug text sy Hz Hd) as [Hw Hc]. repeat split; auto.
  intros Hp. rewrite sys_ok_split, Hw, Hp. reflexivity.
Qed.
