(** * Proofs/SmtSpecProofs.v — the reference front end is coherent: whenever a term evaluates
    (under a model whose values have the declared sorts), the strict sort checker accepts the
    term and gives it the sort of its value. *)
From Coq Require Import Lia.
From Patronus Require Import SmtSer SmtSerLemmas SmtSemLemmas.
Open Scope string_scope.
Open Scope list_scope.
Open Scope N_scope.

(** ** the reference checker and the reference evaluator agree: whenever a term evaluates,
    the strict sort checker gives it the sort of its value *)

Definition model_sorted (G : sctx) (M : smodel) : Prop :=
  forall n v, M n = Some v -> G n = Some (sort_of_val v).

Lemma fold_none {A B} (f : A -> B -> option A) l :
  fold_left (fun acc x => match acc with Some y => f y x | None => None end) l None = None.
Proof. induction l as [|x l IH]; [reflexivity | exact IH]. Qed.

Lemma left_assoc_sort (f : sval -> sval -> option sval) (g : ssort -> ssort -> option ssort) :
  (forall a b r, f a b = Some r -> g (sort_of_val a) (sort_of_val b) = Some (sort_of_val r)) ->
  forall args r, left_assoc f args = Some r -> left_assoc g (map sort_of_val args) = Some (sort_of_val r).
Proof.
  intros H args r. unfold left_assoc. destruct args as [|a [|b rest]]; try discriminate.
  cbn [map].
  assert (F : forall l acc, fold_left (fun acc x => match acc with Some y => f y x | None => None end) l (Some acc) = Some r ->
              fold_left (fun acc x => match acc with Some y => g y x | None => None end) (map sort_of_val l) (Some (sort_of_val acc)) = Some (sort_of_val r)).
  { induction l as [|x l IH]; intros acc Hf; cbn [fold_left map] in *.
    - inversion Hf; subst. reflexivity.
    - destruct (f acc x) as [y|] eqn:E.
      + rewrite (H _ _ _ E). now apply IH.
      + rewrite fold_none in Hf. discriminate Hf. }
  apply (F (b :: rest) a).
Qed.

Lemma right_assoc_go_sort (f : sval -> sval -> option sval) (g : ssort -> ssort -> option ssort) :
  (forall a b r, f a b = Some r -> g (sort_of_val a) (sort_of_val b) = Some (sort_of_val r)) ->
  forall rest a r, right_assoc_go f a rest = Some r -> right_assoc_go g (sort_of_val a) (map sort_of_val rest) = Some (sort_of_val r).
Proof.
  intros H rest. induction rest as [|b rest IH]; intros a r Hf; cbn [right_assoc_go map] in *.
  - inversion Hf; subst. reflexivity.
  - destruct (right_assoc_go f b rest) as [y|] eqn:E; [|discriminate]. rewrite (IH _ _ E). now apply H.
Qed.

Lemma bool2_sort f a b r : bool2 f a b = Some r -> so_bool2 (sort_of_val a) (sort_of_val b) = Some (sort_of_val r).
Proof. destruct a, b; cbn; intros H; inversion H; reflexivity. Qed.

Lemma bits2_sort f a b r : bits2 f a b = Some r -> so_bits2 (sort_of_val a) (sort_of_val b) = Some (sort_of_val r).
Proof.
  destruct a as [|w x|], b as [|w' y|]; cbn; try discriminate.
  destruct (w =? w'); intros H; inversion H; reflexivity.
Qed.

Lemma sval_eqb_sort a b e : sval_eqb a b = Some e -> so_same (sort_of_val a) (sort_of_val b) = Some true.
Proof.
  unfold so_same. destruct a as [x|w x|i d f], b as [y|w' y|i' d' g]; cbn [sval_eqb sort_of_val ssort_eqb]; try discriminate.
  - reflexivity.
  - destruct (w =? w'); [reflexivity | discriminate].
  - destruct (ssort_eqb i i' && ssort_eqb d d'); [reflexivity | discriminate].
Qed.

Lemma chain_go_sort (r : sval -> sval -> option bool) :
  (forall a b e, r a b = Some e -> so_same (sort_of_val a) (sort_of_val b) = Some true) ->
  forall rest a e, chain_go r a rest = Some e -> exists e', chain_go so_same (sort_of_val a) (map sort_of_val rest) = Some e'.
Proof.
  intros H rest. induction rest as [|b rest IH]; intros a e Hc; cbn [chain_go map] in *; [eauto|].
  destruct (r a b) as [x|] eqn:E; [|discriminate]. destruct (chain_go r b rest) as [y|] eqn:E2; [|discriminate].
  rewrite (H _ _ _ E). destruct (IH _ _ E2) as [e' ->]. eauto.
Qed.

Lemma all_against_sort (r : sval -> sval -> option bool) :
  (forall a b e, r a b = Some e -> so_same (sort_of_val a) (sort_of_val b) = Some true) ->
  forall rest a e, all_against r a rest = Some e -> exists e', all_against so_same (sort_of_val a) (map sort_of_val rest) = Some e'.
Proof.
  intros H rest. induction rest as [|b rest IH]; intros a e Hc; cbn [all_against map] in *; [eauto|].
  destruct (r a b) as [x|] eqn:E; [|discriminate]. destruct (all_against r a rest) as [y|] eqn:E2; [|discriminate].
  rewrite (H _ _ _ E). destruct (IH _ _ E2) as [e' ->]. eauto.
Qed.

Lemma pairwise_go_sort (r : sval -> sval -> option bool) :
  (forall a b e, r a b = Some e -> so_same (sort_of_val a) (sort_of_val b) = Some true) ->
  forall l e, pairwise_go r l = Some e -> exists e', pairwise_go so_same (map sort_of_val l) = Some e'.
Proof.
  intros H l. induction l as [|a l IH]; intros e Hc; cbn [pairwise_go map] in *; [eauto|].
  destruct (all_against r a l) as [x|] eqn:E; [|discriminate]. destruct (pairwise_go r l) as [y|] eqn:E2; [|discriminate].
  destruct (all_against_sort r H _ _ _ E) as [e1 ->]. destruct (IH _ eq_refl) as [e2 ->]. eauto.
Qed.


Lemma bits2_args_sort f args r : bits2_args f args = Some r -> so_bits2_args (map sort_of_val args) = Some (sort_of_val r).
Proof. unfold bits2_args, so_bits2_args. destruct args as [|a [|b [|? ?]]]; try discriminate. apply bits2_sort. Qed.

Lemma bitscmp_args_sort f args r : bitscmp_args f args = Some r -> so_bitscmp_args (map sort_of_val args) = Some (sort_of_val r).
Proof.
  unfold bitscmp_args, so_bitscmp_args. destruct args as [|[|w x|] [|[|w' y|] [|? ?]]]; try discriminate. cbn [map sort_of_val].
  destruct (w =? w'); intros H; inversion H; reflexivity.
Qed.

Lemma apply_op_sort o args r : apply_op o args = Some r -> op_sort o (map sort_of_val args) = Some (sort_of_val r).
Proof.
  destruct o; cbn [apply_op op_sort].
  - destruct args as [|[] [|? ?]]; cbn; intros H; inversion H; reflexivity.
  - unfold right_assoc. destruct args as [|a [|b rest]]; try discriminate. cbn [map]. apply (right_assoc_go_sort _ so_bool2 (bool2_sort implb)).
  - apply (left_assoc_sort _ so_bool2 (bool2_sort andb)).
  - apply (left_assoc_sort _ so_bool2 (bool2_sort orb)).
  - apply (left_assoc_sort _ so_bool2 (bool2_sort xorb)).
  - unfold chainable. destruct args as [|a [|b rest]]; try discriminate. cbn [map].
    destruct (chain_go sval_eqb a (b :: rest)) as [e|] eqn:E; [|discriminate]. intros H. inversion H; subst.
    destruct (chain_go_sort sval_eqb sval_eqb_sort _ _ _ E) as [e' He']. cbn [map] in He'. rewrite He'. reflexivity.
  - unfold pairwise. destruct args as [|a [|b rest]]; try discriminate. cbn [map].
    match goal with |- context [pairwise_go ?rr (a :: b :: rest)] => destruct (pairwise_go rr (a :: b :: rest)) as [e|] eqn:E end; [|discriminate].
    intros H. inversion H; subst.
    match type of E with pairwise_go ?rr _ = _ =>
      assert (Hr : forall x y e0, rr x y = Some e0 -> so_same (sort_of_val x) (sort_of_val y) = Some true) end.
    { intros x y e0 Hx. destruct (sval_eqb x y) eqn:Ee; [|discriminate]. now apply (sval_eqb_sort x y b0). }
    destruct (pairwise_go_sort _ Hr _ _ E) as [e' He']. cbn [map] in He'. rewrite He'. reflexivity.
  - destruct args as [|[] [|t [|f [|? ?]]]]; try discriminate. cbn [map sort_of_val].
    destruct (ssort_eqb (sort_of_val t) (sort_of_val f)) eqn:E; [|discriminate]. intros H. inversion H; subst.
    destruct b; [reflexivity | now rewrite (ssort_eqb_eq _ _ E)].
  - destruct args as [|[] [|[] [|? ?]]]; try discriminate. intros H; inversion H; reflexivity.
  - destruct args as [|[] [|? ?]]; try discriminate. intros H; inversion H; reflexivity.
  - destruct args as [|[] [|? ?]]; try discriminate. intros H; inversion H; reflexivity.
  - apply (left_assoc_sort _ so_bits2 (bits2_sort _)).
  - apply (left_assoc_sort _ so_bits2 (bits2_sort _)).
  - apply (left_assoc_sort _ so_bits2 (bits2_sort _)).
  - apply (left_assoc_sort _ so_bits2 (bits2_sort _)).
  - apply bits2_args_sort.
  - apply bits2_args_sort.
  - apply bits2_args_sort.
  - apply bits2_args_sort.
  - apply bitscmp_args_sort.
  - apply bits2_args_sort.
  - apply bits2_args_sort.
  - apply (left_assoc_sort _ so_bits2 (bits2_sort _)).
  - apply bits2_args_sort.
  - destruct args as [|[|w x|] [|[|w' y|] [|? ?]]]; try discriminate. cbn [map sort_of_val].
    destruct (w =? w'); intros H; inversion H; reflexivity.
  - apply bits2_args_sort.
  - apply bits2_args_sort.
  - apply bits2_args_sort.
  - apply bits2_args_sort.
  - apply bits2_args_sort.
  - apply bitscmp_args_sort.
  - apply bitscmp_args_sort.
  - apply bitscmp_args_sort.
  - apply bitscmp_args_sort.
  - apply bitscmp_args_sort.
  - apply bitscmp_args_sort.
  - apply bitscmp_args_sort.
  - destruct args as [|[| |i d f] [|k [|? ?]]]; try discriminate. cbn [map sort_of_val].
    destruct (ssort_eqb (sort_of_val k) i); [|discriminate]. intros H; inversion H; subst.
    destruct d; reflexivity.
  - destruct args as [|[| |i d f] [|k [|x [|? ?]]]]; try discriminate. cbn [map sort_of_val].
    destruct (ssort_eqb (sort_of_val k) i && ssort_eqb (sort_of_val x) d); [|discriminate]. intros H; inversion H; reflexivity.
Qed.

Lemma apply_idx_sort ix args r : apply_idx ix args = Some r -> idx_sort ix (map sort_of_val args) = Some (sort_of_val r).
Proof.
  destruct ix; cbn [apply_idx idx_sort]; destruct args as [|[|m a|] [|? ?]]; try discriminate; cbn [map sort_of_val].
  - destruct ((i <? m) && (j <=? i)); intros H; inversion H; reflexivity.
  - intros H; inversion H; reflexivity.
  - intros H; inversion H; reflexivity.
Qed.

Lemma model_sorted_upd G M n v : model_sorted G M -> model_sorted (upd G n (sort_of_val v)) (upd M n v).
Proof.
  intros H x vx. unfold upd. destruct (String.eqb x n); [intros E; inversion E; reflexivity | apply H].
Qed.

Lemma model_sorted_upd_all G M bs :
  model_sorted G M -> model_sorted (upd_all G (map (fun p => (fst p, sort_of_val (snd p))) bs)) (upd_all M bs).
Proof.
  intros H. induction bs as [|[n v] bs IH]; [exact H|]. cbn [upd_all map fst snd]. now apply model_sorted_upd.
Qed.

Theorem seval_scheck :
  forall t G M v, model_sorted G M -> seval M t = Some v -> scheck G t = Some (sort_of_val v).
Proof.
  fix IH 1. intros t G M v Hm Hs. destruct t as [a | l].
  - cbn [seval scheck] in *. unfold eval_atom in Hs. unfold check_atom.
    destruct (symbol_name a) as [n|].
    + destruct (String.eqb n "true"); [inversion Hs; reflexivity|].
      destruct (String.eqb n "false"); [inversion Hs; reflexivity|]. now apply Hm.
    + destruct (bv_literal a) as [[w x]|]; [inversion Hs; reflexivity | discriminate Hs].
  - destruct l as [|hd rest]; [discriminate Hs|]. cbn [seval scheck] in *.
    assert (Hargs : forall l' vs, map_opt (seval M) l' = Some vs -> map_opt (scheck G) l' = Some (map sort_of_val vs)).
    { induction l' as [|x l' IHl]; intros vs Hv; cbn [map_opt] in *.
      - inversion Hv; reflexivity.
      - destruct (seval M x) as [vx|] eqn:Ex; [|discriminate Hv]. destruct (map_opt (seval M) l') as [vl|] eqn:El; [|discriminate Hv].
        inversion Hv; subst. rewrite (IH x G M vx Hm Ex), (IHl vl eq_refl). reflexivity. }
    destruct hd as [h | hd].
    + destruct (String.eqb h "let").
      * destruct rest as [|[|bs] [|body [|? ?]]]; try discriminate Hs.
        match type of Hs with context [(fix binds (bs0 : list sx) {struct bs0} : option (list (string * sval)) := _) bs] =>
          set (B := (fix binds (bs0 : list sx) {struct bs0} : option (list (string * sval)) := _)) in Hs end.
        match goal with |- context [(fix binds (bs0 : list sx) {struct bs0} : option (list (string * ssort)) := _) bs] =>
          set (C := (fix binds (bs0 : list sx) {struct bs0} : option (list (string * ssort)) := _)) end.
        assert (HB : forall bs' r, B bs' = Some r -> C bs' = Some (map (fun p => (fst p, sort_of_val (snd p))) r)).
        { induction bs' as [|b bs' IHb]; intros r Hr; cbn in Hr |- *.
          - inversion Hr; reflexivity.
          - destruct b as [|[|[x|] [|tx [|? ?]]]]; try discriminate Hr.
            destruct (binder_name x) as [n|]; [|discriminate Hr].
            destruct (seval M tx) as [vx|] eqn:Ex; [|discriminate Hr].
            fold B in Hr. fold C. destruct (B bs') as [rb|] eqn:Eb; [|discriminate Hr]. inversion Hr; subst.
            rewrite (IH tx G M vx Hm Ex), (IHb rb eq_refl). reflexivity. }
        destruct (B bs) as [[|b0 bl]|] eqn:EB; try discriminate Hs.
        rewrite (HB _ _ EB). cbn [map]. 
        assert (Hn : map fst (map (fun p : string * sval => (fst p, sort_of_val (snd p))) (b0 :: bl)) = map fst (b0 :: bl)).
        { rewrite map_map. reflexivity. }
        cbn [map] in Hn. rewrite Hn.
        cbn [map] in Hs. destruct (names_distinct (fst b0 :: map fst bl)); [|discriminate Hs].
        apply (IH body _ (upd_all M (b0 :: bl)) v); [|exact Hs].
        apply (model_sorted_upd_all G M (b0 :: bl) Hm).
      * destruct (symbol_name h) as [n|]; [|discriminate Hs]. destruct (op_of_name n) as [o|]; [|discriminate Hs].
        destruct (map_opt (seval M) rest) as [vs|] eqn:Ev; [|discriminate Hs].
        rewrite (Hargs rest vs Ev). now apply apply_op_sort.
    + destruct hd as [|[u|] [|[f|] indices]]; try discriminate Hs.
      destruct (String.eqb u "_").
      * destruct (symbol_name f) as [fname|]; [|discriminate Hs].
        destruct rest as [|r0 rest'].
        -- destruct (bv_decimal_name fname) as [x|]; [|discriminate Hs].
           destruct indices as [|[wtxt|] [|? ?]]; try discriminate Hs.
           destruct (numeral wtxt) as [w|]; [|discriminate Hs].
           destruct ((0 <? w) && (x <? 2 ^ w)); inversion Hs; reflexivity.
        -- destruct (idx_of fname indices) as [ix|]; [|discriminate Hs].
           destruct (map_opt (seval M) (r0 :: rest')) as [vs|] eqn:Ev; [|discriminate Hs].
           rewrite (Hargs _ vs Ev). now apply apply_idx_sort.
      * destruct (String.eqb u "as"); [|discriminate Hs]. destruct (sym_is f "const"); [|discriminate Hs].
        destruct indices as [|so [|? ?]]; try discriminate Hs. destruct rest as [|x [|? ?]]; try discriminate Hs.
        destruct (sort_of_sx so) as [[| |i d]|]; try discriminate Hs.
        destruct (seval M x) as [vx|] eqn:Ex; [|discriminate Hs].
        rewrite (IH x G M vx Hm Ex).
        destruct (ssort_eqb (sort_of_val vx) d); inversion Hs; reflexivity.
Qed.
