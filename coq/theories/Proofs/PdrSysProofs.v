(** * Proofs/PdrSysProofs.v — the concrete model of pdr.rs, instantiated with the semantics of a
    transition system of Spec/System.v (Model/PdrSys.v): Success of the model means that no bad
    state is reachable in the sense of [bad_reachable] (executions with the constraints at every
    step), for EVERY system of the class [fin_class] and every truthful oracle.

    The link proved here: every execution of Spec/System.v maps to a path of the state-level
    semantics ([sys_step0] for the first transition, whose inputs are shared with the init
    equations, then [sys_trans]) that ends in a [sys_bad] (or [sys_bad0]) state. *)
From Coq Require Import List NArith Lia Bool Eqdep_dec.
From Patronus Require Import ReachFix ReachFixProofs EvalProofs BVLemmas Ic3 PdrImpl PdrImplProofs PdrSys.
Import ListNotations.
Open Scope N_scope.

Lemma NoDup_app_disj {A} (l1 l2 : list A) x : NoDup (l1 ++ l2) -> In x l1 -> In x l2 -> False.
Proof.
  induction l1 as [| a l1 IH]; intros Hnd H1 H2; [destruct H1 |].
  cbn in Hnd. inversion Hnd as [| ? ? Hna Hnd']; subst. destruct H1 as [-> | H1].
  - apply Hna. apply in_or_app. now right.
  - now apply IH.
Qed.

Lemma NoDup_app_parts {A} (l1 l2 : list A) : NoDup (l1 ++ l2) -> NoDup l1 /\ NoDup l2.
Proof.
  induction l1 as [| a l1 IH]; intros H; [split; [constructor | exact H] |].
  cbn in H. inversion H as [| ? ? Hna Hnd]; subst. destruct (IH Hnd) as [H1 H2]. split; [| exact H2].
  constructor; [| exact H1]. intros Hin. apply Hna. apply in_or_app. now left.
Qed.

Section PdrSysProofs.
  Variable sy : sys.
  Hypothesis Hcls : fin_class sy = true.
  Let F := fin_class_facts sy Hcls.

  Notation isigs := (isigs sy).
  Notation ssigs := (ssigs sy).
  Notation sigs := (all_sigs sy).
  Notation mk := (mk_env sy).

  Lemma sigs_split : sigs = isigs ++ ssigs.
  Proof. reflexivity. Qed.

  Lemma nodup_parts : NoDup (map fst isigs) /\ NoDup (map fst ssigs).
  Proof.
    pose proof (cf_nodup sy F) as H. rewrite sigs_split, map_app in H.
    now apply NoDup_app_parts.
  Qed.

  Lemma state_not_input n w : In (n, w) ssigs -> sig_mem (n, w) isigs = false.
  Proof.
    intros Hs. destruct (sig_mem (n, w) isigs) eqn:E; [| reflexivity]. exfalso.
    apply sig_mem_In in E. pose proof (cf_nodup sy F) as H. rewrite sigs_split, map_app in H.
    apply (NoDup_app_disj _ _ n H); apply in_map_iff; exists (n, w); now split.
  Qed.

  Lemma mk_inputs s i : agree isigs (mk s i) (env_of isigs i).
  Proof.
    intros n w Hin. unfold mk_env. cbn [rho_bv].
    assert (E : sig_mem (n, w) isigs = true) by now apply sig_mem_In. now rewrite E.
  Qed.

  Lemma mk_states s i : agree ssigs (mk s i) (env_of ssigs s).
  Proof. intros n w Hin. unfold mk_env. cbn [rho_bv]. now rewrite (state_not_input n w Hin). Qed.

  Lemma mk_wf s i : env_wf (mk s i).
  Proof.
    destruct (env_of_wf isigs i) as [Hi _]. destruct (env_of_wf ssigs s) as [Hs _].
    split; cbn [mk_env rho_bv rho_arr].
    - intros n w. destruct (sig_mem (n, w) isigs); [apply Hi | apply Hs].
    - intros. assert (H := pow2_nz dw). lia.
  Qed.

  (** a well-formed valuation is, on the signals, the one rebuilt from its state and input numbers *)
  Lemma mk_roundtrip rho : env_wf rho -> agree sigs (mk (sidx sy rho) (iidx sy rho)) rho.
  Proof.
    intros Hwf n w Hin. rewrite sigs_split in Hin. destruct nodup_parts as [Hni Hns].
    apply in_app_or in Hin. destruct Hin as [Hin | Hin].
    - rewrite (mk_inputs _ _ n w Hin). apply (env_of_idx isigs rho Hni); [now apply env_wf_bounded | exact Hin].
    - rewrite (mk_states _ _ n w Hin). apply (env_of_idx ssigs rho Hns); [now apply env_wf_bounded | exact Hin].
  Qed.

  Lemma agree_sub (l l' : list sig) a b : (forall x, In x l' -> In x l) -> agree l a b -> agree l' a b.
  Proof. intros Hsub H n w Hin. apply H. now apply Hsub. Qed.

  Lemma ssigs_sub x : In x ssigs -> In x sigs.
  Proof. intros H. rewrite sigs_split. apply in_or_app. now right. Qed.
  Lemma isigs_sub x : In x isigs -> In x sigs.
  Proof. intros H. rewrite sigs_split. apply in_or_app. now left. Qed.

  Lemma fsigs_sub x : In x (free_sigs sy) -> In x sigs.
  Proof.
    unfold free_sigs. intros H. apply in_app_or in H. destruct H as [H | H]; [now apply isigs_sub |].
    apply ssigs_sub. unfold PdrSys.ssigs, state_sigs. apply in_flat_map in H. destruct H as (st & Hst & Hx).
    apply in_flat_map. exists st. split; [exact Hst |]. destruct (st_next st); [destruct Hx | exact Hx].
  Qed.

  Lemma sidx_agree a b : agree sigs a b -> sidx sy a = sidx sy b.
  Proof. intros H. apply idx_of_agree. apply (agree_sub sigs); [apply ssigs_sub | exact H]. Qed.

  Lemma iidx_in rho : env_wf rho -> In (iidx sy rho) (all_inputs sy).
  Proof. intros Hwf. apply In_nrange. apply idx_of_bound. now apply env_wf_bounded. Qed.

  Lemma sidx_bound rho : env_wf rho -> sidx sy rho < 2 ^ sbits sy.
  Proof. intros Hwf. apply idx_of_bound. now apply env_wf_bounded. Qed.

  (** one step of an execution is a step of the state-level semantics *)
  Lemma steps_to_exec rho f :
    env_wf rho -> env_wf (next_env sy rho f) -> constraints_hold sy (next_env sy rho f) = true ->
    steps_to sy (mk (sidx sy rho) (iidx sy rho)) (sidx sy (next_env sy rho f)) = true.
  Proof.
    intros Hwf Hwf' Hc. set (r' := next_env sy rho f) in *.
    unfold steps_to. apply existsb_exists. exists (iidx sy r'). split; [now apply iidx_in |].
    assert (Hag : agree sigs (next_env sy (mk (sidx sy rho) (iidx sy rho)) (mk (sidx sy r') (iidx sy r'))) r').
    { apply agree_trans with (b := next_env sy rho r').
      - apply (next_env_agree sy Hcls); [now apply mk_roundtrip |].
        apply (agree_sub sigs); [apply fsigs_sub | now apply mk_roundtrip].
      - intros n w _. apply next_env_idem. }
    rewrite (sidx_agree _ _ Hag), N.eqb_refl. cbn [andb].
    now rewrite (constraints_agree sy Hcls _ _ Hag).
  Qed.

  Lemma init_at_exec rho : env_wf rho -> is_initial sy rho -> constraints_hold sy rho = true ->
    init_at sy (sidx sy rho) (iidx sy rho) = true.
  Proof.
    intros Hwf Hi Hc. unfold init_at. pose proof (mk_roundtrip rho Hwf) as Hag.
    rewrite (is_initial_b_agree sy Hcls _ _ Hag), (constraints_agree sy Hcls _ _ Hag), Hc.
    apply (is_initial_b_spec sy Hcls) in Hi. now rewrite Hi.
  Qed.

  Lemma sys_trans_exec rho f :
    env_wf rho -> constraints_hold sy rho = true ->
    env_wf (next_env sy rho f) -> constraints_hold sy (next_env sy rho f) = true ->
    sys_trans sy (sidx sy rho) (sidx sy (next_env sy rho f)) = true.
  Proof.
    intros Hwf Hc Hwf' Hc'. unfold sys_trans. apply existsb_exists. exists (iidx sy rho).
    split; [now apply iidx_in |]. rewrite (constraints_agree sy Hcls _ _ (mk_roundtrip rho Hwf)), Hc. cbn [andb].
    now apply steps_to_exec.
  Qed.

  Lemma sys_step0_exec rho f :
    env_wf rho -> is_initial sy rho -> constraints_hold sy rho = true ->
    env_wf (next_env sy rho f) -> constraints_hold sy (next_env sy rho f) = true ->
    sys_step0 sy (sidx sy rho) (sidx sy (next_env sy rho f)) = true.
  Proof.
    intros Hwf Hi Hc Hwf' Hc'. unfold sys_step0. apply existsb_exists. exists (iidx sy rho).
    split; [now apply iidx_in |]. rewrite (init_at_exec rho Hwf Hi Hc). cbn [andb]. now apply steps_to_exec.
  Qed.

  Lemma sys_bad_exec rho : env_wf rho -> constraints_hold sy rho = true -> some_bad sy rho = true ->
    sys_bad sy (sidx sy rho) = true.
  Proof.
    intros Hwf Hc Hb. unfold sys_bad. apply existsb_exists. exists (iidx sy rho). split; [now apply iidx_in |].
    pose proof (mk_roundtrip rho Hwf) as Hag.
    now rewrite (constraints_agree sy Hcls _ _ Hag), (some_bad_agree sy Hcls _ _ Hag), Hc, Hb.
  Qed.

  Lemma sys_bad0_exec rho : env_wf rho -> is_initial sy rho -> constraints_hold sy rho = true ->
    some_bad sy rho = true -> sys_bad0 sy (sidx sy rho) = true.
  Proof.
    intros Hwf Hi Hc Hb. unfold sys_bad0. apply existsb_exists. exists (iidx sy rho). split; [now apply iidx_in |].
    rewrite (init_at_exec rho Hwf Hi Hc). cbn [andb].
    now rewrite (some_bad_agree sy Hcls _ _ (mk_roundtrip rho Hwf)).
  Qed.

  (** *** states as bounded numbers *)
  Lemma st_val_of n : n < 2 ^ sbits sy -> st_val sy (st_of sy n) = n.
  Proof. intros H. unfold st_val, st_of. cbn [proj1_sig]. now apply N.mod_small. Qed.

  Lemma st_eq (a b : sstate sy) : st_val sy a = st_val sy b -> a = b.
  Proof.
    destruct a as [x Hx], b as [y Hy]. cbn [st_val proj1_sig]. intros ->. f_equal.
    apply (UIP_dec Bool.bool_dec).
  Qed.

  Lemma scube_unique (s s' : sstate sy) : ch slit (sstate sy) (slit_holds sy) (scube sy s) s' = true -> s' = s.
  Proof.
    intros H. apply st_eq. unfold ch, scube in H. rewrite forallb_forall in H.
    destruct s as [x Hx], s' as [y Hy]. cbn [st_val proj1_sig] in *.
    pose proof (proj1 (N.ltb_lt _ _) Hx) as Hx'. pose proof (proj1 (N.ltb_lt _ _) Hy) as Hy'. apply N.bits_inj. intros b.
    destruct (N.lt_ge_cases b (sbits sy)) as [Hb | Hb].
    - specialize (H (b, N.testbit x b)). unfold slit_holds in H. cbn [fst snd st_val proj1_sig] in H.
      apply eqb_prop. apply H. apply in_map_iff. exists b. split; [reflexivity | now apply In_nrange].
    - now rewrite (bits_bound y _ b Hy' Hb), (bits_bound x _ b Hx' Hb).
  Qed.

  Notation sreach := (reach1 (sstate sy) (st_step0 sy) (st_trans sy)).
  Notation sunsafe := (unsafe_at (sstate sy) (st_bad0 sy) (st_step0 sy) (st_trans sy) (st_bad sy)).
  Notation ssafe := (safe (sstate sy) (st_bad0 sy) (st_step0 sy) (st_trans sy) (st_bad sy)).

  Definition st_env (rho : env) : sstate sy := st_of sy (sidx sy rho).

  Lemma st_env_val rho : env_wf rho -> st_val sy (st_env rho) = sidx sy rho.
  Proof. intros Hwf. apply st_val_of. now apply sidx_bound. Qed.

  (** *** executions map to state-level paths *)
  Lemma run_reach frees : forall rho k,
      (1 <= k)%nat -> sreach k (st_env rho) ->
      (forall r, In r (run_from sy rho frees) -> env_wf r) ->
      forallb (constraints_hold sy) (run_from sy rho frees) = true ->
      sreach (k + length frees)%nat (st_env (last (run_from sy rho frees) env0)).
  Proof.
    induction frees as [| f frees IH]; intros rho k Hk Hr Hwf Hc.
    - cbn. now rewrite Nat.add_0_r.
    - rewrite (run_from_last_cons sy). cbn [length].
      replace (k + S (length frees))%nat with (S k + length frees)%nat by lia.
      cbn [run_from] in Hwf, Hc. cbn [forallb] in Hc. apply andb_true_iff in Hc. destruct Hc as [Hc0 Hc].
      assert (Hwf0 : env_wf rho) by (apply Hwf; now left).
      assert (Hwfn : env_wf (next_env sy rho f)) by (apply Hwf; right; apply run_from_head).
      assert (Hcn : constraints_hold sy (next_env sy rho f) = true).
      { destruct frees; cbn [run_from forallb] in Hc; apply andb_true_iff in Hc; apply Hc. }
      apply IH; [lia | | intros r Hin; apply Hwf; now right | exact Hc].
      apply (r1_step _ _ _ k (st_env rho)); [exact Hr |].
      unfold st_trans. rewrite !st_env_val by assumption. now apply sys_trans_exec.
  Qed.

  Theorem exec_unsafe trace :
    is_execution sy trace -> some_bad sy (last trace env0) = true -> sunsafe (pred (length trace)).
  Proof.
    intros (rho0 & frees & -> & Hi & Hwf & Hc) Hb. rewrite (run_from_length sy). cbn [pred].
    assert (Hwf0 : env_wf rho0) by (apply Hwf; apply run_from_head).
    assert (Hc0 : constraints_hold sy rho0 = true).
    { destruct frees; cbn [run_from forallb] in Hc; apply andb_true_iff in Hc; apply Hc. }
    destruct frees as [| f frees].
    - cbn [length unsafe_at]. cbn [run_from last] in Hb. exists (st_env rho0).
      unfold st_bad0. rewrite st_env_val by assumption. now apply sys_bad0_exec.
    - cbn [length unsafe_at].
      assert (Hwf1 : env_wf (next_env sy rho0 f)).
      { apply Hwf. cbn [run_from]. right. apply run_from_head. }
      assert (Hc1 : forallb (constraints_hold sy) (run_from sy (next_env sy rho0 f) frees) = true).
      { cbn [run_from forallb] in Hc. apply andb_true_iff in Hc. apply Hc. }
      assert (Hcn : constraints_hold sy (next_env sy rho0 f) = true).
      { destruct frees; cbn [run_from forallb] in Hc1; apply andb_true_iff in Hc1; apply Hc1. }
      assert (Hr1 : sreach 1 (st_env (next_env sy rho0 f))).
      { apply (r1_first _ _ _ (st_env rho0)). unfold st_step0. rewrite !st_env_val by assumption.
        now apply sys_step0_exec. }
      pose proof (run_reach frees (next_env sy rho0 f) 1 ltac:(lia) Hr1
                            ltac:(intros r Hr; apply Hwf; cbn [run_from]; now right) Hc1) as Hreach.
      rewrite (run_from_last_cons sy) in Hb.
      set (lst := last (run_from sy (next_env sy rho0 f) frees) env0) in *.
      exists (st_env lst). split; [exact Hreach |].
      assert (Hlwf : env_wf lst).
      { apply Hwf. cbn [run_from]. right. apply last_in. apply run_from_ne. }
      assert (Hlc : constraints_hold sy lst = true).
      { rewrite forallb_forall in Hc1. apply Hc1. apply last_in. apply run_from_ne. }
      unfold st_bad. rewrite st_env_val by assumption. now apply sys_bad_exec.
  Qed.

  (** safety of the state-level semantics is safety of the system *)
  Theorem ssafe_not_reachable : ssafe -> ~ bad_reachable sy.
  Proof.
    intros Hs (k & trace & Hex & _ & Hb). apply (Hs (pred (length trace))).
    apply (exec_unsafe trace Hex). exact Hb.
  Qed.

  Lemma no_bads_sys : s_bads sy = [] -> no_bads (sstate sy) (st_bad0 sy) (st_bad sy).
  Proof.
    intros He s. unfold st_bad0, st_bad, sys_bad0, sys_bad, some_bad. rewrite He. cbn [existsb]. split.
    - induction (all_inputs sy) as [| a l IH]; [reflexivity |]. cbn [existsb]. now rewrite andb_false_r.
    - induction (all_inputs sy) as [| a l IH]; [reflexivity |]. cbn [existsb]. now rewrite andb_false_r.
  Qed.

  (** ** the concrete model on a system of the class: Success is sound with respect to Spec/System.v *)
  Definition has_bads_of : bool := match s_bads sy with [] => false | _ => true end.

  Theorem pdr_model_success_sound_sys (W EM : Type)
          (solve : nat -> query slit -> answer slit (sstate sy) EM) (cmd_fail : nat -> option EM) (n_init : nat)
          (gen_on : bool) (bmc_result : bmc_answer W EM)
          (fuel bf : nat) (st' : pst slit (sstate sy) EM) :
    (forall n q, truthful slit slit_eqb (sstate sy) EM (slit_holds sy) (st_bad0 sy) (st_step0 sy) (st_trans sy) (st_bad sy)
                          q (solve n q)) ->
    pdr slit slit_eqb (sstate sy) (scube sy) W EM solve cmd_fail n_init gen_on has_bads_of bmc_result fuel bf = Ok (VSuccess W, st') ->
    ~ bad_reachable sy.
  Proof.
    intros Htr H. apply ssafe_not_reachable.
    apply (pdr_model_success_sound slit slit_eqb (sstate sy) (scube sy) W EM solve cmd_fail n_init gen_on has_bads_of bmc_result
                                   (slit_holds sy) (st_bad0 sy) (st_step0 sy) (st_trans sy) (st_bad sy) fuel bf st'); [| exact H].
    split; [exact scube_unique |]. split; [exact Htr |].
    unfold has_bads_of. intros Hb. apply no_bads_sys. destruct (s_bads sy); [reflexivity | discriminate Hb].
  Qed.

  (** ** the converse: a state-level path is realised by an execution of Spec/System.v *)
  Lemma idx_of_upd_other r : forall rho n w v,
      ~ In n (map fst r) -> idx_of r (upd_bv rho n w v) = idx_of r rho.
  Proof.
    intros rho n w v Hn. apply idx_of_agree. intros n' w' Hin. unfold upd_bv. cbn [rho_bv].
    destruct (String.eqb n' n) eqn:E; [| reflexivity]. apply String.eqb_eq in E. subst n'.
    exfalso. apply Hn. apply in_map_iff. exists (n, w'). now split.
  Qed.

  Lemma idx_of_env_of l : forall s, NoDup (map fst l) -> s < 2 ^ bits_of l -> idx_of l (env_of l s) = s.
  Proof.
    induction l as [| [n w] r IH]; intros s Hnd Hs.
    - cbn in *. lia.
    - cbn [map fst] in Hnd. inversion Hnd as [| ? ? Hn Hnd']; subst.
      cbn [env_of idx_of]. unfold upd_bv at 1. cbn [rho_bv]. rewrite String.eqb_refl, N.eqb_refl. cbn [andb].
      rewrite (idx_of_upd_other r _ n w _ Hn).
      cbn [bits_of fold_right snd] in Hs. fold (bits_of r) in Hs. rewrite N.pow_add_r in Hs.
      rewrite IH; [| exact Hnd' | apply N.div_lt_upper_bound; [apply pow2_nz | exact Hs]].
      rewrite N.add_comm. symmetry. apply N.div_mod. apply pow2_nz.
  Qed.

  Lemma mk_sidx s i : s < 2 ^ sbits sy -> sidx sy (mk s i) = s.
  Proof.
    intros Hs. unfold sidx. rewrite (idx_of_agree ssigs _ _ (mk_states s i)).
    apply idx_of_env_of; [apply nodup_parts | exact Hs].
  Qed.

  Lemma state_sym_in_ssigs st n w : In st (s_states sy) -> st_sym st = BVSymbol n w -> In (n, w) ssigs.
  Proof.
    intros Hst Hs. unfold PdrSys.ssigs, state_sigs. apply in_flat_map. exists st. split; [exact Hst |].
    rewrite Hs. now left.
  Qed.

  (** inputs are never overwritten by a step *)
  Lemma next_env_inputs rho f n w : In (n, w) isigs -> rho_bv (next_env sy rho f) n w = rho_bv f n w.
  Proof.
    intros Hin. rewrite next_env_fold. apply fold_next_other. intros st e Hst _ Hs.
    pose proof (state_not_input n w (state_sym_in_ssigs st n w Hst Hs)) as E.
    assert (sig_mem (n, w) isigs = true) by now apply sig_mem_In. congruence.
  Qed.

  (** the state part of a successor does not depend on the inputs of the free valuation *)
  Lemma next_env_states rho f f' : agree ssigs f f' -> agree ssigs (next_env sy rho f) (next_env sy rho f').
  Proof.
    intros Hag n w Hin. rewrite !next_env_fold.
    apply (fold_next_agree rho rho (s_states sy)) with (P := fun x => In x ssigs).
    - reflexivity.
    - intros n' w' Hp. now apply Hag.
    - now left.
  Qed.

  (** if [steps_to rho s'] holds then the successor with ANY inputs [j] admitted by the constraints at
      [s'] is a legal step to (s', j) *)
  Lemma steps_to_any rho s' j :
    env_wf rho -> s' < 2 ^ sbits sy -> steps_to sy rho s' = true ->
    constraints_hold sy (mk s' j) = true ->
    let e := next_env sy rho (mk s' j) in
    env_wf e /\ constraints_hold sy e = true /\ agree sigs e (mk s' j).
  Proof.
    intros Hwf Hs Hst Hcj e. unfold steps_to in Hst. apply existsb_exists in Hst.
    destruct Hst as (i' & _ & Hi'). apply andb_true_iff in Hi'. destruct Hi' as [Hidx _]. apply N.eqb_eq in Hidx.
    assert (Hwfe : env_wf e) by (apply (next_env_wf sy Hcls); [exact Hwf | apply mk_wf]).
    assert (Hag : agree sigs e (mk s' j)).
    { intros n w Hin. rewrite sigs_split in Hin. apply in_app_or in Hin. destruct Hin as [Hin | Hin].
      - unfold e. now apply next_env_inputs.
      - (* states: the state number of e is s' *)
        assert (Hse : sidx sy e = s').
        { rewrite <- Hidx. unfold sidx. apply idx_of_agree. apply next_env_states.
          apply agree_trans with (b := env_of ssigs s'); [apply mk_states | apply agree_sym, mk_states]. }
        destruct nodup_parts as [_ Hns].
        rewrite <- (env_of_idx ssigs e Hns (env_wf_bounded ssigs e Hwfe) n w Hin).
        fold (sidx sy e). rewrite Hse. symmetry. now apply mk_states. }
    split; [exact Hwfe |]. split; [| exact Hag]. now rewrite (constraints_agree sy Hcls _ _ Hag).
  Qed.

  Lemma st_val_bound (s : sstate sy) : st_val sy s < 2 ^ sbits sy.
  Proof. destruct s as [x Hx]. cbn [st_val proj1_sig]. now apply N.ltb_lt. Qed.

  Lemma path_exec d s :
    sreach d s -> forall j, constraints_hold sy (mk (st_val sy s) j) = true ->
    exists rho0 frees, length frees = d /\ is_initial sy rho0 /\
                       (forall r, In r (run_from sy rho0 frees) -> env_wf r) /\
                       forallb (constraints_hold sy) (run_from sy rho0 frees) = true /\
                       agree sigs (last (run_from sy rho0 frees) env0) (mk (st_val sy s) j).
  Proof.
    induction 1 as [s0 s Hs | d s s' Hr IH Ht]; intros j Hcj.
    - unfold st_step0, sys_step0 in Hs. apply existsb_exists in Hs. destruct Hs as (i & _ & Hi).
      apply andb_true_iff in Hi. destruct Hi as [Hinit Hst]. unfold init_at in Hinit.
      apply andb_true_iff in Hinit. destruct Hinit as [Hib Hc0].
      destruct (steps_to_any (mk (st_val sy s0) i) (st_val sy s) j (mk_wf _ _) (st_val_bound s) Hst Hcj) as (Hwfe & Hce & Hag).
      exists (mk (st_val sy s0) i), [mk (st_val sy s) j]. cbn [run_from length last forallb].
      split; [reflexivity |]. split; [now apply (is_initial_b_spec sy Hcls) |].
      split; [intros r [<- | [<- | []]]; [apply mk_wf | exact Hwfe] |].
      split; [now rewrite Hc0, Hce | exact Hag].
    - unfold st_trans, sys_trans in Ht. apply existsb_exists in Ht. destruct Ht as (i & _ & Hi).
      apply andb_true_iff in Hi. destruct Hi as [Hci Hst].
      destruct (IH i Hci) as (rho0 & frees & Hlen & Hinit & Hwf & Hc & Hag).
      set (lst := last (run_from sy rho0 frees) env0) in *.
      assert (Hlwf : env_wf lst) by (apply Hwf; apply last_in; apply run_from_ne).
      destruct (steps_to_any (mk (st_val sy s) i) (st_val sy s') j (mk_wf _ _) (st_val_bound s') Hst Hcj) as (_ & _ & Hag2).
      set (g := mk (st_val sy s') j).
      assert (Hage : agree sigs (next_env sy lst g) g).
      { apply agree_trans with (b := next_env sy (mk (st_val sy s) i) g); [| exact Hag2].
        apply (next_env_agree sy Hcls); [exact Hag | apply agree_refl]. }
      exists rho0, (frees ++ [g]). rewrite (run_from_snoc sy). fold lst.
      split; [rewrite app_length; cbn; lia |]. split; [exact Hinit |]. split; [| split].
      + intros r Hin. apply in_app_or in Hin. destruct Hin as [Hin | [<- | []]]; [now apply Hwf |].
        apply (next_env_wf sy Hcls); [exact Hlwf | apply mk_wf].
      + rewrite forallb_app, Hc. cbn [forallb andb]. rewrite (constraints_agree sy Hcls _ _ Hage). unfold g. now rewrite Hcj.
      + rewrite last_last. exact Hage.
  Qed.

  Theorem unsafe_exec d : sunsafe d -> bad_reachable_within sy d.
  Proof.
    destruct d as [| d]; cbn [unsafe_at].
    - intros (s & Hb). unfold st_bad0, sys_bad0 in Hb. apply existsb_exists in Hb. destruct Hb as (i & _ & Hi).
      apply andb_true_iff in Hi. destruct Hi as [Hinit Hbad]. unfold init_at in Hinit.
      apply andb_true_iff in Hinit. destruct Hinit as [Hib Hc0].
      exists [mk (st_val sy s) i]. split; [| split; [cbn; lia | exact Hbad]].
      exists (mk (st_val sy s) i), []. cbn [run_from forallb]. split; [reflexivity |].
      split; [now apply (is_initial_b_spec sy Hcls) |]. split; [intros r [<- | []]; apply mk_wf | now rewrite Hc0].
    - intros (s & Hr & Hb). unfold st_bad, sys_bad in Hb. apply existsb_exists in Hb. destruct Hb as (j & _ & Hj).
      apply andb_true_iff in Hj. destruct Hj as [Hcj Hbad].
      destruct (path_exec (S d) s Hr j Hcj) as (rho0 & frees & Hlen & Hinit & Hwf & Hc & Hag).
      exists (run_from sy rho0 frees). split; [| split].
      + exists rho0, frees. split; [reflexivity | split; [exact Hinit | split; [exact Hwf | exact Hc]]].
      + rewrite (run_from_length sy). lia.
      + change (some_bad sy (last (run_from sy rho0 frees) env0) = true).
        now rewrite (some_bad_agree sy Hcls _ _ Hag).
  Qed.

  Theorem pdr_model_fail_real_sys (W EM : Type)
          (solve : nat -> query slit -> answer slit (sstate sy) EM) (cmd_fail : nat -> option EM) (n_init : nat)
          (gen_on : bool) (bmc_result : bmc_answer W EM)
          (fuel bf : nat) (w : W) (st' : pst slit (sstate sy) EM) :
    (forall n q, truthful slit slit_eqb (sstate sy) EM (slit_holds sy) (st_bad0 sy) (st_step0 sy) (st_trans sy) (st_bad sy)
                          q (solve n q)) ->
    pdr slit slit_eqb (sstate sy) (scube sy) W EM solve cmd_fail n_init gen_on has_bads_of bmc_result fuel bf = Ok (VFail W w, st') ->
    bmc_result = BmcFail W EM w /\ exists d, (d <= MAX_FRAMES)%nat /\ bad_reachable_within sy d.
  Proof.
    intros Htr H.
    destruct (pdr_model_fail_real slit slit_eqb (sstate sy) (scube sy) W EM solve cmd_fail n_init gen_on has_bads_of bmc_result
                                  (slit_holds sy) (st_bad0 sy) (st_step0 sy) (st_trans sy) (st_bad sy) fuel bf w st') as (Hb & d & Hd & Hu); [| exact H |].
    - split; [exact scube_unique |]. split; [exact Htr |].
      unfold has_bads_of. intros Hb. apply no_bads_sys. destruct (s_bads sy); [reflexivity | discriminate Hb].
    - split; [exact Hb |]. exists d. split; [exact Hd | now apply unsafe_exec].
  Qed.

  Theorem pdr_model_definite_sys (W EM : Type)
          (solve : nat -> query slit -> answer slit (sstate sy) EM) (cmd_fail : nat -> option EM) (n_init : nat)
          (gen_on : bool) (bmc_result : bmc_answer W EM)
          (fuel bf : nat) :
    (forall n q, truthful slit slit_eqb (sstate sy) EM (slit_holds sy) (st_bad0 sy) (st_step0 sy) (st_trans sy) (st_bad sy)
                          q (solve n q)) ->
    no_faults slit (sstate sy) W EM solve cmd_fail bmc_result ->
    match pdr slit slit_eqb (sstate sy) (scube sy) W EM solve cmd_fail n_init gen_on has_bads_of bmc_result fuel bf with
    | Err _ _ | Panic _ => False
    | Ok _ | Fuel => True
    end.
  Proof.
    intros Htr Htot.
    apply (pdr_model_no_error slit slit_eqb (sstate sy) (scube sy) W EM solve cmd_fail n_init gen_on has_bads_of bmc_result
                              (slit_holds sy) (st_bad0 sy) (st_step0 sy) (st_trans sy) (st_bad sy) fuel bf); [| exact Htot].
    split; [exact scube_unique |]. split; [exact Htr |].
    unfold has_bads_of. intros Hb. apply no_bads_sys. destruct (s_bads sy); [reflexivity | discriminate Hb].
  Qed.
End PdrSysProofs.
