(** * Proofs/Btor2RoundTripEnv.v — the round trip in its symmetric form.

    [roundtrip_sem] speaks about an arbitrary environment [rho'] of the system read back and the
    environment [pull rho'] it induces on the written system.  Because the symbols of the system
    read back are pairwise distinct ([accepted_distinct]), EVERY environment of the written system
    arises this way on its declared symbols; for a closed system this gives, for every environment
    [rho] of [sy], an environment [rho'] of [sy'] under which all positionally corresponding symbols
    and expressions have the same value ([rt_same]). *)
From Coq Require Import List Lia Bool String Ascii NArith FMapPositive.
From Patronus Require Import Expr ExprLemmas ExprEqb Eval SysClosed Btor2Parse Btor2Ser Btor2ExprFacts Btor2ParseProofs
     Btor2RoundTripSpec Btor2RtExpr Btor2RoundTrip SimBasics.
Import ListNotations.
Open Scope string_scope.
Open Scope list_scope.
Open Scope N_scope.

Lemma symbols_syms e : SimSpec.symbols e = syms e.
Proof. induction e; cbn [SimSpec.symbols syms]; congruence. Qed.

Lemma coincide r1 r2 e : (forall s, In s (syms e) -> agree_on s r1 r2) ->
  ebv r1 e = ebv r2 e /\ (forall i, earr r1 e i = earr r2 e i).
Proof. intros H. apply coincidence. intros s Hs. apply H. rewrite <- symbols_syms. exact Hs. Qed.

(** ** pushing an environment forward along an injective symbol map *)
Fixpoint inv_find (pairs : list (expr * expr)) (t : expr) : option expr :=
  match pairs with
  | [] => None
  | (s, t') :: l => if expr_eqb t t' then Some s else inv_find l t
  end.

Definition env_push (pairs : list (expr * expr)) (rho : env) : env :=
  {| rho_bv := fun n w => match inv_find pairs (BVSymbol n w) with
                          | Some (BVSymbol n0 _) => rho_bv rho n0 w
                          | _ => 0
                          end;
     rho_arr := fun n iw dw => match inv_find pairs (ArraySymbol n iw dw) with
                               | Some (ArraySymbol n0 _ _) => rho_arr rho n0 iw dw
                               | _ => fun _ => 0
                               end |}.

Lemma env_push_wf pairs rho : env_wf rho -> env_wf (env_push pairs rho).
Proof.
  intros [Hb Ha]. split.
  - intros n w. cbn [env_push rho_bv]. destruct (inv_find pairs (BVSymbol n w)) as [s|]; [destruct s|]; try apply Hb;
      apply N.neq_0_lt_0, N.pow_nonzero; discriminate.
  - intros n iw dw i. cbn [env_push rho_arr]. destruct (inv_find pairs (ArraySymbol n iw dw)) as [s|]; [destruct s|]; try apply Ha;
      apply N.neq_0_lt_0, N.pow_nonzero; discriminate.
Qed.

Lemma inv_find_spec (f : expr -> expr) (l : list expr) s :
  NoDup (map f l) -> In s l -> inv_find (combine l (map f l)) (f s) = Some s.
Proof.
  induction l as [|a l IH]; cbn [map combine inv_find]; intros Hnd Hin; [contradiction|]. inversion Hnd; subst.
  destruct (expr_eqb (f s) (f a)) eqn:E.
  - apply ExprEqb.expr_eqb_eq in E. destruct Hin as [->|Hin]; [reflexivity|]. exfalso. apply H1. rewrite <- E. apply in_map. exact Hin.
  - destruct Hin as [->|Hin]; [rewrite ExprEqb.expr_eqb_refl in E; discriminate|]. apply IH; auto.
Qed.

(** ** the theorem *)
Lemma declared_demote_iff sy s : In s (declared (demote sy)) <-> In s (declared sy).
Proof.
  unfold declared. cbn [demote s_inputs s_states]. rewrite !in_app_iff, !in_map_iff. split.
  - intros [[H|H]|H]; [left; exact H| |]; destruct H as (x & <- & Hx); apply filter_In in Hx; right; exists x; tauto.
  - intros [H|(x & <- & Hx)]; [left; left; exact H|]. destruct (is_plain x) eqn:E.
    + left. right. exists x. split; [reflexivity|]. apply filter_In. auto.
    + right. exists x. split; [reflexivity|]. apply filter_In. rewrite E. auto.
Qed.

Lemma forall2_map_l {A B} (R : A -> B -> Prop) (f : A -> B) (l : list A) :
  (forall x, In x l -> R x (f x)) -> Forall2 R l (map f l).
Proof. induction l as [|a l IH]; intros H; cbn [map]; constructor; [apply H; left; reflexivity|apply IH; intros x Hx; apply H; right; exact Hx]. Qed.

Lemma forall2_impl_in {A B} (R S : A -> B -> Prop) (l : list A) (l' : list B) :
  Forall2 R l l' -> (forall x y, In x l -> In y l' -> R x y -> S x y) -> Forall2 S l l'.
Proof.
  induction 1 as [|a b l l' Hab _ IH]; intros H; constructor.
  - apply H; [left; reflexivity|left; reflexivity|exact Hab].
  - apply IH. intros x y Hx Hy. apply H; right; assumption.
Qed.

Lemma forall2_with_maps {A B C} (R : A -> B -> Prop) (f : B -> C) (g : A -> C) (l : list A) (l' : list B) :
  Forall2 R l l' -> map f l' = map g l -> Forall2 (fun a b => R a b /\ f b = g a) l l'.
Proof.
  induction 1 as [|a b l l' Hab _ IH]; cbn [map]; intros H; constructor; inversion H; auto.
Qed.

Theorem rt_agrees_same sy sy' tau pull :
  sys_ok_weak sy = true -> sys_closed sy ->
  rt_agrees sy sy' tau pull -> NoDup (declared sy') ->
  forall rho, env_wf rho -> exists rho', env_wf rho' /\ rt_same sy sy' rho rho'.
Proof.
  intros Hok Hclosed [Hkeep Hpull Hwf Hin Hst Hsem] Hnd rho Hrho.
  set (l := declared (demote sy)).
  assert (Hdecl' : declared sy' = map tau l).
  { unfold declared, l. rewrite Hin, Hst, <- map_app. reflexivity. }
  set (rho' := env_push (combine l (map tau l)) rho).
  assert (Hrho' : env_wf rho') by (apply env_push_wf; exact Hrho).
  exists rho'. split; [exact Hrho'|].
  (* declared symbols are symbols *)
  unfold sys_ok_weak in Hok.
  apply andb_true_iff in Hok. destruct Hok as [Hok Hokc]. apply andb_true_iff in Hok. destruct Hok as [Hok Hokb].
  apply andb_true_iff in Hok. destruct Hok as [Hok Hoko]. apply andb_true_iff in Hok. destruct Hok as [Hoki Hoks].
  rewrite forallb_forall in Hoki, Hoks.
  assert (Hsym : forall s, In s l -> is_symbol s = true).
  { intros s Hs. unfold l in Hs. apply (proj1 (declared_demote_iff sy s)) in Hs. unfold declared in Hs. apply in_app_iff in Hs. destruct Hs as [Hs|Hs].
    - specialize (Hoki _ Hs). apply andb_true_iff in Hoki. tauto.
    - apply in_map_iff in Hs. destruct Hs as (x & <- & Hx). specialize (Hoks _ Hx). unfold state_ok in Hoks.
      repeat (apply andb_true_iff in Hoks; destruct Hoks as [Hoks ?]). exact Hoks. }
  (* the pulled-back environment agrees with rho on the declared symbols *)
  assert (Hag : forall s, In s l -> agree_on s (pull rho') rho).
  { intros s Hs. destruct (Hpull rho' s (Hsym s Hs)) as [Hb Ha]. destruct (Hkeep s (Hsym s Hs)) as [Hts Htt].
    pose proof (inv_find_spec tau l s ltac:(rewrite <- Hdecl'; exact Hnd) Hs) as Hf.
    pose proof (Hsym s Hs) as Hss. destruct s; cbn [is_symbol] in Hss; try discriminate; cbn [agree_on].
    - cbn [ebv] in Hb. rewrite Hb. destruct (tau (BVSymbol name w)) eqn:Et; cbn [is_symbol type_of] in *; try discriminate.
      inversion Htt; subst. cbn [ebv]. unfold rho'. cbn [env_push rho_bv]. rewrite Hf. reflexivity.
    - intros i. cbn [earr] in Ha. rewrite Ha. destruct (tau (ArraySymbol name iw dw)) eqn:Et; cbn [is_symbol type_of] in *; try discriminate.
      inversion Htt; subst. cbn [earr]. unfold rho'. cbn [env_push rho_arr]. rewrite Hf. reflexivity. }
  (* symbols *)
  assert (Hsymval : forall s, In s l -> same_val rho rho' s (tau s)).
  { intros s Hs. destruct (Hpull rho' s (Hsym s Hs)) as [Hb Ha]. destruct (Hkeep s (Hsym s Hs)) as [_ Htt].
    destruct (coincide (pull rho') rho s) as [Cb Ca].
    { rewrite (syms_symbol s (Hsym s Hs)). intros x [<-|[]]. apply Hag. exact Hs. }
    split; [exact Htt|]. split; [congruence|]. intros i. rewrite <- Ha. apply Ca. }
  (* expressions *)
  assert (Hexpr : forall e e', In e (all_exprs sy) -> eqv (pull rho') rho' e e' -> same_val rho rho' e e').
  { intros e e' He (Ht & Hb & Ha). destruct (coincide (pull rho') rho e) as [Cb Ca].
    { intros s Hs. apply Hag. apply (proj2 (declared_demote_iff sy s)). apply (Hclosed e He). exact Hs. }
    split; [exact Ht|]. split; [congruence|]. intros i. rewrite Ha. apply Ca. }
  destruct (Hsem rho' Hrho') as (S1 & S2 & S3 & S4).
  unfold rt_same. split; [|split; [|split; [|split]]].
  - rewrite Hin. apply forall2_map_l. intros s Hs. apply Hsymval. unfold l, declared. apply in_or_app. left. exact Hs.
  - pose proof (forall2_with_maps _ st_sym (fun s => tau (st_sym s)) _ _ S1 ltac:(rewrite Hst, map_map; reflexivity)) as S2'.
    eapply forall2_impl_in; [exact S2'|]. intros s s' Hs Hs' [[Hi Hn] Hsy]. cbn beta in *.
    assert (Hs0 : In s (s_states sy)) by (cbn [demote s_states] in Hs; apply filter_In in Hs; tauto).
    assert (Hall : forall e, In e (st_sym s :: (match st_init s with Some e => [e] | None => [] end)
                                  ++ (match st_next s with Some e => [e] | None => [] end)) -> In e (all_exprs sy)).
    { intros e He. unfold all_exprs. rewrite !in_app_iff. right. right. right. right. apply in_flat_map. exists s. split; assumption. }
    split; [|split].
    + rewrite Hsy. apply Hsymval. unfold l, declared. apply in_or_app. right. apply in_map. exact Hs.
    + destruct (st_init s) as [e|] eqn:Ei, (st_init s') as [e'|]; cbn [opt_rel] in *; try contradiction; [|exact I].
      apply Hexpr; [|exact Hi]. apply Hall. right. apply in_or_app. left. left. reflexivity.
    + destruct (st_next s) as [e|] eqn:En, (st_next s') as [e'|]; cbn [opt_rel] in *; try contradiction; [|exact I].
      apply Hexpr; [|exact Hn]. apply Hall. right. apply in_or_app. right. left. reflexivity.
  - eapply forall2_impl_in; [exact S2|]. intros o o' Ho _ H. apply Hexpr; [|exact H].
    unfold all_exprs. rewrite !in_app_iff. right. left. apply in_map. exact Ho.
  - eapply forall2_impl_in; [exact S3|]. intros e e' He _ H. apply Hexpr; [|exact H].
    unfold all_exprs. rewrite !in_app_iff. right. right. left. exact He.
  - eapply forall2_impl_in; [exact S4|]. intros e e' He _ H. apply Hexpr; [|exact H].
    unfold all_exprs. rewrite !in_app_iff. right. right. right. left. exact He.
Qed.

(** ** the complete statement, for every reader variant and both build profiles *)
Theorem roundtrip_complete v sy lines :
  sys_ok_weak sy = true -> (is_fix v = true -> props_1bit sy = true) -> sys_closed sy ->
  NoDup (declared sy) -> sys_fits sy = true ->
  serialize sy = POk lines -> N.of_nat (List.length lines) <= U32MAX ->
  exists sy',
    (forall dbg, parse_lines_v v dbg lines = POk sy') /\
    NoDup (declared sy') /\
    (exists tau pull, rt_agrees sy sy' tau pull) /\
    (forall rho, env_wf rho -> exists rho', env_wf rho' /\ rt_same sy sy' rho rho').
Proof.
  intros Hok H1 Hcl Hnd Hfit Hser Hlen.
  destruct (roundtrip_sem_v v sy lines Hok H1 Hnd Hfit Hser Hlen) as (sy' & tau & pull & Hp & Hr).
  exists sy'.
  assert (Hall : forall dbg, parse_lines_v v dbg lines = POk sy').
  { intros [|]; [exact Hp|]. rewrite (parse_lines_v_ref v lines); [exact Hp|]. rewrite Hp. intros k. discriminate. }
  pose proof (accepted_distinct v true lines sy' Hp) as Hnd'.
  split; [exact Hall|]. split; [exact Hnd'|]. split; [exists tau, pull; exact Hr|].
  apply (rt_agrees_same sy sy' tau pull Hok Hcl Hr Hnd').
Qed.
