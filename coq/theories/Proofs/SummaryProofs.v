(** * Proofs/SummaryProofs.v — basic facts about [count_true] / [denotes], and
    [ValueSummary::new] / [apply_bin_op]. *)
From Coq Require Import Lia Arith.
From Patronus Require Import GuardSem BddProofs GuardProofs.
Open Scope nat_scope.

(* ------------------------------------------------------------------ counting *)

Lemma true_entries_app v a b : true_entries v (a ++ b) = true_entries v a ++ true_entries v b.
Proof. unfold true_entries. apply filter_app. Qed.

Lemma count_true_app v a b : count_true v (a ++ b) = count_true v a + count_true v b.
Proof. unfold count_true. now rewrite true_entries_app, app_length. Qed.

Lemma count_true_cons v e s :
  count_true v (e :: s) = (if bdd_eval v (fst e) then 1 else 0) + count_true v s.
Proof. unfold count_true, true_entries. cbn. destruct (bdd_eval v (fst e)); reflexivity. Qed.

Lemma count_true_nil v : count_true v [] = 0.
Proof. reflexivity. Qed.

Lemma true_entries_In v s e : In e (true_entries v s) <-> In e s /\ bdd_eval v (fst e) = true.
Proof. unfold true_entries. apply filter_In. Qed.

(** with exactly one true entry, "the" true entry is unique *)
Lemma count1_unique v s : count_true v s = 1 ->
  exists e0, true_entries v s = [e0] /\ In e0 s /\ bdd_eval v (fst e0) = true /\
             forall e, In e s -> bdd_eval v (fst e) = true -> e = e0.
Proof.
  unfold count_true. intros H.
  destruct (true_entries v s) as [| e0 [| e1 l]] eqn:E; cbn in H; try discriminate.
  exists e0. split; [reflexivity |].
  assert (Hin : In e0 (true_entries v s)) by (rewrite E; now left).
  apply true_entries_In in Hin. destruct Hin as [Hin Ht]. repeat split; try assumption.
  intros e He Hte. assert (In e (true_entries v s)) by (apply true_entries_In; auto).
  rewrite E in H0. destruct H0 as [-> | []]. reflexivity.
Qed.

Lemma count1_denotes v s : count_true v s = 1 -> exists x, denotes v s x.
Proof.
  intros H. destruct (count1_unique v s H) as (e0 & _ & Hin & Ht & Hu).
  exists (snd e0). split; [eauto |]. intros e He Hte. now rewrite (Hu e He Hte).
Qed.

Lemma denotes_den v s x : denotes v s x -> vs_den v s = Some x.
Proof.
  intros [(e & He & Ht) Hf]. unfold vs_den.
  destruct (true_entries v s) as [| e1 l] eqn:E.
  - assert (In e (true_entries v s)) by (apply true_entries_In; auto). rewrite E in H. destruct H.
  - assert (Hin : In e1 (true_entries v s)) by (rewrite E; now left).
    apply true_entries_In in Hin. destruct Hin. f_equal. now apply Hf.
Qed.

Lemma den_denotes v s x : count_true v s = 1 -> vs_den v s = Some x -> denotes v s x.
Proof.
  intros H Hd. destruct (count1_denotes v s H) as [y Hy].
  rewrite (denotes_den v s y Hy) in Hd. inversion Hd. now subst.
Qed.

Lemma denotes_unique v s x y : denotes v s x -> denotes v s y -> x = y.
Proof. intros [(e & He & Ht) Hx] [_ Hy]. rewrite <- (Hx e He Ht). now apply Hy. Qed.

(** a summary with pairwise different values that denotes a value has exactly one true entry *)
Lemma NoDup_map_filter {A B} (f : A -> B) (p : A -> bool) l :
  NoDup (map f l) -> NoDup (map f (filter p l)).
Proof.
  induction l as [| a l IH]; cbn; intros H; [constructor |].
  inversion H; subst. destruct (p a); cbn; [constructor |]; auto.
  intros Hin. apply H2. apply in_map_iff in Hin. destruct Hin as (b & Hb & Hin).
  apply filter_In in Hin. apply in_map_iff. exists b. tauto.
Qed.

Lemma NoDup_all_equal {A} (l : list A) x : NoDup l -> (forall y, In y l -> y = x) -> length l <= 1.
Proof.
  intros Hn Ha. destruct l as [| a [| b l]]; cbn; try lia.
  exfalso. inversion Hn; subst. apply H1.
  rewrite (Ha a) by (now left). rewrite (Ha b) by (right; now left). now left.
Qed.

Lemma denotes_nodup_count v s x : denotes v s x -> NoDup (map snd s) -> count_true v s = 1.
Proof.
  intros [(e & He & Ht) Hf] Hn. unfold count_true.
  assert (Hle : length (map snd (true_entries v s)) <= 1).
  { apply (NoDup_all_equal _ x).
    - unfold true_entries. now apply NoDup_map_filter.
    - intros y Hy. apply in_map_iff in Hy. destruct Hy as (e' & <- & Hin).
      apply true_entries_In in Hin. destruct Hin. now apply Hf. }
  rewrite map_length in Hle.
  assert (Hin : In e (true_entries v s)) by (apply true_entries_In; auto).
  remember (true_entries v s) as l eqn:El. clear El.
  destruct l as [| e1 [| e2 l]]; [destruct Hin | reflexivity | cbn in Hle; lia].
Qed.

(* ------------------------------------------------------------------ new *)

Lemma new_partition x v : count_true v (vs_new x) = 1.
Proof. reflexivity. Qed.

Lemma new_denotes x v : denotes v (vs_new x) x.
Proof.
  split.
  - exists (BLeaf true, x). split; [now left | reflexivity].
  - intros e [<- | []] _. reflexivity.
Qed.

(* ------------------------------------------------------------------ membership helpers *)

Lemma bmem_In g l : bmem g l = true <-> In g l.
Proof.
  unfold bmem. rewrite existsb_exists. split.
  - intros (y & Hy & E). apply bdd_eqb_eq in E. now subst.
  - intros H. exists g. split; [assumption | apply bdd_eqb_refl].
Qed.

Lemma bmem_false g l : bmem g l = false <-> ~ In g l.
Proof.
  rewrite <- bmem_In. destruct (bmem g l); split; intros H; congruence.
Qed.

Lemma dedup_In g l : In g (dedup l) <-> In g l.
Proof.
  induction l as [| h t IH]; cbn; [tauto |].
  destruct (bmem h t) eqn:E.
  - rewrite IH. apply bmem_In in E. split; [tauto |]. intros [<- | H]; assumption.
  - cbn. rewrite IH. tauto.
Qed.

Lemma dedup_NoDup l : NoDup (dedup l).
Proof.
  induction l as [| h t IH]; cbn; [constructor |].
  destruct (bmem h t) eqn:E; [assumption |]. constructor; [| assumption].
  rewrite dedup_In. now apply bmem_false.
Qed.

Lemma NoDup_filter' {A} (p : A -> bool) l : NoDup l -> NoDup (filter p l).
Proof.
  induction 1 as [| a l Hn Hd IH]; cbn; [constructor |].
  destruct (p a); [constructor |]; auto. rewrite filter_In. tauto.
Qed.

Lemma insert_by_In rank g g0 l : In g (insert_by rank g0 l) <-> g = g0 \/ In g l.
Proof.
  induction l as [| h t IH]; cbn; [intuition congruence |].
  destruct (N.leb (rank g0) (rank h)); cbn; [intuition congruence |]. rewrite IH. intuition congruence.
Qed.

Lemma sort_by_In rank g l : In g (sort_by rank l) <-> In g l.
Proof.
  induction l as [| h t IH]; cbn; [tauto |]. rewrite insert_by_In, IH. intuition congruence.
Qed.

Definition cnt {A} (f : A -> bool) (l : list A) : nat := length (filter f l).

Lemma cnt_insert_by rank f g l : cnt f (insert_by rank g l) = cnt f (g :: l).
Proof.
  induction l as [| h t IH]; [reflexivity |]. cbn [insert_by].
  destruct (N.leb (rank g) (rank h)); [reflexivity |].
  unfold cnt in *. cbn [filter] in *. destruct (f h), (f g); cbn [length] in *; lia.
Qed.

Lemma cnt_sort_by rank f l : cnt f (sort_by rank l) = cnt f l.
Proof.
  induction l as [| h t IH]; [reflexivity |]. cbn [sort_by fold_right].
  fold (sort_by rank t). rewrite cnt_insert_by. unfold cnt in *. cbn [filter].
  destruct (f h); cbn [length]; now rewrite IH.
Qed.

(** in a duplicate-free list in which only [g0] can satisfy [f] *)
Lemma cnt_single (f : bdd -> bool) g0 l :
  NoDup l -> (forall g, In g l -> f g = true -> g = g0) -> f g0 = true ->
  cnt f l = if bmem g0 l then 1 else 0.
Proof.
  intros Hn. induction Hn as [| h t Hnin Hn IH]; intros Hu H0; [reflexivity |].
  unfold cnt in *. cbn [filter bmem existsb]. fold (bmem g0 t).
  destruct (f h) eqn:Fh.
  - assert (h = g0) by (apply Hu; [now left | assumption]). subst h.
    rewrite bdd_eqb_refl. cbn [orb length].
    rewrite IH; [| intros g Hg; apply Hu; now right | assumption].
    apply bmem_false in Hnin. now rewrite Hnin.
  - destruct (bdd_eqb g0 h) eqn:E; [apply bdd_eqb_eq in E; subst; congruence |].
    cbn [orb]. apply IH; [intros g Hg; apply Hu; now right | assumption].
Qed.

Lemma count_true_map_fst v s : count_true v s = cnt (bdd_eval v) (map fst s).
Proof.
  unfold count_true, true_entries, cnt. induction s as [| e s IH]; [reflexivity |].
  cbn. destruct (bdd_eval v (fst e)); cbn; now rewrite IH.
Qed.

Lemma true_entries_filter v p s : true_entries v (filter p s) = filter p (true_entries v s).
Proof.
  unfold true_entries. induction s as [| e s IH]; [reflexivity |]. cbn.
  destruct (p e) eqn:P, (bdd_eval v (fst e)) eqn:T; cbn; rewrite ?P, ?T, IH; reflexivity.
Qed.

Lemma count_filter_unique v p s e0 :
  true_entries v s = [e0] -> count_true v (filter p s) = if p e0 then 1 else 0.
Proof.
  intros H. unfold count_true. rewrite true_entries_filter, H. cbn. destruct (p e0); reflexivity.
Qed.

(* ------------------------------------------------------------------ apply_bin_op *)

Lemma find_value_ok g s x : find_value g s = Ok x -> In (g, x) s.
Proof.
  unfold find_value. destruct (find (fun e => bdd_eqb (fst e) g) s) as [e |] eqn:E; [| discriminate].
  intros H. inversion H; subst. apply find_some in E. destruct E as [Hin Hg].
  apply bdd_eqb_eq in Hg. subst. now destruct e.
Qed.

Lemma find_value_total g s : In g (map fst s) -> exists x, find_value g s = Ok x.
Proof.
  intros H. unfold find_value. destruct (find (fun e => bdd_eqb (fst e) g) s) as [e |] eqn:E; [eauto |].
  exfalso. apply in_map_iff in H. destruct H as (e & <- & Hin).
  apply (find_none _ _ E) in Hin. now rewrite bdd_eqb_refl in Hin.
Qed.

Lemma merge_common_spec op a b gs out :
  merge_common op a b gs = Ok out ->
  map fst out = gs /\
  forall e, In e out -> exists x y, In (fst e, x) a /\ In (fst e, y) b /\ snd e = op x y.
Proof.
  revert out. induction gs as [| g gs IH]; intros out H; cbn in H.
  - inversion H; subst. split; [reflexivity | intros e []].
  - apply rbind_ok in H. destruct H as (x & Hx & H).
    apply rbind_ok in H. destruct H as (y & Hy & H).
    apply rbind_ok in H. destruct H as (o & Ho & H). inversion H; subst.
    destruct (IH o Ho) as [Hm Hs]. split; [cbn; now rewrite Hm |].
    intros e [<- | He]; [| now apply Hs].
    exists x, y. cbn. auto using find_value_ok.
Qed.

Lemma merge_common_total op a b gs :
  (forall g, In g gs -> In g (map fst a) /\ In g (map fst b)) ->
  exists out, merge_common op a b gs = Ok out.
Proof.
  induction gs as [| g gs IH]; intros H; cbn; [eauto |].
  destruct (H g (or_introl eq_refl)) as [Ha Hb].
  destruct (find_value_total g a Ha) as [x ->]. destruct (find_value_total g b Hb) as [y ->].
  destruct IH as [o ->]; [intros g' Hg'; apply H; now right |]. cbn. eauto.
Qed.

Lemma common_guards_In g a b :
  In g (common_guards a b) <-> In g (map fst a) /\ In g (map fst b).
Proof. unfold common_guards. now rewrite filter_In, dedup_In, bmem_In. Qed.

Lemma common_guards_NoDup a b : NoDup (common_guards a b).
Proof. unfold common_guards. apply NoDup_filter', dedup_NoDup. Qed.

(** shape of a successful [apply_bin_op] *)
Lemma apply_bin_op_shape rp debug rank op a b r :
  apply_bin_op rp debug rank op a b = Ok r ->
  exists out1,
    merge_common op a b (sort_by rank (common_guards a b)) = Ok out1 /\
    r = out1 ++ cross op (filter (fun e => negb (bmem (fst e) (common_guards a b))) a)
                         (filter (fun e => negb (bmem (fst e) (common_guards a b))) b).
Proof.
  unfold apply_bin_op. destruct (debug && (is_nil a || is_nil b)); [discriminate |].
  intros H. apply rbind_ok in H. destruct H as (out1 & Hm & H).
  exists out1. split; [exact Hm |].
  destruct (filter (fun e => negb (bmem (fst e) (common_guards a b))) a) as [| ea a'] eqn:Ea; cbn [is_nil] in H.
  - inversion H. cbn. now rewrite app_nil_r.
  - match type of H with (if ?c then _ else _) = _ => destruct c; [discriminate |] end. now inversion H.
Qed.

Lemma cross_row_In op ea b e :
  In e (cross_row op ea b) <->
  exists eb, In eb b /\ is_false (bdd_and (fst ea) (fst eb)) = false /\
             e = (bdd_and (fst ea) (fst eb), op (snd ea) (snd eb)).
Proof.
  unfold cross_row. rewrite in_flat_map. split.
  - intros (eb & Hb & He). exists eb. destruct (is_false _) eqn:F; [destruct He |].
    destruct He as [<- | []]. auto.
  - intros (eb & Hb & F & ->). exists eb. split; [assumption |]. rewrite F. now left.
Qed.

Lemma cross_In op a b e :
  In e (cross op a b) <->
  exists ea eb, In ea a /\ In eb b /\ is_false (bdd_and (fst ea) (fst eb)) = false /\
                e = (bdd_and (fst ea) (fst eb), op (snd ea) (snd eb)).
Proof.
  unfold cross. rewrite in_flat_map. split.
  - intros (ea & Ha & He). apply cross_row_In in He. destruct He as (eb & ? & ? & ?). eauto 6.
  - intros (ea & eb & Ha & Hb & F & He). exists ea. split; [assumption |]. apply cross_row_In. eauto.
Qed.

Lemma cross_row_count v op ea b :
  count_true v (cross_row op ea b) = if bdd_eval v (fst ea) then count_true v b else 0.
Proof.
  induction b as [| eb b IH]; [now destruct (bdd_eval v (fst ea)) |].
  unfold cross_row in *. cbn [flat_map]. rewrite count_true_app, IH, count_true_cons.
  destruct (is_false (bdd_and (fst ea) (fst eb))) eqn:F.
  - apply (is_false_sound v) in F. rewrite eval_and in F. rewrite count_true_nil.
    destruct (bdd_eval v (fst ea)), (bdd_eval v (fst eb)); cbn in *; try discriminate; lia.
  - rewrite count_true_cons, count_true_nil. cbn [fst]. rewrite eval_and.
    destruct (bdd_eval v (fst ea)), (bdd_eval v (fst eb)); cbn; lia.
Qed.

Lemma cross_count v op a b : count_true v (cross op a b) = count_true v a * count_true v b.
Proof.
  induction a as [| ea a IH]; [reflexivity |].
  unfold cross in *. cbn [flat_map]. rewrite count_true_app, IH, cross_row_count, count_true_cons.
  destruct (bdd_eval v (fst ea)); lia.
Qed.

(** [den_commutes] for [apply_bin_op]; needs no disjointness of the operands *)
Lemma bin_denotes rp debug rank op a b r v x y :
  apply_bin_op rp debug rank op a b = Ok r ->
  denotes v a x -> denotes v b y -> denotes v r (op x y).
Proof.
  intros H [(ea & Hea & Hta) Hfa] [(eb & Heb & Htb) Hfb].
  apply apply_bin_op_shape in H. destruct H as (out1 & Hm & ->).
  apply merge_common_spec in Hm. destruct Hm as [Hfst Hout].
  set (common := common_guards a b) in *.
  split.
  - (* some entry is true *)
    assert (Hc : forall g, bmem g common = true -> bdd_eval v g = true ->
                 exists e, In e (out1 ++ cross op (filter (fun e => negb (bmem (fst e) common)) a)
                                                  (filter (fun e => negb (bmem (fst e) common)) b))
                           /\ bdd_eval v (fst e) = true).
    { intros g Hg Hv. apply bmem_In in Hg.
      assert (Hin : In g (map fst out1)) by (rewrite Hfst; now apply sort_by_In).
      apply in_map_iff in Hin. destruct Hin as (e & <- & He). exists e. split; [apply in_or_app; now left | assumption]. }
    destruct (bmem (fst ea) common) eqn:Ca; [now apply (Hc (fst ea)) |].
    destruct (bmem (fst eb) common) eqn:Cb; [now apply (Hc (fst eb)) |].
    exists (bdd_and (fst ea) (fst eb), op (snd ea) (snd eb)). split.
    + apply in_or_app. right. apply cross_In. exists ea, eb.
      repeat split; try (apply filter_In; split; [assumption | now rewrite ?Ca, ?Cb]).
      destruct (is_false _) eqn:F; [| reflexivity].
      apply (is_false_sound v) in F. rewrite eval_and, Hta, Htb in F. discriminate.
    + cbn [fst]. now rewrite eval_and, Hta, Htb.
  - (* every true entry has the value [op x y] *)
    intros e He Ht. apply in_app_or in He. destruct He as [He | He].
    + destruct (Hout e He) as (x' & y' & Ha & Hb & ->).
      rewrite <- (Hfa _ Ha Ht), <- (Hfb _ Hb Ht). reflexivity.
    + apply cross_In in He. destruct He as (ea' & eb' & Ha & Hb & _ & ->).
      apply filter_In in Ha, Hb. cbn [fst snd] in *. rewrite eval_and in Ht.
      apply andb_prop in Ht. destruct Ht as [Ht1 Ht2].
      rewrite (Hfa ea') by tauto. rewrite (Hfb eb') by tauto. reflexivity.
Qed.

(** [partition_inv] for [apply_bin_op] *)
Lemma bin_partition rp debug rank op a b r v :
  apply_bin_op rp debug rank op a b = Ok r ->
  count_true v a = 1 -> count_true v b = 1 -> count_true v r = 1.
Proof.
  intros H Ha Hb.
  destruct (count1_unique v a Ha) as (ea & Eta & Hea & Hta & Hua).
  destruct (count1_unique v b Hb) as (eb & Etb & Heb & Htb & Hub).
  apply apply_bin_op_shape in H. destruct H as (out1 & Hm & ->).
  apply merge_common_spec in Hm. destruct Hm as [Hfst _].
  set (common := common_guards a b) in *.
  rewrite count_true_app, cross_count.
  rewrite (count_filter_unique v _ a ea Eta), (count_filter_unique v _ b eb Etb).
  rewrite count_true_map_fst, Hfst, cnt_sort_by.
  (* only the guard of [ea] can be a true common guard *)
  assert (Hone : forall g, In g common -> bdd_eval v g = true -> g = fst ea).
  { intros g Hg Hv. apply common_guards_In in Hg. destruct Hg as [Hga _].
    apply in_map_iff in Hga. destruct Hga as (e & <- & He). now rewrite (Hua e He Hv). }
  rewrite (cnt_single (bdd_eval v) (fst ea) common (common_guards_NoDup a b) Hone Hta).
  destruct (bmem (fst ea) common) eqn:Ca; cbn [negb]; [lia |].
  destruct (bmem (fst eb) common) eqn:Cb; cbn [negb]; [| lia].
  (* the guard of [eb] is common and true, hence it is the guard of [ea] *)
  exfalso. apply bmem_In in Cb. rewrite (Hone _ Cb Htb) in Cb. apply bmem_In in Cb. congruence.
Qed.

(** in builds without debug assertions [apply_bin_op] never panics *)
Lemma bin_no_panic_release rp rank op a b : exists r, apply_bin_op rp false rank op a b = Ok r.
Proof.
  unfold apply_bin_op. cbn [andb].
  destruct (merge_common_total op a b (sort_by rank (common_guards a b))) as [o ->].
  - intros g Hg. apply sort_by_In in Hg. now apply common_guards_In.
  - cbn [rbind]. destruct (is_nil _); eauto.
Qed.
