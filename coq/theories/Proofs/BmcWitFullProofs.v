(** * Proofs/BmcWitFullProofs.v — the C03 theorems for the full model of [bmc] (Model/BmcWitFull.v):
    every parameter combination, solver answers unknown / error, failing commands.

    Part A: [get_witness_f] (calls in the order of the code, errors and panics) returns, when it returns a
            witness, the witness of [BmcWit.get_witness] on the reported values.
    Part B: what a "sat" of the bad-state queries and an [Ok] of the constraint assertions mean.
    Part C: the loop: every [FFail k w] is a real counterexample (for a solver whose sat answers come with
            a model and whose get-value answers are the values of that model).
    Part D: least depth, for a solver whose "unsat" answers are right too (it may still say unknown or
            fail: then the result is not a Fail).
    Part E: the shape of a witness; the enumerating solver.
    Part F: the model of Model/BmcWit.v is an instance of the full model. *)
From Coq Require Import List Bool Lia.
From Patronus Require Import EvalImpl Encoding SysExec ReachSpec Witness Bmc BmcWit BmcWitFull ExprLemmas BVLemmas EvalProofs McBasics
     ScriptProofs EncodingBasics EncodingFaithful EncodingWf EncodingNew EncodingNames EncodingTheorems
     EncodingWf2 EncodingOrder EncodingTheorems2 ReachBasics ReachEnum ReachBmcProofs WitnessProofs BmcProofs BmcSound BmcWitProofs.
Import ListNotations.
Open Scope N_scope.

(** ** Part A *)
Section GW.
  Variable EM : Type.
  Variable en : enc.
  Variable gv : expr -> gvres EM.
  Variable gv0 : expr -> val.
  Hypothesis Hgv : forall s x, gv s = GVal x -> x = gv0 s.

  Lemma failed_f_old : forall bads k i l, failed_f EM en gv bads k i = WOk l ->
    exists bs, signals_at en bads k = Some bs /\ failed_of gv0 bs i = Some l.
  Proof.
    induction bads as [|b r IH]; intros k i l H; cbn [failed_f signals_at] in *.
    - inversion H; subst. exists []. split; reflexivity.
    - destruct (get_signal_at en b k) as [s|] eqn:Eg; [|discriminate].
      destruct (gv s) as [x|e] eqn:Ev; [|discriminate]. destruct x as [x|a]; [|discriminate].
      destruct (failed_f EM en gv r k (i + 1)) as [l'|e|] eqn:Er; cbn [wbind] in H; try discriminate.
      inversion H; subst. destruct (IH k (i + 1) l' Er) as (bs & Hs & Hf). rewrite Hs.
      exists (s :: bs). split; [reflexivity|]. cbn [failed_of]. rewrite <- (Hgv s _ Ev), Hf. reflexivity.
  Qed.

  Lemma values_f_old : forall syms k l, values_f EM en gv syms k = WOk l ->
    exists ss, signals_at en syms k = Some ss /\ l = map (fun s => Some (gv0 s)) ss.
  Proof.
    induction syms as [|x r IH]; intros k l H; cbn [values_f signals_at] in *.
    - inversion H; subst. exists []. split; reflexivity.
    - destruct (get_signal_at en x k) as [s|] eqn:Eg; [|discriminate].
      destruct (gv s) as [y|e] eqn:Ev; [|discriminate].
      destruct (values_f EM en gv r k) as [l'|e|] eqn:Er; cbn [wbind] in H; try discriminate.
      inversion H; subst. destruct (IH k l' Er) as (ss & Hs & ->). rewrite Hs.
      exists (s :: ss). split; [reflexivity|]. cbn [map]. now rewrite (Hgv s _ Ev).
  Qed.

  Lemma inputs_f_old : forall ks l, inputs_f EM en gv ks = WOk l ->
    exists ins, inputs_at en ks = Some ins /\ l = map (map (fun s => Some (gv0 s))) ins.
  Proof.
    induction ks as [|k r IH]; intros l H; cbn [inputs_f inputs_at] in *.
    - inversion H; subst. exists []. split; reflexivity.
    - destruct (values_f EM en gv (s_inputs (e_sys en)) k) as [a|e|] eqn:Ea; cbn [wbind] in H; try discriminate.
      destruct (inputs_f EM en gv r) as [l'|e|] eqn:Er; cbn [wbind] in H; try discriminate.
      inversion H; subst. destruct (values_f_old _ _ _ Ea) as (ss & Hs & ->).
      destruct (IH l' eq_refl) as (ins & Hi & ->). rewrite Hs, Hi. exists (ss :: ins). split; reflexivity.
  Qed.

  Lemma get_witness_f_old k w : get_witness_f EM en gv k = WOk w ->
    get_witness en gv0 k = Some w /\ exists bs, signals_at en (s_bads (e_sys en)) k = Some bs.
  Proof.
    unfold get_witness_f, get_witness, witness_queries. intros H.
    destruct (failed_f EM en gv (s_bads (e_sys en)) k 0) as [failed|e|] eqn:Ef; cbn [wbind] in H; try discriminate.
    destruct (values_f EM en gv (state_syms (e_sys en)) 0) as [init|e|] eqn:Ei; cbn [wbind] in H; try discriminate.
    destruct (inputs_f EM en gv (range (k + 1))) as [ins|e|] eqn:En; cbn [wbind] in H; try discriminate.
    inversion H; subst. clear H.
    destruct (failed_f_old _ _ _ _ Ef) as (bs & Hb & Hfo).
    destruct (values_f_old _ _ _ Ei) as (ss & Hs & ->).
    destruct (inputs_f_old _ _ En) as (is & Hi & ->).
    rewrite Hb, Hs, Hi, Hfo. split; [reflexivity|]. now exists bs.
  Qed.
End GW.

(** ** Part B *)
Section Pieces.
  Variable EM : Type.
  Variable sv : solver EM.

  Lemma assert_cons_spec en : forall cs k i acc l, assert_cons EM sv en cs k i acc = WOk l ->
    exists ss, signals_at en cs k = Some ss /\ l = acc ++ ss.
  Proof.
    induction cs as [|c r IH]; intros k i acc l H; cbn [assert_cons signals_at] in *.
    - inversion H; subst. exists []. split; [reflexivity|now rewrite app_nil_r].
    - destruct (get_signal_at en c k) as [s|] eqn:Eg; [|discriminate].
      destruct (sv_fault sv (PhAssert k i)); [discriminate|].
      destruct (IH k (S i) (acc ++ [s]) l H) as (ss & Hs & ->). rewrite Hs.
      exists (s :: ss). split; [reflexivity|]. now rewrite <- app_assoc.
  Qed.

  Lemma first_hit_sat en sc asserts : forall bads k i m, first_hit EM sv en sc asserts bads k i = HSat EM m ->
    exists b s, In b bads /\ get_signal_at en b k = Some s /\ sv_check sv sc asserts [s] = SSat m.
  Proof.
    induction bads as [|b r IH]; intros k i m H; cbn [first_hit] in H; [discriminate|].
    destruct (get_signal_at en b k) as [s|] eqn:Eg; [|discriminate].
    destruct (sv_check sv sc asserts [s]) as [m'| | |e] eqn:Ec; try discriminate.
    - inversion H; subst. exists b, s. split; [now left|]. split; assumption.
    - unfold after_unsat in H. destruct (sv_fault sv (PhCheckEnd k i)); [discriminate|].
      destruct (IH k (S i) m H) as (b' & s' & Hb & Hg & Hc). exists b', s'. split; [now right|]. split; assumption.
  Qed.

  (** "no hit" in the individual mode: every bad state's query was answered "unsat" *)
  Lemma first_hit_none en sc asserts : forall bads k i, first_hit EM sv en sc asserts bads k i = HNone EM ->
    exists bs, signals_at en bads k = Some bs /\ forall s, In s bs -> sv_check sv sc asserts [s] = SUnsat.
  Proof.
    induction bads as [|b r IH]; intros k i H; cbn [first_hit signals_at] in *.
    - exists []. split; [reflexivity|intros s []].
    - destruct (get_signal_at en b k) as [s|] eqn:Eg; [|discriminate].
      destruct (sv_check sv sc asserts [s]) as [m'| | |e] eqn:Ec; try discriminate.
      unfold after_unsat in H. destruct (sv_fault sv (PhCheckEnd k i)); [discriminate|].
      destruct (IH k (S i) H) as (bs & Hs & Hall). rewrite Hs. exists (s :: bs). split; [reflexivity|].
      intros s' [<-|Hin]; [assumption|now apply Hall].
  Qed.

  Lemma joint_hit_sat en sc asserts bads k m : joint_hit EM sv en sc asserts bads k = HSat EM m ->
    exists bs any, signals_at en bads k = Some bs /\ or_all bs = Some any /\ sv_check sv sc asserts [any] = SSat m.
  Proof.
    unfold joint_hit. destruct (signals_at en bads k) as [bs|] eqn:Es; [|discriminate].
    destruct (or_all bs) as [any|] eqn:Eo; [|discriminate].
    destruct (sv_check sv sc asserts [any]) as [m'| | |e] eqn:Ec; try discriminate.
    - intros H. inversion H; subst. now exists bs, any.
    - unfold after_unsat. destruct (sv_fault sv (PhCheckEnd k 0)); discriminate.
  Qed.

  Lemma joint_hit_none en sc asserts bads k : joint_hit EM sv en sc asserts bads k = HNone EM ->
    exists bs any, signals_at en bads k = Some bs /\ or_all bs = Some any /\ sv_check sv sc asserts [any] = SUnsat.
  Proof.
    unfold joint_hit. destruct (signals_at en bads k) as [bs|] eqn:Es; [|discriminate].
    destruct (or_all bs) as [any|] eqn:Eo; [|discriminate].
    destruct (sv_check sv sc asserts [any]) as [m'| | |e] eqn:Ec; try discriminate.
    intros _. now exists bs, any.
  Qed.
End Pieces.

(** the solver hypotheses *)
Definition solver_sound {EM : Type} (sv : solver EM) : Prop :=
  (forall sc asserts assumps m, sv_check sv sc asserts assumps = SSat m -> is_model sc asserts assumps m) /\
  (forall sc m s x, sv_value sv sc m s = GVal x -> x = val_of (script_eval m sc) s).

Definition solver_unsat_right {EM : Type} (sv : solver EM) : Prop :=
  forall sc asserts assumps, sv_check sv sc asserts assumps = SUnsat -> ~ exists m, is_model sc asserts assumps m.

(** ** Part C: the loop *)
Section LoopFull.
  Variable EM : Type.
  Variable sv : solver EM.
  Hypothesis Hsound : solver_sound sv.
  Variables (sy : sys) (nm : expr -> string).
  Hypothesis Hwf : sys_wf sy = true.
  Hypothesis Hni : nodup_exprs (s_inputs sy) = true.
  Hypothesis Hn : names_ok (enc_new sy nm) = true.
  Let en := enc_new sy nm.
  Variable scr : nat -> list cmd.
  Hypothesis Hscr_S : forall i, scr (S i) = scr i ++ unroll Fixed en 0 (N.of_nat i).
  Hypothesis Hsub : forall n c, In c (script Fixed en 0 n) -> In c (scr n).
  Hypothesis Horig : forall n c, In c (scr n) -> cmd_origin en 0 n c.
  Hypothesis Hck : forall n, script_check [] (scr n) = true.

  Lemma hit_witness_f (individually : bool) i asserts m w :
    asserts_upto sy nm asserts (S i) ->
    (if individually then first_hit EM sv en (scr i) asserts (s_bads sy) (N.of_nat i) 0
     else joint_hit EM sv en (scr i) asserts (s_bads sy) (N.of_nat i)) = HSat EM m ->
    get_witness_f EM en (sv_value sv (scr i) m) (N.of_nat i) = WOk w ->
    witness_ok sy w /\ length (w_inputs w) = S i.
  Proof.
    intros [H1 H2] Hhit Hgw. destruct Hsound as [Hs1 Hs2].
    destruct (get_witness_f_old EM en _ (val_of (script_eval m (scr i))) (Hs2 (scr i) m) _ _ Hgw) as (Hold & bs & Hbs).
    change (e_sys en) with sy in Hbs.
    assert (Hm : exists sb, In sb bs /\ env_wf m /\ forallb (holds (script_eval m (scr i))) asserts = true /\
                            holds (script_eval m (scr i)) sb = true).
    { destruct individually.
      - destruct (first_hit_sat EM sv en _ _ _ _ _ _ Hhit) as (b & s & Hb & Hg & Hc). apply Hs1 in Hc.
        destruct Hc as (Hw0 & Hass & Hh). cbn [forallb] in Hh. rewrite andb_true_r in Hh.
        destruct (proj2 (signals_at_spec en _ _ _ Hbs) b Hb) as (s' & Hs' & Hg'). rewrite Hg in Hg'. inversion Hg'; subst s'.
        eauto.
      - destruct (joint_hit_sat EM sv en _ _ _ _ _ Hhit) as (bs' & any & Hbs' & Eo & Hc). rewrite Hbs in Hbs'. inversion Hbs'; subst bs'.
        apply Hs1 in Hc. destruct Hc as (Hw0 & Hass & Hh). cbn [forallb] in Hh. rewrite andb_true_r in Hh.
        pose proof (sigma_wf m Hw0 (scr i) (Hck i)) as Hsw.
        rewrite (or_all_holds _ bs any Eo (bads_bool_valued sy nm Hwf _ _ Hbs _ Hsw)) in Hh.
        apply existsb_exists in Hh. destruct Hh as (sb & Hsb & Hh). eauto. }
    destruct Hm as (sb & Hsb & Hw0 & Hass & Hh).
    apply (model_witness_ok sy nm Hwf Hni Hn i m Hw0 (scr i) (Hsub i) (Horig i) (Hck i) asserts bs sb w); try assumption.
    intros c j Hc Hj. apply H2; [assumption|lia].
  Qed.

  Lemma loop_f_ok cc individually : forall fuel i asserts k w, asserts_upto sy nm asserts i ->
    bmc_loop_f EM Fixed sv en cc individually (scr i) asserts (N.of_nat i) fuel = FFail k w ->
    exists j, k = N.of_nat j /\ (i <= j <= i + fuel)%nat /\ witness_ok sy w /\ length (w_inputs w) = S j.
  Proof.
    induction fuel as [|fuel IH]; intros i asserts k w Hinv; cbn [bmc_loop_f];
      change (e_sys en) with sy;
      (destruct (assert_cons EM sv en (s_constraints sy) (N.of_nat i) 0 asserts) as [asserts'|e|] eqn:Ea; try discriminate);
      (destruct (assert_cons_spec EM sv en _ _ _ _ _ Ea) as (cs & Ec & ->));
      pose proof (asserts_step sy nm asserts i cs Hinv Ec) as Hinv';
      (destruct (constraint_check EM sv cc (scr i) (asserts ++ cs)) as [r|] eqn:Ecc;
       [unfold constraint_check in Ecc; destruct cc; [|discriminate];
        destruct (sv_check sv (scr i) (asserts ++ cs) []); inversion Ecc; subst; discriminate|]);
      (destruct (if individually then first_hit EM sv en (scr i) (asserts ++ cs) (s_bads sy) (N.of_nat i) 0
                 else joint_hit EM sv en (scr i) (asserts ++ cs) (s_bads sy) (N.of_nat i)) as [m| | |e|] eqn:Eh; try discriminate).
    - destruct (get_witness_f EM en (sv_value sv (scr i) m) (N.of_nat i)) as [w'|e|] eqn:Eg; try discriminate.
      intros H. inversion H; subst. exists i. split; [reflexivity|]. split; [lia|].
      apply (hit_witness_f individually i (asserts ++ cs) m w); assumption.
    - destruct (sv_fault sv (PhUnroll (N.of_nat i))); discriminate.
    - destruct (get_witness_f EM en (sv_value sv (scr i) m) (N.of_nat i)) as [w'|e|] eqn:Eg; try discriminate.
      intros H. inversion H; subst. exists i. split; [reflexivity|]. split; [lia|].
      apply (hit_witness_f individually i (asserts ++ cs) m w); assumption.
    - destruct (sv_fault sv (PhUnroll (N.of_nat i))); [discriminate|].
      rewrite <- Hscr_S. replace (N.of_nat i + 1) with (N.of_nat (S i)) by lia. intros H.
      destruct (IH (S i) (asserts ++ cs) k w Hinv' H) as (j & -> & Hr & Hok). exists j. split; [reflexivity|]. split; [lia|assumption].
  Qed.
End LoopFull.

Theorem bmc_full_witness_ok (EM : Type) (sv : solver EM) :
  solver_sound sv ->
  forall sy nm k_max cc individually k w,
    sys_wf sy = true -> nodup_exprs (s_inputs sy) = true ->
    names_ok (enc_new sy nm) = true -> init_deps_acyclic sy ->
    bmc_model_full EM sv sy nm cc individually k_max = FFail k w ->
    check_witness sy w = true /\ exists j, k = N.of_nat j /\ (j <= k_max)%nat /\ length (w_inputs w) = S j.
Proof.
  intros Hsolver sy nm k_max cc individually k w Hwf Hni Hn Hac H.
  unfold bmc_model_full in H. destruct (Nat.ltb 2000 k_max); [discriminate|].
  destruct (s_bads sy) as [|b0 r0] eqn:Eb; [discriminate|].
  destruct (sv_fault sv PhSetLogic); [discriminate|].
  destruct (sv_fault sv PhHeader); [discriminate|].
  destruct (sv_fault sv PhInit); [discriminate|].
  set (en := enc_new sy nm) in *.
  pose proof (enc_new_basic sy nm Hwf) as Hb. pose proof (enc_new_order sy nm Hwf) as Ho. fold en in Hb, Ho.
  assert (Hperm : forall st, In st (init_order en) <-> In st (s_states (e_sys en))) by (apply (init_order_perm en Hb)).
  assert (H' : bmc_loop_f EM Fixed sv en cc individually (script3 en 0) [] (N.of_nat 0) k_max = FFail k w).
  { unfold script3. cbn [unrolls]. rewrite app_nil_r. exact H. }
  destruct (loop_f_ok EM sv Hsolver sy nm Hwf Hni Hn (script3 en) (script3_S en)
              (fun n c Hc => fixed_in_script_ord en Ho n (init_order en) Hperm c Hc)
              (fun n c Hc => script_ord_origin en n (init_order en) Hperm c Hc)
              (fun n => script3_wf_sys sy nm n Hwf Hn Hac)
              cc individually k_max 0%nat [] k w (asserts_upto_nil sy nm) H') as (j & -> & Hj & Hok & Hlen).
  split; [now apply (check_witness_correct sy Hwf Hni)|]. exists j. split; [reflexivity|]. split; [lia|assumption].
Qed.

(** an accepted witness of [S j] steps is an execution of [j] steps ... (the second half of
    [BmcWitProofs.bmc_witness_is_execution], for any accepted witness) *)
Lemma accepted_is_execution sy w j : sys_wf sy = true -> nodup_exprs (s_inputs sy) = true ->
  check_witness sy w = true -> length (w_inputs w) = S j ->
  witness_ok sy w /\
  exists frees : list env,
    is_initial_r sy (witness_env0 sy w) /\
    length frees = j /\
    forallb (constraints_hold sy) (run_from sy (witness_env0 sy w) frees) = true /\
    some_bad sy (last (run_from sy (witness_env0 sy w) frees) env0) = true /\
    bads_exactly sy (last (run_from sy (witness_env0 sy w) frees) env0) (w_failed w) = true.
Proof.
  intros Hwf Hni Hck Hlen.
  pose proof (proj1 (check_witness_correct sy Hwf Hni w) Hck) as Hok. split; [assumption|].
  destruct Hok as (Hshape & Hinit & frees & Hm & Hfw & Hc & Hbad).
  assert (Hl : length frees = j).
  { apply Forall2_len in Hm. destruct (w_inputs w) as [|x r]; [discriminate|]. cbn [tl length] in *. lia. }
  exists frees. split; [assumption|]. split; [assumption|]. split; [assumption|]. split; [|assumption].
  unfold bads_exactly in Hbad. apply andb_true_iff in Hbad. destruct Hbad as [Hne Hall].
  unfold witness_shape_ok in Hshape. rewrite !andb_true_iff in Hshape. destruct Hshape as [_ Hrange].
  destruct (w_failed w) as [|i r] eqn:Ef; [discriminate|].
  rewrite forallb_forall in Hrange, Hall. specialize (Hrange i (or_introl eq_refl)). apply N.ltb_lt in Hrange.
  set (l := s_bads sy) in *.
  assert (Hlen' : length (range (N.of_nat (length l))) = length l) by (rewrite range_length; lia).
  assert (Hin : In (i, nth (N.to_nat i) l (BVLiteral 1 0)) (combine (range (N.of_nat (length l))) l)).
  { replace i with (nth (N.to_nat i) (range (N.of_nat (length l))) 0) at 1 by (apply nth_range; assumption).
    rewrite <- combine_nth by assumption. apply nth_In. rewrite combine_length, Hlen'. lia. }
  specialize (Hall _ Hin). cbn [fst snd existsb] in Hall. rewrite N.eqb_refl in Hall. cbn [orb] in Hall.
  apply eqb_prop in Hall. unfold some_bad. apply existsb_exists. eexists. split; [|exact Hall].
  now apply in_combine_r in Hin.
Qed.

Corollary bmc_full_witness_is_execution (EM : Type) (sv : solver EM) :
  solver_sound sv ->
  forall sy nm k_max cc individually k w,
    sys_wf sy = true -> nodup_exprs (s_inputs sy) = true ->
    names_ok (enc_new sy nm) = true -> init_deps_acyclic sy ->
    bmc_model_full EM sv sy nm cc individually k_max = FFail k w ->
    witness_ok sy w /\
    exists frees : list env,
      is_initial_r sy (witness_env0 sy w) /\
      N.of_nat (length frees) = k /\ (length frees <= k_max)%nat /\
      forallb (constraints_hold sy) (run_from sy (witness_env0 sy w) frees) = true /\
      some_bad sy (last (run_from sy (witness_env0 sy w) frees) env0) = true /\
      bads_exactly sy (last (run_from sy (witness_env0 sy w) frees) env0) (w_failed w) = true.
Proof.
  intros Hsolver sy nm k_max cc individually k w Hwf Hni Hn Hac H.
  destruct (bmc_full_witness_ok EM sv Hsolver sy nm k_max cc individually k w Hwf Hni Hn Hac H) as (Hck & j & -> & Hj & Hlen).
  destruct (accepted_is_execution sy w j Hwf Hni Hck Hlen) as (Hok & frees & H1 & H2 & H3 & H4 & H5).
  split; [assumption|]. exists frees. rewrite H2. repeat split; assumption.
Qed.

(** ** Part D: least depth.  [Proofs/BmcProofs.v]'s [reached_is_sat] is stated for a solver that decides
    every query; here the solver may say unknown or fail, so the model of the query is exhibited instead
    (same construction: the valuation [tau] of the step symbols read off the execution). *)
Section Shortest.
  Variable EM : Type.
  Variable sv : solver EM.
  Hypothesis Hsound : solver_sound sv.
  Hypothesis Hunsat : solver_unsat_right sv.
  Variables (sy : sys) (nm : expr -> string).
  Hypothesis Hwf : sys_wf sy = true.
  Hypothesis Hni : nodup_exprs (s_inputs sy) = true.
  Hypothesis Hn : names_ok (enc_new sy nm) = true.
  Let en := enc_new sy nm.
  Variable scr : nat -> list cmd.
  Hypothesis Hscr_S : forall i, scr (S i) = scr i ++ unroll Fixed en 0 (N.of_nat i).
  Hypothesis Hsub : forall n c, In c (script Fixed en 0 n) -> In c (scr n).
  Hypothesis Horig : forall n c, In c (scr n) -> cmd_origin en 0 n c.
  Hypothesis Hck : forall n, script_check [] (scr n) = true.
  Hypothesis Hfaithful : forall (rho0 : env) (frees : list env) (sigma0 : env), is_initial sy rho0 ->
    let n := length frees in
    let sc := scr n in
    let trace := run_from sy rho0 frees in
    script_check [] sc = true ->
    (forall nm' t e k, In (DeclareConst nm' t) sc -> k <= N.of_nat n ->
        sig_sym en e k = Some (mk_sym nm' t) -> same_val sigma0 (mk_sym nm' t) (nth (N.to_nat k) trace env0) e) ->
    forall e k s, observable sy e -> k <= N.of_nat n -> get_signal_at en e k = Some s ->
      same_val (script_eval sigma0 sc) s (nth (N.to_nat k) trace env0) e.

  Lemma reached_has_model i rho0 frees asserts bs :
    length frees = i -> is_initial sy rho0 ->
    (forall r, In r (run_from sy rho0 frees) -> env_wf r) ->
    forallb (constraints_hold sy) (run_from sy rho0 frees) = true ->
    some_bad sy (last (run_from sy rho0 frees) env0) = true ->
    (forall a, In a asserts -> exists c m, In c (s_constraints sy) /\ (m <= i)%nat /\
                                           get_signal_at en c (N.of_nat m) = Some a) ->
    signals_at en (s_bads sy) (N.of_nat i) = Some bs ->
    exists sb sigma0, In sb bs /\ is_model (scr i) asserts [sb] sigma0.
  Proof.
    intros Hlen Hinit Hwfr Hcons Hbad Hass Hbs.
    pose proof (enc_new_basic sy nm Hwf) as Hb. fold en in Hb.
    pose proof (names_ok_inj en Hn) as Hinj.
    set (trace := run_from sy rho0 frees) in *.
    set (sigma0 := tau en 0 i trace).
    assert (Hcoh := coherent sy nm Hwf Hinj 0 i rho0 frees Hlen (fun _ => Hinit)). fold en trace in Hcoh.
    assert (Hw0 : env_wf sigma0) by (apply (tau_of_wf en Hb); assumption).
    assert (Hfaith : forall e k s, observable sy e -> (k <= i)%nat -> get_signal_at en e (N.of_nat k) = Some s ->
               same_val (script_eval sigma0 (scr i)) s (nth k trace env0) e).
    { intros e k s Hobs Hk Hg.
      pose proof (Hfaithful rho0 frees sigma0 Hinit) as F.
      cbn zeta in F. rewrite Hlen in F. fold trace in F.
      specialize (F (Hck i)).
      assert (Hd : forall nm' t e0 k0, In (DeclareConst nm' t) (scr i) -> k0 <= N.of_nat i ->
                     sig_sym en e0 k0 = Some (mk_sym nm' t) ->
                     same_val sigma0 (mk_sym nm' t) (nth (N.to_nat k0) trace env0) e0).
      { intros nm' t e0 k0 _ Hk0 Hs. replace (N.to_nat k0) with (N.to_nat (k0 - 0)) by lia.
        apply (tau_spec en Hb 0 i trace Hcoh); [apply in_steps; lia|assumption]. }
      specialize (F Hd e (N.of_nat k) s Hobs ltac:(lia) Hg).
      replace (N.to_nat (N.of_nat k)) with k in F by lia. exact F. }
    unfold some_bad in Hbad. apply existsb_exists in Hbad. destruct Hbad as (b & Hbin & Hhb).
    destruct (proj2 (signals_at_spec en _ _ _ Hbs) b Hbin) as (sb & Hsb & Hgb).
    exists sb, sigma0. split; [assumption|].
    split; [assumption|].
    assert (Hlast : last trace env0 = nth i trace env0).
    { unfold trace. rewrite <- Hlen. clear. revert rho0. induction frees as [|f r IH]; intros rho0; [reflexivity|].
      cbn [run_from length nth]. rewrite <- IH. destruct (run_from sy (next_env sy rho0 f) r) eqn:E; [destruct r; discriminate|reflexivity]. }
    split.
    - apply forallb_forall. intros a Ha. destruct (Hass a Ha) as (c & m & Hc & Hm & Hg).
      destruct (Hfaith c m a ltac:(unfold observable; tauto) Hm Hg) as [Hv _]. unfold holds. rewrite Hv.
      assert (Hin : In (nth m trace env0) trace).
      { apply nth_In. unfold trace. rewrite (run_len sy). lia. }
      rewrite forallb_forall in Hcons. specialize (Hcons _ Hin). unfold constraints_hold in Hcons.
      rewrite forallb_forall in Hcons. apply (Hcons c Hc).
    - cbn [forallb]. rewrite andb_true_r.
      destruct (Hfaith b i sb ltac:(unfold observable; tauto) (le_n i) Hgb) as [Hv _]. unfold holds. rewrite Hv, <- Hlast. exact Hhb.
  Qed.

  (** a "sat" of the bad-state queries of step [i]: a bad state is reachable in exactly [i] steps *)
  Lemma hit_reach_f (individually : bool) i asserts m :
    asserts_upto sy nm asserts (S i) ->
    (if individually then first_hit EM sv en (scr i) asserts (s_bads sy) (N.of_nat i) 0
     else joint_hit EM sv en (scr i) asserts (s_bads sy) (N.of_nat i)) = HSat EM m ->
    reach_at sy i.
  Proof.
    intros [H1 H2] Hhit. destruct Hsound as [Hs1 _].
    assert (Hm : exists b sb, In b (s_bads sy) /\ get_signal_at en b (N.of_nat i) = Some sb /\ env_wf m /\
                              forallb (holds (script_eval m (scr i))) asserts = true /\
                              holds (script_eval m (scr i)) sb = true).
    { destruct individually.
      - destruct (first_hit_sat EM sv en _ _ _ _ _ _ Hhit) as (b & s & Hb & Hg & Hc). apply Hs1 in Hc.
        destruct Hc as (Hw0 & Hass & Hh). cbn [forallb] in Hh. rewrite andb_true_r in Hh. exists b, s. auto.
      - destruct (joint_hit_sat EM sv en _ _ _ _ _ Hhit) as (bs & any & Hbs & Eo & Hc).
        apply Hs1 in Hc. destruct Hc as (Hw0 & Hass & Hh). cbn [forallb] in Hh. rewrite andb_true_r in Hh.
        pose proof (sigma_wf m Hw0 (scr i) (Hck i)) as Hsw.
        rewrite (or_all_holds _ bs any Eo (bads_bool_valued sy nm Hwf _ _ Hbs _ Hsw)) in Hh.
        apply existsb_exists in Hh. destruct Hh as (sb & Hsb & Hh).
        destruct (proj1 (signals_at_spec en _ _ _ Hbs) sb Hsb) as (b & Hb & Hg). exists b, sb. auto. }
    destruct Hm as (b & sb & Hb & Hg & Hw0 & Hass & Hh).
    apply (model_is_execution sy nm Hwf Hni Hn Fixed i m Hw0 (scr i) (Hsub i) (Horig i) (Hck i) asserts b sb); try assumption.
    intros c j Hc Hj. apply H2; [assumption|lia].
  Qed.

  (** "no hit" at step [i] (every query answered "unsat"): no bad state is reachable in exactly [i] steps *)
  Lemma none_no_reach (individually : bool) i asserts :
    asserts_upto sy nm asserts (S i) ->
    (if individually then first_hit EM sv en (scr i) asserts (s_bads sy) (N.of_nat i) 0
     else joint_hit EM sv en (scr i) asserts (s_bads sy) (N.of_nat i)) = HNone EM ->
    ~ reach_at sy i.
  Proof.
    intros [H1 H2] Hhit (trace & (rho0 & frees & -> & Hinit & Hwfr & Hcons) & Hlen & Hbad).
    rewrite (run_len sy) in Hlen.
    assert (Hass : forall a, In a asserts -> exists c m, In c (s_constraints sy) /\ (m <= i)%nat /\
                                                        get_signal_at en c (N.of_nat m) = Some a).
    { intros a Ha. destruct (H1 a Ha) as (c & m & Hc & Hm & Hg). exists c, m. split; [assumption|]. split; [lia|assumption]. }
    destruct individually.
    - destruct (first_hit_none EM sv en _ _ _ _ _ Hhit) as (bs & Hbs & Hall).
      destruct (reached_has_model i rho0 frees asserts bs ltac:(lia) Hinit Hwfr Hcons Hbad Hass Hbs) as (sb & sigma0 & Hsb & Hmod).
      apply (Hunsat _ _ _ (Hall sb Hsb)). now exists sigma0.
    - destruct (joint_hit_none EM sv en _ _ _ _ Hhit) as (bs & any & Hbs & Eo & Hc).
      destruct (reached_has_model i rho0 frees asserts bs ltac:(lia) Hinit Hwfr Hcons Hbad Hass Hbs) as (sb & sigma0 & Hsb & Hw0 & Hass' & Hh).
      apply (Hunsat _ _ _ Hc). exists sigma0. split; [assumption|]. split; [assumption|].
      cbn [forallb] in *. rewrite andb_true_r in *.
      pose proof (sigma_wf sigma0 Hw0 (scr i) (Hck i)) as Hsw.
      rewrite (or_all_holds _ bs any Eo (bads_bool_valued sy nm Hwf _ _ Hbs _ Hsw)).
      apply existsb_exists. now exists sb.
  Qed.

  Lemma loop_f_exact cc individually : forall fuel i asserts k w, asserts_upto sy nm asserts i ->
    bmc_loop_f EM Fixed sv en cc individually (scr i) asserts (N.of_nat i) fuel = FFail k w ->
    exists j, k = N.of_nat j /\ (i <= j <= i + fuel)%nat /\ reach_at sy j /\ forall m, (i <= m < j)%nat -> ~ reach_at sy m.
  Proof.
    induction fuel as [|fuel IH]; intros i asserts k w Hinv; cbn [bmc_loop_f];
      change (e_sys en) with sy;
      (destruct (assert_cons EM sv en (s_constraints sy) (N.of_nat i) 0 asserts) as [asserts'|e|] eqn:Ea; try discriminate);
      (destruct (assert_cons_spec EM sv en _ _ _ _ _ Ea) as (cs & Ec & ->));
      pose proof (asserts_step sy nm asserts i cs Hinv Ec) as Hinv';
      (destruct (constraint_check EM sv cc (scr i) (asserts ++ cs)) as [r|] eqn:Ecc;
       [unfold constraint_check in Ecc; destruct cc; [|discriminate];
        destruct (sv_check sv (scr i) (asserts ++ cs) []); inversion Ecc; subst; discriminate|]);
      (destruct (if individually then first_hit EM sv en (scr i) (asserts ++ cs) (s_bads sy) (N.of_nat i) 0
                 else joint_hit EM sv en (scr i) (asserts ++ cs) (s_bads sy) (N.of_nat i)) as [m| | |e|] eqn:Eh; try discriminate).
    - destruct (get_witness_f EM en (sv_value sv (scr i) m) (N.of_nat i)) as [w'|e|] eqn:Eg; try discriminate.
      intros H. inversion H; subst. exists i. split; [reflexivity|]. split; [lia|].
      split; [now apply (hit_reach_f individually i (asserts ++ cs) m)|intros; lia].
    - destruct (sv_fault sv (PhUnroll (N.of_nat i))); discriminate.
    - destruct (get_witness_f EM en (sv_value sv (scr i) m) (N.of_nat i)) as [w'|e|] eqn:Eg; try discriminate.
      intros H. inversion H; subst. exists i. split; [reflexivity|]. split; [lia|].
      split; [now apply (hit_reach_f individually i (asserts ++ cs) m)|intros; lia].
    - destruct (sv_fault sv (PhUnroll (N.of_nat i))); [discriminate|].
      rewrite <- Hscr_S. replace (N.of_nat i + 1) with (N.of_nat (S i)) by lia. intros H.
      destruct (IH (S i) (asserts ++ cs) k w Hinv' H) as (j & -> & Hr & Hreach & Hmin).
      exists j. split; [reflexivity|]. split; [lia|]. split; [assumption|].
      intros m Hm Hrm. destruct (Nat.eq_dec m i) as [->|Hne]; [|apply (Hmin m); [lia|assumption]].
      now apply (none_no_reach individually i (asserts ++ cs) Hinv' Eh).
  Qed.
End Shortest.

Theorem bmc_full_witness_shortest (EM : Type) (sv : solver EM) :
  solver_sound sv -> solver_unsat_right sv ->
  forall sy nm k_max cc individually k w,
    sys_wf sy = true -> nodup_exprs (s_inputs sy) = true ->
    names_ok (enc_new sy nm) = true -> init_deps_acyclic sy ->
    bmc_model_full EM sv sy nm cc individually k_max = FFail k w ->
    exists j, k = N.of_nat j /\ (j <= k_max)%nat /\ reach_at sy j /\ forall m, (m < j)%nat -> ~ reach_at sy m.
Proof.
  intros Hsolver Hunsat sy nm k_max cc individually k w Hwf Hni Hn Hac H.
  unfold bmc_model_full in H. destruct (Nat.ltb 2000 k_max); [discriminate|].
  destruct (s_bads sy) as [|b0 r0] eqn:Eb; [discriminate|].
  destruct (sv_fault sv PhSetLogic); [discriminate|].
  destruct (sv_fault sv PhHeader); [discriminate|].
  destruct (sv_fault sv PhInit); [discriminate|].
  set (en := enc_new sy nm) in *.
  pose proof (enc_new_basic sy nm Hwf) as Hb. pose proof (enc_new_order sy nm Hwf) as Ho. fold en in Hb, Ho.
  assert (Hperm : forall st, In st (init_order en) <-> In st (s_states (e_sys en))) by (apply (init_order_perm en Hb)).
  assert (H' : bmc_loop_f EM Fixed sv en cc individually (script3 en 0) [] (N.of_nat 0) k_max = FFail k w).
  { unfold script3. cbn [unrolls]. rewrite app_nil_r. exact H. }
  destruct (loop_f_exact EM sv Hsolver Hunsat sy nm Hwf Hni Hn (script3 en) (script3_S en)
              (fun n c Hc => fixed_in_script_ord en Ho n (init_order en) Hperm c Hc)
              (fun n c Hc => script_ord_origin en n (init_order en) Hperm c Hc)
              (fun n => script3_wf_sys sy nm n Hwf Hn Hac)
              (fun rho0 frees sigma0 Hinit => script3_faithful_sys sy nm rho0 frees sigma0 Hwf Hn Hinit)
              cc individually k_max 0%nat [] k w (asserts_upto_nil sy nm) H') as (j & -> & Hj & Hreach & Hmin).
  exists j. split; [reflexivity|]. split; [lia|]. split; [assumption|]. intros m Hm. apply Hmin. lia.
Qed.

(** ** Part E *)
(** the shape of a witness the checker accepts: names and order of the system, one value of the right
    type per state (bit-vector and array states alike) and per input at every step *)
Definition has_value (s : expr) (ov : option val) : Prop := exists x, ov = Some x /\ val_ok (type_of s) x = true.

Lemma opt_names_eq : forall a b, opt_string_list_eqb a b = true -> a = map Some b.
Proof.
  induction a as [|x a IH]; intros [|y b] H; cbn [opt_string_list_eqb] in H; try discriminate; [reflexivity| |].
  - destruct x; discriminate.
  - destruct x as [x|]; [|discriminate]. apply andb_true_iff in H. destruct H as [Hx Hr].
    apply String.eqb_eq in Hx. subst. cbn [map]. f_equal. now apply IH.
Qed.

Lemma vals_ok_F2 : forall syms vs, vals_ok syms vs = true -> Forall2 has_value syms vs.
Proof.
  induction syms as [|s r IH]; intros [|ov vs] H; cbn [vals_ok] in H; try discriminate; [constructor|].
  destruct ov as [x|]; [|discriminate]. apply andb_true_iff in H. destruct H as [Hx Hr].
  constructor; [now exists x|now apply IH].
Qed.

Lemma shape_ok_spec sy w : witness_shape_ok sy w = true ->
  w_init_names w = map (fun s => Some (sym_name_of s)) (state_syms sy) /\
  w_input_names w = map (fun s => Some (sym_name_of s)) (s_inputs sy) /\
  Forall2 has_value (state_syms sy) (w_init w) /\
  length (w_init w) = length (s_states sy) /\
  w_inputs w <> [] /\
  Forall (fun vs => Forall2 has_value (s_inputs sy) vs /\ length vs = length (s_inputs sy)) (w_inputs w) /\
  Forall (fun i => i < N.of_nat (length (s_bads sy))) (w_failed w).
Proof.
  unfold witness_shape_ok. rewrite !andb_true_iff. intros [[[[[H1 H2] H3] H4] H5] H6].
  apply opt_names_eq in H1. apply opt_names_eq in H2. rewrite map_map in H1, H2.
  pose proof (vals_ok_F2 _ _ H3) as F3.
  split; [assumption|]. split; [assumption|]. split; [assumption|]. split.
  { apply Forall2_len in F3. unfold state_syms in F3. rewrite map_length in F3. now symmetry. }
  split. { destruct (w_inputs w); [discriminate|discriminate]. }
  split.
  - apply Forall_forall. intros vs Hvs. rewrite forallb_forall in H5. specialize (H5 vs Hvs).
    pose proof (vals_ok_F2 _ _ H5) as F5. split; [assumption|]. apply Forall2_len in F5. now symmetry.
  - apply Forall_forall. intros i Hi. rewrite forallb_forall in H6. apply N.ltb_lt. now apply H6.
Qed.

Theorem bmc_full_witness_shape (EM : Type) (sv : solver EM) :
  solver_sound sv ->
  forall sy nm k_max cc individually k w,
    sys_wf sy = true -> nodup_exprs (s_inputs sy) = true ->
    names_ok (enc_new sy nm) = true -> init_deps_acyclic sy ->
    bmc_model_full EM sv sy nm cc individually k_max = FFail k w ->
    w_init_names w = map (fun s => Some (sym_name_of s)) (state_syms sy) /\
    w_input_names w = map (fun s => Some (sym_name_of s)) (s_inputs sy) /\
    Forall2 has_value (state_syms sy) (w_init w) /\
    length (w_init w) = length (s_states sy) /\
    N.of_nat (length (w_inputs w)) = k + 1 /\
    Forall (fun vs => Forall2 has_value (s_inputs sy) vs /\ length vs = length (s_inputs sy)) (w_inputs w) /\
    Forall (fun i => i < N.of_nat (length (s_bads sy))) (w_failed w).
Proof.
  intros Hsolver sy nm k_max cc individually k w Hwf Hni Hn Hac H.
  destruct (bmc_full_witness_ok EM sv Hsolver sy nm k_max cc individually k w Hwf Hni Hn Hac H) as (Hck & j & -> & Hj & Hlen).
  unfold check_witness in Hck. rewrite !andb_true_iff in Hck. destruct Hck as [[Hs _] _].
  destruct (shape_ok_spec sy w Hs) as (H1 & H2 & H3 & H4 & _ & H6 & H7).
  repeat (split; [assumption|]). split; [rewrite Hlen; lia|]. split; assumption.
Qed.

(** the enumerating solver satisfies the hypothesis on the solver *)
Lemma table_env_wf t : env_wf (table_env t).
Proof.
  split; cbn.
  - intros n w. destruct (find _ t) as [e|].
    + apply N.mod_lt. apply N.pow_nonzero. discriminate.
    + apply N.neq_0_lt_0. apply N.pow_nonzero. discriminate.
  - intros _ _ dw _. apply N.neq_0_lt_0. apply N.pow_nonzero. discriminate.
Qed.

Lemma enum_model_sound sc asserts assumps m : enum_model sc asserts assumps = Some m -> is_model sc asserts assumps m.
Proof.
  unfold enum_model. intros H. apply find_some in H. destruct H as [Hin Hm].
  apply in_map_iff in Hin. destruct Hin as (t & <- & _).
  unfold model_b in Hm. apply andb_true_iff in Hm. destruct Hm. split; [apply table_env_wf|]. split; assumption.
Qed.

Lemma lift_solver_sound (EM : Type) sm :
  (forall sc a b m, sm sc a b = Some m -> is_model sc a b m) -> solver_sound (lift_solver EM sm).
Proof.
  intros Hs. split.
  - intros sc a b m H. cbn in H. destruct (sm sc a b) as [m'|] eqn:E; [|discriminate]. inversion H; subst. now apply Hs.
  - intros sc m s x H. cbn in H. now inversion H.
Qed.

Lemma enum_solver_sound (EM : Type) : solver_sound (enum_solver EM).
Proof. apply lift_solver_sound. exact enum_model_sound. Qed.

(** ** Part F: the model of Model/BmcWit.v is the instance [check_constraints = false], solver without
    unknown / errors / faults ([lift_solver]) of the full model *)
Section Instance.
  Variable EM : Type.
  Variable sm : list cmd -> list expr -> list expr -> option env.
  Let sv := lift_solver EM sm.

  Lemma assert_cons_lift en : forall cs k i acc,
    assert_cons EM sv en cs k i acc = match signals_at en cs k with Some ss => WOk (acc ++ ss) | None => WPan end.
  Proof.
    induction cs as [|c r IH]; intros k i acc; cbn [assert_cons signals_at].
    - now rewrite app_nil_r.
    - destruct (get_signal_at en c k) as [s|]; [|reflexivity]. unfold sv at 1. cbn [sv_fault lift_solver]. fold sv.
      rewrite IH. destruct (signals_at en r k); [now rewrite <- app_assoc|reflexivity].
  Qed.

  Lemma first_hit_lift en sc asserts : forall bads k i bs, signals_at en bads k = Some bs ->
    first_hit EM sv en sc asserts bads k i =
    match first_model sm sc asserts bs with Some m => HSat EM m | None => HNone EM end.
  Proof.
    induction bads as [|b r IH]; intros k i bs H; cbn [signals_at] in H.
    - inversion H; subst. reflexivity.
    - destruct (get_signal_at en b k) as [s|] eqn:Eg; [|discriminate].
      destruct (signals_at en r k) as [bs'|] eqn:Er; [|discriminate]. inversion H; subst.
      cbn [first_hit first_model]. rewrite Eg. unfold sv at 1. cbn [sv_check lift_solver].
      destruct (sm sc asserts [s]); [reflexivity|]. unfold after_unsat. unfold sv at 1. cbn [sv_fault lift_solver]. fold sv.
      now apply IH.
  Qed.

  Variable gv0 : expr -> val.
  Let gv : expr -> gvres EM := fun s => GVal (gv0 s).

  Lemma failed_lift en : forall bads k i,
    failed_f EM en gv bads k i =
    match signals_at en bads k with
    | None => WPan
    | Some bs => match failed_of gv0 bs i with Some l => WOk l | None => WPan end
    end.
  Proof.
    induction bads as [|b r IH]; intros k i; cbn [failed_f signals_at]; [reflexivity|].
    destruct (get_signal_at en b k) as [s|]; [|reflexivity]. unfold gv at 1.
    destruct (gv0 s) as [x|a] eqn:Ev.
    - rewrite IH. destruct (signals_at en r k) as [bs|]; cbn [wbind failed_of]; [|reflexivity].
      rewrite Ev. destruct (failed_of gv0 bs (i + 1)); reflexivity.
    - destruct (signals_at en r k) as [bs|]; [|reflexivity]. cbn [failed_of]. now rewrite Ev.
  Qed.

  Lemma values_lift en : forall syms k,
    values_f EM en gv syms k =
    match signals_at en syms k with None => WPan | Some ss => WOk (map (fun s => Some (gv0 s)) ss) end.
  Proof.
    induction syms as [|x r IH]; intros k; cbn [values_f signals_at]; [reflexivity|].
    destruct (get_signal_at en x k) as [s|]; [|reflexivity]. unfold gv at 1. rewrite IH.
    destruct (signals_at en r k); reflexivity.
  Qed.

  Lemma inputs_lift en : forall ks,
    inputs_f EM en gv ks =
    match inputs_at en ks with None => WPan | Some ins => WOk (map (map (fun s => Some (gv0 s))) ins) end.
  Proof.
    induction ks as [|k r IH]; cbn [inputs_f inputs_at]; [reflexivity|].
    rewrite values_lift. destruct (signals_at en (s_inputs (e_sys en)) k); [|reflexivity]. cbn [wbind]. rewrite IH.
    destruct (inputs_at en r); reflexivity.
  Qed.

  Lemma get_witness_lift en k :
    get_witness_f EM en gv k = match get_witness en gv0 k with Some w => WOk w | None => WPan end.
  Proof.
    unfold get_witness_f, get_witness, witness_queries. rewrite failed_lift, values_lift, inputs_lift.
    destruct (signals_at en (s_bads (e_sys en)) k) as [bs|]; [|reflexivity].
    destruct (signals_at en (state_syms (e_sys en)) 0) as [ss|];
      destruct (inputs_at en (range (k + 1))) as [ins|];
      destruct (failed_of gv0 bs 0) as [l|]; reflexivity.
  Qed.
End Instance.

Lemma loop_f_lift (EM : Type) sm en individually : s_bads (e_sys en) <> [] ->
  forall fuel sc asserts k,
    bmc_loop_w Fixed sm en individually sc asserts k fuel <> WPanic ->
    bmc_loop_f EM Fixed (lift_solver EM sm) en false individually sc asserts k fuel =
    lift_result EM (bmc_loop_w Fixed sm en individually sc asserts k fuel).
Proof.
  intros Hne. induction fuel as [|fuel IH]; intros sc asserts k; cbn [bmc_loop_f bmc_loop_w];
    rewrite assert_cons_lift;
    (destruct (signals_at en (s_constraints (e_sys en)) k) as [cs|]; [|intros H; now contradiction H]);
    (destruct (signals_at en (s_bads (e_sys en)) k) as [bs|] eqn:Eb; [|intros H; now contradiction H]);
    cbn [constraint_check app];
    assert (Hor : or_all bs <> None)
      by (destruct bs; [destruct (s_bads (e_sys en)); [now contradiction Hne|cbn [signals_at] in Eb;
            destruct (get_signal_at en e k); [destruct (signals_at en l k)|]; discriminate]|discriminate]);
    destruct individually.
  all: try (rewrite (first_hit_lift EM sm en sc _ _ k 0%nat bs Eb); destruct (first_model sm sc (asserts ++ cs) bs) as [m|]).
  all: try (unfold joint_hit; rewrite Eb; destruct (or_all bs) as [any|]; [|now contradiction Hor]; cbn [sv_check lift_solver];
            destruct (sm sc (asserts ++ cs) [any]) as [m|]).
  all: try (change (sv_value (lift_solver EM sm) sc m) with (fun s => @GVal EM (val_of (script_eval m sc) s));
            rewrite (get_witness_lift EM (val_of (script_eval m sc)) en k);
            destruct (get_witness en (val_of (script_eval m sc)) k); [reflexivity|intros H; now contradiction H]).
  all: unfold after_unsat; cbn [sv_fault lift_solver]; intros H; try reflexivity.
  all: apply IH; exact H.
Qed.

Theorem bmc_full_is_bmc_w (EM : Type) sm sy nm individually k_max : (k_max <= 2000)%nat ->
  bmc_model_w sm sy nm individually k_max <> WPanic ->
  bmc_model_full EM (lift_solver EM sm) sy nm false individually k_max = lift_result EM (bmc_model_w sm sy nm individually k_max).
Proof.
  intros Hk. unfold bmc_model_full, bmc_model_w.
  assert (E : Nat.ltb 2000 k_max = false) by (apply PeanoNat.Nat.ltb_ge; exact Hk). rewrite E.
  destruct (s_bads sy) as [|b0 r0] eqn:Eb; [reflexivity|]. cbn [sv_fault lift_solver].
  apply loop_f_lift. change (e_sys (enc_new sy nm)) with sy. rewrite Eb. discriminate.
Qed.
