(** * Proofs/SimplifyCacheRefsProofs.v — the memoising driver does not depend on its cache container. *)
From Coq Require Import Arith NArith List Bool Lia.
From Patronus Require Import ExprMeta ExprMetaSpec ExprMetaProofs SimplifyCache SimplifyCacheRefs.
Import ListNotations.
Open Scope N_scope.

Section TwoContainers.
  Variables M1 M2 : Type.
  Variable o1 : map_ops M1.
  Variable o2 : map_ops M2.
  Hypothesis L1 : ops_lawful o1.
  Hypothesis L2 : ops_lawful o2.

  Notation rel := (ops_rel o1 o2).

  Definition vres_rel (r1 : vres_r M1) (r2 : vres_r M2) : Prop :=
    match r1, r2 with
    | VOkR m1 cs1 chg1 miss1, VOkR m2 cs2 chg2 miss2 => rel m1 m2 /\ cs1 = cs2 /\ chg1 = chg2 /\ miss1 = miss2
    | VFuelR, VFuelR => True
    | _, _ => False
    end.

  Lemma visit_r_sim : forall fuel chs m1 m2, rel m1 m2 -> vres_rel (visit_r o1 fuel m1 chs) (visit_r o2 fuel m2 chs).
  Proof.
    intros fuel chs. induction chs as [|ch rest IH]; intros m1 m2 R; cbn [visit_r].
    - cbn. auto.
    - pose proof (get_fixed_point_sim M1 M2 o1 o2 L1 L2 fuel m1 m2 ch R) as G.
      destruct (ExprMeta.get_fixed_point o1 fuel m1 ch) as [m1' v1|m1'|];
        destruct (ExprMeta.get_fixed_point o2 fuel m2 ch) as [m2' v2|m2'|]; cbn in G; try contradiction.
      + destruct G as [Ev R']. subst v2. specialize (IH m1' m2' R').
        destruct (visit_r o1 fuel m1' rest) as [a1 cs1 chg1 miss1|]; destruct (visit_r o2 fuel m2' rest) as [a2 cs2 chg2 miss2|];
          cbn in IH; try contradiction; [|exact I].
        destruct IH as (Ra & E1 & E2 & E3). subst. cbn. auto.
      + specialize (IH m1' m2' G).
        destruct (visit_r o1 fuel m1' rest) as [a1 cs1 chg1 miss1|]; destruct (visit_r o2 fuel m2' rest) as [a2 cs2 chg2 miss2|];
          cbn in IH; try contradiction; [|exact I].
        destruct IH as (Ra & E1 & E2 & E3). subst. cbn. auto.
      + exact I.
  Qed.

  Definition rres_rel (r1 : rres_r M1) (r2 : rres_r M2) : Prop :=
    match r1, r2 with
    | ROkR c1 m1, ROkR c2 m2 => c1 = c2 /\ rel m1 m2
    | RPanicR, RPanicR => True
    | RDangling, RDangling => True
    | RFuelR, RFuelR => True
    | _, _ => False
    end.

  Lemma run_r_sim : forall fuel c m1 m2 todo, rel m1 m2 -> rres_rel (run_r o1 fuel c m1 todo) (run_r o2 fuel c m2 todo).
  Proof.
    intro fuel. induction fuel as [|f IH]; intros c m1 m2 todo R; cbn [run_r]; [exact I|].
    destruct todo as [|r rest]; [cbn; auto|].
    destruct (node c r) as [e|]; [|exact I].
    destruct (intern_all c (children e)) as [c0 chs].
    pose proof (visit_r_sim f chs m1 m2 R) as V.
    destruct (visit_r o1 f m1 chs) as [a1 cs1 chg1 miss1|]; destruct (visit_r o2 f m2 chs) as [a2 cs2 chg2 miss2|];
      cbn in V; try contradiction; [|exact I].
    destruct V as (Ra & E1 & E2 & E3). subst cs2 chg2 miss2.
    destruct miss1 as [|x xs].
    - destruct (nodes c0 cs1) as [ces|]; [|exact I].
      destruct (simplify e ces) as [res|]; [|exact I].
      set (new := match res with Some x => x | None => if chg1 then rebuild e ces else e end).
      destruct (intern c0 new) as [c1 nr].
      pose proof (ops_rel_set M1 M2 o1 o2 a1 a2 r (Some nr) L1 L2 Ra) as Rs.
      rewrite (Rs nr).
      destruct (negb (r =? nr) && is_none_r (mo_get o2 (mo_set o2 a2 r (Some nr)) nr)); apply IH; exact Rs.
    - apply IH. exact Ra.
  Qed.

  Definition sres3_rel (r1 : ctx * M1 * sres) (r2 : ctx * M2 * sres) : Prop :=
    fst (fst r1) = fst (fst r2) /\ rel (snd (fst r1)) (snd (fst r2)) /\ snd r1 = snd r2.

  Lemma simplify_cached_r_sim : forall fuel c m1 m2 e, rel m1 m2 ->
    sres3_rel (simplify_cached_r o1 fuel c m1 e) (simplify_cached_r o2 fuel c m2 e).
  Proof.
    intros fuel c m1 m2 e R. unfold simplify_cached_r. destruct (intern c e) as [c0 r].
    pose proof (run_r_sim fuel c0 m1 m2 [r] R) as H.
    destruct (run_r o1 fuel c0 m1 [r]) as [c1 a1| | |]; destruct (run_r o2 fuel c0 m2 [r]) as [c2 a2| | |];
      cbn in H; try contradiction; try (unfold sres3_rel; cbn; auto; fail).
    destruct H as [Ec Ra]. subst c2.
    pose proof (get_fixed_point_sim M1 M2 o1 o2 L1 L2 fuel a1 a2 r Ra) as G.
    destruct (ExprMeta.get_fixed_point o1 fuel a1 r) as [b1 v1|b1|];
      destruct (ExprMeta.get_fixed_point o2 fuel a2 r) as [b2 v2|b2|]; cbn in G; try contradiction.
    - destruct G as [Ev Rb]. subst v2. destruct (node c1 v1); unfold sres3_rel; cbn; auto.
    - unfold sres3_rel; cbn; auto.
    - unfold sres3_rel; cbn; auto.
  Qed.

  Definition batch_rel (r1 : ctx * M1 * list sres) (r2 : ctx * M2 * list sres) : Prop :=
    fst (fst r1) = fst (fst r2) /\ rel (snd (fst r1)) (snd (fst r2)) /\ snd r1 = snd r2.

  Lemma simplify_batch_r_sim : forall fuel es c m1 m2, rel m1 m2 ->
    batch_rel (simplify_batch_r o1 fuel c m1 es) (simplify_batch_r o2 fuel c m2 es).
  Proof.
    intros fuel es. induction es as [|e rest IH]; intros c m1 m2 R; cbn [simplify_batch_r].
    - unfold batch_rel. cbn. auto.
    - pose proof (simplify_cached_r_sim fuel c m1 m2 e R) as H.
      destruct (simplify_cached_r o1 fuel c m1 e) as [[c1 a1] r1]. destruct (simplify_cached_r o2 fuel c m2 e) as [[c2 a2] r2].
      unfold sres3_rel in H. cbn in H. destruct H as (Ec & Ra & Er). subst c2 r2.
      specialize (IH c1 a1 a2 Ra).
      destruct (simplify_batch_r o1 fuel c1 a1 rest) as [[c3 b1] rs1]. destruct (simplify_batch_r o2 fuel c1 a2 rest) as [[c4 b2] rs2].
      unfold batch_rel in *. cbn in *. destruct IH as (Ec & Rb & Er). subst. auto.
  Qed.

  (** related containers show the same cache entries *)
  Lemma cache_entry_sim : forall c m1 m2 e, rel m1 m2 -> cache_entry o1 c m1 e = cache_entry o2 c m2 e.
  Proof. intros c m1 m2 e R. unfold cache_entry. destruct (find_ref c e 0); [|reflexivity]. rewrite (R n). reflexivity. Qed.
End TwoContainers.

(** the dense and the sparse instance: the same results on every history, the same interning table, and caches
    that hold the same map (hence the same entries) *)
Theorem container_irrelevant : forall (fuel : nat) (es : list expr),
  match simplify_batch_dense fuel es, simplify_batch_sparse fuel es with
  | (cd, d, rd), (cs, s, rs) =>
      rd = rs /\ cd = cs /\ fm_eq (dense_abs None d) (sparse_abs None s) /\
      forall e, cache_entry dense_ops cd d e = cache_entry sparse_ops cs s e
  end.
Proof.
  intros fuel es. unfold simplify_batch_dense, simplify_batch_sparse.
  assert (ops_rel dense_ops sparse_ops dense_empty sparse_empty) as R0 by (intro k; reflexivity).
  pose proof (simplify_batch_r_sim _ _ dense_ops sparse_ops dense_ops_lawful sparse_ops_lawful fuel es [] _ _ R0) as H.
  destruct (simplify_batch_r dense_ops fuel [] dense_empty es) as [[cd d] rd].
  destruct (simplify_batch_r sparse_ops fuel [] sparse_empty es) as [[cs s] rs].
  unfold batch_rel in H. cbn in H. destruct H as (Ec & R & Er). subst cs rs.
  split; [reflexivity|]. split; [reflexivity|]. split; [exact R|].
  intro e. apply (cache_entry_sim _ _ dense_ops sparse_ops cd d s e R).
Qed.

(** from ANY pair of containers that hold the same map (e.g. after different earlier histories that left the same
    entries), not only from the empty ones *)
Theorem container_irrelevant_from : forall (fuel : nat) (c : ctx) (d : dense (option N)) (s : sparse (option N)) (es : list expr),
  fm_eq (dense_abs None d) (sparse_abs None s) ->
  match simplify_batch_r dense_ops fuel c d es, simplify_batch_r sparse_ops fuel c s es with
  | (cd, d', rd), (cs, s', rs) => rd = rs /\ cd = cs /\ fm_eq (dense_abs None d') (sparse_abs None s')
  end.
Proof.
  intros fuel c d s es R.
  pose proof (simplify_batch_r_sim _ _ dense_ops sparse_ops dense_ops_lawful sparse_ops_lawful fuel es c d s R) as H.
  destruct (simplify_batch_r dense_ops fuel c d es) as [[cd d'] rd].
  destruct (simplify_batch_r sparse_ops fuel c s es) as [[cs s'] rs].
  unfold batch_rel in H. cbn in H. destruct H as (Ec & R' & Er). auto.
Qed.

(** both instances compute what the same driver computes on the specification-level map [ExprRef -> Option<ExprRef>]
    itself ([fun_ops]: reads are applications, a store is the point update): the container is gone from the picture *)
Theorem containers_refine_map : forall (fuel : nat) (es : list expr),
  match simplify_batch_r fun_ops fuel [] (fm_empty None) es with
  | (c, m, rs) =>
      (match simplify_batch_dense fuel es with (cd, d, rd) => rd = rs /\ cd = c /\ fm_eq (dense_abs None d) m end) /\
      (match simplify_batch_sparse fuel es with (cs, s, rs') => rs' = rs /\ cs = c /\ fm_eq (sparse_abs None s) m end)
  end.
Proof.
  intros fuel es. unfold simplify_batch_dense, simplify_batch_sparse.
  assert (ops_rel dense_ops fun_ops dense_empty (fm_empty None)) as Rd by (intro k; reflexivity).
  assert (ops_rel sparse_ops fun_ops sparse_empty (fm_empty None)) as Rs by (intro k; reflexivity).
  pose proof (simplify_batch_r_sim _ _ dense_ops fun_ops dense_ops_lawful fun_ops_lawful fuel es [] _ _ Rd) as Hd.
  pose proof (simplify_batch_r_sim _ _ sparse_ops fun_ops sparse_ops_lawful fun_ops_lawful fuel es [] _ _ Rs) as Hs.
  destruct (simplify_batch_r fun_ops fuel [] (fm_empty None) es) as [[c m] rs].
  destruct (simplify_batch_r dense_ops fuel [] dense_empty es) as [[cd d] rd].
  destruct (simplify_batch_r sparse_ops fuel [] sparse_empty es) as [[cs s] rs'].
  unfold batch_rel in Hd, Hs. cbn in Hd, Hs. destruct Hd as (E1 & R1 & E2). destruct Hs as (E3 & R2 & E4).
  split; (split; [assumption|split; [assumption|]]); intro k; [apply R1|apply R2].
Qed.
