(** * Proofs/Btor2SerProofs.v — the reader inverts the writer's spelling, node by node. *)
From Coq Require Import List Lia Bool String Ascii NArith DecimalString DecimalN.
From Patronus Require Import Expr ExprLemmas SysClosed Btor2Parse Btor2Ser Btor2Sem Btor2Agree Btor2ExprFacts Btor2ParseProofs Btor2Refine Btor2Sound.
Import ListNotations.
Open Scope string_scope.
Open Scope N_scope.

(** ** decimal spelling of numbers *)
Fixpoint uval (d : Decimal.uint) (acc : N) : N :=
  match d with
  | Decimal.Nil => acc
  | Decimal.D0 d => uval d (acc * 10) | Decimal.D1 d => uval d (acc * 10 + 1)
  | Decimal.D2 d => uval d (acc * 10 + 2) | Decimal.D3 d => uval d (acc * 10 + 3)
  | Decimal.D4 d => uval d (acc * 10 + 4) | Decimal.D5 d => uval d (acc * 10 + 5)
  | Decimal.D6 d => uval d (acc * 10 + 6) | Decimal.D7 d => uval d (acc * 10 + 7)
  | Decimal.D8 d => uval d (acc * 10 + 8) | Decimal.D9 d => uval d (acc * 10 + 9)
  end.

Lemma digits_uint d : forall acc, digits_val 10 (NilEmpty.string_of_uint d) acc = Some (uval d acc).
Proof.
  induction d; intros acc; cbn [NilEmpty.string_of_uint digits_val uval]; try reflexivity;
    unfold digit_in; cbn [N.eqb Pos.eqb dec_digit]; cbn; rewrite IHd; f_equal; f_equal; lia.
Qed.

Lemma uval_pos d : forall p, uval d (N.pos p) = N.pos (Pos.of_uint_acc d p).
Proof.
  induction d; intros p; cbn [uval Pos.of_uint_acc]; try reflexivity; rewrite <- IHd; f_equal; lia.
Qed.

Lemma uval_of_uint d : uval d 0 = N.of_uint d.
Proof.
  unfold N.of_uint. induction d; cbn [uval Pos.of_uint]; try reflexivity; try exact IHd;
    cbn [N.mul N.add]; rewrite uval_pos; reflexivity.
Qed.

Lemma digits_num n : digits_val 10 (num n) 0 = Some n.
Proof.
  unfold num, dec_string. rewrite digits_uint, uval_of_uint. f_equal. apply DecimalN.Unsigned.of_to.
Qed.

Lemma num_not_empty n : num n <> EmptyString.
Proof.
  unfold num, dec_string. destruct n as [|p]; [discriminate|]. cbn [N.to_uint].
  pose proof (DecimalPos.Unsigned.to_uint_nonnil p) as H.
  destruct (Pos.to_uint p); try contradiction; discriminate.
Qed.

Lemma parse_width_num n : n <= U32MAX -> parse_width (num n) = Some n.
Proof.
  intros H. unfold parse_width.
  destruct (digits_strip_plus 10 (num n) 0 n (digits_num n) (num_not_empty n)) as [_ Hp]. rewrite Hp, digits_num.
  destruct (N.leb_spec n U32MAX); [reflexivity|lia].
Qed.

(** ** operators *)
Ltac rr_start := unfold reread_node; cbn [node_line op_name children map app tokn nth un_table bin_table seq String.eqb Ascii.eqb Bool.eqb fst].

Ltac rr_same Hwt L :=
  let Ha := fresh "Ha" in let Hb := fresh "Hb" in let Hta := fresh "Hta" in let Htb := fresh "Htb" in
  destruct (L _ _ _ Hwt) as (Ha & Hb & Hta & Htb); rr_start;
  unfold lower_binary, b_same, unwrap_bv; rewrite Hta, Htb; cbn [pbind]; rewrite N.eqb_refl; reflexivity.

Lemma reread_node_correct e :
  wt e = true -> node_fits e = true ->
  match e with BVSymbol _ _ | ArraySymbol _ _ _ | BVLiteral _ _ | ArrayConstant _ _ _ => False | _ => True end ->
  reread_node true e = POk (norm_node e).
Proof.
  intros Hwt Hfit Hk. destruct e; try contradiction; cbn [norm_node].
  - (* zext *)
    destruct (wt_zext _ _ _ Hwt) as (Ha & Hta & Hlt). cbn [node_fits] in Hfit. apply andb_true_iff in Hfit. destruct Hfit as [Hf1 Hf2].
    apply N.leb_le in Hf1, Hf2. rr_start. unfold lower_unary. unfold require. cbn [List.length Nat.ltb Nat.leb pbind tokn nth].
    rewrite (parse_width_num _ Hf1). cbn [of_opt pbind]. unfold b_ext. destruct (N.eqb_spec by_ 0) as [->|Hne]; [reflexivity|].
    unfold unwrap_bv. rewrite Hta. cbn [pbind]. unfold u32add. replace (w - by_ + by_) with w by lia.
    destruct (N.leb_spec w U32MAX); [reflexivity|lia].
  - (* sext *)
    destruct (wt_sext _ _ _ Hwt) as (Ha & Hta & Hlt). cbn [node_fits] in Hfit. apply andb_true_iff in Hfit. destruct Hfit as [Hf1 Hf2].
    apply N.leb_le in Hf1, Hf2. rr_start. unfold lower_unary. unfold require. cbn [List.length Nat.ltb Nat.leb pbind tokn nth].
    rewrite (parse_width_num _ Hf1). cbn [of_opt pbind]. unfold b_ext. destruct (N.eqb_spec by_ 0) as [->|Hne]; [reflexivity|].
    unfold unwrap_bv. rewrite Hta. cbn [pbind]. unfold u32add. replace (w - by_ + by_) with w by lia.
    destruct (N.leb_spec w U32MAX); [reflexivity|lia].
  - (* slice *)
    destruct (wt_slice _ _ _ Hwt) as (Ha & we & Hta & Hhi & Hlo). cbn [node_fits] in Hfit. apply andb_true_iff in Hfit. destruct Hfit as [Hf1 Hf2].
    apply N.ltb_lt in Hf1. apply N.leb_le in Hf2. rr_start. unfold lower_unary. unfold require. cbn [List.length Nat.ltb Nat.leb pbind tokn nth].
    rewrite (parse_width_num hi) by lia. rewrite (parse_width_num lo) by lia. cbn [of_opt pbind].
    unfold b_slice. unfold width. rewrite Hta. destruct (N.ltb_spec hi lo) as [?|?]; [lia|].
    destruct (N.eqb_spec lo 0) as [->|Hne]; cbn [andb pbind]; [|reflexivity].
    unfold u32add. destruct (N.leb_spec (hi + 1) U32MAX); [|lia]. cbn [pbind]. unfold unwrap_bv. rewrite Hta. cbn [pbind].
    destruct (hi + 1 =? we); reflexivity.
  - (* not *)
    destruct (wt_not _ _ Hwt) as (Ha & Hta). rr_start. unfold lower_unary, b_not, unwrap_bv. rewrite Hta. reflexivity.
  - (* neg *)
    destruct (wt_neg _ _ Hwt) as (Ha & Hta). rr_start. unfold lower_unary, b_neg, unwrap_bv. rewrite Hta. reflexivity.
  - (* eq *)
    destruct (wt_eq _ _ Hwt) as (Ha & Hb & w' & Hta & Htb). rr_start. unfold lower_binary, b_equal. rewrite Hta, Htb, ty_eqb_refl. reflexivity.
  - (* implies *)
    destruct (wt_implies _ _ Hwt) as (Ha & Hb & Hta & Htb). rr_start. unfold lower_binary, b_implies, unwrap_bv. rewrite Hta, Htb. reflexivity.
  - (* ugt *)
    destruct (wt_ugt _ _ Hwt) as (Ha & Hb & w' & Hta & Htb). rr_start. unfold lower_binary, b_cmp, unwrap_bv. rewrite Hta, Htb. cbn [pbind].
    rewrite N.eqb_refl. reflexivity.
  - (* sgt *) rr_same Hwt wt_sgt.
  - (* uge *)
    destruct (wt_uge _ _ Hwt) as (Ha & Hb & w' & Hta & Htb). rr_start. unfold lower_binary, b_cmp, unwrap_bv. rewrite Hta, Htb. cbn [pbind].
    rewrite N.eqb_refl. reflexivity.
  - (* sge *) rr_same Hwt wt_sge.
  - (* concat *)
    destruct (wt_concat _ _ _ Hwt) as (Ha & Hb & wa & wb & Hta & Htb & ->). cbn [node_fits] in Hfit. apply N.leb_le in Hfit.
    rr_start. unfold lower_binary, b_concat, unwrap_bv. rewrite Hta, Htb. cbn [pbind]. unfold u32add.
    destruct (N.leb_spec (wa + wb) U32MAX); [reflexivity|lia].
  - rr_same Hwt wt_and.
  - rr_same Hwt wt_or.
  - rr_same Hwt wt_xor.
  - rr_same Hwt wt_shl.
  - rr_same Hwt wt_ashr.
  - rr_same Hwt wt_lshr.
  - rr_same Hwt wt_add.
  - rr_same Hwt wt_mul.
  - rr_same Hwt wt_sdiv.
  - rr_same Hwt wt_udiv.
  - rr_same Hwt wt_smod.
  - rr_same Hwt wt_srem.
  - rr_same Hwt wt_urem.
  - rr_same Hwt wt_sub.
  - (* read *)
    destruct (wt_read _ _ _ Hwt) as (Ha & Hb & iw & Hta & Htb). rr_start. unfold lower_binary, b_read. rewrite Hta. reflexivity.
  - (* ite *)
    destruct (wt_ite _ _ _ Hwt) as (Ha & Hb & Hc & Hta & w' & Htb & Htc). rr_start. unfold lower_ternary, b_ite, unwrap_bv.
    rewrite Hta, Htb, Htc. cbn [pbind N.eqb Pos.eqb negb]. rewrite ty_eqb_refl. reflexivity.
  - (* array eq *)
    destruct (wt_aeq _ _ Hwt) as (Ha & Hb & iw & dw & Hta & Htb). rr_start. unfold lower_binary, b_equal. rewrite Hta, Htb, ty_eqb_refl. reflexivity.
  - (* store *) rr_start. reflexivity.
  - (* array ite *)
    destruct (wt_aite _ _ _ Hwt) as (Ha & Hb & Hc & Hta & iw & dw & Htb & Htc). rr_start. unfold lower_ternary, b_ite, unwrap_bv.
    rewrite Hta, Htb, Htc. cbn [pbind N.eqb Pos.eqb negb]. rewrite ty_eqb_refl. reflexivity.
Qed.

(** ** literals *)
Lemma bits_val n : forall v acc, digits_val 2 (bits_of n v) acc = Some (acc * 2 ^ N.of_nat n + v mod 2 ^ N.of_nat n).
Proof.
  induction n as [|n IH]; intros v acc; cbn [bits_of digits_val].
  - cbn. rewrite N.mod_1_r. f_equal. lia.
  - assert (Hd : digit_in 2 (if N.testbit v (N.of_nat n) then "1"%char else "0"%char) = Some (N.b2n (N.testbit v (N.of_nat n)))).
    { destruct (N.testbit v (N.of_nat n)); reflexivity. }
    rewrite Hd, IH. f_equal. rewrite Nat2N.inj_succ, N.pow_succ_r'.
    rewrite (N.mul_comm 2 (2 ^ N.of_nat n)), N.mod_mul_r by (try apply N.pow_nonzero; lia).
    rewrite <- N.testbit_spec'. ring.
Qed.

Lemma bits_len n v : String.length (bits_of n v) = n.
Proof. induction n as [|n IH]; cbn [bits_of String.length]; auto. Qed.

Lemma bits_lit w v : 0 < w -> v < 2 ^ w -> lit_value 2 w (bits_of (N.to_nat w) v) = POk v.
Proof.
  intros Hw Hv. unfold lit_value. destruct (N.eqb_spec w 0); [lia|].
  assert (Hdv : digits_val 2 (bits_of (N.to_nat w) v) 0 = Some v).
  { rewrite bits_val, N2Nat.id, N.mod_small by exact Hv. f_equal; lia. }
  destruct (bits_of (N.to_nat w) v) as [|c r] eqn:Eb.
  { pose proof (bits_len (N.to_nat w) v) as Hl. rewrite Eb in Hl. cbn in Hl. lia. }
  assert (Hc : Ascii.eqb c "-" = false).
  { destruct (N.to_nat w) as [|k] eqn:Ek; [lia|]. cbn [bits_of] in Eb. inversion Eb.
    destruct (N.testbit v (N.of_nat k)); reflexivity. }
  rewrite Hc.
  assert (Hne : String c r <> EmptyString) by discriminate.
  destruct (digits_strip_plus 2 _ 0 v Hdv Hne) as [Hsp Hpu].
  destruct (w <=? 128).
  - rewrite Hpu, Hdv. cbn [pbind]. destruct (N.ltb_spec v (2 ^ w)); [reflexivity|lia].
  - unfold wide_value. rewrite Hsp.
    assert (Hplus : String.eqb (String c r) "+" = false).
    { destruct (String.eqb (String c r) "+") eqn:E; [|reflexivity]. apply String.eqb_eq in E. rewrite E in Hdv. discriminate. }
    rewrite Hplus. cbn [N.eqb Pos.eqb].
    assert (Hlen : slen (String c r) = w).
    { unfold slen. rewrite <- Eb, bits_len, N2Nat.id. reflexivity. }
    rewrite Hlen, N.ltb_irrefl, Hdv. reflexivity.
Qed.

(** the line the writer emits for a literal is read back as the same literal, whatever ids it uses *)
Lemma literal_roundtrip st id sort w v toks :
  0 < w -> v < 2 ^ w ->
  node_line id sort (BVLiteral w v) [] = POk toks ->
  get_bv_width st (tokn toks 2) = POk w ->
  exists n, parse_format st toks (tokn toks 1) = POk (BVLiteral w v, n).
Proof.
  intros Hw Hv Hl Hs. cbn [node_line] in Hl. unfold parse_format. rewrite Hs. cbn [pbind].
  assert (Hlit : forall x, b_lit w x = POk (BVLiteral w x)).
  { intros x. unfold b_lit. destruct (N.eqb_spec w 0); [lia|reflexivity]. }
  destruct (N.eqb_spec v 0) as [->|H0].
  { inversion Hl; subst toks. cbn [tokn nth seq String.eqb Ascii.eqb Bool.eqb]. rewrite Hlit. eexists; reflexivity. }
  destruct (N.eqb_spec v 1) as [->|H1].
  { inversion Hl; subst toks. cbn [tokn nth seq String.eqb Ascii.eqb Bool.eqb]. rewrite Hlit. eexists; reflexivity. }
  destruct (N.eqb_spec v (2 ^ w - 1)) as [->|H2].
  { inversion Hl; subst toks. cbn [tokn nth seq String.eqb Ascii.eqb Bool.eqb]. rewrite Hlit. eexists; reflexivity. }
  inversion Hl; subst toks. cbn [tokn nth seq String.eqb Ascii.eqb Bool.eqb List.length Nat.ltb Nat.leb].
  rewrite (bits_lit w v Hw Hv). eexists; reflexivity.
Qed.
