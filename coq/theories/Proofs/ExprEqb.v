(** * Proofs/ExprEqb.v — [expr_eqb] decides structural equality. *)
From Patronus Require Import Expr.
Open Scope N_scope.

Lemma expr_eqb_eq : forall x y, expr_eqb x y = true -> x = y.
Proof.
  induction x; destruct y; cbn [expr_eqb]; intros H; try discriminate;
    repeat match goal with
           | H : _ && _ = true |- _ => apply andb_true_iff in H; destruct H
           end;
    repeat match goal with
           | H : (_ =? _) = true |- _ => apply N.eqb_eq in H; subst
           | H : String.eqb _ _ = true |- _ => apply String.eqb_eq in H; subst
           | IH : forall y, expr_eqb ?a y = true -> ?a = y, H : expr_eqb ?a _ = true |- _ =>
               apply IH in H; subst
           end; reflexivity.
Qed.

Lemma expr_eqb_refl : forall x, expr_eqb x x = true.
Proof.
  induction x; cbn [expr_eqb];
    repeat match goal with
           | IH : expr_eqb ?a ?a = true |- _ => rewrite IH; clear IH
           end;
    rewrite ?N.eqb_refl, ?String.eqb_refl; reflexivity.
Qed.
